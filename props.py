"""Registry of the per-property checks (used by ./check and ./mkmanifest.py)."""

PIPE_TRUST = ["the spy rule (external LintRule, priority u32::MAX) observes raw diagnostics, parsed directives and HashMap iteration orders through the public Context API"]

PROPS = {
    "C15": {
        "title": "rule selection algebra",
        "lean": ["DL.Props.C15"],
        "drives": [{"sub": "sel", "quick": 2000, "thorough": 20000, "thorough_opts": {"tagsets": "all"}}],
        "search": ["C15"],
        "technique": "Lean 4 proof over a model of filtered_rules/recommended_rules/sort_rules_by_priority; registry table regenerated from get_all_rules() and re-decided; correspondence on random (tags, include, exclude)",
        "level_text": "Theorems for every registry, tag set and include/exclude list: membership law, each-once (permutation), sorted by code, unknown names ignored, recommended = tagged recommended, priority sort is a permutation, monotone in priority and independent of the supplied order; `decide +kernel` facts on the registry regenerated from /repo (codes distinct and sorted, only the two accounting rules have non-zero priority => they run last). Tie: model vs real filtered_rules/recommended_rules/Linter::new on generated inputs.",
        "level_note": "Trusted: Lean kernel; the M-SEL transcription (validated by the correspondence run); Rust's sort_by/sort_by_key modelled by List.mergeSort; HashSet::contains modelled by list membership.",
        "design_ref": "§5 C15",
    },
    "C05": {
        "title": "bare leading ignore-file directive silences the file, and only then",
        "lean": ["DL.Props.C05"],
        "drives": [{"sub": "pipe", "quick": 1500, "thorough": 15000}],
        "search": ["C05"],
        "technique": "Lean 4 proof over models of parse_ignore_comment / parse_file_ignore_directives / lint_inner; correspondence via spy rule (comments, parsed directives, result) on generated files",
        "level_text": "Theorems: a file directive without codes makes lint_inner return [] for every rule output, configuration and external result, and otherwise the pipeline runs; block comments are never directives; the file directive is a function of the initial comments only; first directive wins. Tie: the model's directive parser and pipeline agree with the real code on generated files with the directive text at every placement (leading, after shebang, after other comments, late, block comment, string/template, decoy words), all White_Space separators and reason suffixes, under 4 directive-word configurations and random rule subsets.",
        "level_note": "Trusted: Lean kernel; M-DIR/M-PIPE transcriptions (validated by correspondence); swc comment attachment is a parameter (the spy re-states the three shebang cases over the public API). Interpretation: 'contains a bare directive' = the first file directive among the leading comments is bare (pinned by the repo's own unit test).",
        "design_ref": "§5 C05", "trusted": PIPE_TRUST,
    },
    "C06": {
        "title": "directives suppress exactly what they name",
        "lean": ["DL.Props.C06"],
        "drives": [{"sub": "pipe", "quick": 1500, "thorough": 15000}],
        "search": ["C06"],
        "technique": "Lean 4 proof (filter characterisation of check_ignore_directive_usage, count/permutation through the stable sort) + correspondence via spy rule + metamorphic neutralised-directive search",
        "level_text": "Theorems for every raw list and directive state: kept = raw.filter(not suppressed) in order; result = stable sort of kept ++ accounting; a raw diagnostic is in the result iff produced and unsuppressed, with its exact multiplicity; kept diagnostics keep their relative order; with no directives the result is the sorted raw list. Tie: model = implementation on generated directive layouts (first/last line, consecutive directives, CRLF, multi-line statements, duplicate/unknown codes, file+line on one code, trailing same-line comments).",
        "level_note": "Trusted: Lean kernel; M-PIPE transcription (validated by correspondence, with real HashMap iteration orders observed by the spy); SourceTextInfo::line_index is a parameter.",
        "design_ref": "§5 C06", "trusted": PIPE_TRUST,
    },
    "C16": {
        "title": "entry points and external-linter hook behave identically",
        "lean": ["DL.Props.C16"],
        "drives": [{"sub": "pipe", "quick": 1500, "thorough": 15000}, {"sub": "entry", "quick": 300, "thorough": 3000}],
        "search": ["C16"],
        "technique": "Lean 4 proof over lint_inner with the external result as a parameter; correspondence with generated external callbacks; lint_file vs lint_with_ast compared on generated inputs",
        "level_text": "Theorems: external diagnostics are appended and go through the same collect (filtering, accounting with declared codes known+enabled, one sort); a declining callback is a no-op; an external diagnostic is kept iff unsuppressed (range-less ones unless file-ignored); result sorted. Tie: callbacks returning generated diagnostics (declared/undeclared codes, in-bounds ranges or none) vs the model; both entry points on the same inputs.",
        "level_note": "Trusted: Lean kernel; M-PIPE transcription; that lint_file = parse ∘ lint_inner is read off linter.rs:112-154 and checked by the entry-point comparison run, not proved.",
        "design_ref": "§5 C16", "trusted": PIPE_TRUST,
    },
    "C07": {
        "title": "every code in every directive is accounted for exactly once",
        "lean": ["DL.Props.C07"],
        "drives": [{"sub": "pipe", "quick": 1500, "thorough": 15000}],
        "search": ["C07"],
        "technique": "Lean 4 proof (iff-characterisation of both accounting reports per (directive, code), at-most-once via Nodup, exactly-one corollary) + correspondence via spy rule + independent accounting reference computed from what the directive text means",
        "level_text": "Theorems for every raw list, directive state, configuration, known-code set and external code list: unknown_reported_iff, unused_reported_iff (with used_final_iff: used = previously marked, or suppressed a diagnostic, or the file-level ban-unknown-rule-code switch when an unknown code exists), reported_at_most_once (well-formed state), exactly_one (under: configured ⊆ known, every diagnostic code known-or-declared), line-level switches have no effect. Tie: model = implementation on generated layouts × rule subsets with/without the accounting rules × external code sets.",
        "level_note": "Trusted: Lean kernel; M-PIPE transcription (used flags kept as a separate mark set; validated by correspondence). Interpretation: codes of diagnostics that are neither built-in nor declared by the external linter are outside the accounting oracle (such a code both suppresses and is unknown).",
        "design_ref": "§5 C07", "trusted": PIPE_TRUST,
    },
    "C17": {
        "title": "custom directive names are independent",
        "lean": ["DL.Props.C17"],
        "drives": [{"sub": "pipe", "quick": 2000, "thorough": 20000}],
        "search": ["C05", "C06", "C07", "C17"],
        "technique": "Lean 4 proof over the word-selection model + syn-translated table of LinterContext::new's initialisers and of the directive parsers' call sites re-decided on every run + correspondence under the four (custom/default) word configurations",
        "level_text": "Theorems: each word is its own option or its own default; overriding one leaves the other; a comment is a directive only if its first word is the configured word (so an overridden default stops acting). `decide` on Gen/LinterCtx (regenerated from src/linter.rs): each word field reads its own option and default, each parser receives its own field, no other field reads the word options. Tie: pipe correspondence and the C05-C07 oracles under 4 word configurations with decoy (default) words.",
        "level_note": "Trusted: Lean kernel; the syn translator (fails closed: an unrecognised initialiser shape lands in the 'other fields' table and breaks the decide); M-DIR/M-PIPE transcriptions.",
        "design_ref": "§5 C17", "trusted": PIPE_TRUST,
    },
}

ALL_IDS = [f"C{n:02d}" for n in range(1, 21)]
NOT_APPLICABLE = [{"property_id": p, "reason": "not claimed yet: check under construction (see DESIGN.md §9 build order); will be claimed once its model, theorems and correspondence run exist"} for p in ALL_IDS if p not in PROPS]
