"""Registry of the per-property checks (used by ./check and ./mkmanifest.py)."""

PIPE_TRUST = ["the spy rule (external LintRule, priority u32::MAX) observes raw diagnostics, parsed directives and HashMap iteration orders through the public Context API"]

PROPS = {
    "C15": {
        "title": "rule selection algebra",
        "lean": ["DL.Props.C15"],
        "drives": [{"sub": "sel", "quick": 2000, "thorough": 20000, "thorough_opts": {"tagsets": "all"}}],
        "search": ["C15"],
        "technique": "Lean 4 proof over a model of filtered_rules/recommended_rules/sort_rules_by_priority; registry table regenerated from get_all_rules() and re-decided; correspondence on random (tags, include, exclude)",
        "level_text": "Theorems for every registry, tag set and include/exclude list: membership law, each-once (permutation), sorted by code, unknown names ignored, recommended = tagged recommended, priority sort is a permutation, monotone in priority and independent of the supplied order; `decide +kernel` facts on the registry regenerated from /repo (codes distinct and sorted, only the two accounting rules have non-zero priority => they run last). Tie: model vs real filtered_rules/recommended_rules/Linter::new on generated inputs.",
        "level_note": "Trusted: Lean kernel; the M-SEL transcription (validated by the correspondence run); Rust's sort_by/sort_by_key modelled by List.mergeSort; HashSet::contains modelled by list membership.",
        "design_ref": "§5 C15",
    },
}

ALL_IDS = [f"C{n:02d}" for n in range(1, 21)]
NOT_APPLICABLE = [{"property_id": p, "reason": "not claimed yet: check under construction (see DESIGN.md §9 build order); will be claimed once its model, theorems and correspondence run exist"} for p in ALL_IDS if p not in PROPS]
