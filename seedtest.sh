#!/bin/bash
# usage: seedtest.sh <patch.diff> <prop> [<prop>...]   -- applies the seeded change to /repo, runs the checks, reverts
patch="$1"; shift
# no other check may run while /repo carries the seeded change (checks hold this lock shared, see ./check)
exec 9>/verif/build/.seedlock
flock 9
export VERIF_IN_SEEDTEST=1
cd /repo || exit 2
if [ -n "$(git status --porcelain --untracked-files=no)" ]; then echo "/repo not clean"; exit 2; fi
sleep 1   # (cargo decides by modification times what to rebuild)
git apply "$patch" || { echo "patch does not apply"; exit 2; }
rm -rf /tmp/evidence_backup && cp -r /verif/evidence /tmp/evidence_backup
# (after the revert the harness is rebuilt, so that probe / drive are not left over from the seeded tree)
trap 'git -C /repo checkout -- . ; rm -rf /verif/evidence; cp -r /tmp/evidence_backup /verif/evidence; (cd /verif/harness && CARGO_NET_OFFLINE=true cargo build --release --offline >/dev/null 2>&1)' EXIT
cd /verif
for p in "$@"; do
  VERIF_TIER=${TIER:-quick} ./check $p --tier ${TIER:-quick} > /tmp/seedtest_$p.out 2>&1
  rc=$?
  echo "== $p rc=$rc"; grep -E "VIOLATION|KNOWN|^\[" /tmp/seedtest_$p.out
done
