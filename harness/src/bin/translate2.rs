//! source -> Lean tables, part 2 (`lean/DL/Gen/VisitTable.lean`, `StopCalls.lean`): syn-based reading of every
//! `impl Visit for ..` override in src/rules (does each path recurse into the children?) and of every call site of
//! `stop_traverse` (in which handler method does it sit?).  Fails closed: anything that is not recognised as an
//! unconditional recursion is classified as not-always-recursing.
use std::fmt::Write;
use syn::visit::Visit;

fn lean_str(s: &str) -> String {
  format!("\"{}\"", s.replace('\\', "\\\\").replace('"', "\\\""))
}
fn rs_files(dir: &std::path::Path, out: &mut Vec<std::path::PathBuf>) {
  let mut entries: Vec<_> = std::fs::read_dir(dir).unwrap().map(|e| e.unwrap().path()).collect();
  entries.sort();
  for p in entries {
    if p.is_dir() {
      rs_files(&p, out);
    } else if p.extension().map(|e| e == "rs").unwrap_or(false) {
      out.push(p);
    }
  }
}
fn is_cfg_test(attrs: &[syn::Attribute]) -> bool {
  use syn::__private::ToTokens;
  attrs.iter().any(|a| a.path().is_ident("cfg") && a.to_token_stream().to_string().contains("test"))
}

/// does the expression contain a call `<x>.visit_children_with(<y>)` (closures included)
struct HasRecurse(bool);
impl<'ast> Visit<'ast> for HasRecurse {
  fn visit_expr_method_call(&mut self, n: &'ast syn::ExprMethodCall) {
    if n.method == "visit_children_with" {
      self.0 = true;
    }
    syn::visit::visit_expr_method_call(self, n);
  }
}
/// any `return`, `?`, `break`, `continue` (control leaving the straight line)
struct HasExit(bool);
impl<'ast> Visit<'ast> for HasExit {
  fn visit_expr_return(&mut self, _n: &'ast syn::ExprReturn) {
    self.0 = true;
  }
  fn visit_expr_try(&mut self, _n: &'ast syn::ExprTry) {
    self.0 = true;
  }
  fn visit_expr_closure(&mut self, _n: &'ast syn::ExprClosure) {
    // a `return` inside a closure leaves the closure only
  }
}
/// any other traversal call: `x.visit_with(self)`, `self.visit_*(..)`
struct HasPartial(bool);
impl<'ast> Visit<'ast> for HasPartial {
  fn visit_expr_method_call(&mut self, n: &'ast syn::ExprMethodCall) {
    let m = n.method.to_string();
    if m == "visit_with" || m == "visit_children_with" || m.starts_with("visit_") {
      self.0 = true;
    }
    syn::visit::visit_expr_method_call(self, n);
  }
}

fn unconditional_recurse_stmt(st: &syn::Stmt) -> bool {
  // `n.visit_children_with(self);`  or  `self.helper(|a| { ..; n.visit_children_with(a); .. })` with the call at the
  // top level of the closure body
  fn expr_is(e: &syn::Expr) -> bool {
    match e {
      syn::Expr::MethodCall(mc) => {
        if mc.method == "visit_children_with" {
          return true;
        }
        mc.args.iter().any(|a| match a {
          syn::Expr::Closure(c) => match &*c.body {
            syn::Expr::Block(b) => classify_block(&b.block.stmts) == "always",
            other => expr_is(other),
          },
          _ => false,
        })
      }
      _ => false,
    }
  }
  match st {
    syn::Stmt::Expr(e, _) => expr_is(e),
    _ => false,
  }
}

fn classify_block(stmts: &[syn::Stmt]) -> &'static str {
  let mut exit_before = false;
  for st in stmts {
    if unconditional_recurse_stmt(st) && !exit_before {
      return "always";
    }
    let mut he = HasExit(false);
    he.visit_stmt(st);
    if he.0 {
      exit_before = true;
    }
  }
  let mut any = HasPartial(false);
  for st in stmts {
    any.visit_stmt(st);
  }
  if any.0 {
    "sometimes"
  } else {
    "never"
  }
}

/// methods called on a `Context` (receiver spelled `ctx`, `context`, `self.ctx`, `self.context`, `x.context` …)
struct CtxCalls(std::collections::BTreeSet<String>);
impl<'ast> Visit<'ast> for CtxCalls {
  fn visit_item_mod(&mut self, m: &'ast syn::ItemMod) {
    if !is_cfg_test(&m.attrs) {
      syn::visit::visit_item_mod(self, m);
    }
  }
  fn visit_expr_method_call(&mut self, n: &'ast syn::ExprMethodCall) {
    use syn::__private::ToTokens;
    let recv = n.receiver.to_token_stream().to_string().replace(' ', "");
    if recv.ends_with("ctx") || recv.ends_with("context") || recv.ends_with("ctx()") || recv.ends_with("context()") {
      self.0.insert(n.method.to_string());
    }
    syn::visit::visit_expr_method_call(self, n);
  }
}

struct Impls {
  file: String,
  rows: Vec<(String, String, String, String)>, // file, impl type, method, class
  stops: Vec<(String, String)>,                // file, enclosing fn
  cur_fn: Vec<String>,
}
impl<'ast> Visit<'ast> for Impls {
  fn visit_item_mod(&mut self, m: &'ast syn::ItemMod) {
    if !is_cfg_test(&m.attrs) {
      syn::visit::visit_item_mod(self, m);
    }
  }
  fn visit_item_impl(&mut self, n: &'ast syn::ItemImpl) {
    use syn::__private::ToTokens;
    let is_visit = n.trait_.as_ref().map(|(_, p, _)| p.segments.last().map(|s| s.ident == "Visit").unwrap_or(false)).unwrap_or(false);
    if is_visit {
      let ty = n.self_ty.to_token_stream().to_string().split('<').next().unwrap_or("").trim().to_string();
      for it in &n.items {
        if let syn::ImplItem::Fn(f) = it {
          let name = f.sig.ident.to_string();
          if name.starts_with("visit_") {
            let class = classify_block(&f.block.stmts);
            self.rows.push((self.file.clone(), ty.clone(), name, class.to_string()));
          }
        }
      }
    }
    syn::visit::visit_item_impl(self, n);
  }
  fn visit_impl_item_fn(&mut self, n: &'ast syn::ImplItemFn) {
    self.cur_fn.push(n.sig.ident.to_string());
    syn::visit::visit_impl_item_fn(self, n);
    self.cur_fn.pop();
  }
  fn visit_item_fn(&mut self, n: &'ast syn::ItemFn) {
    self.cur_fn.push(n.sig.ident.to_string());
    syn::visit::visit_item_fn(self, n);
    self.cur_fn.pop();
  }
  fn visit_expr_method_call(&mut self, n: &'ast syn::ExprMethodCall) {
    if n.method == "stop_traverse" {
      self.stops.push((self.file.clone(), self.cur_fn.last().cloned().unwrap_or_default()));
    }
    syn::visit::visit_expr_method_call(self, n);
  }
}

/// every `static` item (at any depth) and every `thread_local!` / `lazy_static!` invocation outside `#[cfg(test)]`
/// modules: state that outlives one `lint_file` call
struct Statics {
  file: String,
  rows: Vec<(String, String, String, String)>,
}
impl<'ast> Visit<'ast> for Statics {
  fn visit_item_mod(&mut self, n: &'ast syn::ItemMod) {
    if is_cfg_test(&n.attrs) {
      return;
    }
    syn::visit::visit_item_mod(self, n);
  }
  fn visit_item_static(&mut self, n: &'ast syn::ItemStatic) {
    use syn::__private::ToTokens;
    let ty: String = n.ty.to_token_stream().to_string().split_whitespace().collect::<Vec<_>>().join("");
    let m = if matches!(n.mutability, syn::StaticMutability::Mut(_)) { "static mut" } else { "static" };
    self.rows.push((self.file.clone(), m.to_string(), n.ident.to_string(), ty));
    syn::visit::visit_item_static(self, n);
  }
  fn visit_macro(&mut self, n: &'ast syn::Macro) {
    let name = n.path.segments.last().map(|s| s.ident.to_string()).unwrap_or_default();
    if name == "thread_local" || name == "lazy_static" {
      let body: String = n.tokens.to_string().split_whitespace().collect::<Vec<_>>().join(" ");
      self.rows.push((self.file.clone(), format!("{}!", name), String::new(), body.chars().take(120).collect()));
    }
    syn::visit::visit_macro(self, n);
  }
}


/// every use (outside `#[cfg(test)]` modules and `use` items) of a type that offers interior mutability or of `unsafe`:
/// (file, identifier, site) with site = `static:<name>` | `struct:<name>` | `fn:<name>` | `macro:<name>` | `other`
struct Cells {
  file: String,
  site: Vec<String>,
  rows: Vec<(String, String, String)>,
}
const CELL_IDENTS: &[&str] = &[
  "Cell", "RefCell", "UnsafeCell", "OnceCell", "OnceLock", "LazyLock", "LazyCell", "Lazy", "Mutex", "RwLock", "Condvar", "Once",
  "AtomicBool", "AtomicUsize", "AtomicIsize", "AtomicU8", "AtomicU16", "AtomicU32", "AtomicU64", "AtomicI8", "AtomicI16",
  "AtomicI32", "AtomicI64", "AtomicPtr", "SyncUnsafeCell", "DashMap", "ThreadLocal",
];
impl Cells {
  fn hit(&mut self, id: &str) {
    if CELL_IDENTS.contains(&id) {
      self.rows.push((self.file.clone(), id.to_string(), self.site.last().cloned().unwrap_or_else(|| "other".into())));
    }
  }
  fn unsafe_hit(&mut self) {
    self.rows.push((self.file.clone(), "unsafe".into(), self.site.last().cloned().unwrap_or_else(|| "other".into())));
  }
}
impl<'ast> Visit<'ast> for Cells {
  fn visit_item_mod(&mut self, n: &'ast syn::ItemMod) {
    if is_cfg_test(&n.attrs) {
      return;
    }
    syn::visit::visit_item_mod(self, n);
  }
  fn visit_item_use(&mut self, _n: &'ast syn::ItemUse) {}
  fn visit_item_static(&mut self, n: &'ast syn::ItemStatic) {
    self.site.push(format!("static:{}", n.ident));
    syn::visit::visit_item_static(self, n);
    self.site.pop();
  }
  fn visit_item_struct(&mut self, n: &'ast syn::ItemStruct) {
    self.site.push(format!("struct:{}", n.ident));
    syn::visit::visit_item_struct(self, n);
    self.site.pop();
  }
  fn visit_item_enum(&mut self, n: &'ast syn::ItemEnum) {
    self.site.push(format!("struct:{}", n.ident));
    syn::visit::visit_item_enum(self, n);
    self.site.pop();
  }
  fn visit_item_type(&mut self, n: &'ast syn::ItemType) {
    self.site.push(format!("struct:{}", n.ident));
    syn::visit::visit_item_type(self, n);
    self.site.pop();
  }
  fn visit_item_fn(&mut self, n: &'ast syn::ItemFn) {
    // a `static` nested in a function keeps its own site (pushed later); the function is the site of everything else
    self.site.push(format!("fn:{}", n.sig.ident));
    if n.sig.unsafety.is_some() {
      self.unsafe_hit();
    }
    syn::visit::visit_item_fn(self, n);
    self.site.pop();
  }
  fn visit_impl_item_fn(&mut self, n: &'ast syn::ImplItemFn) {
    self.site.push(format!("fn:{}", n.sig.ident));
    if n.sig.unsafety.is_some() {
      self.unsafe_hit();
    }
    syn::visit::visit_impl_item_fn(self, n);
    self.site.pop();
  }
  fn visit_item_impl(&mut self, n: &'ast syn::ItemImpl) {
    if n.unsafety.is_some() {
      self.unsafe_hit();
    }
    syn::visit::visit_item_impl(self, n);
  }
  fn visit_expr_unsafe(&mut self, n: &'ast syn::ExprUnsafe) {
    self.unsafe_hit();
    syn::visit::visit_expr_unsafe(self, n);
  }
  fn visit_path_segment(&mut self, n: &'ast syn::PathSegment) {
    self.hit(&n.ident.to_string());
    syn::visit::visit_path_segment(self, n);
  }
  fn visit_macro(&mut self, n: &'ast syn::Macro) {
    // the body of a macro invocation is a token stream: look at its identifiers
    let name = n.path.segments.last().map(|s| s.ident.to_string()).unwrap_or_default();
    fn walk(ts: proc_macro2::TokenStream, out: &mut Vec<String>) {
      for t in ts {
        match t {
          proc_macro2::TokenTree::Ident(i) => out.push(i.to_string()),
          proc_macro2::TokenTree::Group(g) => walk(g.stream(), out),
          _ => {}
        }
      }
    }
    let mut ids = vec![];
    walk(n.tokens.clone(), &mut ids);
    self.site.push(format!("macro:{}", name));
    for i in ids {
      if i == "unsafe" {
        self.unsafe_hit();
      } else {
        self.hit(&i);
      }
    }
    self.site.pop();
    syn::visit::visit_macro(self, n);
  }
}

/// the two public entry points of `impl Linter` (src/linter.rs): every call made in the body, in source order, and the
/// argument expressions handed to `lint_inner`
struct Entry {
  want: Vec<String>,
  cur: Option<String>,
  calls: Vec<(String, Vec<String>)>,
  inner_args: Vec<(String, Vec<String>)>,
}
impl<'ast> Visit<'ast> for Entry {
  fn visit_impl_item_fn(&mut self, n: &'ast syn::ImplItemFn) {
    let name = n.sig.ident.to_string();
    if self.want.contains(&name) {
      self.cur = Some(name.clone());
      self.calls.push((name, vec![]));
      syn::visit::visit_impl_item_fn(self, n);
      self.cur = None;
    }
  }
  fn visit_item_fn(&mut self, n: &'ast syn::ItemFn) {
    let name = n.sig.ident.to_string();
    if self.want.contains(&name) {
      self.cur = Some(name.clone());
      self.calls.push((name, vec![]));
      syn::visit::visit_item_fn(self, n);
      self.cur = None;
    }
  }
  fn visit_expr_call(&mut self, n: &'ast syn::ExprCall) {
    use syn::__private::ToTokens;
    if self.cur.is_some() {
      let f: String = n.func.to_token_stream().to_string().split_whitespace().collect();
      self.calls.last_mut().unwrap().1.push(f);
    }
    syn::visit::visit_expr_call(self, n);
  }
  fn visit_expr_method_call(&mut self, n: &'ast syn::ExprMethodCall) {
    use syn::__private::ToTokens;
    if let Some(cur) = self.cur.clone() {
      let recv: String = n.receiver.to_token_stream().to_string().split_whitespace().collect();
      self.calls.last_mut().unwrap().1.push(format!("{}.{}", recv, n.method));
      if n.method == "lint_inner" {
        let args = n.args.iter().map(|a| a.to_token_stream().to_string().split_whitespace().collect::<String>()).collect();
        self.inner_args.push((cur, args));
      }
    }
    syn::visit::visit_expr_method_call(self, n);
  }
  fn visit_macro(&mut self, n: &'ast syn::Macro) {
    // a macro in an entry point hides code from this reader: recorded, so that the table theorem fails closed
    if self.cur.is_some() {
      let name = n.path.segments.last().map(|s| s.ident.to_string()).unwrap_or_default();
      self.calls.last_mut().unwrap().1.push(format!("{}!", name));
    }
  }
}

/// every explicit panic site of src/ outside `#[cfg(test)]` modules: `.unwrap()` / `.expect(..)` calls, panicking macros,
/// index expressions `a[i]` — aggregated as (file, enclosing fn, kind, count)
struct PanicSites {
  file: String,
  cur_fn: Vec<String>,
  rows: std::collections::BTreeMap<(String, String, String), usize>,
}
impl PanicSites {
  fn hit(&mut self, kind: &str) {
    let f = self.cur_fn.last().cloned().unwrap_or_default();
    *self.rows.entry((self.file.clone(), f, kind.to_string())).or_insert(0) += 1;
  }
}
impl<'ast> Visit<'ast> for PanicSites {
  fn visit_item_mod(&mut self, n: &'ast syn::ItemMod) {
    if is_cfg_test(&n.attrs) {
      return;
    }
    syn::visit::visit_item_mod(self, n);
  }
  fn visit_item_fn(&mut self, n: &'ast syn::ItemFn) {
    self.cur_fn.push(n.sig.ident.to_string());
    syn::visit::visit_item_fn(self, n);
    self.cur_fn.pop();
  }
  fn visit_impl_item_fn(&mut self, n: &'ast syn::ImplItemFn) {
    self.cur_fn.push(n.sig.ident.to_string());
    syn::visit::visit_impl_item_fn(self, n);
    self.cur_fn.pop();
  }
  fn visit_expr_method_call(&mut self, n: &'ast syn::ExprMethodCall) {
    let m = n.method.to_string();
    if m == "unwrap" || m == "expect" || m == "unwrap_unchecked" {
      self.hit(&m);
    }
    syn::visit::visit_expr_method_call(self, n);
  }
  fn visit_expr_index(&mut self, n: &'ast syn::ExprIndex) {
    self.hit("index");
    syn::visit::visit_expr_index(self, n);
  }
  fn visit_macro(&mut self, n: &'ast syn::Macro) {
    let name = n.path.segments.last().map(|s| s.ident.to_string()).unwrap_or_default();
    if ["panic", "unreachable", "todo", "unimplemented", "assert", "assert_eq", "assert_ne", "debug_assert", "debug_assert_eq", "debug_assert_ne"].contains(&name.as_str()) {
      self.hit(&format!("{}!", name));
    }
    // inside other macros (`if_chain!`, `format!`, `matches!` …) the body is a token stream: count `unwrap` / `expect`
    fn walk(ts: proc_macro2::TokenStream, out: &mut Vec<String>) {
      let v: Vec<proc_macro2::TokenTree> = ts.into_iter().collect();
      for (i, t) in v.iter().enumerate() {
        match t {
          proc_macro2::TokenTree::Ident(id) => {
            let s = id.to_string();
            let after_dot = i > 0 && matches!(&v[i - 1], proc_macro2::TokenTree::Punct(p) if p.as_char() == '.');
            if after_dot && (s == "unwrap" || s == "expect") {
              out.push(s);
            }
          }
          proc_macro2::TokenTree::Group(g) => walk(g.stream(), out),
          _ => {}
        }
      }
    }
    let mut found = vec![];
    walk(n.tokens.clone(), &mut found);
    for f in found {
      self.hit(&format!("{} (in {}!)", f, name));
    }
    syn::visit::visit_macro(self, n);
  }
}

/// every `impl LintRule for T` of src/ outside test modules with the number of fields of `struct T` (found in the same
/// file; `?` when it is not a struct defined there), and every `Regex::new(<literal>)` with the static / function it
/// initialises
struct RuleStructs {
  file: String,
  structs: std::collections::BTreeMap<String, usize>,
  impls: Vec<String>,
  rows: Vec<(String, String, String)>,
  site: Vec<String>,
  regexes: Vec<(String, String, String)>,
}
impl<'ast> Visit<'ast> for RuleStructs {
  fn visit_item_mod(&mut self, n: &'ast syn::ItemMod) {
    if is_cfg_test(&n.attrs) {
      return;
    }
    syn::visit::visit_item_mod(self, n);
  }
  fn visit_item_struct(&mut self, n: &'ast syn::ItemStruct) {
    self.structs.insert(n.ident.to_string(), n.fields.len());
    syn::visit::visit_item_struct(self, n);
  }
  fn visit_item_impl(&mut self, n: &'ast syn::ItemImpl) {
    use syn::__private::ToTokens;
    if let Some((_, path, _)) = &n.trait_ {
      if path.segments.last().map(|s| s.ident == "LintRule").unwrap_or(false) {
        self.impls.push(n.self_ty.to_token_stream().to_string().split_whitespace().collect());
      }
    }
    syn::visit::visit_item_impl(self, n);
  }
  fn visit_item_static(&mut self, n: &'ast syn::ItemStatic) {
    self.site.push(n.ident.to_string());
    syn::visit::visit_item_static(self, n);
    self.site.pop();
  }
  fn visit_expr_call(&mut self, n: &'ast syn::ExprCall) {
    use syn::__private::ToTokens;
    let f: String = n.func.to_token_stream().to_string().split_whitespace().collect();
    if f.ends_with("Regex::new") {
      let lit = match n.args.first() {
        Some(syn::Expr::Lit(syn::ExprLit { lit: syn::Lit::Str(s), .. })) => s.value(),
        Some(other) => format!("<not a literal: {}>", other.to_token_stream()),
        None => "<no argument>".to_string(),
      };
      self.regexes.push((self.file.clone(), self.site.last().cloned().unwrap_or_default(), lit));
    }
    syn::visit::visit_expr_call(self, n);
  }
}

fn write_if_changed(path: &str, content: &str) {
  if std::fs::read_to_string(path).ok().as_deref() != Some(content) {
    std::fs::write(path, content).unwrap();
  }
}

fn main() {
  let out = std::env::args().nth(1).expect("usage: translate2 <lean/DL/Gen dir> <repo>");
  let repo = std::env::args().nth(2).unwrap_or_else(|| "/repo".to_string());
  let mut files = vec![];
  rs_files(std::path::Path::new(&format!("{}/src", repo)), &mut files);
  let mut v = Impls { file: String::new(), rows: vec![], stops: vec![], cur_fn: vec![] };
  let mut ctx_rows: Vec<(String, Vec<String>)> = vec![];
  let mut statics = Statics { file: String::new(), rows: vec![] };
  let mut psites = PanicSites { file: String::new(), cur_fn: vec![], rows: Default::default() };
  let mut rstructs = RuleStructs { file: String::new(), structs: Default::default(), impls: vec![], rows: vec![], site: vec![], regexes: vec![] };
  let mut entry = Entry { want: vec!["lint_file".into(), "lint_with_ast".into()], cur: None, calls: vec![], inner_args: vec![] };
  let mut dlint = Entry { want: vec!["run_linter".into()], cur: None, calls: vec![], inner_args: vec![] };
  {
    let p = format!("{}/examples/dlint/main.rs", repo);
    let src = std::fs::read_to_string(&p).unwrap();
    let f = syn::parse_file(&src).unwrap_or_else(|e| panic!("parse {}: {}", p, e));
    dlint.visit_file(&f);
  }
  let mut cells = Cells { file: String::new(), site: vec![], rows: vec![] };
  for p in &files {
    let src = std::fs::read_to_string(p).unwrap();
    let f = syn::parse_file(&src).unwrap_or_else(|e| panic!("parse {}: {}", p.display(), e));
    v.file = p.strip_prefix(&repo).unwrap_or(p).to_string_lossy().trim_start_matches('/').to_string();
    v.visit_file(&f);
    statics.file = v.file.clone();
    statics.visit_file(&f);
    if v.file == "src/linter.rs" {
      entry.visit_file(&f);
    }
    // (src/test_util.rs is the body of a `#[cfg(test)] mod test_util;`)
    if !v.file.ends_with("test_util.rs") {
      psites.file = v.file.clone();
      psites.visit_file(&f);
    }
    if !v.file.ends_with("test_util.rs") {
      rstructs.file = v.file.clone();
      rstructs.structs.clear();
      rstructs.impls.clear();
      rstructs.visit_file(&f);
      let rows: Vec<(String, String, String)> = rstructs.impls.iter().map(|t| (v.file.clone(), t.clone(), rstructs.structs.get(t).map(|n| n.to_string()).unwrap_or_else(|| "?".into()))).collect();
      rstructs.rows.extend(rows);
    }
    cells.file = v.file.clone();
    cells.visit_file(&f);
    if v.file.starts_with("src/rules/") {
      let mut c = CtxCalls(Default::default());
      c.visit_file(&f);
      ctx_rows.push((v.file.clone(), c.0.into_iter().collect()));
    }
  }
  {
    let mut t = String::from("/-! GENERATED by harness/src/bin/translate2.rs (syn): for every file of src/rules, the methods it calls on a `Context`. -/\nnamespace DL.Gen\n\ndef ctxMethodCalls : List (String × List String) := [\n");
    let rows: Vec<String> = ctx_rows.iter().map(|(f, ms)| format!("  ({}, [{}])", lean_str(f), ms.iter().map(|m| lean_str(m)).collect::<Vec<_>>().join(", "))).collect();
    t.push_str(&rows.join(",\n"));
    t.push_str("\n]\n\nend DL.Gen\n");
    write_if_changed(&format!("{}/CtxAccess.lean", out), &t);
  }
  {
    let mut t = String::from("/-! GENERATED by harness/src/bin/translate2.rs (syn): every `static` item and every `thread_local!` / `lazy_static!`\ninvocation of src/ outside `#[cfg(test)]` modules: (file, kind, name, type). -/\nnamespace DL.Gen\n\ndef statics : List (String × String × String × String) := [\n");
    let rows: Vec<String> = statics.rows.iter().map(|(a, b, c, d)| format!("  ({}, {}, {}, {})", lean_str(a), lean_str(b), lean_str(c), lean_str(d))).collect();
    t.push_str(&rows.join(",\n"));
    t.push_str("\n]\n\nend DL.Gen\n");
    write_if_changed(&format!("{}/Statics.lean", out), &t);
  }
  {
    let mut t = String::from("/-! GENERATED by harness/src/bin/translate2.rs (syn): every use, in src/ outside `#[cfg(test)]` modules and `use` items,\nof a type that offers interior mutability (cells, locks, once-cells, atomics) and every `unsafe`: (file, identifier, kind of the enclosing item, its name). -/\nnamespace DL.Gen\n\ndef cellUses : List (String × String × String × String) := [\n");
    let rows: Vec<String> = cells.rows.iter().map(|(a, b, c)| { let (k, n) = c.split_once(':').unwrap_or((c.as_str(), "")); format!("  ({}, {}, {}, {})", lean_str(a), lean_str(b), lean_str(k), lean_str(n)) }).collect();
    t.push_str(&rows.join(",\n"));
    t.push_str("\n]\n\nend DL.Gen\n");
    write_if_changed(&format!("{}/Cells.lean", out), &t);
  }
  {
    let mut t = String::from("/-! GENERATED by harness/src/bin/translate2.rs (syn): the public entry points `Linter::lint_file` / `Linter::lint_with_ast`\n(src/linter.rs): every call in the body in source order (macros as `name!`), and the arguments handed to `lint_inner`. -/\nnamespace DL.Gen\n\ndef entryCalls : List (String × List String) := [\n");
    let rows: Vec<String> = entry.calls.iter().map(|(a, b)| format!("  ({}, [{}])", lean_str(a), b.iter().map(|x| lean_str(x)).collect::<Vec<_>>().join(", "))).collect();
    t.push_str(&rows.join(",\n"));
    t.push_str("\n]\n\ndef lintInnerArgs : List (String × List String) := [\n");
    let rows: Vec<String> = entry.inner_args.iter().map(|(a, b)| format!("  ({}, [{}])", lean_str(a), b.iter().map(|x| lean_str(x)).collect::<Vec<_>>().join(", "))).collect();
    t.push_str(&rows.join(",\n"));
    t.push_str("\n]\n\nend DL.Gen\n");
    write_if_changed(&format!("{}/EntryPoints.lean", out), &t);
  }
  {
    let mut t = String::from("/-! GENERATED by harness/src/bin/translate2.rs (syn): every explicit panic site of src/ outside test modules\n(`.unwrap()`, `.expect(..)`, panicking macros, index expressions), aggregated: (file, enclosing fn, kind, count). -/\nnamespace DL.Gen\n\ndef panicSites : List (String × String × String × Nat) := [\n");
    let rows: Vec<String> = psites.rows.iter().map(|((a, b, c), n)| format!("  ({}, {}, {}, {})", lean_str(a), lean_str(b), lean_str(c), n)).collect();
    t.push_str(&rows.join(",\n"));
    t.push_str("\n]\n\nend DL.Gen\n");
    write_if_changed(&format!("{}/PanicSites.lean", out), &t);
  }
  {
    let mut t = String::from("/-! GENERATED by harness/src/bin/translate2.rs (syn): every `impl LintRule for T` of src/ with the number of fields of\n`struct T`, and every `Regex::new(<literal>)` with the static it initialises. -/\nnamespace DL.Gen\n\ndef ruleStructs : List (String × String × String) := [\n");
    let rows: Vec<String> = rstructs.rows.iter().map(|(a, b, c)| format!("  ({}, {}, {})", lean_str(a), lean_str(b), lean_str(c))).collect();
    t.push_str(&rows.join(",\n"));
    t.push_str("\n]\n\ndef regexLiterals : List (String × String × String) := [\n");
    let rows: Vec<String> = rstructs.regexes.iter().map(|(a, b, c)| format!("  ({}, {}, {})", lean_str(a), lean_str(b), lean_str(c))).collect();
    t.push_str(&rows.join(",\n"));
    t.push_str("\n]\n\nend DL.Gen\n");
    write_if_changed(&format!("{}/RuleStructs.lean", out), &t);
  }
  {
    // dlint's `run_linter`: the calls that make up its collection / reporting logic, in source order (receivers dropped)
    let keep = ["par_iter", "for_each", "try_for_each", "par_chunks", "read_to_string", "lint_file", "fetch_add", "store", "load", "lock", "insert", "pop_first", "values", "display_diagnostics", "exit", "dedup", "sort", "canonicalize", "fetch_max", "swap"];
    let calls: Vec<String> = dlint.calls.iter().flat_map(|(_, c)| c.iter()).map(|c| c.rsplit(|ch| ch == '.' || ch == ':').next().unwrap_or("").to_string()).filter(|m| keep.contains(&m.as_str()) || m.ends_with('!')).collect();
    let mut t = String::from("/-! GENERATED by harness/src/bin/translate2.rs (syn): the calls of `run_linter` (examples/dlint/main.rs) that make up its\ncollection and reporting logic, in source order (macros as `name!`). -/\nnamespace DL.Gen\n\ndef dlintCalls : List String := [");
    t.push_str(&calls.iter().map(|x| lean_str(x)).collect::<Vec<_>>().join(", "));
    t.push_str("]\n\nend DL.Gen\n");
    write_if_changed(&format!("{}/DlintShape.lean", out), &t);
  }
  let mut s = String::from("/-! GENERATED by harness/src/bin/translate2.rs (syn): every `visit_*` override of every `impl Visit for` in src/, with\nwhether each path through it recurses into the node's children (`always`), some traversal call exists (`sometimes`), or none (`never`). -/\nnamespace DL.Gen\n\n/-- (file, visitor type, method, class) for the overrides that do **not** always recurse -/\ndef visitNotAlways : List (String × String × String × String) := [\n");
  let rows: Vec<String> = v.rows.iter().filter(|r| r.3 != "always").map(|(a, b, c, d)| format!("  ({}, {}, {}, {})", lean_str(a), lean_str(b), lean_str(c), lean_str(d))).collect();
  s.push_str(&rows.join(",\n"));
  write!(s, "\n]\n\n/-- number of overrides that always recurse -/\ndef visitAlwaysCount : Nat := {}\n\nend DL.Gen\n", v.rows.iter().filter(|r| r.3 == "always").count()).unwrap();
  write_if_changed(&format!("{}/VisitTable.lean", out), &s);
  let mut t = String::from("/-! GENERATED by harness/src/bin/translate2.rs (syn): every call site of `stop_traverse` with its enclosing fn. -/\nnamespace DL.Gen\n\ndef stopTraverseCalls : List (String × String) := [\n");
  let rows: Vec<String> = v.stops.iter().map(|(a, b)| format!("  ({}, {})", lean_str(a), lean_str(b))).collect();
  t.push_str(&rows.join(",\n"));
  t.push_str("\n]\n\nend DL.Gen\n");
  write_if_changed(&format!("{}/StopCalls.lean", out), &t);
}
