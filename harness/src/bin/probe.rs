//! `probe <ext> [rule,rule…] < source` : print the diagnostics of the given rules (default all) — used for replays.
use dlharness::*;
use std::io::Read;
fn main() {
  let a: Vec<String> = std::env::args().collect();
  let ext = a.get(1).cloned().unwrap_or_else(|| "ts".into());
  let codes: Vec<String> = a.get(2).map(|s| s.split(',').map(|x| x.to_string()).collect()).unwrap_or_else(all_codes);
  let mut src = String::new();
  std::io::stdin().read_to_string(&mut src).unwrap();
  let l = mk_linter(rules_by_codes(&codes), &Words::default());
  match lint(&l, &src, &ext) {
    Outcome::Ok(ds) => {
      for d in ds {
        println!("{}", d.json());
      }
    }
    Outcome::ParseErr(e) => println!("parse-error: {}", e),
    Outcome::Panic(m) => println!("panic: {}", m),
  }
}
