//! C13, the two import-adding rules modelled completely (M-IMP, `lean/DL/Model/ImportFix.lean`): `no-node-globals` and
//! `no-process-global`.  Generated files (shebang, header comments, imports in every layout, line directives above and
//! beside statements, decorated first statements, references sharing a line with an import) are abstracted to what the
//! model keeps of a file — per line: directive flags and the references / import ends in source order — from
//! *observations* of the real linter (raw diagnostics and parsed directives through the spy, tokens and import
//! declarations from the `ParsedSource`).  Compared: the reports, the place of every offered import (`wheres`), and for
//! every reported diagnostic the reports on the really fixed file (`kept (applyFix …)`).  Property oracles on the
//! implementation: the fixed file parses, has strictly fewer reports, none about the fixed name.
use crate::{Args, Out};
use deno_ast::swc::ast::{ModuleDecl, ModuleItem};
use deno_ast::{SourceRanged, SourceRangedForSpanned};
use dlharness::*;
use serde_json::{json, Value};

fn line_of(src: &str, off: usize) -> usize {
  src.as_bytes()[..off.min(src.len())].iter().filter(|b| **b == b'\n').count()
}

struct Obs {
  raw: Vec<(usize, usize, String, Vec<(usize, usize, String)>)>, // (start, line, name, first fix's changes)
  kept: Vec<(usize, String)>,                                     // (line, name)
  dirs: Vec<(usize, bool)>,                                       // (line, names this rule)
  imports: Vec<(usize, bool)>,                                    // (end offset, only white space follows on the line)
  first: usize,
}

enum Seen {
  Ok(Obs),
  ParseErr,
  Panic(String),
}

fn observe(rule: &str, src: &str, ext: &str) -> Seen {
  let (rules, log) = with_spy(rules_by_codes(&[rule.to_string()]), false);
  let l = mk_linter(rules, &Words::default());
  match crate::d_scan::lint_full(&l, src, ext, &Cfg::default()) {
    crate::d_scan::Full::Ok(ps, ds) => {
      let log = log.lock().unwrap().clone();
      let base = ps.text_info_lazy().range().start;
      let bom = if src.starts_with('\u{feff}') { 3 } else { 0 };
      let raw = log
        .raw
        .iter()
        .filter(|(c, _, _)| c == rule)
        .filter_map(|(_, pos, d)| {
          let (s, line) = (*pos)?;
          let name = src.get(bom + d.start?..bom + d.end?)?.to_string();
          Some((s, line, name, d.fixes.first().map(|f| f.1.clone()).unwrap_or_default()))
        })
        .collect();
      let kept = ds
        .iter()
        .filter(|d| d.details.code == rule)
        .filter_map(|d| {
          let c = conv(d);
          let (a, b) = (c.start?, c.end?);
          Some((line_of(&src[bom..], a), src.get(bom + a..bom + b)?.to_string()))
        })
        .collect();
      let dirs = log.line_dirs.iter().map(|(line, d)| (*line, d.codes.iter().any(|c| c == rule))).collect();
      let text = &src[bom..];
      let mut imports = vec![];
      if let deno_ast::ProgramRef::Module(m) = ps.program_ref() {
        for it in &m.body {
          if let ModuleItem::ModuleDecl(ModuleDecl::Import(i)) = it {
            let e = i.end().as_byte_index(base);
            let rest = &text[e..];
            let ends_line = rest.chars().take_while(|c| *c != '\n').all(char::is_whitespace);
            imports.push((e, ends_line));
          }
        }
      }
      let first = ps
        .tokens()
        .iter()
        .map(|t| t.start().as_byte_index(base))
        .find(|s| !(*s == 0 && text.starts_with("#!")))
        .map(|s| line_of(text, s))
        .unwrap_or(usize::MAX);
      Seen::Ok(Obs { raw, kept, dirs, imports, first })
    }
    crate::d_scan::Full::ParseErr => Seen::ParseErr,
    crate::d_scan::Full::Panic(m) => Seen::Panic(m),
  }
}

pub fn run(args: &Args) {
  let mut out = Out::new(&args.out, "imp");
  let mut rng = Rng::new(args.seed ^ 0x1397);
  for case_no in 0..args.count {
    let node = case_no % 3 != 0;
    let rule = if node { "no-node-globals" } else { "no-process-global" };
    let other = if node { "no-process-global" } else { "no-explicit-any" };
    let ext = ["ts", "ts", "ts", "tsx", "js", "mjs", "cjs", "mts"][rng.below(8)];
    let ts = ext == "ts" || ext == "mts" || ext == "tsx";
    let cjs = ext == "cjs";
    let refs: &[&str] = if node { &["Buffer", "setImmediate", "clearImmediate"] } else { &["process"] };
    let mut n = 0usize;
    let mut src = String::new();
    if rng.chance(1, 6) {
      src.push_str(["#!/usr/bin/env deno\n", "#!deno run\n", "#! /usr/bin/env -S deno run\n"][rng.below(3)]);
      out.count("shebang");
    }
    for _ in 0..rng.below(3) {
      src.push_str(["// Copyright someone\n", "/* header */\n", "\n", "/**\n * doc\n */\n", "// deno-lint-ignore-file no-empty\n"][rng.below(5)]);
    }
    let groups = rng.range(1, 7);
    let mut seen_stmt = false;
    for gi in 0..groups {
      n += 1;
      let r = |rng: &mut Rng| refs[rng.below(refs.len())];
      // a statement holding references (or none)
      let stmt = |rng: &mut Rng, n: usize| -> String {
        match rng.below(12) {
          0 => format!("const c{} = {};", n, r(rng)),
          1 => format!("{}(() => {{}});", r(rng)),
          2 => format!("foo{}({}, {});", n, r(rng), r(rng)),
          3 => format!("x{} = {}.env;", n, r(rng)),
          4 => format!("const d{} = 1;", n),
          5 => format!("function f{}() {{ return {}.from(\"x\"); }}", n, r(rng)),
          6 => format!("call{}(\n  {},\n  {}\n);", n, r(rng), r(rng)),
          7 => format!("const s{} = \"{}\";", n, r(rng)),
          8 => format!("`${{{}}}`;", r(rng)),
          9 => format!("/* c */ const e{} = {};", n, r(rng)),
          10 => format!("if (a{}) {{ {}; }} else {{ {}; }}", n, r(rng), r(rng)),
          _ => format!("const g{} = {}; const h{} = {};", n, r(rng), n, r(rng)),
        }
      };
      let is_import = !cjs && rng.chance(if seen_stmt { 1 } else { 3 }, 5);
      if is_import {
        let s = match rng.below(11) {
          0 | 1 => format!("import a{} from \"m{}\";\n", n, n),
          2 => format!("import {{\n  b{},\n}} from \"m{}\";\n", n, n),
          3 => {
            out.count("import-shares-line-with-statement");
            format!("import a{} from \"m{}\"; {}\n", n, n, stmt(&mut rng, n))
          }
          4 => format!("import a{} from \"m{}\"; // note\n", n, n),
          5 => {
            out.count("directive-beside-import");
            format!("import a{} from \"m{}\"; // deno-lint-ignore {}\n", n, n, rule)
          }
          6 if rng.chance(1, 2) => format!("import a{} from \"m{}\";   \t\n", n, n),
          6 => format!("import a{} from \"m{}\";\u{a0}\u{3000}\n", n, n),
          7 => format!("import a{} from \"m{}\" /* c */;\n", n, n),
          8 if ts => format!("import type T{} from \"m{}\";\n", n, n),
          9 if ts => {
            out.count("import-inside-ambient-module");
            format!("declare module \"x{}\" {{ import y{} from \"y\"; }}\n", n, n)
          }
          10 => format!("import a{} from \"m{}\"; import b{} from \"k{}\"; {}\n", n, n, n, n, stmt(&mut rng, n)),
          _ if rng.chance(1, 2) => {
            out.count("import-without-semicolon-shares-line");
            format!("import a{} from \"m{}\" {}\n", n, n, stmt(&mut rng, n))
          }
          _ => format!("import \"side{}\";\n", n),
        };
        // a directive above an import line covers what stands on that line
        if rng.chance(1, 4) {
          src.push_str(&format!("// deno-lint-ignore {}\n", rule));
          out.count("directive-above-import-line");
        }
        src.push_str(&s);
      } else {
        for _ in 0..rng.below(3) {
          let d = match rng.below(7) {
            0 | 1 => format!("// deno-lint-ignore {}\n", rule),
            2 => format!("// deno-lint-ignore {}\n", other),
            3 => format!("// deno-lint-ignore {} {} -- reason\n", other, rule),
            4 => format!("/* deno-lint-ignore {} */\n", rule),
            5 => "// plain comment\n".to_string(),
            _ => "\n".to_string(),
          };
          src.push_str(&d);
        }
        let s = if ts && !seen_stmt && gi < 2 && rng.chance(1, 5) {
          out.count("decorated-first-statement");
          match rng.below(3) {
            0 => format!("@dec export class A{} {{ x = {}; }}", n, r(&mut rng)),
            1 => format!("@dec\nexport class A{} {{ x = {}; }}", n, r(&mut rng)),
            _ => format!("@dec({}) class A{} {{}}", r(&mut rng), n),
          }
        } else {
          stmt(&mut rng, n)
        };
        src.push_str(&s);
        src.push_str(if rng.chance(1, 8) { " // deno-lint-ignore " } else { "" });
        if src.ends_with("ignore ") {
          src.push_str(rule);
        }
        src.push('\n');
        seen_stmt = true;
      }
    }
    if rng.chance(1, 10) {
      src = src.trim_end_matches('\n').to_string(); // no final newline
    }
    if rng.chance(1, 6) {
      src = src.replace('\n', "\r\n");
      out.count("crlf");
    }
    let meta = json!({"rule": rule, "ext": ext, "src": src});
    let o = match observe(rule, &src, ext) {
      Seen::Ok(o) => o,
      Seen::ParseErr => {
        out.count("does-not-parse");
        continue;
      }
      Seen::Panic(m) => {
        out.found("C01", &format!("panic:{}", rule), &src, json!({"meta": meta, "panic": m}));
        continue;
      }
    };
    // ---- the abstraction
    let mut names: Vec<String> = vec![];
    let mut idx = |s: &str| -> usize {
      if let Some(i) = names.iter().position(|x| x == s) {
        i
      } else {
        names.push(s.to_string());
        names.len() - 1
      }
    };
    let nlines = line_of(&src, src.len()) + 1;
    let mut items: Vec<Vec<(usize, Value)>> = vec![vec![]; nlines];
    for (s, line, name, _) in &o.raw {
      items[*line].push((*s, json!(["r", idx(name)])));
    }
    for (e, ends) in &o.imports {
      items[line_of(&src, *e)].push((*e, json!(["i", ends])));
    }
    let lines: Vec<Value> = (0..nlines)
      .map(|i| {
        let mut it = items[i].clone();
        it.sort_by_key(|x| x.0);
        let d = o.dirs.iter().find(|(l, _)| *l == i);
        json!([d.map(|x| x.1).unwrap_or(false), d.is_some(), it.into_iter().map(|x| x.1).collect::<Vec<_>>()])
      })
      .collect();
    let first = if o.first == usize::MAX { nlines } else { o.first };
    // ---- what the implementation did
    let raw_j: Vec<Value> = o.raw.iter().map(|(_, l, n, _)| json!([l, idx(n)])).collect();
    let kept_j: Vec<Value> = o.kept.iter().map(|(l, n)| json!([l, idx(n)])).collect();
    let mut wheres: Vec<Value> = vec![];
    let mut after: Vec<Value> = vec![];
    for (s, line, name, changes) in &o.raw {
      let Some((a, _b, text)) = changes.first() else {
        wheres.push(json!("no-fix"));
        after.push(Value::Null);
        continue;
      };
      let w = if text.starts_with('\n') {
        json!(["n", line_of(&src, *a) + 1])
      } else if text.starts_with(' ') || text.starts_with("; ") {
        json!(["s"])
      } else if text.ends_with('\n') {
        json!(["n", line_of(&src, *a)])
      } else {
        json!(["?", text])
      };
      out.count(&format!("where={}", w[0].as_str().unwrap_or("?")));
      wheres.push(w);
      let is_kept = o.kept.iter().any(|(l, n)| l == line && n == name) && {
        // (the same name twice on one line: both kept or both suppressed)
        true
      };
      let _ = s;
      if !is_kept {
        after.push(Value::Null);
        continue;
      }
      let Some(fixed) = crate::d_scan::apply_fix(&src, changes) else {
        after.push(json!("fix-does-not-apply"));
        continue;
      };
      match observe(rule, &fixed, ext) {
        Seen::Ok(o2) => {
          after.push(json!(o2.kept.iter().map(|(l, n)| json!([l, idx(n)])).collect::<Vec<_>>()));
          out.eval(&format!("{}|{}", rule, src), true, json!({"src": src, "fixed": fixed}));
          // the property, on the implementation
          if o2.kept.len() >= o.kept.len() {
            out.found("C13", &format!("fix-does-not-reduce:{}", rule), &src, json!({"meta": meta, "fixed": fixed, "fix_of": name, "before": o.kept.len(), "after": o2.kept.len()}));
          }
          if o2.kept.iter().any(|(_, n)| n == name) {
            out.found("C13", &format!("fixed-diagnostic-still-there:{}", rule), &src, json!({"meta": meta, "fixed": fixed, "fix_of": name}));
          }
        }
        Seen::ParseErr => {
          after.push(json!("does-not-parse"));
          out.found("C13", &format!("fixed-text-does-not-parse:{}", rule), &src, json!({"meta": meta, "fixed": fixed, "fix_of": name}));
        }
        Seen::Panic(m) => {
          after.push(json!("panic"));
          out.found("C01", &format!("panic:{}", rule), &fixed, json!({"meta": {"src": fixed, "ext": ext}, "panic": m}));
        }
      }
    }
    out.count(&format!("reports={}", o.kept.len().min(4)));
    out.count(&format!("suppressed={}", (o.raw.len() - o.kept.len().min(o.raw.len())).min(3)));
    out.case(
      json!({"m": "imp", "first": first, "lines": lines}),
      json!({"wf": true, "raw": raw_j, "kept": kept_j, "wheres": wheres, "after": after}),
      meta,
    );
  }
  out.finish();
}
