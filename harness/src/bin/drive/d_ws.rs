//! C03/C09, no-irregular-whitespace vs the model `DL.Ws` (gaps between the real tokens; maximal runs, then line
//! separators): programs of the corpus with irregular white space put into token gaps, comments, strings and templates.
use crate::{Args, Out};
use dlharness::*;
use serde_json::{json, Value};

const IRR: &[&str] = &["\u{a0}", "\u{2003}", "\u{3000}", "\u{feff}", "\u{b}", "\u{c}", "\u{85}", "\u{1680}", "\u{180e}", "\u{200b}", "\u{202f}", "\u{205f}", "\u{2028}", "\u{2029}", "\u{a0}\u{a0}", "\u{2000}\u{2028}\u{3000}", "\u{2029}\u{2029}"];
const REG: &[&str] = &[" ", "\t", "\n", "é", "\u{200c}", "\u{200d}", "\u{2060}", "x"];

pub fn run(args: &Args) {
  let mut out = Out::new(&args.out, "ws");
  let mut rng = Rng::new(args.seed ^ 0x3575);
  let corpus = crate::d_scan::load_corpus();
  let l = mk_linter(rules_by_codes(&["no-irregular-whitespace".to_string()]), &Words::default());
  for case_no in 0..args.count {
    let sn = &corpus[rng.below(corpus.len())];
    let ext = if sn.src.contains("</") || sn.src.contains("/>") { "tsx" } else { "ts" };
    // put irregular (and some regular) white space at random character positions next to existing white space, into
    // comments, strings and templates
    let mut src = sn.src.clone();
    let k = rng.below(5);
    for _ in 0..k {
      let spots: Vec<usize> = src.char_indices().filter(|(_, c)| *c == ' ' || *c == '\n').map(|(i, _)| i).collect();
      if spots.is_empty() {
        break;
      }
      let at = spots[rng.below(spots.len())];
      let ins = if rng.chance(4, 5) { IRR[rng.below(IRR.len())] } else { REG[rng.below(REG.len())] };
      src.insert_str(at, ins);
    }
    match rng.below(6) {
      0 => src = format!("// a\u{a0}comment \u{2028} tail\n{}", src),
      1 => src = format!("{}\n/* block\u{3000}\u{3000}comment */\u{2003}", src),
      2 => src = format!("const s9 = \"in\u{a0}string\", t9 = `in\u{2003}template ${{1\u{a0}+ 2}}`;\n{}", src),
      3 => src = format!("\u{a0}{}", src),
      _ => {}
    }
    let ps_ds = match crate::d_scan::lint_full(&l, &src, ext, &Cfg::default()) {
      crate::d_scan::Full::Ok(ps, ds) => (ps, ds),
      crate::d_scan::Full::ParseErr => {
        out.count("parse-error");
        continue;
      }
      crate::d_scan::Full::Panic(m) => {
        out.found("C01", "panic:no-irregular-whitespace", &src, json!({"meta": {"src": src}, "panic": m}));
        continue;
      }
    };
    let (ps, lds) = ps_ds;
    let text = ps.text().to_string();
    let base = ps.text_info_lazy().range().start;
    use deno_ast::SourceRangedForSpanned;
    let toks: Vec<(usize, usize)> = ps.tokens().iter().map(|t| (t.start().as_byte_index(base), t.end().as_byte_index(base))).collect();
    // segments: gap, token, gap, token, …, gap
    let mut segs: Vec<Value> = vec![];
    let mut last = 0usize;
    let mut ok = true;
    for (a, b) in &toks {
      if *a < last || *b < *a || *b > text.len() || !text.is_char_boundary(*a) || !text.is_char_boundary(*b) {
        ok = false;
        break;
      }
      segs.push(json!([true, &text[last..*a]]));
      segs.push(json!([false, &text[*a..*b]]));
      last = *b;
    }
    if !ok {
      out.found("C03", "tokens-not-in-order", &src, json!({"meta": {"src": src}}));
      continue;
    }
    segs.push(json!([true, &text[last..]]));
    let ds = conv_all(&lds);
    let mut ranges: Vec<(usize, usize)> = ds.iter().filter_map(|d| Some((d.start?, d.end?))).collect();
    ranges.sort();
    out.count(&format!("reports={}", ranges.len().min(4)));
    out.case(json!({"m": "ws", "segs": segs}), json!({"ranges": ranges}), json!({"case": case_no, "src": src, "ext": ext}));
  }
  out.finish();
}
