//! C03 / C09 / C04, M-TXT: the character-level rule `prefer-ascii` vs the model `DL.Txt.preferAscii` on generated
//! Unicode text placed in comments, templates and identifiers — alone and among all rules (projection), with LF and
//! CRLF, multi-byte characters of every width, and with the last character of the file non-ASCII.
use crate::{Args, Out};
use dlharness::*;
use serde_json::json;

const PIECES: &[&str] = &["a", "b", " ", "é", "π", "→", "こ", "😀", "🥷", "\u{a0}", "\u{feff}", "\u{2028}", "x1", "--", "\t", "ß", "́", "\u{10FFFF}"];

fn text(rng: &mut Rng, n: usize, allow_nl: Option<&str>) -> String {
  let mut s = String::new();
  for _ in 0..n {
    if let (Some(nl), true) = (allow_nl, rng.chance(1, 8)) {
      s.push_str(nl);
    } else {
      s.push_str(PIECES[rng.below(PIECES.len())]);
    }
  }
  s
}

pub fn run(args: &Args) {
  let mut out = Out::new(&args.out, "txt");
  let mut rng = Rng::new(args.seed ^ 0x7E87);
  let alone = mk_linter(rules_by_codes(&["prefer-ascii".to_string()]), &Words::default());
  let all = mk_linter(rules_by_codes(&all_codes()), &Words::default());
  for case_no in 0..args.count {
    let mut crng = rng.fork();
    let nl = if crng.chance(1, 3) { "\r\n" } else { "\n" };
    let long = crng.chance(1, 12);
    let n = if long { crng.range(120, 260) } else { crng.range(0, 14) };
    let mut src = String::new();
    for _ in 0..crng.range(1, 4) {
      match crng.below(6) {
        0 => src.push_str(&format!("/* {} */{}", text(&mut crng, n, Some(nl)).replace("*/", "* /"), nl)),
        1 => src.push_str(&format!("// {}{}", text(&mut crng, n, None).replace('\u{2028}', " "), nl)),
        2 => src.push_str(&format!("const s{} = `{}`;{}", case_no % 7, text(&mut crng, n, Some(nl)).replace('`', "'").replace("${", "$ {").replace('\\', "/"), nl)),
        3 => src.push_str(&format!("const π{} = \"{}\";{}", crng.below(9), text(&mut crng, n.min(20), None).replace('"', "'").replace('\\', "/").replace('\u{2028}', " "), nl)),
        4 => src.push_str(&format!("var v = 1;{}debugger;{}", nl, nl)),
        _ => src.push_str(&format!("f(\"{}\");{}", text(&mut crng, n.min(20), None).replace('"', "'").replace('\\', "/").replace('\u{2028}', " "), nl)),
      }
    }
    // the end of the file: with a line break, without one, and with a non-ASCII last character
    match crng.below(4) {
      0 => {}
      1 => src = src.trim_end().to_string(),
      2 => src = format!("{}// é", src),
      _ => src = format!("{}/* ✓ */", src),
    }
    out.count(if long { "size=long" } else { "size=short" });
    out.count(if nl == "\r\n" { "eol=crlf" } else { "eol=lf" });
    out.count(if src.chars().last().map_or(false, |c| !c.is_ascii()) { "last-char=non-ascii" } else { "last-char=ascii" });
    let (r1, r2) = (lint(&alone, &src, "ts"), lint(&all, &src, "ts"));
    match (r1, r2) {
      (Outcome::Ok(d1), Outcome::Ok(d2)) => {
        let hits = |v: &Vec<D>| -> Vec<(usize, usize)> { v.iter().filter(|d| d.code == "prefer-ascii").filter_map(|d| d.start.zip(d.end)).collect() };
        let (h1, h2) = (hits(&d1), hits(&d2));
        out.count(match h1.len() { 0 => "hits=0", 1..=9 => "hits=1-9", 10..=99 => "hits=10-99", _ => "hits=100+" });
        if h1 != h2 {
          out.found("C04", "alone-vs-all:prefer-ascii", &src, json!({"meta": {"src": src, "rule": "prefer-ascii"}, "alone": h1.len(), "among_all_rules": h2.len()}));
        }
        // well-formedness stated directly (C03)
        for (a, b) in &h1 {
          if a >= b || *b > src.len() || !src.is_char_boundary(*a) || !src.is_char_boundary(*b) {
            out.found("C03", "range-malformed:prefer-ascii", &src, json!({"meta": {"src": src, "rule": "prefer-ascii"}, "range": [a, b]}));
            break;
          }
        }
        out.case(json!({"m": "txt", "t": src}), json!({"hits": h1}), json!({"src": src}));
      }
      (Outcome::Panic(m), _) | (_, Outcome::Panic(m)) => out.found("C01", "panic:prefer-ascii", &src, json!({"meta": {"src": src}, "panic": m})),
      _ => out.count("parse-error"),
    }
  }
  out.finish();
}
