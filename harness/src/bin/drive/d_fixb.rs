//! C13, builders: the replacement text `jsx-curly-braces` offers for `attr={"v"}` vs the model builder
//! `DL.FixBuild.jsxAttrQuote v` (proved to lex as one JSX attribute string denoting `v`), on generated values.
use crate::{Args, Out};
use dlharness::*;
use serde_json::json;

const POOL: &[&str] = &["a", "b", " ", "\"", "'", "\\", "<", ">", "{", "}", "&amp;", "&", ";", "😀", "é", "\n", "\t", "/", "=", "`", "$", "--"];

fn js_escape(v: &str) -> String {
  let mut s = String::new();
  for c in v.chars() {
    match c {
      '"' => s.push_str("\\\""),
      '\\' => s.push_str("\\\\"),
      '\n' => s.push_str("\\n"),
      '\t' => s.push_str("\\t"),
      c => s.push(c),
    }
  }
  s
}

pub fn run(args: &Args) {
  let mut out = Out::new(&args.out, "fixb");
  let mut rng = Rng::new(args.seed ^ 0xF1B);
  let l = mk_linter(rules_by_codes(&["jsx-curly-braces".to_string()]), &Words::default());
  for _ in 0..args.count {
    let n = rng.below(7);
    let v: String = (0..n).map(|_| POOL[rng.below(POOL.len())]).collect();
    let src = format!("const x = <div foo={{\"{}\"}} />;\n", js_escape(&v));
    let text = match lint(&l, &src, "tsx") {
      Outcome::Ok(ds) => ds
        .iter()
        .flat_map(|d| d.fixes.iter())
        .find(|(desc, _)| desc.starts_with("Remove curly braces around JSX attribute value"))
        .and_then(|(_, ch)| ch.first().map(|c| c.2.clone())),
      Outcome::ParseErr(e) => {
        out.count(&format!("parse-error:{}", e.chars().take(30).collect::<String>()));
        continue;
      }
      Outcome::Panic(m) => {
        out.found("C01", "panic:jsx-curly-braces", &src, json!({"meta": {"src": src}, "panic": m}));
        continue;
      }
    };
    out.count(match (&text, v.contains('"'), v.contains('\'')) {
      (None, _, _) => "no-fix",
      (Some(_), false, _) => "double-quoted",
      (Some(_), true, _) => "single-quoted",
    });
    out.case(json!({"m": "fixb", "v": v}), json!({"text": text}), json!({"src": src}));
  }
  out.finish();
}
