//! C10/C11: generated structured programs.  The spy dumps the swc AST in the M-CF model's syntax together with the real
//! control-flow metadata at every statement / case / function / block position; the Lean model answers the same
//! query from `analyze`.  The model additionally computes the reference semantics (reachability / completions) and the
//! three rule layers; its verdicts are compared with the real rules' diagnostics (search for a failing input).
use crate::{Args, Out};
use dlharness::*;
use serde_json::{json, Value};

pub struct G<'a> {
  rng: &'a mut Rng,
  n: usize,
  pub feats: Vec<&'static str>,
}

#[derive(Clone, Default)]
struct Cx {
  in_fn: bool,
  in_loop: bool,
  in_switch: bool,
  labels: Vec<String>,
  loop_labels: Vec<String>,
  depth: usize,
}

impl<'a> G<'a> {
  fn id(&mut self, pre: &str) -> String {
    self.n += 1;
    format!("{}{}", pre, self.n)
  }
  fn cond(&mut self) -> String {
    match self.rng.below(14) {
      0 => {
        self.feats.push("cond-true");
        "true".into()
      }
      // always true, but evaluating it may throw (repair 6c50480): the loop is not endless for the analyzer
      12 | 13 => {
        self.feats.push("cond-true-impure");
        ["f() || true", "(f(), true)", "[f()]", "(x = 1)", "(x = {})", "!f() || 1", "({ a: f() })", "true || f()", "new C() || true", "(x.y, 1)", "tag`t` || true"]
          [self.rng.below(11)].into()
      }
      1 => "1".into(),
      2 => "false".into(),
      3 => "!0".into(),
      4 => "x".into(),
      5 => "a && b".into(),
      6 => "f()".into(),
      7 => "this".into(),
      // constants that are constants only as long as the name denotes the global
      8 => {
        self.feats.push("cond-global-constant");
        ["!undefined", "-Infinity", "Infinity", "void 0", "!void 0", "undefined", "!!Infinity"][self.rng.below(7)].into()
      }
      _ => self.id("c"),
    }
  }
  /// a class expression with a static initialisation block: statements (mostly a `throw`) evaluated in the middle of
  /// an expression, wherever that expression stands
  fn sbx(&mut self, cx: &Cx) -> String {
    self.feats.push("static-block-expr");
    let inner = Cx { in_fn: false, in_loop: false, in_switch: false, labels: vec![], loop_labels: vec![], depth: cx.depth + 2 };
    let b = match self.rng.below(4) {
      0 => "throw e;".to_string(),
      1 => "f();".to_string(),
      2 => format!("if ({}) throw e;", self.cond()),
      _ => self.block_body(&inner, 2),
    };
    format!("class {{ static {{ {} }} }}", b)
  }
  /// a test / discriminant: now and then one that holds statements
  fn cond_x(&mut self, cx: &Cx) -> String {
    if cx.depth < 5 && self.rng.chance(1, 9) {
      self.sbx(cx)
    } else {
      self.cond()
    }
  }
  fn expr(&mut self, cx: &Cx) -> String {
    if cx.depth < 5 && self.rng.chance(1, 14) {
      return self.sbx(cx);
    }
    match self.rng.below(16) {
      // an arrow function that *starts* the expression (and hence the statement, when used as one): its metadata key
      // coincides with the statement's
      14 | 15 if cx.depth < 4 => {
        self.feats.push("leading-arrow");
        let b = self.block_body(&Cx { in_fn: true, in_loop: false, in_switch: false, labels: vec![], loop_labels: vec![], depth: cx.depth + 1 }, 2);
        if self.rng.chance(1, 3) {
          format!("async () => {{ {} }}", b)
        } else {
          format!("() => {{ {} }}", b)
        }
      }
      0 => "x".into(),
      1 => "this".into(),
      2 => "f()".into(),
      3 => "a.b".into(),
      4 => "a[i]".into(),
      5 => "x = 1".into(),
      6 if cx.depth < 3 => {
        self.feats.push("nested-arrow");
        let b = self.block_body(&Cx { in_fn: true, in_loop: false, in_switch: false, labels: vec![], loop_labels: vec![], depth: cx.depth + 1 }, 2);
        format!("(() => {{ {} }})()", b)
      }
      7 if cx.depth < 3 => {
        self.feats.push("nested-fn-expr");
        let b = self.block_body(&Cx { in_fn: true, in_loop: false, in_switch: false, labels: vec![], loop_labels: vec![], depth: cx.depth + 1 }, 2);
        format!("(function () {{ {} }})", b)
      }
      8 if cx.depth < 3 => {
        self.feats.push("getter");
        let b = self.block_body(&Cx { in_fn: true, in_loop: false, in_switch: false, labels: vec![], loop_labels: vec![], depth: cx.depth + 1 }, 3);
        format!("({{ get g() {{ {} }} }})", b)
      }
      9 => "h1()".into(),
      10 => "() => x".into(),
      _ => self.id("v"),
    }
  }
  fn block_body(&mut self, cx: &Cx, max: usize) -> String {
    let k = self.rng.below(max + 1);
    let mut s = String::new();
    for _ in 0..k {
      s.push_str(&self.stmt(cx));
      s.push(' ');
    }
    s
  }
  /// a loop body; every third one follows the shape "…; <something holding a jump>; return/throw" — the combinations the
  /// loop end-reason logic has to get right (a `continue`/`break` hidden in an if, switch case, try, labelled block or
  /// inner loop, before a body that otherwise always returns or throws)
  fn loop_body(&mut self, cx: &Cx) -> String {
    if !self.rng.chance(1, 3) {
      return self.body_stmt(cx);
    }
    self.feats.push("loop-body-template");
    let pre = if self.rng.chance(1, 2) { self.stmt(cx) } else { String::new() };
    let jump = ["continue;", "break;"][self.rng.below(2)];
    let holder = match self.rng.below(8) {
      0 => format!("if ({}) {}", self.cond(), jump),
      1 => format!("if ({}) {{ f(); }} else {{ {} }}", self.cond(), jump),
      2 => format!("switch ({}) {{ case 1: {} case 2: f(); break; default: g(); }}", self.cond(), jump),
      3 => format!("switch ({}) {{ case 1: f(); default: {} }}", self.cond(), jump),
      4 => format!("try {{ if ({}) {} }} finally {{ f(); }}", self.cond(), jump),
      5 => format!("try {{ f(); }} catch (e) {{ {} }}", jump),
      6 => format!("LB: {{ if ({}) {} break LB; }}", self.cond(), jump),
      _ => format!("for (;;) {{ {} }}", jump),
    };
    let end = match self.rng.below(4) {
      0 if cx.in_fn => "return 1;".to_string(),
      1 => "throw e;".to_string(),
      2 if cx.in_fn => "return;".to_string(),
      _ => "f();".to_string(),
    };
    format!("{{ {} {} {} }}", pre, holder, end)
  }
  fn body_stmt(&mut self, cx: &Cx) -> String {
    // a loop / if body: block or single statement
    if self.rng.chance(2, 3) {
      format!("{{ {}}}", self.block_body(cx, 3))
    } else {
      let s = self.stmt(cx);
      // a function declaration directly as an if/loop body is Annex-B-only sloppy-mode syntax: keep it in a block
      if s.starts_with("function ") || s.starts_with("class ") || s.starts_with("const ") {
        format!("{{ {} }}", s)
      } else {
        s
      }
    }
  }
  pub fn stmt(&mut self, cx0: &Cx) -> String {
    let mut cx = cx0.clone();
    cx.depth += 1;
    let deep = cx.depth > 4;
    let r = self.rng.below(if deep { 12 } else { 36 });
    match r {
      0..=3 => format!("{};", self.expr(&cx)),
      4 => ";".into(),
      5 => {
        self.feats.push("var-noinit");
        format!("var {};", self.id("w"))
      }
      6 => format!("var {} = 1;", self.id("w")),
      7 if cx.in_fn => {
        self.feats.push("return");
        if self.rng.chance(1, 2) {
          "return;".into()
        } else {
          format!("return {};", self.expr(&cx))
        }
      }
      8 => {
        self.feats.push("throw");
        match self.rng.below(3) {
          0 => "throw err;".into(),
          1 => "throw new Error();".into(),
          _ => "throw 1;".into(),
        }
      }
      9 if cx.in_loop || cx.in_switch || !cx.labels.is_empty() => {
        self.feats.push("break");
        if !cx.labels.is_empty() && (self.rng.chance(1, 3) || !(cx.in_loop || cx.in_switch)) {
          self.feats.push("break-label");
          format!("break {};", cx.labels[self.rng.below(cx.labels.len())])
        } else {
          "break;".into()
        }
      }
      10 if cx.in_loop => {
        self.feats.push("continue");
        if !cx.loop_labels.is_empty() && self.rng.chance(1, 3) {
          format!("continue {};", cx.loop_labels[self.rng.below(cx.loop_labels.len())])
        } else {
          "continue;".into()
        }
      }
      11 => {
        self.feats.push("fn-decl");
        let name = if self.rng.chance(1, 2) { "h1".to_string() } else { self.id("fd") };
        let b = self.block_body(&Cx { in_fn: true, in_loop: false, in_switch: false, labels: vec![], loop_labels: vec![], depth: cx.depth }, 2);
        format!("function {}() {{ {}}}", name, b)
      }
      12..=14 => {
        self.feats.push("if");
        let c = self.cond_x(&cx);
        let a = self.body_stmt(&cx);
        if self.rng.chance(1, 2) {
          self.feats.push("if-else");
          let b = self.body_stmt(&cx);
          format!("if ({}) {} else {}", c, a, b)
        } else {
          format!("if ({}) {}", c, a)
        }
      }
      15 | 16 => {
        self.feats.push("while");
        let c = self.cond_x(&cx);
        let mut cx2 = cx.clone();
        cx2.in_loop = true;
        format!("while ({}) {}", c, self.loop_body(&cx2))
      }
      17 | 18 => {
        self.feats.push("do-while");
        let c = self.cond_x(&cx);
        let mut cx2 = cx.clone();
        cx2.in_loop = true;
        format!("do {} while ({});", self.loop_body(&cx2), c)
      }
      19 | 20 => {
        self.feats.push("for");
        let mut cx2 = cx.clone();
        cx2.in_loop = true;
        let head = match self.rng.below(11) {
          0 => ";;".to_string(),
          // the only thing that may throw is the update (seed C10-5: the update visited before the body's end is known)
          8 => ";; f()".to_string(),
          9 => "; true; g()".to_string(),
          10 => "; !0; x.y".to_string(),
          1 => format!("let i = 0; {}; i++", self.cond()),
          2 => "; true;".to_string(),
          3 => format!("; {};", self.cond_x(&cx)),
          // statements inside the update / the initialiser / the test
          5 => format!("; {}; {}", self.cond(), self.sbx(&cx)),
          6 => format!("{}; {};", self.sbx(&cx), self.cond()),
          7 => format!(";; {}", self.sbx(&cx)),
          _ => "let i = f(); i < n; i++".to_string(),
        };
        format!("for ({}) {}", head, self.loop_body(&cx2))
      }
      21 => {
        self.feats.push("for-in-of");
        let mut cx2 = cx.clone();
        cx2.in_loop = true;
        let kw = if self.rng.chance(1, 2) { "in" } else { "of" };
        let (left, right) = match self.rng.below(6) {
          0 => (format!("[a = {}]", self.sbx(&cx)), "xs".to_string()),
          1 => ("const k".to_string(), self.sbx(&cx)),
          2 => (format!("[a = {}]", self.sbx(&cx)), self.sbx(&cx)),
          _ => ("const k".to_string(), "xs".to_string()),
        };
        format!("for ({} {} {}) {}", left, kw, right, self.loop_body(&cx2))
      }
      22 | 23 => {
        self.feats.push("switch");
        let mut cx2 = cx.clone();
        cx2.in_switch = true;
        let nc = self.rng.below(4);
        let mut s = format!("switch ({}) {{ ", self.cond_x(&cx));
        let def_at = if self.rng.chance(1, 2) { Some(self.rng.below(nc + 1)) } else { None };
        for i in 0..=nc {
          if def_at == Some(i) {
            self.feats.push("switch-default");
            s.push_str("default: ");
            s.push_str(&self.block_body(&cx2, 2));
          }
          if i < nc {
            s.push_str(&format!("case {}: ", i));
            if self.rng.chance(1, 8) {
              s.push_str("{ } ");
            } else {
              s.push_str(&self.block_body(&cx2, 3));
            }
            if self.rng.chance(1, 10) {
              s.push_str("/* falls through */ ");
            }
          }
        }
        s.push('}');
        s
      }
      24 | 25 | 26 => {
        self.feats.push("try");
        let b = self.block_body(&cx, 3);
        let mut s = format!("try {{ {}}}", b);
        let shape = self.rng.below(3);
        if shape != 1 {
          self.feats.push("catch");
          let param = if self.rng.chance(1, 3) { "".to_string() } else { "(e)".to_string() };
          s.push_str(&format!(" catch {} {{ {}}}", param, self.block_body(&cx, 2)));
        }
        if shape != 0 {
          self.feats.push("finally");
          // break/continue/return inside finally are allowed syntactically
          s.push_str(&format!(" finally {{ {}}}", self.block_body(&cx, 2)));
        }
        s
      }
      27 | 28 if self.rng.chance(1, 3) => {
        // two nested labelled statements with jumps to both labels (and unlabelled ones) meeting in one region, in front
        // of a body that otherwise always returns / throws / loops; a statement after each label (seed C10-7: a summary
        // of the breaks seen that keeps one label only)
        self.feats.push("two-label-template");
        let (la, lb) = (self.id("L"), self.id("L"));
        let wrap = |k: usize, c: String| match k {
          0 => ("{ ".to_string(), " }".to_string(), false),
          1 => ("for (;;) { ".to_string(), " }".to_string(), true),
          2 => (format!("while ({}) {{ ", c), " }".to_string(), true),
          _ => ("do { ".to_string(), format!(" }} while ({});", c), true),
        };
        let (ka, kb) = (self.rng.below(4), self.rng.below(4));
        let (ca, cb) = (self.cond(), self.cond());
        let (a0, a1, a_loop) = wrap(ka, ca);
        let (b0, b1, b_loop) = wrap(kb, cb);
        let mut jumps = vec![format!("break {};", la), format!("break {};", lb)];
        if a_loop {
          jumps.push(format!("continue {};", la));
        }
        if b_loop {
          jumps.push(format!("continue {};", lb));
          jumps.push("break;".to_string());
          jumps.push("continue;".to_string());
        }
        let n = self.rng.range(2, 3);
        let mut inner = String::new();
        for i in 0..n {
          // the first two jumps go to the two labels (in either order), a third one is drawn
          let j = if i < 2 { jumps[(i + (ka + kb) % 2) % 2].clone() } else { jumps[self.rng.below(jumps.len())].clone() };
          inner.push_str(&format!("if ({}) {} ", self.cond(), j));
        }
        let end = match self.rng.below(5) {
          0 if cx.in_fn => "return 1;",
          1 => "throw e;",
          2 => "for (;;) { f(); }",
          3 if cx.in_fn => "return;",
          _ => "f();",
        };
        let mid = if self.rng.chance(1, 2) { "g();" } else { "" };
        let end_a = match self.rng.below(4) {
          0 if cx.in_fn => "return 2;",
          1 => "throw e;",
          _ => "",
        };
        format!("{}: {}{}: {}{}{}{} {} {}{} h();", la, a0, lb, b0, inner, end, b1, mid, end_a, a1)
      }
      27 | 28 => {
        self.feats.push("labeled");
        let l = self.id("L");
        let mut cx2 = cx.clone();
        cx2.labels.push(l.clone());
        let body = match self.rng.below(4) {
          0 => {
            let mut cx3 = cx2.clone();
            cx3.in_loop = true;
            cx3.loop_labels.push(l.clone());
            format!("while ({}) {}", self.cond(), self.body_stmt(&cx3))
          }
          1 => {
            let mut cx3 = cx2.clone();
            cx3.in_loop = true;
            cx3.loop_labels.push(l.clone());
            format!("for (;;) {}", self.body_stmt(&cx3))
          }
          _ => format!("{{ {}}}", self.block_body(&cx2, 3)),
        };
        format!("{}: {}", l, body)
      }
      29 if self.rng.chance(1, 3) => {
        // sloppy-mode scripts only (a module with the shadowing prelude does not parse and is skipped)
        self.feats.push("with");
        format!("with (o) {}", self.body_stmt(&cx))
      }
      29 => format!("{{ {}}}", self.block_body(&cx, 3)),
      30 => {
        self.feats.push("class");
        let name = self.id("K");
        let fcx = Cx { in_fn: true, in_loop: false, in_switch: false, labels: vec![], loop_labels: vec![], depth: cx.depth };
        let g = self.block_body(&fcx, 3);
        let m = self.block_body(&fcx, 2);
        let c = self.block_body(&fcx, 2);
        format!("class {} {{ constructor() {{ {}}} get p() {{ {}}} m() {{ {}}} static {{ f(); }} }}", name, c, g, m)
      }
      31 => {
        self.feats.push("getter-obj");
        let fcx = Cx { in_fn: true, in_loop: false, in_switch: false, labels: vec![], loop_labels: vec![], depth: cx.depth };
        let g = self.block_body(&fcx, 3);
        format!("const {} = {{ get q() {{ {}}}, set q(v) {{ f(v); }} }};", self.id("o"), g)
      }
      34 | 35 => {
        // a property descriptor: the getter among other members (generator methods, data members, a setter), in any order
        self.feats.push("getter-descriptor");
        let fcx = Cx { in_fn: true, in_loop: false, in_switch: false, labels: vec![], loop_labels: vec![], depth: cx.depth };
        let g = self.block_body(&fcx, 3);
        let others = ["*values() {}", "enumerable: true", "set(v) { f(v); }", "async *ag() {}", "configurable: false", "*[Symbol.iterator]() {}"];
        let getter = if self.rng.chance(1, 3) { format!("get: function () {{ {}}}", g) } else { format!("get() {{ {}}}", g) };
        let mut members: Vec<String> = (0..self.rng.below(3)).map(|_| others[self.rng.below(others.len())].to_string()).collect();
        let at = self.rng.below(members.len() + 1);
        members.insert(at, getter);
        format!("Object.defineProperty({}, \"k\", {{ {} }});", self.id("o"), members.join(", "))
      }
      32 => {
        self.feats.push("arrow-stmt");
        let fcx = Cx { in_fn: true, in_loop: false, in_switch: false, labels: vec![], loop_labels: vec![], depth: cx.depth };
        format!("const {} = () => {{ {}}};", self.id("ar"), self.block_body(&fcx, 2))
      }
      _ => format!("{};", self.expr(&cx)),
    }
  }
}

/// tiny programs: one function with 1-3 statements, shallow nesting (small-scope search / minimal counterexamples)
pub fn gen_small_program(rng: &mut Rng) -> (String, Vec<&'static str>) {
  let mut g = G { rng, n: 0, feats: vec![] };
  let cxf = Cx { in_fn: true, depth: 2, ..Default::default() };
  let k = g.rng.range(1, 3);
  let mut b = String::new();
  for _ in 0..k {
    b.push_str(&g.stmt(&cxf));
    b.push(' ');
  }
  let src = if g.rng.chance(1, 4) { format!("const o = {{ get a() {{ {}}} }};", b) } else { format!("function f0() {{ {}}}", b) };
  let mut f = g.feats.clone();
  f.sort();
  f.dedup();
  (src, f)
}

pub fn gen_cf_program(rng: &mut Rng) -> (String, Vec<&'static str>) {
  let mut g = G { rng, n: 0, feats: vec![] };
  let mut src = String::new();
  let top = g.rng.range(1, 4);
  for _ in 0..top {
    let cx = if g.rng.chance(2, 3) {
      let cxf = Cx { in_fn: true, depth: 0, ..Default::default() };
      let name = g.id("fn");
      let k = g.rng.range(1, 5);
      let mut b = String::new();
      for _ in 0..k {
        b.push_str(&g.stmt(&cxf));
        b.push('\n');
      }
      src.push_str(&format!("function {}() {{\n{}}}\n", name, b));
      continue;
    } else {
      Cx::default()
    };
    src.push_str(&g.stmt(&cx));
    src.push('\n');
  }
  // every sixth program is a module in which `undefined` / `Infinity` are ordinary top-level bindings of the program
  // (tests that mention them are then not constants)
  if g.rng.chance(1, 6) {
    g.feats.push("shadowed-global-constants");
    let decl = ["const undefined = 1;", "let Infinity = 0;", "var undefined = 5;", "const undefined = 0, Infinity = 0;"][g.rng.below(4)];
    src = format!("export {{}};\n{}\n{}", decl, src);
  }
  let mut f = g.feats.clone();
  f.sort();
  f.dedup();
  (src, f)
}

const RULES: &[&str] = &["no-unreachable", "getter-return", "no-fallthrough"];

const EXPR_ZOO: &[&str] = &[
  "x", "this", "(x)", "tag`t`", "tag`a${x}b`", "`a${x}`", "`t`", "1", "\"s\"", "null", "true", "/r/g", "1n", "[x]", "[]", "({})", "({ a: x })", "({ x })", "x.y", "x[y]",
  "x?.y", "x()", "x?.()", "new X", "new X()", "-x", "!x", "typeof x", "void x", "delete x.y", "x++", "--x", "x + y", "x && y", "x ?? y", "x ? y : z", "x = y",
  "x += y", "(x, y)", "class {}", "class extends X {}", "function () {}", "() => x", "async () => x", "await x", "yield x", "x as any", "x!", "<T>x", "x satisfies T",
  "import.meta", "new.target", "super.x", "import(\"m\")", "<div/>", "<div a={x}>{y}</div>", "[...x]", "({ ...x })", "x`t`", "x.y`t`", "x in y", "x instanceof y", "[x, y] = z", "({ x } = y)",
];

pub fn run_one(out: &mut Out, src: &str, ext: &str, feats: &[&'static str], case_no: usize) {
  run_one_exec(out, src, ext, feats, case_no, None)
}

/// `executed`: statement positions an engine was seen to execute (corpus/cf_exec.jsonl)
pub fn run_one_exec(out: &mut Out, src: &str, ext: &str, feats: &[&'static str], case_no: usize, executed: Option<&Value>) {
  let codes: Vec<String> = RULES.iter().map(|s| s.to_string()).collect();
  let (rules, log) = with_spy(rules_by_codes(&codes), true);
  let linter = mk_linter(rules, &Words::default());
  let res = lint(&linter, src, ext);
  for f in feats {
    out.count(&format!("feat={}", f));
  }
  out.count(&format!("outcome={}", res.tag()));
  let meta = json!({"case": case_no, "src": src, "ext": ext});
  match res {
    Outcome::Ok(ds) => {
      let spy = log.lock().unwrap().clone();
      let Some(cf) = spy.cf else { return };
      let flagged = |code: &str| -> Vec<Value> { ds.iter().filter(|d| d.code == code).map(|d| json!(d.start)).collect() };
      let sorted = |mut v: Vec<Value>| -> Vec<Value> {
        v.sort_by_key(|x| x.as_u64());
        v.dedup();
        v
      };
      let un = sorted(flagged("no-unreachable"));
      let getter_ats: Vec<u64> = cf["getters"].as_array().map(|a| a.iter().filter_map(|g| g["at"].as_u64()).collect()).unwrap_or_default();
      // getter-return also reports `return;` statements; only the per-getter reports are compared
      let ge = sorted(flagged("getter-return").into_iter().filter(|p| p.as_u64().map(|x| getter_ats.contains(&x)).unwrap_or(false)).collect());
      let ft = sorted(flagged("no-fallthrough"));
      let imp = json!({"meta": cf["meta"], "unreachable": un, "getter": ge, "fallthrough": ft});
      out.case(
        json!({"m": "cf", "prog": cf["prog"], "query": cf["query"], "getters": cf["getters"], "cases": cf["cases"],
               "impl_unreachable": un, "impl_getter": ge, "impl_fallthrough": ft, "impl_meta": cf["meta"], "executed": executed}),
        imp,
        meta,
      );
    }
    Outcome::ParseErr(_) => {}
    Outcome::Panic(m) => out.found("C01", "panic:control-flow-rules", src, json!({"meta": meta, "panic": m})),
  }
}

pub fn run(args: &Args) {
  let mut out = Out::new(&args.out, "cf");
  let mut rng = Rng::new(args.seed ^ 0xCF);
  // corpus first: the repo's own control-flow related snippets and kept regression programs
  let corpus = crate::d_scan::load_corpus();
  let mut n = 0;
  // kept regression programs always run; then a slice of the repo's own control-flow snippets
  for s in corpus.iter().filter(|s| s.rule == "cf-regression") {
    run_one(&mut out, &s.src, "js", &["regression"], n);
    n += 1;
  }
  // every kind of expression as the only thing a try block evaluates before it ends (what can throw decides whether the
  // handler and the code after the statement are reachable), with identifier operands only
  for (i, e) in EXPR_ZOO.iter().enumerate() {
    let wrap = match *e {
      x if x.contains("await ") => format!("async function z{i}() {{ try {{ return {x}; }} catch (e) {{ c(); }} a(); }}"),
      x if x.contains("yield ") => format!("function* z{i}() {{ try {{ return {x}; }} catch (e) {{ c(); }} a(); }}"),
      x if x.contains("super.") => format!("class Z{i} extends B {{ m() {{ try {{ return {x}; }} catch (e) {{ c(); }} a(); }} }}"),
      x => format!("function z{i}() {{ try {{ return {x}; }} catch (e) {{ c(); }} a(); }}
function y{i}() {{ try {{ {x}; throw e; }} catch {{ c(); }} finally {{ f(); }} a(); }}
const o{i} = {{ get g() {{ try {{ return {x}; }} catch {{ }} }} }};
function w{i}(s) {{ switch (s) {{ case 0: try {{ var v{i} = {x}; break; }} catch {{ }} case 1: f(); }} }}"),
    };
    let ext = if e.contains("<div") { "tsx" } else { "ts" };
    run_one(&mut out, &wrap, ext, &["expression-zoo"], n);
    n += 1;
  }
  // programs with the statements node really executed (under random oracles for their free names; recorded once by
  // tools/cf_exec_record.js): a seed-dependent window in the quick tier, all of them in the thorough one
  {
    let text = std::fs::read_to_string("/verif/corpus/cf_exec.jsonl").unwrap_or_default();
    let lines: Vec<&str> = text.lines().collect();
    if lines.is_empty() {
      out.found("C10", "execution-corpus-missing", "", json!({}));
    } else {
      let k = if args.count >= 20000 { lines.len() } else { (args.count / 8).min(lines.len()) };
      let start = (args.seed as usize).wrapping_mul(7919) % lines.len();
      for i in 0..k {
        let Ok(j) = serde_json::from_str::<Value>(lines[(start + i) % lines.len()]) else { continue };
        let Some(src) = j["src"].as_str() else { continue };
        // a class static block is analysed, and specified, as a scope of its own (repair a361149): an exception that
        // leaves it is not seen as leaving the class definition.  The analyzer is conservative there (what may throw
        // inside the block counts for the enclosing try), the reference is not faithful there: such programs take part in
        // the correspondence and the flagged-vs-reachable oracle, not in this one.
        if src.contains("static {") {
          out.count("recorded-execution-skipped:static-block");
          run_one(&mut out, src, "js", &["recorded-execution"], n);
          n += 1;
          continue;
        }
        run_one_exec(&mut out, src, "js", &["recorded-execution"], n, Some(&j["executed"]));
        out.add("recorded-executed-statements", j["executed"].as_array().map(|a| a.len()).unwrap_or(0) as u64);
        n += 1;
      }
    }
  }
  let mut m = 0;
  for s in corpus.iter().filter(|s| ["no-unreachable", "getter-return", "no-fallthrough"].contains(&s.rule.as_str())) {
    if m >= args.count / 4 {
      break;
    }
    run_one(&mut out, &s.src, "ts", &["corpus"], n);
    n += 1;
    m += 1;
  }
  for case_no in 0..args.count {
    let mut crng = rng.fork();
    let small = args.opts.get("small").map(|s| s == "1").unwrap_or(false) || case_no % 3 == 2;
    let (src, feats) = if small { gen_small_program(&mut crng) } else { gen_cf_program(&mut crng) };
    run_one(&mut out, &src, "js", &feats, case_no);
  }
  out.finish();
}
