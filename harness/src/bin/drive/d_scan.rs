//! Search on the implementation itself (no model): metamorphic / well-formedness oracles over the repo's own
//! test snippets and recombinations of them.  `--opt props=C01,C03,...` selects the oracles.
//! This is differential/metamorphic *testing*: it supports the theorems, it does not replace them.
use crate::{Args, Out};
use deno_ast::diagnostics::Diagnostic;
use deno_ast::{MediaType, ParsedSource};
use deno_lint::diagnostic::LintDiagnostic;
use deno_lint::linter::*;
use dlharness::*;
use serde_json::{json, Value};
use std::collections::BTreeSet;
use std::panic::{catch_unwind, AssertUnwindSafe};

pub struct Snip {
  pub rule: String,
  pub src: String,
}

/// syntactic forms that the rules' own test snippets rarely contain: declaration-only TypeScript (ambient declarations,
/// overload signatures, abstract members: functions and methods **without a body**), unusual class members, modern
/// operators, module forms.  One program each; they are also mixed into recombined programs.
pub const ODDITIES: &[&str] = &[
  "function dec(o: unknown) { return (..._: unknown[]) => {}; }\nexport class Dk1 { @dec({ get name() { return \"y\"; } }) y = 1; @dec({ get n() { } }) static z = 2; @dec({ get m() { return 1; } }) w; }",
  "function dec(o: unknown) { return (..._: unknown[]) => {}; }\n@dec({ get c() { return 1; } }) class Dk2 { @dec(() => { switch (1) { case 1: f(); case 2: g(); } }) m() {} @dec({ get a() { return 1; } }) accessor q = 1; constructor(@dec({ get p() { return 2; } }) x: number) {} }",
  "const dk1 = { get a() { return 1; }, get a() { return 2; }, set b(v) {}, set b(v) {}, get c() { return 1; }, get c() { return 3; }, d: 1, d: 2, set e(v) {}, get e() { return 1; }, set e(w) {} };",
  "class Dk3 { a() {} a() {} b() {} b() {} get c() { return 1; } get c() { return 2; } static d() {} static d() {} }\nfunction dk4(a, b, a, c, b, c) {}\nswitch (x) { case 1: case 2: case 1: case 2: case 3: case 3: break; }",
  "class Sq1 extends B { constructor(e) { super(e), this.init(e); } }",
  "class Sq2 extends B { constructor(e) { super(e) || fail(e); const t = `${this.x}${log(e)}`; } }",
  "class Sq3 extends B { constructor(e) { super() ? ok(e) : no(e, f(e)); this.m(g(h(e))); } }",
  "class Sq4 extends B { constructor(e) { if (e) { super(f(e)); } else { super(); } this.m(g(e)), super.n(e); } }",
  "class Sq5 extends B { constructor(e) { const a = [super(e), mk(e)], o = { k: make(this, e) }; new K(super.x, q(e)); } }",
  "class ñandu_bird {}\ninterface ünit_test {}\nenum π_kind { a_b, ß_c }",
  "type é_t = number;\nnamespace ß_ns { export const q_r = 1; }\nfunction ǆ_f(ñ_p: number) { return ñ_p; }",
  "const 𝒜_b = 1, ｆ_g = 2;\nclass Ünï_Code { ñ_m() {} static é_s = 1; #π_p = 2; }",
  "declare var dv1: number;",
  "export declare var dv2: string, dv3: number;",
  "declare let dl1: number;\ndeclare const dc1: 1;",
  "declare function df1(): void;\ndeclare class Dc2 { m(): void }",
  "declare enum De1 { A }\nexport declare namespace Dn1 { var q: number; }",
  "export default abstract class Da1 { abstract m(): void }",
  "declare module \"amb\" { var inner: number; export function f(): void; }",
  "/** @jsxRuntime bogus */\nconst a = 1;",
  "/* @jsx a..b */\nconst a = <div/>;",
  "/*\n * @jsxFrag class\n */\nconst a = <></>;",
  "/** @jsxRuntime classic @jsx h. */\nexport {};",
  "declare function* g1(): Generator<number>;",
  "function* g2(a: string): Generator<string>;\nfunction* g2(a: any) { yield a; }",
  "abstract class A1 { abstract *walk(): Generator<number>; abstract m(): void; abstract get p(): number; abstract set p(v: number); }",
  "class C1 { *items(): Generator<number>;\n *items() { yield 1; } }",
  "declare class D1 { constructor(x: number); m(): void; get p(): number; set p(v: number); static s: number; }",
  "declare namespace N1 { function f(): void; const c: number; class K {} }",
  "declare module \"m1\" { export function f(): void; export default function (): void; }",
  "declare global { interface Window { x: number } }\nexport {};",
  "export declare const dc: number;\nexport declare function df(): void;\nexport declare class DC {}",
  "function over(a: string): void;\nfunction over(a: number): void;\nfunction over(a: any) {}\nover(1);",
  "class C2 { constructor(a: string); constructor(a: any) {} m(a: string): void; m(a: any) {} }",
  "export default function (a: string): void;\nexport default function (a: any) {}",
  "async function af(): Promise<void>;\nasync function af() { await 1; }",
  "declare function getter(): { get x(): number };",
  "interface I1 { *g(): Generator; get p(): number; set p(v: number); new (): I1; (): void; [k: string]: any; readonly r?: number; }",
  "type T1 = { m?(): void; readonly [K in keyof U]?: U[K] };\ntype T2<T> = T extends (infer R)[] ? R : never;",
  "enum E1 { A = 1, B = A + 1, C = \"c\".length }\nconst enum E2 { X }\ndeclare enum E3 { Y }",
  "import type { T } from \"t\";\nimport { type U, v } from \"u\";\nexport type { T };\nexport { type U };",
  "import x = require(\"x\");\nexport = x;",
  "export as namespace NS;\nexport * as ns from \"n\";\nexport * from \"n2\";",
  "import def, * as all from \"m\";\nimport {} from \"e\";\nimport \"side\";\nimport j from \"./j.json\" with { type: \"json\" };",
  "async function* ag(s: any) { for await (const v of s) yield* v; }",
  "class C3 { static { this.x = 1; } #p = 1; static #q: number; accessor a = 1; declare d: number; static async *#g() {} get #x() { return 1; } }",
  "class C4 extends B { override o() { super.o(); } constructor(private readonly a: number, public b?: string) { super(); } }",
  "class C5<T> implements I { [Symbol.iterator]() {} [\"computed\"] = 1; 123() {} \"str\"() {} static name = 1; }",
  "label: for (;;) { inner: { break inner; } continue label; }",
  "x = new.target;\ny = import.meta.url;\nz = await import(\"m\");",
  "a ?? b; a?.b?.[c]?.(d); a ||= b; a &&= b; a ??= b; a **= 2; a >>>= 1;",
  "x = 1_000n; y = 0b1010; z = 0o17; w = .5e-3; v = 0xFFn;",
  "x = /(?<n>a)\\k<n>/u; y = /[\\p{L}--[a-z]]/v; z = /a/dgimsuy;",
  "function f(this: Window, ...rest: number[]) { return this; }",
  "let x: typeof import(\"m\");\nlet y = <const>[\"a\"];\nlet z = a satisfies B;\na!;\nconst g = <T,>(x: T) => x;",
  "function assertIsString(v: any): asserts v is string {}\nfunction isS(v: any): v is string { return true; }",
  "@dec class C6 { @dec m(@dec p: any) {} @dec accessor a = 1; }",
  "using u = f();\nasync function h() { await using v = g(); }",
  "for (using r of rs) {}\nfor (const [a, { b = 1, ...c }] of xs) {}\nfor (x.y in z) {}\nfor (var i = 0, j = 1; ; ) break;",
  "switch (a) { default: case 1: { let x; } case 2: }",
  "try {} catch {} finally {}\ntry { } catch ({ message: [m] }) { }",
  "if (a) ; else ;\nwhile (a) ;\ndo ; while (a);\nfor (;;) ;",
  "({ __proto__: null, get a() { return 1; }, set a(v) {}, async *[Symbol.asyncIterator]() {}, ...rest, b, \"c\": 1, 2: 3, [d]: 4 });",
  "const { a = 1, b: { c, ...d }, ...e } = o;\nconst [f, , g = 2, ...h] = p;\n[a, b] = [b, a];\n({ a, b } = o);",
  "x = a ? b : c ? d : e;\ny = (1, 2, 3);\nz = void 0;\nw = typeof typeof a;\nv = delete a.b;\nu = a in b;\nt = a instanceof B;",
  "tag`a${b}c${d}`;\nx = `a${`b${c}`}`;\nString.raw`\\n`;",
  "function* gen() { const x = yield; yield* inner(); return yield 1; }",
  "async () => { await (async () => {})(); for await (const x of y) {} };",
  "x = class {};\ny = class Named extends (a, b) {};\nz = function* () {};\nw = async function named() {};",
  "var v1 = 1, v2;\nlet l1, l2 = 2;\nconst c1 = 1, c2 = 2;",
  "\"use strict\";\n\"another directive\";\n'use asm';",
  "#!/usr/bin/env -S deno run\nconsole.log(1);",
  "/** @jsx h */\n/** @jsxFrag Fragment */\n/** @jsxImportSource preact */\nconst e = <><a.b.c d:e=\"f\" {...g}>{/* c */}{...h}</a.b.c></>;",
  "const e = <div data-x aria-label=\"y\" {...p} key={k}>text &amp; {\"str\"} <br/> {cond ? <a/> : null}</div>;",
  "const e = <A<string> prop={1} />;\nconst f = <ns:tag attr:x=\"1\" />;",
  "namespace A.B.C { export const x = 1; }\nmodule M { }",
  "abstract class AC { protected abstract readonly x: number; private static y?: string; constructor(protected z = 1) { } }",
  "function f<const T extends readonly unknown[]>(x: T): T { return x; }\ntype G = typeof f<string[]>;",
  "let a: [x: number, y?: string, ...rest: boolean[]];\nlet b: new () => void;\nlet c: abstract new () => void;\nlet d: unique symbol;",
  "let o = { m<T>(this: T) {}, async *n() {}, get [k]() { return 1; } };",
  "export default class {}\n",
  "export default async function* () {}\n",
  "export { a as default, b as \"string name\" };\nimport { \"string name\" as sn } from \"m\";",
  "if (a) function decl() {}\n",
  "debugger;;;\n{};\n;",
  "a\n++\nb\nreturn\n",
  "x = a\n/re/g.test(b)\n",
  "var \\u0061bc = 1; ab\\u{63} = 2;",
  "var 𠮷 = 1; var ℮ = 2; var ·x = 3;",
  "<!-- html comment\nx = 1; --> also comment\n",
];

pub fn load_corpus() -> Vec<Snip> {
  let mut v = vec![];
  for o in ODDITIES {
    v.push(Snip { rule: "oddity".to_string(), src: o.to_string() });
  }
  if let Ok(s) = std::fs::read_to_string("/verif/build/corpus/snippets.jsonl") {
    for l in s.lines() {
      if let Ok(j) = serde_json::from_str::<Value>(l) {
        v.push(Snip { rule: j["rule"].as_str().unwrap_or("").to_string(), src: j["src"].as_str().unwrap_or("").to_string() });
      }
    }
  }
  if let Ok(s) = std::fs::read_to_string("/verif/corpus/programs.jsonl") {
    for l in s.lines() {
      if let Ok(j) = serde_json::from_str::<Value>(l) {
        v.push(Snip { rule: j["rule"].as_str().unwrap_or("").to_string(), src: j["src"].as_str().unwrap_or("").to_string() });
      }
    }
  }
  v
}

pub enum Full {
  Ok(ParsedSource, Vec<LintDiagnostic>),
  ParseErr,
  Panic(String),
}

pub fn lint_full(l: &Linter, src: &str, ext: &str, cfg: &Cfg) -> Full {
  let spec = spec_for(ext);
  let mt = MediaType::from_specifier(&spec);
  let r = catch_unwind(AssertUnwindSafe(|| {
    l.lint_file(LintFileOptions {
      specifier: spec.clone(),
      source_code: src.to_string(),
      media_type: mt,
      config: LintConfig { default_jsx_factory: cfg.jsx_factory.clone(), default_jsx_fragment_factory: cfg.jsx_fragment_factory.clone() },
      external_linter: None,
    })
  }));
  match r {
    Ok(Ok((p, d))) => Full::Ok(p, d),
    Ok(Err(_)) => Full::ParseErr,
    Err(e) => Full::Panic(panic_msg(e)),
  }
}

const FIX_RULES: &[&str] = &["jsx-boolean-value", "jsx-curly-braces", "jsx-no-unescaped-entities", "jsx-props-no-spread-multi", "no-node-globals", "no-process-global", "no-window", "no-window-prefix", "verbatim-module-syntax"];
const CHAR_LEVEL_RULES: &[&str] = &["prefer-ascii", "no-irregular-whitespace"];
const DIRECTIVE_SENSITIVE: &[&str] = &["ban-untagged-ignore", "ban-unused-ignore", "ban-unknown-rule-code"];

fn wrap(rng: &mut Rng, s: &str, n: usize) -> String {
  match rng.below(8) {
    0 => format!("function w{}() {{\n{}\n}}", n, s),
    1 => format!("{{\n{}\n}}", s),
    2 => format!("if (c{}) {{\n{}\n}}", n, s),
    3 => format!("class K{} {{ m() {{\n{}\n}} }}", n, s),
    4 => format!("const a{} = () => {{\n{}\n}};", n, s),
    _ => s.to_string(),
  }
}

const PAYLOAD: &[&str] = &["a", "b c", " ", ">", "}", "\"", "'", "&lt;", "&gt;", "&amp;", "&#123;", "&#60;", "&quot;", "\\", "😀", "é", "1 > 0", "x}", "-", "=>", "&nbsp;", "&#x7b;"];

fn payload(rng: &mut Rng, must: &[&str]) -> String {
  let n = rng.range(1, 6);
  let mut v: Vec<String> = (0..n).map(|_| PAYLOAD[rng.below(PAYLOAD.len())].to_string()).collect();
  if !must.is_empty() {
    let at = rng.below(v.len() + 1);
    v.insert(at, must[rng.below(must.len())].to_string());
  }
  v.join("")
}

/// words the non-ASCII respelling leaves alone: keywords, contextual keywords and the globals rules look for
const NOT_RENAMED: &[&str] = &[
  "do", "if", "in", "for", "let", "new", "try", "var", "case", "else", "enum", "null", "this", "true", "void", "with", "break", "catch", "class", "const", "false", "super",
  "throw", "while", "yield", "delete", "export", "import", "public", "return", "static", "switch", "typeof", "default", "extends", "finally", "package", "private",
  "continue", "debugger", "function", "interface", "protected", "implements", "instanceof", "of", "as", "is", "any", "get", "set", "type", "from", "async", "await", "never",
  "number", "object", "string", "symbol", "unknown", "boolean", "declare", "keyof", "infer", "unique", "readonly", "abstract", "namespace", "module", "global", "require",
  "asserts", "satisfies", "out", "using", "accessor", "override", "bigint", "undefined", "constructor", "NaN", "Infinity", "arguments", "eval",
];

fn replace_ident(s: &str, from: &str, to: &str) -> String {
  let is_id = |c: char| c.is_alphanumeric() || c == '_' || c == '$';
  let mut out = String::new();
  let mut i = 0;
  while i < s.len() {
    if s[i..].starts_with(from) {
      let before = s[..i].chars().next_back().map_or(false, is_id);
      let after = s[i + from.len()..].chars().next().map_or(false, is_id);
      if !before && !after {
        out.push_str(to);
        i += from.len();
        continue;
      }
    }
    let c = s[i..].chars().next().unwrap();
    out.push(c);
    i += c.len_utf8();
  }
  out
}

/// programs that trigger the fix-providing rules, with hostile payloads in the text the fix has to re-emit
/// import / export programs for verbatim-module-syntax: every import form x how each binding is used (as a value, in
/// a type, in `typeof`, not at all) x how it is exported again (`export { x }`, renamed, `export type`, default, not)
pub fn gen_verbatim_program(rng: &mut Rng) -> String {
  let mut out = String::new();
  let mut names: Vec<String> = vec![];
  let n_imports = rng.range(1, 3);
  for i in 0..n_imports {
    let (d, ns, a, b) = (format!("def{}", i), format!("ns{}", i), format!("Aa{}", i), format!("bb{}", i));
    let line = match rng.below(9) {
      0 => { names.push(d.clone()); format!("import {} from \"m{}\";", d, i) }
      1 => { names.push(ns.clone()); format!("import * as {} from \"m{}\";", ns, i) }
      2 => { names.push(a.clone()); names.push(b.clone()); format!("import {{ {}, {} }} from \"m{}\";", a, b, i) }
      3 => { names.push(d.clone()); names.push(a.clone()); format!("import {}, {{ {} }} from \"m{}\";", d, a, i) }
      4 => { names.push(d.clone()); names.push(a.clone()); format!("import {}, {{ type {} }} from \"m{}\";", d, a, i) }
      5 => { names.push(a.clone()); names.push(b.clone()); format!("import {{ type {}, {} }} from \"m{}\";", a, b, i) }
      6 => { names.push(d.clone()); names.push(ns.clone()); format!("import {}, * as {} from \"m{}\";", d, ns, i) }
      7 => { names.push(a.clone()); format!("import {{ orig as {} }} from \"m{}\";", a, i) }
      _ => { names.push(a.clone()); format!("import type {{ {} }} from \"m{}\";", a, i) }
    };
    out.push_str(&line);
    out.push('\n');
  }
  for (k, n) in names.iter().enumerate() {
    match rng.below(7) {
      0 => out.push_str(&format!("use({});\n", n)),
      1 => out.push_str(&format!("let t{}: {};\n", k, n)),
      2 => out.push_str(&format!("let q{}: typeof {};\n", k, n)),
      3 => out.push_str(&format!("type T{} = {} | null;\n", k, n)),
      4 => out.push_str(&format!("let t{}: {}; use({});\n", k, n, n)),
      _ => {}
    }
  }
  for (k, n) in names.iter().enumerate() {
    match rng.below(9) {
      0 | 1 => out.push_str(&format!("export {{ {} }};\n", n)),
      2 => out.push_str(&format!("export {{ {} as api{} }};\n", n, k)),
      3 => out.push_str(&format!("export type {{ {} }};\n", n)),
      4 => out.push_str(&format!("export {{ type {} }};\n", n)),
      5 if k == 0 => out.push_str(&format!("export default {};\n", n)),
      _ => {}
    }
  }
  if rng.chance(1, 4) {
    out.push_str("export { x } from \"other\";\n");
  }
  out
}

/// every position a reference to a global can stand in, for the rules whose fix rewrites or imports that global: whatever
/// the rule reports there, each fix alone must leave text that parses (seed C13-7: a JSX member-expression tag names its
/// object twice, `<G.Foo>x</G.Foo>`, and a fix that renames one of the two breaks the element)
const GLOBAL_REF_SHAPES: &[&str] = &[
  "$.foo;", "$[\"foo\"];", "typeof $;", "$?.foo;", "new $.Foo();", "const { a } = $;", "({ $ });", "[$][0];", "f($, $);", "`${$}`;", "tag`${$.x}`;",
  "class A9 extends $.Base {}", "x9 = $ ?? $.y;", "($ as any).foo;", "let t9: typeof $.x;", "$!.foo;", "for (const k in $) {}", "label9: $.foo;",
  "const e9 = <$.Foo>x</$.Foo>;", "const e9 = <$.ui.Panel a=\"1\">{$.x}</$.ui.Panel>;", "const e9 = <$.Foo />;", "const e9 = <div a={$.b} {...$}>{$}</div>;",
  "const e9 = <><$.A></$.A><$.B/></>;", "const e9 = <a.$.C>x</a.$.C>;", "@$.dec class D9 {}", "export default $;", "if ($) $.a; else $.b;",
];

pub fn gen_fix_program(rng: &mut Rng) -> (String, String) {
  if rng.chance(1, 8) {
    let (rule, g) = [("no-window", "window"), ("no-window-prefix", "window"), ("no-process-global", "process"), ("no-node-globals", "Buffer"), ("no-node-globals", "global"), ("no-node-globals", "setImmediate")][rng.below(6)];
    let n = rng.range(1, 2);
    let body: Vec<String> = (0..n).map(|_| GLOBAL_REF_SHAPES[rng.below(GLOBAL_REF_SHAPES.len())].replace('$', g)).collect();
    let head = ["", "import a from \"b\";\n", "// c\n"][rng.below(3)];
    return (rule.into(), format!("{}{}", head, body.join("\n")));
  }
  if rng.chance(1, 6) {
    return ("verbatim-module-syntax".into(), gen_verbatim_program(rng));
  }
  if rng.chance(1, 10) {
    // a line directive above the first statement suppresses one finding; the fix of another one must leave it there
    // (also several directives stacked on consecutive lines above it)
    let head = ["", "// header\n", "#!/usr/bin/env deno\n", "/* licence */\n\n", "// deno-lint-ignore no-explicit-any\n", "// deno-lint-ignore no-var\n// deno-lint-ignore eqeqeq\n", "// header\n// deno-lint-ignore no-empty\n"][rng.below(7)];
    return match rng.below(3) {
      0 => ("no-node-globals".into(), format!("{}// deno-lint-ignore no-node-globals\nconst a = Buffer;\nconst b = setImmediate;\n", head)),
      1 => ("no-process-global".into(), format!("{}// deno-lint-ignore no-process-global\nconst a = process.env;\nprocess.exit(1);\n", head)),
      _ => ("no-node-globals".into(), format!("{}// deno-lint-ignore no-node-globals no-process-global\nf(Buffer, process);\nclearImmediate(process.pid);\n", head)),
    };
  }
  match rng.below(12) {
    0 | 1 | 2 => ("jsx-no-unescaped-entities".into(), format!("const a = <div>{}</div>;", payload(rng, &[">", "}"]).replace('"', "q"))),
    3 | 4 => ("jsx-curly-braces".into(), format!("const a = <div foo={{\"{}\"}} />;", payload(rng, &[]).replace('\\', "\\\\").replace('"', "\\\""))),
    5 => {
      // the literal's *value* decides what may lose its braces; special characters may be written as escapes
      let mut p = payload(rng, &[]).replace('\\', "").replace('"', "'");
      if rng.chance(1, 2) {
        let esc = ["\\x3c", "\\u003C", "\\x7b", "\\x7d", "\\u{3e}", "\\x3e y", "\\u007B", "\\x26amp;", "\\n", "\\u00e9"][rng.below(10)];
        let at = rng.below(p.chars().count() + 1);
        let cs: Vec<char> = p.chars().collect();
        p = format!("{}{}{}", cs[..at].iter().collect::<String>(), esc, cs[at..].iter().collect::<String>());
      }
      let tail = ["", "<b/>", " text", "{x}"][rng.below(4)];
      ("jsx-curly-braces".into(), format!("const a = <div>{{\"{}\"}}{}</div>;", p, tail))
    }
    6 => ("jsx-boolean-value".into(), format!("const a = <Foo {}={{true}} b />;", ["bar", "data-x", "aria-hidden"][rng.below(3)])),
    7 => ("jsx-props-no-spread-multi".into(), "const a = <div {...p} x=\"1\" {...p} {...q} {...p} />;".into()),
    8 => ("no-window".into(), format!("{}window.{}; function f() {{ return window.location; }}", if rng.chance(1, 2) { "" } else { "const x = 1;\n" }, ["foo", "fetch()", "x.y"][rng.below(3)])),
    9 => ("no-window-prefix".into(), format!("window.{}();", ["fetch", "alert", "addEventListener"][rng.below(3)])),
    10 => {
      // with and without imports before the use; what follows the last import on its line may be a construct that
      // continues on the next line (block comment, template, a statement broken over lines); for each of the
      // import-adding rules
      let (rule, use_, g) = match rng.below(3) {
        0 => ("no-process-global", format!("const e = process.{}; process.exit(1);", ["env.X", "argv", "cwd()"][rng.below(3)]), "process.argv"),
        1 => ("no-node-globals", "const e = Buffer.from(\"x\"); f(Buffer);".to_string(), "Buffer"),
        _ => ("no-node-globals", "setImmediate(() => {}); clearImmediate(1);".to_string(), "setImmediate"),
      };
      let src = match rng.below(17) {
        0 => use_,
        // only white space follows the last import on its line, and it is not one byte wide
        14 => format!("import a from \"b\";\u{a0}\n{}", use_),
        15 => format!("import a from \"b\"\u{3000}\u{a0}\n{}", use_),
        16 => format!("import a from \"b\";\u{2003}\r\n{}", use_),
        // the character right after the last import is not one byte long
        11 => format!("import a from \"b\";\u{3000}{}", use_),
        12 => format!("import a from \"b\";\u{a0}// c\n{}", use_),
        13 => format!("import a from \"b\"\u{2028}{}", use_),
        1 => format!("import a from \"b\";\n{}", use_),
        2 => format!("import a from \"b\"; /* the entry point\n of the tool */\n{}", use_),
        3 => format!("import a from \"b\"; const usage = `\n ${{a}} ${{{}}}\n`;", g),
        4 => format!("import a from \"b\"; // trailing\nimport c from \"d\"; f(\n  {},\n);", g),
        5 => format!("import a from \"b\"; const s = \"x\\\n y\"; {}", use_),
        8 => format!("{}\nimport late from \"./late.ts\";\nf(late);", use_),
        9 => format!("const b = Buffer.from(\"x\");\n{}\nimport late from \"./late.ts\";\nf(late, b);", use_),
        6 => format!("import z from \"z\";\ndeclare module \"x\" {{ import y from \"y\"; }}\n{}", use_),
        7 => format!("declare module \"x\" {{ import y from \"y\"; }}\n{}", use_),
        _ => format!("import {{\n  a,\n}} from \"b\"; let v =\n  {};", g),
      };
      (rule.into(), src)
    }
    _ => ("no-node-globals".into(), format!("const b = {}; {}", ["Buffer.from(\"x\")", "global.y", "setImmediate(() => {})"][rng.below(3)], ["clearImmediate(1);", "Buffer;", ""][rng.below(3)])),
  }
}

pub fn gen_program(rng: &mut Rng, corpus: &[Snip]) -> (String, String) {
  if rng.chance(1, 5) {
    // a file with ignore directives (incl. the first-line corner)
    use dlharness::gen::*;
    let o = DirGenOpts { file_word: "deno-lint-ignore-file", line_word: "deno-lint-ignore", decoys: vec![], ts: true };
    let df = if rng.chance(1, 3) { first_line_variant(rng, &o) } else { directive_file(rng, &o) };
    return ("directives".into(), df.src);
  }
  let k = rng.range(1, 4);
  let mut parts = vec![];
  let mut rule = String::new();
  for i in 0..k {
    let s = &corpus[rng.below(corpus.len())];
    if i == 0 {
      rule = s.rule.clone();
    }
    parts.push(wrap(rng, &s.src, i));
  }
  (rule, parts.join("\n"))
}

fn attribute_panic(src: &str, ext: &str) -> String {
  for code in all_codes() {
    let l = mk_linter(rules_by_codes(&[code.clone()]), &Words::default());
    if let Outcome::Panic(_) = lint(&l, src, ext) {
      return code;
    }
  }
  "<no single rule>".into()
}

pub fn run(args: &Args) {
  let mut out = Out::new(&args.out, "scan");
  let mut rng = Rng::new(args.seed ^ 0x5CA4);
  let props: BTreeSet<String> = args.opts.get("props").map(|s| s.split(',').map(|x| x.to_string()).collect()).unwrap_or_default();
  let want = |p: &str| props.is_empty() || props.contains(p);
  let corpus = load_corpus();
  if corpus.is_empty() {
    eprintln!("empty corpus");
    std::process::exit(3);
  }
  let all = mk_linter(rules_by_codes(&all_codes()), &Words::default());
  // stratify the corpus by rule: for every rule the snippets on which that rule (alone) reports something
  let mut by_rule: std::collections::BTreeMap<String, Vec<usize>> = Default::default();
  {
    let mut linters: std::collections::BTreeMap<String, Linter> = Default::default();
    for (i, sn) in corpus.iter().enumerate() {
      if !all_codes().contains(&sn.rule) {
        continue;
      }
      let l = linters.entry(sn.rule.clone()).or_insert_with(|| mk_linter(rules_by_codes(&[sn.rule.clone()]), &Words::default()));
      let ext = if sn.rule.starts_with("jsx") || sn.rule.starts_with("react") || sn.src.contains("</") || sn.src.contains("/>") { "tsx" } else { "ts" };
      if let Outcome::Ok(d) = lint(l, &sn.src, ext) {
        if !d.is_empty() {
          by_rule.entry(sn.rule.clone()).or_default().push(i);
        }
      }
    }
  }
  let strata: Vec<&Vec<usize>> = by_rule.values().collect();
  out.add("rules-with-triggering-snippets", strata.len() as u64);
  // prelude for the properties about fixes: every snippet of every fix-providing rule, with every token gap mutated
  // (mode by turns: multi-byte white space / no white space / comment) — fixes do range arithmetic on the text
  let mut forced: Vec<(String, String)> = vec![];
  if !props.is_empty() && (props.contains("C03") || props.contains("C13")) {
    let mut frng = Rng::new(args.seed ^ 0xF0CE);
    for (i, sn) in corpus.iter().filter(|sn| FIX_RULES.contains(&sn.rule.as_str())).enumerate() {
      let e = if sn.rule.starts_with("jsx") || sn.src.contains("</") || sn.src.contains("/>") { "tsx" } else { "ts" };
      if let Some(m) = exotic_whitespace(&mut frng, &sn.src, e, true, Some((i + args.seed as usize) % 3)) {
        forced.push((sn.rule.clone(), m));
      }
    }
    // …and what follows the last import on its line, for the import-adding fixes: nothing, white space of one, two or
    // three bytes, a comment, a statement (seed C03-7, rebased: the insertion point computed one *byte* behind the import)
    for (rule, use_) in [("no-process-global", "const e = process.env;"), ("no-node-globals", "const e = Buffer.from(\"x\");"), ("no-node-globals", "setImmediate(() => {});")] {
      for tail in ["", ";", "; ", ";\u{a0}", "\u{3000}", ";\u{2003}\u{a0} ", "; // c", ";\u{a0}// c", "; f();", ";\u{3000}f();", "\u{2028}"] {
        for nl in ["\n", "\r\n"] {
          forced.push((rule.to_string(), format!("import a from \"b\"{}{}{}", tail, nl, use_)));
        }
      }
    }
    out.add("forced-gap-mutated-fix-snippets", forced.len() as u64);
  }
  // for the properties about rule independence / determinism / fixes: programs in which several fix-providing rules
  // meet, with the imports before, between and after the uses (a fix that inserts an import looks for them)
  if props.is_empty() || props.contains("C04") || props.contains("C02") || props.contains("C13") {
    let mut frng = Rng::new(args.seed ^ 0xC0557);
    let parts = [
      "import a from \"./a.ts\";", "import z, { y } from \"z\";", "const e = process.env;", "process.exit(1);", "const b = Buffer.from(\"x\");",
      "window.foo;", "setImmediate(() => {});", "f(a, z, y);", "const g = global.g;", "window.fetch(\"u\");", "export const q = process.argv;",
    ];
    let n = args.count / 10 + 12;
    for _ in 0..n {
      let k = frng.range(2, 6);
      let mut v: Vec<&str> = (0..k).map(|_| parts[frng.below(parts.len())]).collect();
      v.dedup();
      forced.push(("no-process-global".to_string(), v.join("\n")));
    }
    out.add("forced-cross-rule-fix-programs", n as u64);
  }
  let ml_jsx: Vec<usize> = corpus.iter().enumerate().filter(|(_, sn)| sn.src.contains('\n') && (sn.src.contains("</") || sn.src.contains("/>"))).map(|(i, _)| i).collect();
  let replay: Option<Value> = args.opts.get("replay").and_then(|p| std::fs::read_to_string(p).ok()).and_then(|s| serde_json::from_str(&s).ok());
  for case_no in 0..args.count {
    let mut crng = rng.fork();
    // the first third of the budget walks the corpus in a seed-dependent stride; the rest recombines
    let (rule, src) = if let Some(r) = &replay {
      (r["failing_input"]["rule"].as_str().unwrap_or("").to_string(), r["failing_input"]["src"].as_str().unwrap_or("").to_string())
    } else if case_no % 3 == 0 && case_no / 3 < forced.len() {
      out.count("kind=forced-gap-mutated");
      forced[case_no / 3].clone()
    } else if want("C09") && case_no % 5 == 2 && case_no / 5 < ml_jsx.len() {
      // every multi-line JSX snippet of the corpus, in turn: line breaks inside JSX text are where the parser's
      // own line-ending normalisation (value vs raw) matters
      out.count("kind=multi-line-jsx");
      let s = &corpus[ml_jsx[(case_no / 5 + args.seed as usize) % ml_jsx.len()]];
      (s.rule.clone(), s.src.clone())
    } else if want("C09") && case_no % 9 == 4 {
      // JSX with an in-file pragma: what stands in front of the pragma comment must not matter
      use crate::d_cfg::{IMPORTS, JSX_BODIES, PRAGMAS};
      out.count("kind=jsx-pragma-program");
      let pr = PRAGMAS[1 + crng.below(PRAGMAS.len() - 1)];
      ("no-unused-vars".to_string(), format!("{}{}\n{}\n{}\n", pr, IMPORTS[crng.below(IMPORTS.len())], JSX_BODIES[crng.below(JSX_BODIES.len())], JSX_BODIES[crng.below(JSX_BODIES.len())]))
    } else if want("C13") && !props.is_empty() && case_no % 2 == 1 {
      gen_fix_program(&mut crng)
    } else if (want("C02") || want("C03") || want("C04")) && !props.is_empty() && case_no % 4 == 1 {
      // fixes are part of the result that must not vary between calls
      gen_fix_program(&mut crng)
    } else if case_no % 11 == 5 {
      // the oddities, in turn
      out.count("kind=oddity");
      ("oddity".to_string(), ODDITIES[(case_no / 11 + args.seed as usize) % ODDITIES.len()].to_string())
    } else if case_no < args.count / 2 && !strata.is_empty() {
      // round-robin over the rules, a seed-dependent triggering snippet of each
      let st = strata[case_no % strata.len()];
      let s = &corpus[st[(case_no / strata.len() + args.seed as usize) % st.len()]];
      (s.rule.clone(), s.src.clone())
    } else if case_no < args.count * 2 / 3 {
      let s = &corpus[(case_no * 7919 + (args.seed as usize)) % corpus.len()];
      (s.rule.clone(), s.src.clone())
    } else if case_no % 7 == 3 {
      gen_fix_program(&mut crng)
    } else {
      gen_program(&mut crng, &corpus)
    };
    out.count(if case_no < args.count / 2 { "kind=corpus-stratified" } else if case_no < args.count * 2 / 3 { "kind=corpus" } else { "kind=recombined" });
    let (rule, src) = if replay.is_some() {
      (rule, src)
    } else if crng.chance(1, 25) {
      // volume: more than a hundred diagnostics of early rules before the program (and a non-ASCII tail), for
      // anything that behaves differently under load
      out.count("shape=volume");
      // (the last four make a rule stop the traversal below a node, hundreds of times over)
      let line = ["debugger;", "var v = 1;", "eval(\"x\");", "x == y;", "if (a) {} else {}", "new Symbol();", "for (;;) {}", "let u;", "declare const snake_case_name: number;",
        "async function outer_fn() { function inner() {} }", "class Dv extends Bv { constructor() { super(); f(1); g(2); } }", "declare function decl_fn(a_b: number): void;"][crng.below(12)];
      let k = if crng.chance(1, 3) { crng.range(520, 700) } else { crng.range(110, 171) };
      (rule, format!("{}\n{}\nconst nonAscii = \"é→\";\n", std::iter::repeat(line).take(k).collect::<Vec<_>>().join("\n"), src))
    } else if crng.chance(1, 4) || (FIX_RULES.contains(&rule.as_str()) && crng.chance(1, 2)) {
      // exotic white space between tokens: every separator the lexer accepts must do, also multi-byte ones
      // (programs of the fix-providing rules get it every second time, in every gap: their fixes do range arithmetic)
      let e = if rule.starts_with("jsx") || rule.starts_with("react") || src.contains("</") || src.contains("/>") { "tsx" } else { "ts" };
      match exotic_whitespace(&mut crng, &src, e, FIX_RULES.contains(&rule.as_str()), None) {
        Some(m) => {
          out.count("shape=token-gap-mutation");
          (rule, m)
        }
        None => (rule, src),
      }
    } else if (src.contains("</") || src.contains("/>")) && crng.chance(1, 3) {
      // JSX reflow: closing tags and expression containers on lines of their own (line breaks inside JSX text)
      out.count("shape=jsx-reflow");
      (rule, src.replace("></", ">\n    </").replace("}</", "}\n  </").replace(">{", ">\n  {"))
    } else if ["var ", "let ", "const ", "function ", "class ", "enum ", "namespace ", "async function "].iter().any(|k| src.trim_start().starts_with(k)) && crng.chance(1, 5) {
      // the same declaration behind modifiers: the node then starts at the modifier, not at its own keyword
      out.count("shape=declaration-modifier-prefix");
      let pre = ["declare ", "export ", "export declare ", "export default ", "/* c */ declare ", "declare\n"][crng.below(6)];
      (rule, format!("{}{}", pre, src.trim_start()))
    } else if crng.chance(1, 8) || (want("C01") && crng.chance(1, 6)) {
      // one identifier of the program respelled with non-ASCII letters (lower-case, upper-case, caseless, astral), with
      // and without an inner underscore: rules that cut names up to build messages and suggestions index them by bytes
      let words: Vec<&str> = src
        .split(|c: char| !(c.is_ascii_alphanumeric() || c == '_' || c == '$'))
        .filter(|w| w.len() >= 2 && w.chars().next().map_or(false, |c| c.is_ascii_alphabetic()) && !NOT_RENAMED.contains(w))
        .collect();
      if words.is_empty() {
        (rule, src)
      } else {
        // a declared name two times out of three (the word after a declaration keyword)
        let declared: Vec<&str> = words
          .iter()
          .copied()
          .filter(|w| ["class ", "interface ", "type ", "enum ", "namespace ", "module ", "function ", "const ", "let ", "var "].iter().any(|k| src.contains(&format!("{}{}", k, w))))
          .collect();
        let w = if !declared.is_empty() && crng.chance(2, 3) { declared[crng.below(declared.len())].to_string() } else { words[crng.below(words.len())].to_string() };
        let new = match crng.below(8) {
          0 => format!("ñ{}", w),
          1 => format!("π_{}", w),
          2 => format!("Ü{}_é", w),
          3 => format!("日本_{}", w),
          4 => format!("{}_ß", w),
          5 => format!("𝒜{}", w),
          6 => format!("ǆ_{}_x", w),
          _ => format!("é{}", w.to_ascii_lowercase()),
        };
        out.count("shape=non-ascii-identifier");
        (rule, replace_ident(&src, &w, &new))
      }
    } else if crng.chance(1, 10) {
      // a leading block comment with compiler pragmas, well-formed or not: they are read before any rule runs
      out.count("shape=leading-pragma");
      let name = ["@jsx", "@jsxFrag", "@jsxRuntime", "@jsxImportSource", "@jsxRuntime classic @jsx", "@jsx h @jsxRuntime", "@ts-nocheck @jsx", "@jsxFrag Fragment @jsx"][crng.below(8)];
      let val = ["h", "React.createElement", "a..b", "class", "if", "a.", ".a", "automatic", "classic", "bogus", "", "a+b", "é.ü", "this.h", "null", "0", "a.0", "new.target", "x.#y", "await", "\u{200d}", "a\u{a0}b", "h h h"][crng.below(23)];
      let open = ["/**", "/*", "/*\n *", "/*!\n"][crng.below(4)];
      (rule, format!("{} {} {} */\n{}", open, name, val, src))
    } else if crng.chance(1, 5) {
      // end-of-file corner: the very last character of the file belongs to a comment / string / template /
      // identifier / white space and is not ASCII; no trailing newline
      out.count("shape=non-ascii-eof");
      let tail = ["// é", "/* ✓ */", "\"é\"", "`π`", "π", "a;\u{a0}", "// ✓ 😀", "\"a\" // 😀"][crng.below(8)];
      (rule, format!("{}\n{}", src.trim_end(), tail))
    } else {
      (rule, src)
    };
    let exts: &[&str] = if rule.starts_with("jsx") || rule.starts_with("react") || rule.contains("fresh") || src.contains("</") || src.contains("/>") { &["tsx", "jsx", "ts"] } else { &["ts", "tsx", "js"] };
    let mut base: Option<(ParsedSource, Vec<LintDiagnostic>)> = None;
    let mut ext = "ts";
    for e in exts {
      match lint_full(&all, &src, e, &Cfg::default()) {
        Full::Ok(p, d) => {
          base = Some((p, d));
          ext = e;
          break;
        }
        Full::Panic(m) => {
          if want("C01") {
            let r = attribute_panic(&src, e);
            out.found("C01", &format!("panic:{}", r), &src, json!({"rule": rule, "src": src, "ext": e, "panic": m, "panicking_rule": r}));
          }
          break;
        }
        Full::ParseErr => {}
      }
    }
    let Some((ps, lds)) = base else {
      out.count("outcome=unparsed-or-panic");
      continue;
    };
    out.count(&format!("ext={}", ext));
    let ds = conv_all(&lds);
    out.count(match ds.len() {
      0 => "diags=0",
      1..=3 => "diags=1-3",
      4..=9 => "diags=4-9",
      _ => "diags=10+",
    });
    out.eval(&src, !ds.is_empty(), json!({"rule": rule, "src": src, "ext": ext, "diagnostics": ds.iter().take(3).map(|d| d.json()).collect::<Vec<_>>()}));
    let meta = json!({"rule": rule, "src": src, "ext": ext});

    if want("C01") {
      // every media type, all rules / no rules
      for e in ["js", "mjs", "cjs", "jsx", "ts", "mts", "cts", "tsx", "d.ts", "json", "wasm", "xyz"] {
        if let Full::Panic(m) = lint_full(&all, &src, e, &Cfg::default()) {
          let r = attribute_panic(&src, e);
          out.found("C01", &format!("panic:{}", r), &src, json!({"rule": rule, "src": src, "ext": e, "panic": m, "panicking_rule": r}));
        }
      }
      // …and with byte-order marks in front (one, two, three)
      if case_no % 4 == 0 {
        for k in 1..=3 {
          let s2 = format!("{}{}", "\u{feff}".repeat(k), src);
          if let Full::Panic(m) = lint_full(&all, &s2, ext, &Cfg::default()) {
            out.found("C01", "panic:bom", &s2, json!({"rule": rule, "src": s2, "ext": ext, "panic": m, "boms": k}));
          }
        }
      }
      let t0 = std::time::Instant::now();
      let _ = lint_full(&all, &src, ext, &Cfg::default());
      let dt = t0.elapsed().as_millis() as usize;
      if dt > 2000 + src.len() {
        out.found("C01", "slow", &src, json!({"meta": meta, "millis": dt, "bytes": src.len()}));
      }
    }

    if want("C03") {
      let toks: Vec<(usize, usize)> = ps.tokens().iter().map(|t| {
        use deno_ast::SourceRangedForSpanned;
        let b = ps.text_info_lazy().range().start;
        (t.start().as_byte_index(b), t.end().as_byte_index(b))
      }).collect();
      let comments: Vec<(usize, usize)> = ps.comments().get_vec().iter().map(|c| {
        use deno_ast::SourceRangedForSpanned;
        let b = ps.text_info_lazy().range().start;
        (c.start().as_byte_index(b), c.end().as_byte_index(b))
      }).collect();
      let text = ps.text().to_string();
      let starts: BTreeSet<usize> = toks.iter().map(|t| t.0).chain(comments.iter().map(|c| c.0)).collect();
      let ends: BTreeSet<usize> = toks.iter().map(|t| t.1).chain(comments.iter().map(|c| c.1)).collect();
      // the specifier of every diagnostic is the one the file was linted under, whatever it looks like: remote, with a
      // query, with a fragment, without an extension
      if case_no % 3 == 0 {
        let odd = ["https://esm.sh/x/t.EXT?dev&target=deno", "file:///dir/t.EXT#L10", "https://example.com/a/b/t.EXT?v=1#frag", "file:///t.EXT?", "data:application/typescript;base64,AAAA", "file:///C:/dir%20with%20space/t.EXT"][crng.below(6)].replace("EXT", ext);
        if let Ok(spec2) = deno_ast::ModuleSpecifier::parse(&odd) {
          let r = std::panic::catch_unwind(std::panic::AssertUnwindSafe(|| {
            all.lint_file(LintFileOptions { specifier: spec2.clone(), source_code: src.clone(), media_type: MediaType::from_specifier(&spec_for(ext)), config: LintConfig { default_jsx_factory: None, default_jsx_fragment_factory: None }, external_linter: None })
          }));
          match r {
            Ok(Ok((ps2, lds2))) => {
              out.count("specifier=unusual");
              if ps2.specifier() != &spec2 || lds2.iter().any(|d| d.specifier != spec2) {
                let wrong: Vec<String> = lds2.iter().filter(|d| d.specifier != spec2).map(|d| format!("{} {}", d.details.code, d.specifier)).take(3).collect();
                out.found("C03", "wrong-specifier", &src, json!({"meta": meta, "linted_as": odd, "diagnostics_say": wrong, "parsed_source_says": ps2.specifier().as_str()}));
              }
            }
            Ok(Err(_)) => {}
            Err(e) => out.found("C01", "panic:unusual-specifier", &src, json!({"meta": meta, "specifier": odd, "panic": panic_msg(e)})),
          }
        }
      }
      for (i, (d, ld)) in ds.iter().zip(lds.iter()).enumerate() {
        if ld.specifier.as_str() != spec_for(ext).as_str() {
          out.found("C03", "wrong-specifier", &src, json!({"meta": meta, "diag": d.json()}));
        }
        match (d.start, d.end) {
          (Some(s), Some(e)) => {
            if s > e || e > text.len() || !text.is_char_boundary(s) || !text.is_char_boundary(e) {
              out.found("C03", &format!("range-malformed:{}", d.code), &src, json!({"meta": meta, "diag": d.json(), "text_len": text.len()}));
            } else if !CHAR_LEVEL_RULES.contains(&d.code.as_str()) && (!starts.contains(&s) || !(ends.contains(&e) || (s == e))) {
              out.found("C03", &format!("not-on-token-boundary:{}", d.code), &src, json!({"meta": meta, "diag": d.json(), "start_ok": starts.contains(&s), "end_ok": ends.contains(&e)}));
            }
            if let Some(r) = &ld.range {
              if r.text_info.text_str() != text {
                out.found("C03", "diagnostic-carries-other-text", &src, json!({"meta": meta, "diag": d.json()}));
              }
            }
          }
          _ => {}
        }
        if i > 0 {
          let p = &ds[i - 1];
          if (p.start, &p.code) > (d.start, &d.code) {
            out.found("C03", "order", &src, json!({"meta": meta, "a": p.json(), "b": d.json()}));
          }
        }
        for (_desc, ch) in &d.fixes {
          let mut c = ch.clone();
          c.sort();
          for (j, (a, b, _)) in c.iter().enumerate() {
            if a > b || *b > text.len() || !text.is_char_boundary(*a) || !text.is_char_boundary(*b) {
              out.found("C03", &format!("fix-range-malformed:{}", d.code), &src, json!({"meta": meta, "diag": d.json()}));
            }
            if j > 0 && c[j - 1].1 > *a {
              out.found("C03", &format!("fix-changes-overlap:{}", d.code), &src, json!({"meta": meta, "diag": d.json()}));
            }
          }
        }
        // rendering
        let r = catch_unwind(AssertUnwindSafe(|| format!("{}", ld.display())));
        match r {
          Ok(s) => {
            if s.is_empty() || !s.contains(&d.code) {
              out.found("C03", &format!("render-incomplete:{}", d.code), &src, json!({"meta": meta, "diag": d.json(), "rendered": s}));
            }
          }
          Err(e) => out.found("C03", &format!("render-panic:{}", d.code), &src, json!({"meta": meta, "diag": d.json(), "panic": panic_msg(e)})),
        }
      }
    }

    if want("C02") {
      // same instance again; after a different history; from several threads sharing the instance
      if let Outcome::Ok(d2) = lint(&all, &src, ext) {
        if d2 != ds {
          out.found("C02", "repeat-differs", &src, json!({"meta": meta}));
        }
      }
      let other = &corpus[crng.below(corpus.len())];
      let _ = lint(&all, &other.src, "ts");
      let _ = lint(&all, &other.src, "tsx");
      if let Outcome::Ok(d3) = lint(&all, &src, ext) {
        if d3 != ds {
          out.found("C02", "history-dependent", &src, json!({"meta": meta, "history": other.src}));
        }
      }
      // near-duplicate history: the same text under other media types and with regex flags toggled is linted first
      // (caches keyed on part of what a verdict depends on), then the program; the reference is a fresh linter on a
      // fresh thread (no instance state, no thread-local state)
      {
        for e2 in ["js", "ts", "jsx", "tsx", "mjs", "mts"] {
          if e2 != ext {
            let _ = lint(&all, &src, e2);
          }
        }
        let toggled = src.replace("/u", "/\u{1}").replace("/g", "/gu").replace("/\u{1}", "/").replace("\"u\")", "\"\")").replace("\"g\")", "\"gu\")").replace("'u')", "'')");
        if toggled != src {
          let _ = lint(&all, &toggled, ext);
          out.count("c02:flag-toggled-history");
        }
        let after = lint(&all, &src, ext);
        let (src2, ext2) = (src.clone(), ext.to_string());
        let reference = std::thread::spawn(move || {
          let fresh = mk_linter(rules_by_codes(&all_codes()), &Words::default());
          lint(&fresh, &src2, &ext2)
        })
        .join()
        .unwrap_or(Outcome::Panic("thread".into()));
        if let (Outcome::Ok(a), Outcome::Ok(r)) = (&after, &reference) {
          if a != r {
            let codes: std::collections::BTreeSet<&str> = a.iter().filter(|d| !r.contains(d)).chain(r.iter().filter(|d| !a.contains(d))).map(|d| d.code.as_str()).collect();
            out.found("C02", &format!("near-duplicate-history:{}", codes.into_iter().collect::<Vec<_>>().join("+")), &src, json!({"meta": meta, "toggled": toggled, "after_history": a.iter().map(|d| d.json()).collect::<Vec<_>>(), "fresh_thread": r.iter().map(|d| d.json()).collect::<Vec<_>>()}));
          }
        }
      }
      if case_no % 4 == 0 {
        let fresh = mk_linter(rules_by_codes(&all_codes()), &Words::default());
        if let Outcome::Ok(d4) = lint(&fresh, &src, ext) {
          if d4 != ds {
            out.found("C02", "fresh-instance-differs", &src, json!({"meta": meta}));
          }
        }
        let others: Vec<String> = (0..3).map(|_| corpus[crng.below(corpus.len())].src.clone()).collect();
        let results: Vec<Option<Vec<D>>> = std::thread::scope(|sc| {
          let hs: Vec<_> = (0..4)
            .map(|t| {
              let all = &all;
              let src = &src;
              let others = &others;
              sc.spawn(move || {
                let mut last = None;
                for round in 0..3 {
                  if t % 2 == 1 {
                    let _ = lint(all, &others[round % others.len()], "ts");
                  }
                  last = lint(all, src, ext).ok().cloned();
                }
                last
              })
            })
            .collect();
          hs.into_iter().map(|h| h.join().unwrap_or(None)).collect()
        });
        for r in results {
          if r.as_ref() != Some(&ds) {
            out.found("C02", "concurrent-differs", &src, json!({"meta": meta}));
          }
        }
      }
    }

    if want("C04") {
      // every rule is run alone on this program (not only those that reported in the all-rules run: a rule
      // silenced by another one would otherwise never be looked at)
      let codes: Vec<String> = all_codes();
      let enabled = all_codes();
      for d in &ds {
        if !enabled.contains(&d.code) {
          out.found("C04", &format!("code-not-enabled:{}", d.code), &src, json!({"meta": meta, "diag": d.json()}));
        }
      }
      for code in codes {
        if DIRECTIVE_SENSITIVE[1..].contains(&code.as_str()) || !enabled.contains(&code) {
          continue;
        }
        // alone
        let alone = mk_linter(rules_by_codes(&[code.clone()]), &Words::default());
        let proj: Vec<D> = ds.iter().filter(|d| d.code == code).cloned().collect();
        match lint(&alone, &src, ext) {
          Outcome::Ok(d1) => {
            if d1.iter().any(|d| d.code != code) {
              out.found("C04", &format!("foreign-code-from:{}", code), &src, json!({"meta": meta}));
            }
            if d1 != proj {
              out.found("C04", &format!("alone-vs-all:{}", code), &src, json!({"meta": meta, "alone": d1.iter().map(|d| d.json()).collect::<Vec<_>>(), "with_all": proj.iter().map(|d| d.json()).collect::<Vec<_>>()}));
            }
          }
          Outcome::Panic(m) => out.found("C01", &format!("panic:{}", code), &src, json!({"meta": meta, "panic": m})),
          _ => {}
        }
        // a random superset in a random supplied order (for the rules that say something here)
        if proj.is_empty() && !crng.chance(1, 10) {
          continue;
        }
        let mut sup: Vec<String> = vec![code.clone()];
        for c in &enabled {
          if *c != code && crng.chance(1, 6) {
            sup.push(c.clone());
          }
        }
        crng.shuffle(&mut sup);
        let l2 = mk_linter(rules_by_codes(&sup), &Words::default());
        if let Outcome::Ok(d2) = lint(&l2, &src, ext) {
          let p2: Vec<D> = d2.iter().filter(|d| d.code == code).cloned().collect();
          if p2 != proj {
            out.found("C04", &format!("subset-vs-all:{}", code), &src, json!({"meta": meta, "subset": sup}));
          }
          for d in &d2 {
            if !sup.contains(&d.code) {
              out.found("C04", &format!("code-not-enabled:{}", d.code), &src, json!({"meta": meta, "subset": sup, "diag": d.json()}));
            }
          }
        }
      }
    }

    if want("C09") && !src.starts_with("#!") && !src.contains("@ts-") && !src.contains("<reference") {
      let prefixes: [&str; 7] = ["\n", "   ", "/* é😀 */ ", "// x\n", "\n\n/* a */\n", "\n// ünï\n\t", "/**/"];
      for pre in prefixes {
        let s2 = format!("{}{}", pre, src);
        match lint(&all, &s2, ext) {
          Outcome::Ok(d2) => {
            let exp: Vec<D> = ds.iter().map(|d| d.shift(pre.len() as isize)).collect();
            let got: Vec<D> = d2.into_iter().filter(|d| d.start.map(|s| s >= pre.len()).unwrap_or(true)).collect();
            if got != exp {
              let missing: Vec<Value> = exp.iter().filter(|x| !got.contains(x)).map(|x| x.json()).collect();
              let extra: Vec<Value> = got.iter().filter(|x| !exp.contains(x)).map(|x| x.json()).collect();
              let codes: BTreeSet<String> = missing.iter().chain(extra.iter()).map(|v| v["code"].as_str().unwrap_or("").to_string()).collect();
              out.found("C09", &format!("prefix:{}", codes.into_iter().collect::<Vec<_>>().join("+")), &src, json!({"meta": meta, "prefix": pre, "missing": missing, "extra": extra}));
            }
          }
          Outcome::Panic(m) => out.found("C01", "panic:with-prefix", &s2, json!({"meta": meta, "prefix": pre, "panic": m})),
          Outcome::ParseErr(_) => out.count("c09-prefix-parse-err"),
        }
      }
      // BOM (one, or absurdly two): no translation at all
      for bom in ["\u{feff}", "\u{feff}\u{feff}"] {
        let s2 = format!("{}{}", bom, src);
        match lint(&all, &s2, ext) {
          Outcome::Ok(d2) => {
            if d2 != ds {
              out.found("C09", "bom-changes-result", &src, json!({"meta": meta, "boms": bom.chars().count()}));
            }
          }
          Outcome::Panic(m) => out.found("C01", "panic:bom", &s2, json!({"rule": rule, "src": s2, "ext": ext, "panic": m})),
          _ => {}
        }
      }
      // LF -> CRLF outside string/template/regex/JSX-text tokens
      if !src.contains('\r') {
        for protect in [true, false] {
        if let Some((s3, map)) = crlf_convert(&ps, &src, protect) {
          match lint(&all, &s3, ext) {
            Outcome::Ok(d3) => {
              let tr = |x: usize| map[x];
              let exp: Vec<D> = ds
                .iter()
                .map(|d| D {
                  start: d.start.map(tr),
                  end: d.end.map(tr),
                  code: d.code.clone(),
                  msg: d.msg.clone(),
                  hint: d.hint.clone(),
                  fixes: d.fixes.iter().map(|(de, ch)| (de.clone(), ch.iter().map(|(a, b, t)| (tr(*a), tr(*b), t.clone())).collect())).collect(),
                })
                .collect();
              let strip = |v: &Vec<D>| -> Vec<D> { v.iter().map(|d| D { msg: String::new(), hint: None, fixes: d.fixes.iter().map(|(de, ch)| (de.clone(), ch.iter().map(|(a, b, _)| (*a, *b, String::new())).collect())).collect(), ..d.clone() }).collect() };
              if strip(&d3) != strip(&exp) {
                let a = strip(&exp);
                let b = strip(&d3);
                let missing: Vec<Value> = a.iter().filter(|x| !b.contains(x)).map(|x| x.json()).collect();
                let extra: Vec<Value> = b.iter().filter(|x| !a.contains(x)).map(|x| x.json()).collect();
                let codes: BTreeSet<String> = missing.iter().chain(extra.iter()).map(|v| v["code"].as_str().unwrap_or("").to_string()).collect();
                out.found("C09", &format!("{}:{}", if protect { "crlf" } else { "crlf-everywhere" }, codes.into_iter().collect::<Vec<_>>().join("+")), &src, json!({"meta": meta, "missing": missing, "extra": extra, "converted": s3}));
              }
            }
            Outcome::Panic(m) => out.found("C01", "panic:crlf", &s3, json!({"meta": meta, "panic": m})),
            Outcome::ParseErr(_) => out.count("c09-crlf-parse-err"),
          }
        }
        }
      }
    }

    if want("C13") {
      // under the media type the program was linted with, and under the JavaScript media types too when it parses
      // there (fixes must not introduce syntax the file's language does not have)
      let mut runs: Vec<(String, Vec<D>)> = vec![(ext.to_string(), ds.clone())];
      for e2 in ["js", "jsx", "mjs", "cjs"] {
        if e2 != ext && case_no % 3 == 0 {
          if let Outcome::Ok(d2) = lint(&all, &src, e2) {
            if d2.iter().any(|d| !d.fixes.is_empty()) {
              runs.push((e2.to_string(), d2));
            }
          }
        }
      }
      for (ext, ds) in &runs {
      let ext = ext.as_str();
      for d in ds {
        for (fi, (_desc, ch)) in d.fixes.iter().enumerate() {
          let Some(fixed) = apply_fix(&src, ch) else { continue };
          out.count("fix-applied");
          let l = mk_linter(rules_by_codes(&[d.code.clone()]), &Words::default());
          let before = match lint(&l, &src, ext) {
            Outcome::Ok(x) => x,
            _ => continue,
          };
          match lint(&l, &fixed, ext) {
            Outcome::Ok(after) => {
              let nb = before.iter().filter(|x| x.code == d.code).count();
              let na = after.iter().filter(|x| x.code == d.code).count();
              if na >= nb {
                out.found("C13", &format!("not-fewer:{}", d.code), &src, json!({"meta": meta, "ext": ext, "fix": fi, "fixed": fixed, "before": nb, "after": na, "diag": d.json()}));
              }
            }
            Outcome::ParseErr(e) => out.found("C13", &format!("fixed-text-does-not-parse:{}", d.code), &src, json!({"meta": meta, "ext": ext, "fix": fi, "fixed": fixed, "error": e, "diag": d.json()})),
            Outcome::Panic(m) => out.found("C01", &format!("panic:{}", d.code), &fixed, json!({"meta": meta, "panic": m})),
          }
        }
      }
      }
    }
    if replay.is_some() {
      break;
    }
  }
  out.finish();
}

pub fn apply_fix(src: &str, changes: &[(usize, usize, String)]) -> Option<String> {
  let mut ch = changes.to_vec();
  ch.sort();
  let mut out = String::new();
  let mut last = 0;
  for (a, b, t) in &ch {
    if *a < last || *b > src.len() || a > b || !src.is_char_boundary(*a) || !src.is_char_boundary(*b) {
      return None;
    }
    out.push_str(&src[last..*a]);
    out.push_str(t);
    last = *b;
  }
  out.push_str(&src[last..]);
  Some(out)
}

/// LF -> CRLF for every `\n` that is not inside a string/template/regex/JSX-text token; returns the new
/// text and the byte-offset map old -> new
/// replace spaces that separate two tokens (gaps consisting of spaces only: no comment, no line break) by multi-byte
/// white space characters that are valid JavaScript `WhiteSpace` (NBSP, ideographic space, ZWNBSP, en quad)
pub fn exotic_whitespace(rng: &mut Rng, src: &str, ext: &str, every_gap: bool, force_mode: Option<usize>) -> Option<String> {
  use deno_ast::SourceRangedForSpanned;
  let spec = spec_for(ext);
  let mt = deno_ast::MediaType::from_specifier(&spec);
  let ps = deno_ast::parse_program(deno_ast::ParseParams { specifier: spec, media_type: mt, text: src.to_string().into(), capture_tokens: true, maybe_syntax: Some(deno_ast::get_syntax(mt)), scope_analysis: false }).ok()?;
  if ps.text().as_ref() != src {
    return None;
  }
  let b = ps.text_info_lazy().range().start;
  let toks: Vec<(usize, usize)> = ps.tokens().iter().map(|t| (t.start().as_byte_index(b), t.end().as_byte_index(b))).collect();
  let mut out = src.to_string();
  let mut changed = false;
  // one kind of mutation per program: multi-byte white space / no white space where it is optional / a comment
  let mode = force_mode.unwrap_or_else(|| rng.below(3));
  let bracket = |c: u8| b"{}()[];,".contains(&c);
  // back to front so that offsets stay valid
  for w in toks.windows(2).rev() {
    let (a, z) = (w[0].1, w[1].0);
    if z > a && src[a..z].bytes().all(|c| c == b' ') && (every_gap || rng.chance(1, 2)) {
      match mode {
        0 => {
          let ws = ["\u{a0}", "\u{3000}", "\u{feff}", "\u{2000}"][rng.below(4)];
          out.replace_range(a..z, &ws.repeat(z - a));
        }
        1 => {
          // the separator is optional next to a bracket, semicolon or comma
          let (l, r) = (src.as_bytes()[a - 1], src.as_bytes()[z]);
          if a > 0 && (bracket(l) || bracket(r)) && l != b'/' && r != b'/' {
            out.replace_range(a..z, "");
          } else {
            continue;
          }
        }
        _ => out.replace_range(a..z, " /* c */ "),
      }
      changed = true;
    }
  }
  if changed {
    Some(out)
  } else {
    None
  }
}

fn crlf_convert(ps: &ParsedSource, src: &str, protect: bool) -> Option<(String, Vec<usize>)> {
  use deno_ast::swc::parser::token::Token;
  use deno_ast::SourceRangedForSpanned;
  if ps.text().as_ref() != src {
    return None;
  }
  let b = ps.text_info_lazy().range().start;
  let mut protected = vec![false; src.len() + 1];
  for t in ps.tokens().iter() {
    let prot = protect && matches!(t.token, Token::Str { .. } | Token::Template { .. } | Token::Regex(..) | Token::JSXText { .. } | Token::BackQuote);
    if prot {
      for i in t.start().as_byte_index(b)..t.end().as_byte_index(b) {
        protected[i] = true;
      }
    }
  }
  // template literals span from ` to `: protect everything between back quotes conservatively
  let mut in_tpl = false;
  for (i, c) in src.bytes().enumerate() {
    if c == b'`' {
      in_tpl = !in_tpl;
    }
    if in_tpl && protect {
      protected[i] = true;
    }
  }
  let mut out = String::with_capacity(src.len() + 16);
  let mut map = vec![0usize; src.len() + 1];
  for (i, c) in src.char_indices() {
    map[i] = out.len();
    if c == '\n' && !protected[i] {
      out.push('\r');
      map[i] = out.len() - 1;
      out.push('\n');
    } else {
      out.push(c);
    }
  }
  map[src.len()] = out.len();
  // fill non-boundary positions
  for i in 1..=src.len() {
    if !src.is_char_boundary(i) {
      map[i] = map[i - 1];
    }
  }
  Some((out, map))
}
