//! C13, verbatim-module-syntax: the rule's diagnostics and the effect of each of its fixes on generated import / export
//! modules vs the model `DL.Vms` (`diags`, `applyFix`), for which `fix_strictly_fewer` / `repair_terminates` are proved.
//! One item per line; a diagnostic is identified by (line, whole declaration | name of the specifier).
use crate::{Args, Out};
use dlharness::*;
use serde_json::{json, Value};

#[derive(Clone)]
enum Item {
  /// type-only, specifiers (kind, name index, inline type)
  Imp(bool, Vec<(&'static str, usize, bool)>),
  /// type-only, has `from`, specifiers (name index, inline type)
  Exp(bool, bool, Vec<(usize, bool)>),
}

/// imported names first, then locally declared types, then a locally declared value
const NAMES: &[&str] = &["Aa", "bb", "Cc", "dd", "Ee", "ff", "Gg", "hh", "T0", "T1", "V0"];
const N_IMPORTABLE: usize = 8;

fn render_item(it: &Item, k: usize) -> String {
  match it {
    Item::Imp(ty, specs) => {
      let mut head: Vec<String> = vec![];
      let mut named: Vec<String> = vec![];
      for (kind, n, inl) in specs {
        match *kind {
          "default" => head.push(NAMES[*n].to_string()),
          "ns" => head.push(format!("* as {}", NAMES[*n])),
          _ => named.push(format!("{}{}{}", if *inl { "type " } else { "" }, if n % 3 == 2 { "orig as " } else { "" }, NAMES[*n])),
        }
      }
      if !named.is_empty() {
        head.push(format!("{{ {} }}", named.join(", ")));
      }
      format!("import {}{} from \"m{}\";", if *ty { "type " } else { "" }, head.join(", "), k)
    }
    Item::Exp(ty, src, specs) => {
      let inner: Vec<String> = specs.iter().enumerate().map(|(i, (n, inl))| format!("{}{}{}", if *inl { "type " } else { "" }, NAMES[*n], if (i + n) % 4 == 3 { format!(" as api{}_{}", k, i) } else { String::new() })).collect();
      format!("export {}{{ {} }}{};", if *ty { "type " } else { "" }, inner.join(", "), if *src { format!(" from \"other{}\"", k) } else { String::new() })
    }
  }
}

fn item_json(it: &Item) -> Value {
  match it {
    Item::Imp(ty, specs) => json!(["imp", ty, specs.iter().map(|(k, n, i)| json!([k, n, i])).collect::<Vec<_>>()]),
    Item::Exp(ty, src, specs) => json!(["exp", ty, src, specs.iter().map(|(n, i)| json!([n, i])).collect::<Vec<_>>()]),
  }
}

/// the rule's diagnostics in the model's terms: [line, "all"] | [line, "spec", name index]
fn canon(src: &str, ds: &[D], n_item_lines: usize) -> Result<Vec<Value>, String> {
  let mut v = vec![];
  for d in ds {
    let (Some(s), Some(e)) = (d.start, d.end) else { return Err("diagnostic without a range".into()) };
    let line = src[..s].matches('\n').count();
    if line >= n_item_lines {
      return Err(format!("diagnostic outside the import/export lines: {}", d.json()));
    }
    let text = &src[s..e];
    if text == "import" || text == "export" {
      v.push(json!([line, "all"]));
    } else {
      let line_text = src.lines().nth(line).unwrap_or("");
      let words: Vec<&str> = text.split(|c: char| !(c.is_alphanumeric() || c == '_')).filter(|w| !w.is_empty() && *w != "type" && *w != "as" && *w != "orig").collect();
      // import specifier: the local name is the last word; export specifier: the exported local is the first
      let w = if line_text.starts_with("import") { words.last() } else { words.first() };
      let Some(idx) = w.and_then(|w| NAMES.iter().position(|n| n == w)) else { return Err(format!("cannot name the specifier {:?}", text)) };
      v.push(json!([line, "spec", idx]));
    }
  }
  Ok(v)
}

pub fn run(args: &Args) {
  let mut out = Out::new(&args.out, "vms");
  let mut rng = Rng::new(args.seed ^ 0x5315);
  let l = mk_linter(rules_by_codes(&["verbatim-module-syntax".to_string()]), &Words::default());
  for case_no in 0..args.count {
    let mut free: Vec<usize> = (0..N_IMPORTABLE).collect();
    let n_items = rng.range(1, 4);
    let mut items: Vec<Item> = vec![];
    for _ in 0..n_items {
      if rng.chance(3, 5) && !free.is_empty() {
        let mut take = |rng: &mut Rng, free: &mut Vec<usize>| -> Option<usize> {
          if free.is_empty() {
            None
          } else {
            Some(free.remove(rng.below(free.len())))
          }
        };
        let ty = rng.chance(1, 5);
        let mut specs: Vec<(&'static str, usize, bool)> = vec![];
        let shape = rng.below(if ty { 3 } else { 5 });
        match shape {
          0 => {
            for _ in 0..rng.range(1, 3) {
              if let Some(n) = take(&mut rng, &mut free) {
                specs.push(("named", n, !ty && rng.chance(1, 3)));
              }
            }
          }
          1 => specs.extend(take(&mut rng, &mut free).map(|n| ("default", n, false))),
          2 => specs.extend(take(&mut rng, &mut free).map(|n| ("ns", n, false))),
          3 => {
            specs.extend(take(&mut rng, &mut free).map(|n| ("default", n, false)));
            specs.extend(take(&mut rng, &mut free).map(|n| ("ns", n, false)));
          }
          _ => {
            specs.extend(take(&mut rng, &mut free).map(|n| ("default", n, false)));
            for _ in 0..rng.range(1, 2) {
              if let Some(n) = take(&mut rng, &mut free) {
                specs.push(("named", n, rng.chance(1, 3)));
              }
            }
          }
        }
        if !specs.is_empty() {
          items.push(Item::Imp(ty, specs));
        }
      } else {
        let ty = rng.chance(1, 5);
        let src = rng.chance(1, 7);
        let mut specs: Vec<(usize, bool)> = vec![];
        for _ in 0..rng.range(1, 3) {
          let n = rng.below(NAMES.len());
          if !specs.iter().any(|(m, _)| *m == n) {
            specs.push((n, !ty && rng.chance(1, 3)));
          }
        }
        items.push(Item::Exp(ty, src, specs));
      }
    }
    if items.is_empty() {
      continue;
    }
    // value uses: any subset of the names; the locally declared value is used by its declaration
    let mut used: Vec<usize> = (0..NAMES.len() - 1).filter(|_| rng.chance(1, 3)).collect();
    let mut lines: Vec<String> = items.iter().enumerate().map(|(k, it)| render_item(it, k)).collect();
    let n_item_lines = lines.len();
    lines.push("type T0 = number; interface T1 { a: T0 }".to_string());
    lines.push("const V0 = 1;".to_string());
    used.push(NAMES.len() - 1);
    // a name that is neither imported nor declared cannot be used
    let imported: Vec<usize> = items.iter().flat_map(|it| match it { Item::Imp(_, s) => s.iter().map(|x| x.1).collect::<Vec<_>>(), _ => vec![] }).collect();
    used.retain(|n| imported.contains(n) || *n == NAMES.len() - 1);
    for n in &used {
      if *n != NAMES.len() - 1 {
        lines.push(format!("use({});", NAMES[*n]));
      }
    }
    for n in &imported {
      if rng.chance(1, 2) {
        lines.push(format!("let t{}: {} | typeof {};", n, NAMES[*n], NAMES[*n]));
      }
    }
    let src = lines.join("\n") + "\n";
    let items_j: Vec<Value> = items.iter().map(item_json).collect();
    let ds = match lint(&l, &src, "ts") {
      Outcome::Ok(d) => d,
      Outcome::ParseErr(e) => {
        out.count(&format!("parse-error:{}", e.chars().take(40).collect::<String>()));
        continue;
      }
      Outcome::Panic(m) => {
        out.found("C01", "panic:verbatim-module-syntax", &src, json!({"meta": {"src": src}, "panic": m}));
        continue;
      }
    };
    out.count(&format!("diags={}", ds.len().min(4)));
    let meta = json!({"case": case_no, "src": src});
    match canon(&src, &ds, n_item_lines) {
      Ok(c) => out.case(json!({"m": "vms", "used": used, "items": items_j, "fix": Value::Null}), json!({"diags": c, "items": items.len()}), meta.clone()),
      Err(e) => {
        out.found("C13", "vms:unexpected-diagnostic", &src, json!({"meta": meta, "what": e}));
        continue;
      }
    }
    // every fix: the module the real fix produces must be reported on like the model's `applyFix`
    let canon0 = canon(&src, &ds, n_item_lines).unwrap_or_default();
    for (d, c) in ds.iter().zip(canon0.iter()) {
      for (_, ch) in &d.fixes {
        let Some(fixed) = crate::d_scan::apply_fix(&src, ch) else {
          out.found("C13", "vms:overlapping-changes", &src, json!({"meta": meta, "diag": d.json()}));
          continue;
        };
        let added = fixed.matches('\n').count() - src.matches('\n').count();
        out.count(&format!("fix-adds-lines={}", added));
        match lint(&l, &fixed, "ts") {
          Outcome::Ok(d2) => match canon(&fixed, &d2, n_item_lines + added) {
            Ok(c2) => {
              out.case(json!({"m": "vms", "used": used, "items": items_j, "fix": c}), json!({"diags": c2, "items": items.len() + added}), json!({"case": case_no, "src": src, "fixed": fixed, "fix_of": c}));
              if d2.len() >= ds.len() {
                out.found("C13", "not-fewer:verbatim-module-syntax", &src, json!({"meta": meta, "fixed": fixed, "before": ds.len(), "after": d2.len()}));
              }
            }
            Err(e) => out.found("C13", "vms:unexpected-diagnostic-after-fix", &src, json!({"meta": meta, "fixed": fixed, "what": e})),
          },
          Outcome::ParseErr(e) => out.found("C13", "fixed-text-does-not-parse:verbatim-module-syntax", &src, json!({"meta": meta, "fixed": fixed, "error": e})),
          Outcome::Panic(m) => out.found("C01", "panic:verbatim-module-syntax", &fixed, json!({"meta": {"src": fixed}, "panic": m})),
        }
      }
    }
  }
  out.finish();
}
