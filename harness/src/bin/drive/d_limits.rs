//! C01, the two clauses no in-process run can observe: *aborts* (a stack overflow kills the process; `catch_unwind` does
//! not help) and *time proportional to the input size*.  Every probe runs the real linter (all rules) in a child process
//! (`probe`, built from the same harness against /repo's working tree).
//!  * scaling: "wide" inputs of one shape at two sizes (n, 4n); super-linear growth that matters is flagged;
//!  * depth: nested inputs at a moderate depth (must lint) and at an extreme depth.
use crate::{Args, Out};
use serde_json::json;
use std::io::Write;
use std::process::{Command, Stdio};
use std::time::{Duration, Instant};

fn rep(s: &str, n: usize) -> String {
  s.repeat(n.max(1))
}
fn numbered(f: impl Fn(usize) -> String, count: usize) -> String {
  (0..count.max(1)).map(f).collect()
}

/// (shape, text of about n bytes)
fn wide(n: usize) -> Vec<(&'static str, String)> {
  vec![
    ("statements", rep("a;\n", n / 3)),
    ("debugger-statements", rep("debugger;\n", n / 10)),
    ("used-directives", rep("// deno-lint-ignore no-var\nvar a = 1;\n", n / 38)),
    ("unused-directives", rep("// deno-lint-ignore no-var\nlet a = 1;\n", n / 38)),
    ("directive-codes", format!("// deno-lint-ignore {}\nvar a;\n", numbered(|i| format!("c{} ", i), n / 7))),
    ("string", format!("x = \"{}\";\n", rep("a", n))),
    ("template", format!("x = `{}`;\n", rep("a${b}", n / 5))),
    ("block-comment", format!("/* {}*/\n", rep("a ", n / 2))),
    ("line-comments", rep("// a\n", n / 5)),
    ("array-literal", format!("x = [{}];\n", rep("1,", n / 2))),
    ("object-literal", format!("x = {{{}}};\n", numbered(|i| format!("a{}:1,", i), n / 8))),
    ("arguments", format!("f({}a);\n", rep("a,", n / 2))),
    ("non-ascii", format!("x = \"{}\";\n", rep("é", n / 2))),
    ("irregular-whitespace", rep("a;\u{a0}\n", n / 5)),
    ("regex-atoms", format!("/{}/;\n", rep("a", n))),
    ("regex-classes", format!("/{}/;\n", rep("[a-z]", n / 5))),
    ("regex-groups", format!("/{}/;\n", rep("(a)", n / 3))),
    ("regex-named-groups", format!("/{}/;\n", numbered(|i| format!("(?<g{}>a)", i), n / 10))),
    ("regex-backrefs", format!("/{}{}/;\n", rep("(a)", n / 6), rep("\\1", n / 6))),
    ("regex-unicode-escapes", format!("/{}/u;\n", rep("\\u{61}", n / 6))),
    ("regex-constructor", format!("new RegExp(\"{}\");\n", rep("a", n))),
    ("functions", rep("function f(){ return 1; }\n", n / 25)),
    ("variables", numbered(|i| format!("let v{} = {};\n", i, i), n / 12)),
    ("uses-of-one-variable", format!("let v = 1;\n{}", rep("v;\n", n / 3))),
    ("switch-cases", format!("switch (x) {{{}}}\n", numbered(|i| format!("case {}: break;\n", i), n / 16))),
    ("imports", numbered(|i| format!("import a{} from \"m{}\";\n", i, i), n / 24)),
    ("jsx-children", format!("x = <div>{}</div>;\n", rep("<a b=\"c\"/>", n / 10))),
    ("class-members", format!("class A {{{}}}\n", numbered(|i| format!("m{}(){{}}\n", i), n / 9))),
    ("getters", format!("x = {{{}}};\n", numbered(|i| format!("get g{}(){{ return 1; }},\n", i), n / 28))),
    ("try-blocks", rep("try { f(); } catch (e) { g(e); } finally { h(); }\n", n / 50)),
    ("loops", rep("for (const a of b) { if (a) continue; break; }\n", n / 48)),
  ]
}

/// (shape, text nested `d` deep)
fn deep(d: usize) -> Vec<(&'static str, String)> {
  vec![
    ("parentheses", format!("x = {}1{};\n", rep("(", d), rep(")", d))),
    ("array-literals", format!("x = {}{};\n", rep("[", d), rep("]", d))),
    ("blocks", format!("{}{}\n", rep("{", d), rep("}", d))),
    ("binary-chain", format!("x = 1{};\n", rep(" + 1", d))),
    ("member-chain", format!("x = a{};\n", rep(".b", d))),
    ("call-chain", format!("x = a{};\n", rep("()", d))),
    ("unary-chain", format!("x = {}1;\n", rep("!", d))),
    ("else-if-chain", format!("if (a) {{}}{}\n", rep(" else if (a) {}", d))),
    ("nested-functions", format!("{}{}\n", rep("function f() {", d), rep("}", d))),
    ("nested-arrows", format!("x = {}1;\n", rep("() => ", d))),
    ("nested-templates", format!("x = {}1{};\n", rep("`${", d), rep("}`", d))),
    ("nested-jsx", format!("x = {}{};\n", rep("<a>", d), rep("</a>", d))),
    ("nested-object-literals", format!("x = {}1{};\n", rep("{a:", d), rep("}", d))),
    ("nested-types", format!("type T = {}number{};\n", rep("Array<", d), rep(">", d))),
    ("regex-groups", format!("/{}a{}/;\n", rep("(", d), rep(")", d))),
    ("conditional-chain", format!("x = {}1;\n", rep("a ? 1 : ", d))),
    ("labels", format!("{}a;\n", numbered(|i| format!("l{}: ", i), d))),
  ]
}

struct Run {
  secs: f64,
  status: String,
  stderr: String,
}
fn run_probe(probe: &std::path::Path, ext: &str, src: &str, limit: Duration) -> Run {
  let t = Instant::now();
  let mut child = Command::new(probe).arg(ext).stdin(Stdio::piped()).stdout(Stdio::null()).stderr(Stdio::piped()).spawn().expect("probe binary");
  {
    let mut stdin = child.stdin.take().unwrap();
    let data = src.as_bytes().to_vec();
    std::thread::spawn(move || {
      let _ = stdin.write_all(&data);
    });
  }
  loop {
    match child.try_wait().unwrap() {
      Some(st) => {
        let mut err = String::new();
        if let Some(mut e) = child.stderr.take() {
          use std::io::Read;
          let _ = e.read_to_string(&mut err);
        }
        let status = if st.success() {
          "ok".to_string()
        } else {
          use std::os::unix::process::ExitStatusExt;
          match st.signal() {
            Some(s) => format!("signal {}", s),
            None => format!("exit {}", st.code().unwrap_or(-1)),
          }
        };
        return Run { secs: t.elapsed().as_secs_f64(), status, stderr: err.chars().take(400).collect() };
      }
      None => {
        if t.elapsed() > limit {
          let _ = child.kill();
          let _ = child.wait();
          return Run { secs: t.elapsed().as_secs_f64(), status: "timeout".into(), stderr: String::new() };
        }
        std::thread::sleep(Duration::from_millis(2));
      }
    }
  }
}

pub fn run(args: &Args) {
  let mut out = Out::new(&args.out, "limits");
  let probe = std::env::current_exe().unwrap().parent().unwrap().join("probe");
  let n = args.opts.get("n").and_then(|s| s.parse().ok()).unwrap_or(25_000usize);
  let limit = Duration::from_secs(120);
  // ---- scaling
  for ((shape, small), (_, large)) in wide(n).into_iter().zip(wide(4 * n).into_iter()) {
    let best = |src: &str| {
      let a = run_probe(&probe, "tsx", src, limit);
      if a.status != "ok" {
        return a;
      }
      let b = run_probe(&probe, "tsx", src, limit);
      if b.status == "ok" && b.secs < a.secs {
        b
      } else {
        a
      }
    };
    let (a, b) = (best(&small), best(&large));
    out.eval(&format!("scale:{}", shape), true, json!({"shape": shape, "bytes": [small.len(), large.len()], "seconds": [a.secs, b.secs]}));
    out.count(&format!("scaling-shape={}", shape));
    for (r, src) in [(&a, &small), (&b, &large)] {
      if r.status != "ok" {
        out.found("C01", &format!("abort:{}:{}", r.status.replace(' ', "-"), shape), shape, json!({"meta": {"shape": shape, "bytes": src.len(), "ext": "tsx"}, "status": r.status, "stderr": r.stderr, "how": "probe (all rules) in a child process"}));
      }
    }
    // 4x the input: linear = 4x, quadratic = 16x.  Only growth that costs real time counts (noise below that).
    if a.status == "ok" && b.status == "ok" && b.secs > 1.0 && b.secs > 10.0 * a.secs.max(0.03) {
      out.found("C01", &format!("superlinear:{}", shape), shape, json!({"meta": {"shape": shape, "ext": "tsx"}, "bytes": [small.len(), large.len()], "seconds": [a.secs, b.secs]}));
    }
  }
  // ---- nesting: the same nested expression at depth d and 2d inside the places rules treat specially.  A rule that
  // walks a subtree again from a handler of every node of it doubles its work per level: 2^d.  Twice the depth may cost
  // a small multiple, not a power.
  {
    let nestings: Vec<(&str, Box<dyn Fn(usize) -> String>)> = vec![
      ("calls", Box::new(|d| format!("{}0{}", rep("f(", d), rep(")", d)))),
      ("method-calls", Box::new(|d| format!("{}0{}", rep("this.m(", d), rep(")", d)))),
      ("arrays", Box::new(|d| format!("{}0{}", rep("[", d), rep("]", d)))),
      ("conditionals", Box::new(|d| format!("{}0{}", rep("(a ? b : ", d), rep(")", d)))),
      ("arrows", Box::new(|d| format!("{}0", rep("() => ", d)))),
      ("templates", Box::new(|d| format!("{}0{}", rep("`${", d), rep("}`", d)))),
      ("objects", Box::new(|d| format!("{}0{}", rep("({ a: ", d), rep(" })", d)))),
      ("new-calls", Box::new(|d| format!("{}0{}", rep("new F(", d), rep(")", d)))),
      ("awaited-calls", Box::new(|d| format!("{}0{}", rep("g(await ", d), rep(")", d)))),
    ];
    let wrappers: &[(&str, &str, &str)] = &[
      ("statement", "x = ", ";"),
      ("derived-constructor", "class A extends B { constructor() { ", "; super(); } }"),
      ("getter", "const o = { get g() { return ", "; } };"),
      ("class-field", "class C { p = ", "; static { q = 1; } }"),
      ("async-loop", "async function h() { for (const k of ks) { await ", "; } }"),
      ("generator", "function* gen() { yield ", "; }"),
      ("switch-case", "switch (s) { case 1: ", "; break; default: }"),
      ("try-finally", "try { ", "; } catch (e) { } finally { }"),
      ("jsx-attribute", "const j = <div a={", "} />;"),
      ("default-parameter", "function d(p = ", ") { return p; }"),
    ];
    // nested statements, too: each opener with its closer
    let stmt_nestings: &[(&str, &str, &str)] = &[
      ("ifs", "if (a) { ", " }"),
      ("if-elses", "if (a) { b(); } else { ", " }"),
      ("loops", "for (const k of ks) { ", " }"),
      ("whiles", "while (a) { if (b) break; ", " }"),
      ("switches", "switch (s) { case 1: ", " break; default: }"),
      ("tries", "try { ", " } catch (e) { g(e); }"),
      ("finallys", "try { f(); } finally { ", " }"),
      ("functions", "function f() { ", " return 1; }"),
      ("methods", "class C { m() { ", " } }"),
      ("getters", "const o = { get g() { ", " return 1; } };"),
      ("arrow-bodies", "const a = () => { ", " };"),
      ("labels", "L: { ", " break L; }"),
      ("derived-constructors", "class D extends B { constructor() { super(); ", " } }"),
    ];
    for (sname, open, close) in stmt_nestings {
      let mk = |d: usize| format!("{}x();{}\n", rep(open, d), rep(close, d));
      let (d1, d2) = (12usize, 24usize);
      let a = run_probe(&probe, "ts", &mk(d1), limit);
      let b = run_probe(&probe, "ts", &mk(d2), Duration::from_secs(60));
      let shape = format!("nested-{}", sname);
      out.eval(&format!("nest:{}", shape), true, json!({"shape": shape, "depths": [d1, d2], "seconds": [a.secs, b.secs], "status": [a.status, b.status]}));
      out.count("nesting-in=statements");
      if a.status == "ok" && (b.status == "timeout" || (b.status == "ok" && b.secs > 2.0 && b.secs > 20.0 * a.secs.max(0.05))) {
        out.found("C01", &format!("exponential-in-depth:{}", shape), &shape, json!({"meta": {"shape": shape, "ext": "ts", "src": mk(d2).chars().take(300).collect::<String>()}, "depths": [d1, d2], "seconds": [a.secs, b.secs], "status": b.status}));
      }
    }
    for (nname, mk) in &nestings {
      for (wname, pre, post) in wrappers {
        if *nname == "awaited-calls" && *wname != "async-loop" {
          continue;
        }
        let (d1, d2) = (13usize, 26usize);
        let (s1, s2) = (format!("{}{}{}\n", pre, mk(d1), post), format!("{}{}{}\n", pre, mk(d2), post));
        let a = run_probe(&probe, "tsx", &s1, limit);
        let b = run_probe(&probe, "tsx", &s2, Duration::from_secs(60));
        let shape = format!("{}-in-{}", nname, wname);
        out.eval(&format!("nest:{}", shape), true, json!({"shape": shape, "depths": [d1, d2], "seconds": [a.secs, b.secs], "status": [a.status, b.status]}));
        out.count(&format!("nesting-in={}", wname));
        if a.status == "ok" && (b.status == "timeout" || (b.status == "ok" && b.secs > 2.0 && b.secs > 20.0 * a.secs.max(0.05))) {
          out.found("C01", &format!("exponential-in-depth:{}", shape), &shape, json!({"meta": {"shape": shape, "ext": "tsx", "src": s2.chars().take(300).collect::<String>()}, "depths": [d1, d2], "seconds": [a.secs, b.secs], "status": b.status}));
        }
      }
    }
  }
  // ---- depth
  let depths: Vec<usize> = args.opts.get("depths").map(|s| s.split('+').filter_map(|x| x.parse().ok()).collect()).unwrap_or_else(|| vec![150, 20_000]);
  for d in depths {
    for (shape, src) in deep(d) {
      let ext = if shape == "nested-jsx" { "tsx" } else { "ts" };
      let r = run_probe(&probe, ext, &src, limit);
      out.eval(&format!("deep:{}:{}", shape, d), true, json!({"shape": shape, "depth": d, "status": r.status, "seconds": r.secs}));
      out.count(&format!("depth={}:{}", d, r.status.replace(' ', "-")));
      if r.status != "ok" {
        let kind = if r.stderr.contains("overflowed its stack") { "stack-overflow".to_string() } else { r.status.replace(' ', "-") };
        out.found("C01", &format!("abort:{}:{}", kind, shape), shape, json!({"meta": {"shape": shape, "depth": d, "bytes": src.len(), "ext": ext}, "status": r.status, "stderr": r.stderr, "how": "probe (all rules) in a child process; main-thread stack of the process (ulimit -s)"}));
      }
    }
  }
  out.finish();
}
