//! C13, two completely modelled fix-providing rules (M-FIX small): `jsx-no-unescaped-entities` (verdict and fix text vs
//! `DL.FixSmall.escape`) and `jsx-props-no-spread-multi` (reported attributes before and after every real fix vs
//! `spreadReported` / `spreadFix`), on generated JSX.
use crate::{Args, Out};
use dlharness::*;
use serde_json::{json, Value};

const TEXT_POOL: &[&str] = &["a", "b c", " ", ">", "}", ">>", "}>", "&gt;", "&#125;", "&amp;", "&", ";", "😀", "é", "\n", "\t", "/", "=", "'", "\"", "-->", "=>", "1 > 0", "x}", "#125", "gt;"];
const ATTR_POOL: &[(&str, Option<&str>)] = &[
  ("{...p}", Some("p")), ("{...q}", Some("q")), ("{...p.a}", Some("p.a")), ("{ ...p }", Some("p")), ("{...(p)}", Some("(p)")), ("{...p /* c */}", Some("p")),
  ("x=\"1\"", None), ("y", None), ("z={p}", None), ("{...f(q)}", Some("f(q)")), ("{...q}", Some("q")),
];

pub fn run(args: &Args) {
  let mut out = Out::new(&args.out, "fixsmall");
  let mut rng = Rng::new(args.seed ^ 0xF15);
  let ent = mk_linter(rules_by_codes(&["jsx-no-unescaped-entities".to_string()]), &Words::default());
  let spread = mk_linter(rules_by_codes(&["jsx-props-no-spread-multi".to_string()]), &Words::default());
  for case_no in 0..args.count {
    if case_no % 2 == 0 {
      // ---- jsx-no-unescaped-entities
      let n = rng.below(7);
      let text: String = (0..n).map(|_| TEXT_POOL[rng.below(TEXT_POOL.len())]).collect();
      let src = format!("const x = <div>{}</div>;\n", text);
      // (.jsx: in .tsx `<div>é=>x</div>` is a generic arrow function, not an element)
      match lint(&ent, &src, "jsx") {
        Outcome::Ok(ds) => {
          let fix = ds.first().and_then(|d| d.fixes.first()).and_then(|(_, ch)| ch.first().map(|c| c.2.clone()));
          out.count(if ds.is_empty() { "ent=clean" } else { "ent=reported" });
          if ds.len() > 1 {
            out.found("C13", "ent:more-than-one-diagnostic-for-one-text", &src, json!({"meta": {"src": src}}));
          }
          out.case(json!({"m": "ent", "t": text}), json!({"reported": !ds.is_empty(), "fixed": fix}), json!({"src": src}));
        }
        Outcome::ParseErr(e) => out.count(&format!("ent-parse-error:{}", e.chars().take(30).collect::<String>())),
        Outcome::Panic(m) => out.found("C01", "panic:jsx-no-unescaped-entities", &src, json!({"meta": {"src": src}, "panic": m})),
      }
    } else {
      // ---- jsx-props-no-spread-multi
      let n = rng.range(1, 6);
      let attrs: Vec<(&str, Option<&str>)> = (0..n).map(|_| ATTR_POOL[rng.below(ATTR_POOL.len())]).collect();
      let gap = |rng: &mut Rng| [" ", "  ", "\n  ", " /* g */ "][rng.below(4)];
      let mut src = String::from("const x = <Foo");
      let mut starts = vec![];
      for (t, _) in &attrs {
        src.push_str(gap(&mut rng));
        starts.push(src.len());
        src.push_str(t);
      }
      src.push_str(" />;\n");
      let model_attrs: Vec<Value> = attrs.iter().map(|(_, e)| json!(e)).collect();
      // a report starts inside the attribute it is about
      let index_of = |src: &str, starts: &[usize], pos: usize| -> Option<usize> {
        let _ = src;
        starts.iter().rposition(|s| *s <= pos)
      };
      match lint(&spread, &src, "tsx") {
        Outcome::Ok(ds) => {
          let idx: Vec<Option<usize>> = ds.iter().map(|d| d.start.and_then(|p| index_of(&src, &starts, p))).collect();
          out.count(&format!("spread-reports={}", ds.len().min(3)));
          out.case(json!({"m": "spread", "attrs": model_attrs, "fix": Value::Null}), json!({"reported": idx}), json!({"src": src}));
          for (d, i) in ds.iter().zip(idx.iter()) {
            let Some(i) = i else { continue };
            for (_, ch) in &d.fixes {
              let Some(fixed) = crate::d_scan::apply_fix(&src, ch) else { continue };
              // positions of the remaining attributes in the fixed text: the removed range lies inside one gap+attribute
              let (a, b) = (ch[0].0, ch[0].1);
              let starts2: Vec<usize> = starts.iter().enumerate().filter(|(k, _)| k != i).map(|(_, s)| if *s >= b { s - (b - a) } else { *s }).collect();
              match lint(&spread, &fixed, "tsx") {
                Outcome::Ok(d2) => {
                  let idx2: Vec<Option<usize>> = d2.iter().map(|d| d.start.and_then(|p| index_of(&fixed, &starts2, p))).collect();
                  out.case(json!({"m": "spread", "attrs": model_attrs, "fix": i}), json!({"reported": idx2}), json!({"src": src, "fixed": fixed, "fix_of": i}));
                }
                Outcome::ParseErr(e) => out.found("C13", "fixed-text-does-not-parse:jsx-props-no-spread-multi", &src, json!({"meta": {"src": src}, "fixed": fixed, "error": e})),
                Outcome::Panic(m) => out.found("C01", "panic:jsx-props-no-spread-multi", &fixed, json!({"meta": {"src": fixed}, "panic": m})),
              }
            }
          }
        }
        Outcome::ParseErr(e) => out.count(&format!("spread-parse-error:{}", e.chars().take(30).collect::<String>())),
        Outcome::Panic(m) => out.found("C01", "panic:jsx-props-no-spread-multi", &src, json!({"meta": {"src": src}, "panic": m})),
      }
    }
  }
  out.finish();
}
