//! C08: embedding search.  For the context-free rules, an offending construct must be reported exactly once and at
//! its own location wherever it is nested: diags_r(ctx[S]) = shift(diags_r(S)) ∪ diags_r(ctx[neutral]).
//! Contexts are composed to a depth; constructs are the repo's own triggering snippets of each rule.
use crate::{Args, Out};
use dlharness::*;
use serde_json::json;
use std::collections::BTreeMap;

/// statement contexts: (name, prefix, suffix, needs_tsx, needs_ts)
pub const CONTEXTS: &[(&str, &str, &str, bool, bool)] = &[
  // accessor functions handed to the property-definition built-ins (some rules look into them specially), each with a
  // `return` before and after the hole
  ("defineProperty-getter", "Object.defineProperty(o0, \"k\", { get() { if (c9) return 0;\n", "\nreturn 1; } });", false, false),
  ("defineProperty-getter-fn", "Reflect.defineProperty(o1, \"k\", { get: function () { if (c9) return 0;\n", "\nreturn 1; } });", false, false),
  ("defineProperties-getter", "Object.defineProperties(o2, { k: { get: () => { if (c9) return 0;\n", "\nreturn 1; } } });", false, false),
  ("object-create-getter", "Object.create(p0, { k: { get() { if (c9) return 0;\n", "\nreturn 1; } } });", false, false),
  ("object-getter-after-return", "const og = { get k() { if (c9) { return 0; }\n", "\nreturn 1; } };", false, false),
  ("block", "{\n", "\n}", false, false),
  ("function-decl", "function w0() {\n", "\n}", false, false),
  ("arrow-body", "const a0 = () => {\n", "\n};", false, false),
  ("async-arrow", "const a1 = async () => {\n", "\n};", false, false),
  ("generator", "function* g0() {\n", "\n}", false, false),
  ("if-branch", "if (c0) {\n", "\n}", false, false),
  ("else-branch", "if (c0) { } else {\n", "\n}", false, false),
  ("else-if-branch", "if (c0) { } else if (c1) {\n", "\n}", false, false),
  ("else-after-else-if", "if (c0) { } else if (c1) { } else {\n", "\n}", false, false),
  ("for-body", "for (const k0 of ks9) {\n", "\n}", false, false),
  ("while-body", "while (c0) {\n", "\n}", false, false),
  ("switch-case", "switch (s0) { case 1:\n", "\n}", false, false),
  // a case that is allowed to fall through, by each spelling of the comment
  ("switch-case-falls-through", "switch (s0) { case 0:\n", "\n/* falls through */\ncase 1: d9(); }", false, false),
  ("switch-case-fallthrough-line", "switch (s0) { case 0: {\n", "\n}\n// fallthrough\ndefault: d9(); }", false, false),
  ("switch-case-then-break", "switch (s0) { case 0:\n", "\nbreak;\ncase 1: d9(); }", false, false),
  ("switch-case-test", "switch (s0) { case (() => {\n", "\n})(): d9(); }", false, false),
  ("switch-default", "switch (s0) { default: {\n", "\n} }", false, false),
  ("try-block", "try {\n", "\n} catch { }", false, false),
  ("catch-block", "try { } catch {\n", "\n}", false, false),
  ("finally-block", "try { } finally {\n", "\n}", false, false),
  ("labeled-block", "l0: {\n", "\n}", false, false),
  ("class-method", "class K0 { m() {\n", "\n} }", false, false),
  ("class-static-block", "class K1 { static {\n", "\n} }", false, false),
  ("class-ctor", "class K2 { constructor() {\n", "\n} }", false, false),
  ("class-getter", "class K3 { get g() {\n", "\nreturn 1; } }", false, false),
  ("class-setter", "class K4 { set s(v) {\n", "\n} }", false, false),
  ("class-prop-arrow", "class K5 { p = () => {\n", "\n}; }", false, false),
  ("class-private-method", "class K6 { #m() {\n", "\n} }", false, false),
  ("object-method", "const o0 = { m() {\n", "\n} };", false, false),
  ("object-getter", "const o1 = { get g() {\n", "\nreturn 1; } };", false, false),
  ("object-prop-fn", "const o2 = { f: function () {\n", "\n} };", false, false),
  ("iife", "(function () {\n", "\n})();", false, false),
  ("call-arg", "fn9(1, () => {\n", "\n});", false, false),
  ("new-arg", "new Ctor9(function () {\n", "\n});", false, false),
  ("default-param", "function d0(p9 = () => {\n", "\n}) { }", false, false),
  ("destructuring-default", "const { q9 = () => {\n", "\n} } = o9;", false, false),
  ("array-destructuring-default", "const [r9 = function () {\n", "\n}] = arr9;", false, false),
  ("template-substitution", "`t${() => {\n", "\n}}`;", false, false),
  ("tagged-template", "tag9`x${function () {\n", "\n}}`;", false, false),
  ("return-arg", "function r0() { return () => {\n", "\n}; }", false, false),
  ("throw-arg", "function t0() { throw function () {\n", "\n}; }", false, false),
  ("conditional-expr", "c0 ? () => {\n", "\n} : null;", false, false),
  ("logical-expr", "c0 && (() => {\n", "\n});", false, false),
  ("assignment-rhs", "x0 = function () {\n", "\n};", false, false),
  ("array-element", "[1, () => {\n", "\n}];", false, false),
  ("spread-arg", "foo(...[() => {\n", "\n}]);", false, false),
  ("optional-call-arg", "foo?.(() => {\n", "\n});", false, false),
  ("member-computed", "obj[(() => {\n", "\n})()];", false, false),
  ("await-arg", "async function aw0() { await (async () => {\n", "\n})(); }", false, false),
  ("yield-arg", "function* y0() { yield () => {\n", "\n}; }", false, false),
  ("export-fn", "export function e0() {\n", "\n}", false, false),
  ("export-default-fn", "export default function () {\n", "\n}", false, false),
  ("namespace", "namespace N0 {\n", "\n}", false, true),
  ("ts-as-expr", "(() => {\n", "\n}) as unknown;", false, true),
  ("ts-non-null", "(() => {\n", "\n})!;", false, true),
  ("jsx-attr", "const j0 = <div a={() => {\n", "\n}} />;", true, false),
  ("jsx-child", "const j1 = <div>{() => {\n", "\n}}</div>;", true, false),
  ("seq-expr", "(0, function () {\n", "\n});", false, false),
  ("unary", "void function () {\n", "\n};", false, false),
  ("for-init", "for (const f0 = () => {\n", "\n}; c0; ) { }", false, false),
  ("switch-discriminant", "switch ((() => {\n", "\n})()) { }", false, false),
  ("with-typeof", "typeof (() => {\n", "\n});", false, false),
];

/// rules whose verdict legitimately depends on the surrounding code (scope, control flow, loops, module level, file
/// position, other statements): excluded from the embedding oracle.  Everything else is treated as context-free.
pub const CONTEXT_DEPENDENT: &[(&str, &str)] = &[
  ("no-unreachable", "control flow of the enclosing function"),
  ("no-fallthrough", "position inside a switch"),
  ("getter-return", "control flow"),
  ("no-await-in-loop", "enclosing loop"),
  ("no-await-in-sync-fn", "enclosing function kind"),
  ("require-await", "enclosing function kind"),
  ("require-yield", "enclosing function kind"),
  ("no-top-level-await", "module level"),
  ("no-inner-declarations", "nesting depth is what the rule is about"),
  ("no-unused-vars", "scope"),
  ("no-undef", "scope"),
  ("no-redeclare", "scope"),
  ("no-shadow-restricted-names", "scope"),
  ("prefer-const", "scope / later assignments"),
  ("no-const-assign", "scope"),
  ("no-class-assign", "scope"),
  ("no-func-assign", "scope"),
  ("no-ex-assign", "scope"),
  ("no-import-assign", "imports are module level"),
  ("no-global-assign", "scope"),
  ("no-this-alias", "enclosing function"),
  ("no-this-before-super", "constructor context"),
  ("constructor-super", "class context"),
  ("no-unsafe-finally", "enclosing finally"),
  ("no-unused-labels", "labels in scope"),
  ("no-setter-return", "enclosing setter"),
  ("no-case-declarations", "enclosing case"),
  ("no-var", "module level exemptions"),
  ("no-window", "scope"),
  ("no-window-prefix", "scope"),
  ("no-process-global", "scope"),
  ("no-node-globals", "scope"),
  ("no-deprecated-deno-api", "scope"),
  ("no-console", "scope"),
  ("no-eval", "scope"),
  ("no-obj-calls", "scope"),
  ("no-new-symbol", "scope"),
  ("no-prototype-builtins", "scope"),
  ("prefer-primordials", "scope"),
  ("no-sync-fn-in-async-fn", "enclosing function kind"),
  ("no-invalid-triple-slash-reference", "file header"),
  ("triple-slash-reference", "file header"),
  ("ban-ts-comment", "comments"),
  ("ban-untagged-ignore", "comments"),
  ("ban-untagged-todo", "comments"),
  ("ban-unknown-rule-code", "directives"),
  ("ban-unused-ignore", "directives"),
  ("prefer-ascii", "character level"),
  ("no-irregular-whitespace", "character level"),
  ("no-external-import", "imports"),
  ("no-import-assertions", "imports"),
  ("verbatim-module-syntax", "imports/exports"),
  ("no-implicit-declare-namespace-export", "ambient namespaces"),
  ("explicit-module-boundary-types", "exports"),
  ("fresh-handler-export", "exports"),
  ("fresh-server-event-handlers", "file location"),
  ("no-duplicate-case", "enclosing switch"),
  ("no-dupe-class-members", "enclosing class"),
  ("camelcase", "declarations vs uses across the file"),
  ("adjacent-overload-signatures", "sibling members"),
  ("react-rules-of-hooks", "enclosing component/hook"),
  ("jsx-key", "enclosing array/iterator"),
  ("no-boolean-literal-for-arguments", "none - kept context-free? no: depends on callee"),
];

/// rules of CONTEXT_DEPENDENT whose verdict depends on the enclosing function / class / switch / try only: a construct
/// that brings its own enclosure along (a snippet whose top-level statements are all function declarations, class
/// declarations, variable declarations or expression statements) is context-free again and goes through the same oracle.
pub const CLOSED_WHEN_SELF_CONTAINED: &[&str] = &[
  "getter-return", "no-unreachable", "no-fallthrough", "require-yield", "no-setter-return", "no-this-before-super",
  "constructor-super", "no-unsafe-finally", "no-duplicate-case", "no-dupe-class-members", "no-case-declarations",
  "no-unused-labels", "no-this-alias",
];

/// rules of CONTEXT_DEPENDENT whose verdict depends on the bindings in scope: the contexts only bind names no corpus
/// snippet uses (`c0`, `o1`, `K3`, ...), so a construct keeps its verdict wherever it is nested (no sibling constructs
/// for these: two snippets of a scope rule may well talk about the same name).
pub const SCOPE_LOCAL: &[&str] = &[
  "no-redeclare", "no-const-assign", "no-class-assign", "no-func-assign", "no-ex-assign", "no-shadow-restricted-names",
  "prefer-const", "no-unused-vars", "no-undef", "no-global-assign", "no-window", "no-window-prefix", "no-process-global",
  "no-node-globals", "no-deprecated-deno-api", "no-console", "no-eval", "no-obj-calls", "no-new-symbol",
  "no-prototype-builtins", "prefer-primordials", "no-var", "no-import-assign",
  // not scope rules, but context-free in the same way: character-level and comment rules (the construct carries its
  // characters and comments along), and rules about a whole declaration the construct brings along
  "prefer-ascii", "no-irregular-whitespace", "ban-ts-comment", "ban-untagged-todo", "camelcase",
  "adjacent-overload-signatures", "require-await", "no-boolean-literal-for-arguments",
];

fn self_contained(src: &str, ext: &str, rule: &str) -> bool {
  use deno_ast::swc::ast::{Decl, ModuleItem, Stmt};
  let crate::d_scan::Full::Ok(ps, _) = crate::d_scan::lint_full(&mk_linter(vec![], &Words::default()), src, ext, &Cfg::default()) else {
    return false;
  };
  // for the rules about switch statements a whole switch statement is an enclosure of its own, too
  let switch_rule = ["no-fallthrough", "no-duplicate-case", "no-case-declarations"].contains(&rule);
  let ok = |s: &Stmt| matches!(s, Stmt::Decl(Decl::Fn(_)) | Stmt::Decl(Decl::Class(_)) | Stmt::Decl(Decl::Var(_)) | Stmt::Expr(_) | Stmt::Empty(_)) || (switch_rule && matches!(s, Stmt::Switch(_)));
  match ps.program_ref() {
    deno_ast::ProgramRef::Module(m) => m.body.iter().all(|i| matches!(i, ModuleItem::Stmt(s) if ok(s))),
    deno_ast::ProgramRef::Script(sc) => sc.body.iter().all(ok),
  }
}

/// a snippet's leading single-line `import` declarations (they stay at the top of the file) and the rest (the part that is
/// embedded)
fn split_prelude(src: &str) -> (String, String) {
  let mut prel = String::new();
  let mut rest = src;
  loop {
    let t = rest.trim_start();
    if !t.starts_with("import ") {
      break;
    }
    let Some(nl) = t.find('\n') else { break };
    let line = &t[..nl];
    if !line.trim_end().ends_with(';') || line.matches(';').count() != 1 {
      break;
    }
    prel.push_str(line);
    prel.push('\n');
    rest = &t[nl + 1..];
  }
  (prel, rest.to_string())
}

fn embeddable(src: &str) -> bool {
  // module-level-only syntax cannot be nested; `return`-bearing / `yield` / `await` snippets change meaning by context
  let s = src;
  !(s.contains("import ") || s.contains("export ") || s.contains("declare ") || s.contains("namespace ") || s.contains("module ")
    || s.contains("deno-lint-ignore") || s.contains("///") || s.contains("#!") || s.contains("await") || s.contains("yield")
    || s.contains("arguments") || s.contains("super") || s.contains("new.target") || s.contains("use strict"))
}

/// an offending construct as the *leftmost* operand of another offending construct of the same rule: both start at the
/// same position, both must be reported (rule, inner, outer with `$` = inner, the same outer around a neutral operand)
const SELF_NESTING: &[(&str, &str, &str, &str)] = &[
  ("eqeqeq", "a == b", "$ == c", "z == c"),
  ("eqeqeq", "a != b", "$ != c", "z != c"),
  ("no-compare-neg-zero", "x === -0", "$ === -0", "z === -0"),
  ("use-isnan", "x == NaN", "$ == NaN", "z == NaN"),
  ("no-prototype-builtins", "a.hasOwnProperty(b)", "$.hasOwnProperty(c)", "z.hasOwnProperty(c)"),
  ("no-non-null-assertion", "a!", "$.b!", "z.b!"),
  ("no-explicit-any", "(a as any)", "$ as any", "z as any"),
  ("no-await-in-sync-fn", "await a", "$ + await b", "z + await b"),
  ("no-array-constructor", "new Array(1, 2)", "$.concat(new Array(3, 4))", "z.concat(new Array(3, 4))"),
  ("no-new-symbol", "new Symbol()", "$ + new Symbol()", "z + new Symbol()"),
  ("no-eval", "eval(\"a\")", "$ + eval(\"b\")", "z + eval(\"b\")"),
  ("no-console", "console.log(1)", "$ + console.log(2)", "z + console.log(2)"),
];

fn self_nesting(out: &mut Out) {
  for (rule, inner, outer, neutral) in SELF_NESTING {
    if !all_codes().contains(&rule.to_string()) {
      continue;
    }
    let l = mk_linter(rules_by_codes(&[rule.to_string()]), &Words::default());
    for wrap in ["{};", "function f() {{ return {}; }}", "x = [{}];", "if ({}) {{}}"] {
      let mk = |e: &str| wrap.replacen("{}", e, 1).replace("{{", "{").replace("}}", "}");
      let (si, so, sn) = (mk(inner), mk(&outer.replace('$', inner)), mk(neutral));
      let at = wrap.find("{}").unwrap_or(0) - wrap[..wrap.find("{}").unwrap_or(0)].matches("{{").count();
      match (lint(&l, &si, "ts"), lint(&l, &so, "ts"), lint(&l, &sn, "ts")) {
        (Outcome::Ok(di), Outcome::Ok(d_o), Outcome::Ok(dn)) => {
          out.eval(&format!("self-nesting|{}|{}", rule, so), true, json!({"rule": rule, "nested": so}));
          out.count("self-nesting");
          if di.is_empty() {
            out.count(&format!("self-nesting-inner-silent:{}", rule));
            continue;
          }
          // every finding of the inner construct keeps its range; the count is inner + outer-around-neutral
          let ranges = |v: &Vec<D>| -> Vec<(Option<usize>, Option<usize>)> { v.iter().map(|d| (d.start, d.end)).collect() };
          let missing: Vec<_> = ranges(&di).into_iter().filter(|r| !ranges(&d_o).contains(r)).collect();
          if !missing.is_empty() || d_o.len() != di.len() + dn.len() {
            out.found("C08", &format!("hidden:{}:self-nesting", rule), &so, json!({"meta": {"rule": rule, "embedded": so, "construct": si, "hole_at": at}, "inner_alone": di.iter().map(|d| d.json()).collect::<Vec<_>>(), "nested": d_o.iter().map(|d| d.json()).collect::<Vec<_>>(), "outer_around_neutral": dn.len(), "missing_ranges": missing}));
          }
        }
        _ => out.count("self-nesting-does-not-parse"),
      }
    }
  }
}

/// the same pattern text twice in one file, once in Unicode mode and once not, valid in exactly one of the modes: each
/// occurrence gets the verdict of its own mode, in both orders and wherever the two stand (invalid one, valid one)
const MODE_PAIRS: &[(&str, &str)] = &[
  ("/a{1/u", "/a{1/"),
  ("/\\-/u", "/\\-/"),
  ("/[\\u{1F600}-\\u{1F601}]/", "/[\\u{1F600}-\\u{1F601}]/u"),
  ("new RegExp(\"\\\\-\", \"u\")", "new RegExp(\"\\\\-\")"),
  ("new RegExp(\"a{1\", \"u\")", "new RegExp(\"a{1\", \"g\")"),
  ("/\\p{Foo}/u", "/\\p{Foo}/"),
  ("/(?<a>.)\\k<b>/", "/(?<a>.)\\k<a>/"),
];

fn mode_pairs(out: &mut Out, rng: &mut Rng) {
  if !all_codes().contains(&"no-invalid-regexp".to_string()) {
    return;
  }
  let l = mk_linter(rules_by_codes(&["no-invalid-regexp".to_string()]), &Words::default());
  for (bad, good) in MODE_PAIRS {
    for order in 0..2 {
      for _ in 0..6 {
        let c1 = rng.below(CONTEXTS.len());
        let c2 = rng.below(CONTEXTS.len());
        if CONTEXTS[c1].3 || CONTEXTS[c2].3 || CONTEXTS[c1].0.starts_with("export") || CONTEXTS[c2].0.starts_with("export") || CONTEXTS[c1].0 == "namespace" || CONTEXTS[c2].0 == "namespace" {
          continue;
        }
        let wrap = |c: usize, e: &str| format!("{}x = {};{}", CONTEXTS[c].1, e, CONTEXTS[c].2);
        let (first, second) = if order == 0 { (wrap(c1, bad), wrap(c2, good)) } else { (wrap(c1, good), wrap(c2, bad)) };
        let src = format!("{}\n{}\n", first, second);
        let alone_bad = if order == 0 { format!("{}\n{}\n", wrap(c1, bad), wrap(c2, "0")) } else { format!("{}\n{}\n", wrap(c1, "0"), wrap(c2, bad)) };
        match (lint(&l, &src, "ts"), lint(&l, &alone_bad, "ts")) {
          (Outcome::Ok(d), Outcome::Ok(d0)) => {
            out.eval(&format!("mode-pair|{}|{}|{}", bad, order, src), true, json!({"src": src}));
            out.count("mode-pair");
            // the valid twin is as long as "0" plus a constant: compare counts and the start of the report
            if d.len() != d0.len() || d.iter().map(|x| x.start).collect::<Vec<_>>() != d0.iter().map(|x| x.start.map(|s| if order == 1 { s + good.len() - 1 } else { s })).collect::<Vec<_>>() {
              out.found("C08", "created:no-invalid-regexp:same-text-other-mode-sibling", &src, json!({"meta": {"rule": "no-invalid-regexp", "embedded": src, "invalid": bad, "valid": good, "contexts": [CONTEXTS[c1].0, CONTEXTS[c2].0]}, "with_valid_twin": d.iter().map(|x| x.json()).collect::<Vec<_>>(), "invalid_alone": d0.iter().map(|x| x.json()).collect::<Vec<_>>()}));
            }
          }
          _ => out.count("mode-pair-does-not-parse"),
        }
      }
    }
  }
}

pub fn run(args: &Args) {
  let mut out = Out::new(&args.out, "embed");
  self_nesting(&mut out);
  {
    let mut r = Rng::new(args.seed ^ 0x30DE);
    mode_pairs(&mut out, &mut r);
  }
  let mut rng = Rng::new(args.seed ^ 0xE3BED);
  let corpus = crate::d_scan::load_corpus();
  let depth: usize = args.opts.get("depth").and_then(|s| s.parse().ok()).unwrap_or(2);
  let all = all_codes();
  let excluded: Vec<&str> = CONTEXT_DEPENDENT.iter().map(|x| x.0).collect();
  // triggering, embeddable snippets per context-free rule
  let mut by_rule: BTreeMap<String, Vec<usize>> = BTreeMap::new();
  // the rule's own *non-offending* snippets (its `valid` tests): nesting must not create a report either
  let mut silent_by_rule: BTreeMap<String, Vec<usize>> = BTreeMap::new();
  let mut linters: BTreeMap<String, deno_lint::linter::Linter> = BTreeMap::new();
  for (i, sn) in corpus.iter().enumerate() {
    let closed_class = CLOSED_WHEN_SELF_CONTAINED.contains(&sn.rule.as_str());
    if !all.contains(&sn.rule) || (excluded.contains(&sn.rule.as_str()) && !closed_class && !SCOPE_LOCAL.contains(&sn.rule.as_str())) || !embeddable(&split_prelude(&sn.src).1) {
      continue;
    }
    if closed_class && !self_contained(&sn.src, "ts", &sn.rule) {
      continue;
    }
    let l = linters.entry(sn.rule.clone()).or_insert_with(|| mk_linter(rules_by_codes(&[sn.rule.clone()]), &Words::default()));
    let ext = if sn.rule.starts_with("jsx") || sn.rule.starts_with("react") || sn.src.contains("</") || sn.src.contains("/>") { "tsx" } else { "ts" };
    if let Outcome::Ok(d) = lint(l, &sn.src, ext) {
      if !d.is_empty() {
        by_rule.entry(sn.rule.clone()).or_default().push(i);
      } else {
        silent_by_rule.entry(sn.rule.clone()).or_default().push(i);
      }
    }
  }
  out.add("context-free-rules-with-constructs", by_rule.len() as u64);
  let rules: Vec<String> = by_rule.keys().cloned().collect();
  if rules.is_empty() {
    out.finish();
    return;
  }
  for case_no in 0..args.count {
    let mut crng = rng.fork();
    // round-robin over rules; a seed-dependent construct; a random context chain
    let rule = &rules[case_no % rules.len()];
    let idxs = &by_rule[rule];
    let mut sn = &corpus[idxs[(case_no / rules.len() + args.seed as usize) % idxs.len()]];
    // every fifth case (drawn) the construct is one the rule accepts: it stays silent at any nesting, whatever else of
    // the same rule the context holds
    let mut silent_construct = false;
    // (not for the scope rules: what an accepted snippet declares interacts with its own imports and with siblings)
    if crng.chance(1, 5) && !SCOPE_LOCAL.contains(&rule.as_str()) {
      if let Some(sil) = silent_by_rule.get(rule) {
        sn = &corpus[sil[crng.below(sil.len())]];
        silent_construct = true;
      }
    }
    let tsx = rule.starts_with("jsx") || rule.starts_with("react") || sn.src.contains("</") || sn.src.contains("/>");
    let d = crng.range(1, depth);
    let mut chain: Vec<usize> = vec![];
    for _ in 0..d {
      loop {
        let c = crng.below(CONTEXTS.len());
        let (_, _, _, needs_tsx, needs_ts) = CONTEXTS[c];
        if needs_tsx && !tsx {
          continue;
        }
        if needs_ts && tsx {
          // `<T>`-free TS syntax is fine in tsx too, keep it
        }
        // module-level contexts only outermost
        if (CONTEXTS[c].0.starts_with("export") || CONTEXTS[c].0 == "namespace") && !chain.is_empty() {
          continue;
        }
        chain.push(c);
        break;
      }
    }
    // two documented dependences on the innermost context: no-var exempts declarations directly in a namespace / ambient
    // module block (`declare global { var x }`); a function declaration is block-scoped in a block and function-scoped
    // in a function body, so `var a; function a() {}` is one binding or two depending on where it stands
    let innermost = CONTEXTS[*chain.last().unwrap()].0;
    if (rule == "no-var" && innermost == "namespace") || (rule == "no-redeclare" && sn.src.contains("function ")) {
      out.count("skipped-documented-context-dependence");
      continue;
    }
    let ext = if tsx { "tsx" } else { "ts" };
    let l = &linters[rule];
    // build ctx[S] and ctx[;]
    let mut pre = String::new();
    let mut suf = String::new();
    for c in &chain {
      pre.push_str(CONTEXTS[*c].1);
      suf.insert_str(0, CONTEXTS[*c].2);
    }
    // every fourth case the context also holds a *sibling*: another offending construct of the same rule placed before
    // everything else — the construct itself with its regular-expression flags toggled when it has any, else another
    // triggering snippet of the rule.  A context-free rule reports each of them as if the other were not there.
    let mut names: Vec<&str> = chain.iter().map(|c| CONTEXTS[*c].0).collect();
    let mut sib_texts: Vec<String> = vec![];
    // (drawn, not `case_no % 4`: the rules are visited round-robin, and a rule count divisible by four would give some
    // rules a sibling always and the others never)
    if (crng.chance(1, 4) || (sn.src.contains("RegExp") && crng.chance(1, 2))) && !SCOPE_LOCAL.contains(&rule.as_str()) {
      let toggled = sn.src.replace("/u", "/\u{1}").replace("/g", "/gu").replace("/\u{1}", "/").replace("\"u\")", "\"\")").replace("'u')", "'')").replace("/;", "/u;").replace("/)", "/u)");
      let sib = if toggled != sn.src && crng.chance(2, 3) {
        toggled
      } else {
        corpus[idxs[crng.below(idxs.len())]].src.clone()
      };
      if embeddable(&sib) {
        pre = format!("{}\n{}", sib.trim_end(), pre);
        names.insert(0, "sibling-of-same-rule");
        sib_texts.push(sib.clone());
      }
    }
    // every fifth case (always for an accepted construct) the context holds a *late sibling that is traversed early*:
    // another offending construct of the same rule that stands after the hole in the source but is visited before it
    // (deno_ast's view yields a do-while test before the body and a class body before the `extends` expression)
    if (silent_construct || crng.chance(1, 5)) && !SCOPE_LOCAL.contains(&rule.as_str()) {
      let sib = corpus[idxs[crng.below(idxs.len())]].src.clone();
      let (sp, sb) = split_prelude(&sib);
      if embeddable(&sb) && sp.is_empty() {
        sib_texts.push(sb.clone());
        match crng.below(3) {
          0 => {
            pre = format!("do {{ {}", pre);
            suf = format!("{} }} while ((() => {{ {} }})());", suf, sb.trim_end());
            names.insert(0, "do-while-body-with-sibling-in-test");
          }
          1 => {
            pre = format!("(class extends ((() => {{ {}", pre);
            suf = format!("{} }})()) {{ m9() {{ {} }} }});", suf, sb.trim_end());
            names.insert(0, "extends-expression-with-sibling-in-class-body");
          }
          _ => {
            suf = format!("{}\n{}", suf, sb.trim_end());
            names.insert(0, "sibling-after");
          }
        }
      }
    }
    if silent_construct {
      names.insert(0, "accepted-construct");
      // an accepted construct that declares a name a sibling uses (`var RegExp = function() {}` next to `RegExp(' ')`)
      // changes the sibling's verdict through scoping, as it should: not a context-free pair
      let declared: Vec<String> = sn.src.split(|c: char| !(c.is_alphanumeric() || c == '_' || c == '$')).collect::<Vec<_>>().windows(2)
        .filter(|w| ["var", "let", "const", "function", "class", "enum", "import"].contains(&w[0]) && !w[1].is_empty()).map(|w| w[1].to_string()).collect();
      let word_in = |t: &str, w: &str| t.split(|c: char| !(c.is_alphanumeric() || c == '_' || c == '$')).any(|x| x == w);
      if declared.iter().any(|d| sib_texts.iter().any(|t| word_in(t, d))) {
        out.count("skipped-accepted-construct-binds-a-name-of-the-sibling");
        continue;
      }
    }
    let (prel, body) = split_prelude(&sn.src);
    if !prel.is_empty() {
      out.count("import-prelude-kept-on-top");
    }
    let pl = prel.len();
    let with_s = format!("{}{}{}{}", prel, pre, body, suf);
    let with_neutral = format!("{}{};{}", prel, pre, suf);
    let base = match lint(l, &format!("{}{}", prel, body), ext) {
      Outcome::Ok(d) => d,
      _ => continue,
    };
    let meta = json!({"rule": rule, "construct": sn.src, "contexts": names, "embedded": with_s, "ext": ext});
    let key = format!("{}|{}", rule, names.join(">"));
    match (lint(l, &with_s, ext), lint(l, &with_neutral, ext)) {
      (Outcome::Ok(ds), Outcome::Ok(dn)) => {
        out.eval(&format!("{}|{}", key, sn.src), true, meta.clone());
        out.count(&format!("depth={}", chain.len()));
        for n in &names {
          out.count(&format!("ctx={}", n));
        }
        let k = pre.len() as isize;
        let strip = |d: &D| (d.start, d.end, d.code.clone());
        // findings inside the import prelude stay where they are, those of the construct move by len(context prefix)
        let mut expected: Vec<_> = base.iter().map(|d| if d.start.map(|s| s < pl).unwrap_or(true) && pl > 0 { strip(d) } else { strip(&d.shift(k)) }).collect();
        // diagnostics the bare context produces (positions after the hole move by len(S) - 1); what it says about the
        // prelude is not the context's doing
        let delta = body.len() as isize - 1;
        let hole = pl as isize + k;
        for d in &dn {
          if pl > 0 && d.start.map(|s| s < pl).unwrap_or(false) {
            continue;
          }
          let mut dd = d.clone();
          if d.start.map(|s| s as isize > hole).unwrap_or(false) {
            dd = d.shift(delta);
          } else if d.end.map(|e| e as isize > hole).unwrap_or(false) {
            dd.end = d.end.map(|e| (e as isize + delta) as usize);
          }
          expected.push(strip(&dd));
        }
        let mut got: Vec<_> = ds.iter().map(strip).collect();
        expected.sort();
        got.sort();
        if expected != got {
          let missing: Vec<_> = expected.iter().filter(|x| !got.contains(x)).cloned().collect();
          let extra: Vec<_> = got.iter().filter(|x| !expected.contains(x)).cloned().collect();
          let kind = if !missing.is_empty() && extra.is_empty() { "hidden" } else if missing.is_empty() { "created" } else { "moved" };
          out.found("C08", &format!("{}:{}:{}", kind, rule, names.join(">")), &key, json!({"meta": meta, "missing": missing, "extra": extra}));
        }
      }
      (Outcome::Panic(m), _) | (_, Outcome::Panic(m)) => out.found("C01", &format!("panic:{}", rule), &with_s, json!({"meta": meta, "panic": m})),
      _ => out.count("embedded-does-not-parse"),
    }
  }
  out.finish();
}
