//! C13, the text-replacing quick fixes (M-FIX rest, `lean/DL/Model/FixRest.lean`): `no-window`, `no-window-prefix`,
//! no-node-globals' `global` -> `globalThis`, `jsx-boolean-value` and the child fix of `jsx-curly-braces`.
//!
//! Every case generates a program from templates whose abstraction is known to the generator (which identifier
//! occurrences there are and where they stand; which attributes with which kind of value; which children), runs the REAL
//! rule, and emits one request for the bare reports and one per offered fix: the real rule's reports on the really fixed
//! text, as indices into the same abstraction, against the model's reports after `*Fix`.  The property oracles (fixed
//! text parses, strictly fewer, the fixed one gone) are evaluated on the implementation alone.
use crate::{Args, Out};
use dlharness::*;
use serde_json::{json, Value};

// ------------------------------------------------------------------------------------------------------------------
// templates: `@` = an occurrence of the fragment's name, `%P` = a property name, `%N` = a fresh number

/// position codes of the occurrences of a fragment, in source order: `s` expression statement, `o` other,
/// `m:P` object of a member expression with the static property `%P`, `m:-` … without a static property,
/// `mc:…` … whose parent is a member expression again (`mc:window`: the property is `window`)
const WIN_FRAGS: &[(&str, &[&str])] = &[
  ("@.%P;", &["m:P"]),
  ("@.%P();", &["m:P"]),
  ("@[\"%P\"];", &["m:P"]),
  ("@['%P']();", &["m:P"]),
  ("@[`%P`];", &["m:P"]),
  ("@[%P];", &["m:-"]),
  ("@[`a${%P}`];", &["m:-"]),
  ("@[1];", &["m:-"]),
  ("@;", &["s"]),
  ("@.%P.call(null);", &["mc:P"]),
  ("@.%P.x.y;", &["mc:P"]),
  ("@[\"%P\"][0];", &["mc:P"]),
  ("x[@.%P];", &["m:P"]),
  ("typeof @;", &["o"]),
  ("let t%N: typeof @ = null as any;", &["o"]),
  ("f(@);", &["o"]),
  ("f(@.%P, @);", &["m:P", "o"]),
  ("@?.%P;", &["m:P"]),
  ("@?.[\"%P\"];", &["m:P"]),
  ("@?.%P.x;", &["m:P"]),
  ("@!.%P;", &["o"]),
  ("(@).%P;", &["o"]),
  ("(@ as any).%P;", &["o"]),
  ("const e%N = <@.Foo />;", &["o"]),
  ("const e%N = <@.Foo>t</@.Foo>;", &["o", "o"]),
  ("const e%N = <div a={@.%P}>{@}</div>;", &["m:P", "o"]),
  ("@.window.%P;", &["mc:window"]),
  ("@.window;", &["m:window"]),
  ("@.%P = 1;", &["m:P"]),
  ("@.%P += 1;", &["m:P"]),
  ("new @.%P();", &["m:P"]),
  ("@.%P`t`;", &["m:P"]),
  ("if (@) {}", &["o"]),
  ("(@);", &["o"]),
  ("@, 1;", &["o"]),
  ("lbl%N: @;", &["s"]),
  ("@\n  .%P;", &["m:P"]),
  ("@ /* c */ . /* d */ %P;", &["m:P"]),
  ("delete @.%P;", &["m:P"]),
  ("class C%N extends @.%P {}", &["m:P"]),
  ("x.window;", &[]),
  ("({ window: 1 });", &[]),
  ("x.window.%P;", &[]),
  ("for (const k%N in @.%P) {}", &["m:P"]),
  ("() => @.%P;", &["m:P"]),
  ("async () => { await @.%P(); };", &["m:P"]),
  ("[@.%P, ...@.%P];", &["m:P", "m:P"]),
  ("`${@.%P}`;", &["m:P"]),
  ("@.%P ??= @;", &["m:P", "o"]),
  ("({ [@.%P]: @ });", &["m:P", "o"]),
  ("if (x) @; else @.%P;", &["s", "m:P"]),
  ("@++;", &["o"]),
  ("@ = 1;", &["o"]),
  ("void @.%P, @;", &["m:P", "o"]),
];
const WIN_NAMES: &[(&str, &str)] = &[
  ("window", "window"), ("window", "window"), ("window", "window"), ("window", "window"), ("window", "window"), ("window", "window"),
  ("window", "window"), ("globalThis", "globalThis"), ("self", "self"), ("w\\u0069ndow", "window"), ("win", "win"), ("Window", "Window"),
];
const PROPS: &[&str] = &["fetch", "Deno", "console", "name", "self", "location", "onload", "alert", "localStorage", "foo", "Blob", "addEventListener", "close", "closed"];

/// per occurrence, in source order: `-` no other tag; `pK` the root of a member tag name whose other tag's root is
/// occurrence K of the fragment (`other_tag_range` finds it: partner = mate = K); `t` a plain identifier tag name
/// without a closing tag; `tK` a plain identifier tag name whose other tag is occurrence K (mate K, but no partner:
/// `jsx_name_root` only looks at member names).  A lower-case plain tag name is never resolved: it stays "unresolved"
/// whatever is declared around it.
const GLOB_FRAGS: &[(&str, &[&str])] = &[
  ("@;", &["-"]),
  ("@.x;", &["-"]),
  ("f(@);", &["-"]),
  ("typeof @;", &["-"]),
  ("let t%N: typeof @ = 0 as any;", &["-"]),
  ("let u%N: @.T = 0 as any;", &["-"]),
  ("({ @ });", &["-"]),
  ("x = @;", &["-"]),
  ("@ = x;", &["-"]),
  ("@?.x;", &["-"]),
  ("new @.X();", &["-"]),
  ("`${@}`;", &["-"]),
  ("[@, @];", &["-", "-"]),
  ("@\n  .x;", &["-"]),
  ("class C%N extends @.X {}", &["-"]),
  ("const e%N = <@.Foo />;", &["-"]),
  ("const e%N = <@.Foo>t</@.Foo>;", &["p1", "p0"]),
  ("const e%N = <@.Foo\n  a=\"1\"\n>\n  t\n</@.Foo\n>;", &["p1", "p0"]),
  ("const e%N = <@.a.B>{@}</@.a.B>;", &["p2", "-", "p0"]),
  ("const e%N = <@.A><@.B x={@}></@.B></@.A>;", &["p4", "p3", "-", "p1", "p0"]),
  ("const e%N = <@.Foo>{<@.Bar></@.Bar>}</@.Foo>;", &["p3", "p2", "p1", "p0"]),
  ("const e%N = <@.Foo a={@} />;", &["-", "-"]),
  ("const e%N = <@.Foo><@.Foo /></@.Foo>;", &["p2", "-", "p0"]),
  ("const e%N = <div>{@}</div>;", &["-"]),
  ("const e%N = <@ />;", &["t"]),
  ("const e%N = <@ a={@} />;", &["t", "-"]),
  ("const e%N = <@>t</@>;", &["t1", "t0"]),
  ("x.global;", &[]),
  ("({ global: 1 });", &[]),
  ("const e%N = <a.global />;", &[]),
  ("const e%N = <div global={1} />;", &[]),
  ("const e%N = <global:x />;", &[]),
  ("global: for (;;) break global;", &[]),
];
const GLOB_NAMES: &[(&str, &str)] = &[
  ("global", "global"), ("global", "global"), ("global", "global"), ("global", "global"), ("global", "global"), ("global", "global"),
  ("global", "global"), ("globalThis", "globalThis"), ("Buffer", "Buffer"), ("glob", "glob"), ("gl\\u006fbal", "global"), ("setImmediate", "setImmediate"),
];

/// binders of `%B` around `%F`: the name is bound in the fragment
const SHADOW_WRAPS: &[&str] = &[
  "function g%N(%B: any) { %F }",
  "{ let %B: any; %F }",
  "try {} catch (%B) { %F }",
  "((%B: any) => { %F })(0);",
  "class K%N { m(%B: any) { %F } }",
  "for (const %B of xs) { %F }",
  "function v%N() { %F var %B: any; }",
  "function h%N() { %F function %B() {} }",
];
/// look-alikes: nothing binds the name
const PLAIN_WRAPS: &[&str] = &["function g%N(x: any) { %F }", "{ %F }", "{ let other%N: any; %F }", "(() => { %F })();", "if (x) { %F }"];

struct Prog {
  src: String,
  /// byte offset and byte length of every marked occurrence
  marks: Vec<(usize, usize)>,
}
impl Prog {
  fn index_at(&self, pos: usize) -> Option<usize> {
    self.marks.iter().position(|(s, _)| *s == pos)
  }
}

/// renders `tpl` onto `p`; returns the number of occurrences it contained
fn render(p: &mut Prog, tpl: &str, spelled: &str, prop: &str, counter: &mut usize) -> usize {
  let mut n = 0;
  let mut it = tpl.chars().peekable();
  while let Some(c) = it.next() {
    match c {
      '@' => {
        p.marks.push((p.src.len(), spelled.len()));
        p.src.push_str(spelled);
        n += 1;
      }
      '%' => match it.next() {
        Some('P') => p.src.push_str(prop),
        Some('N') => {
          *counter += 1;
          p.src.push_str(&counter.to_string());
        }
        Some(x) => {
          p.src.push('%');
          p.src.push(x);
        }
        None => p.src.push('%'),
      },
      c => p.src.push(c),
    }
  }
  n
}

/// how the name `bound` is shadowed in a program: for the whole file, or fragment by fragment
struct Shadow {
  pre: String,
  post: String,
  whole: bool,
  per_fragment: bool,
  tag: &'static str,
}
fn pick_shadow(rng: &mut Rng, bound: &str) -> Shadow {
  let (pre, post, whole, per, tag) = match rng.below(16) {
    0 => (format!("const {} = {{}} as any;\n", bound), String::new(), true, false, "const-top"),
    1 => (String::new(), format!("var {}: any;\n", bound), true, false, "var-at-end"),
    2 => (format!("import {} from \"./w.ts\";\n", bound), String::new(), true, false, "import-default"),
    3 => (String::new(), format!("function {}() {{}}\n", bound), true, false, "function-at-end"),
    4 => (format!("import * as {} from \"./w.ts\";\n", bound), String::new(), true, false, "import-star"),
    5 | 6 | 7 => (String::new(), String::new(), false, true, "per-fragment"),
    _ => (String::new(), String::new(), false, false, "none"),
  };
  Shadow { pre, post, whole, per_fragment: per, tag }
}

/// one fragment, possibly wrapped; returns whether the name `bound` is bound inside it
fn wrap_fragment(rng: &mut Rng, sh: &Shadow, bound: &str, frag: &str, out: &mut Out, rule: &str) -> (String, bool) {
  if sh.per_fragment && rng.chance(1, 2) {
    let w = SHADOW_WRAPS[rng.below(SHADOW_WRAPS.len())];
    out.count(&format!("{}:wrap:{}", rule, w));
    (w.replace("%B", bound).replace("%F", frag), true)
  } else if rng.chance(1, 4) {
    let w = PLAIN_WRAPS[rng.below(PLAIN_WRAPS.len())];
    out.count(&format!("{}:wrap:{}", rule, w));
    (w.replace("%F", frag), sh.whole)
  } else {
    (frag.to_string(), sh.whole)
  }
}

fn shown(t: &str) -> String {
  t.replace('\n', "\\n")
}

/// the positions `marks` after the changes `ch` (every change starts at a mark or lies between marks)
fn shifted(marks: &[(usize, usize)], ch: &[(usize, usize, String)]) -> Vec<(usize, usize)> {
  marks
    .iter()
    .map(|(s, l)| {
      let mut pos = *s as isize;
      let mut len = *l;
      for (a, b, t) in ch {
        if *a < *s {
          pos += t.len() as isize - (*b - *a) as isize;
        } else if *a == *s {
          len = t.len();
        }
      }
      (pos as usize, len)
    })
    .collect()
}

fn idx_json(v: &[Option<usize>]) -> Value {
  json!(v)
}

/// the three oracles of the property on the implementation; `still` = the fixed one is reported again
fn oracles(out: &mut Out, rule: &str, src: &str, fixed: &str, before: usize, after: usize, still: bool, ext: &str) {
  if after >= before {
    out.found("C13", &format!("not-strictly-fewer:{}", rule), src, json!({"rule": rule, "src": src, "meta": {"src": src, "ext": ext}, "fixed": fixed, "before": before, "after": after}));
  }
  if still {
    out.found("C13", &format!("fixed-one-still-reported:{}", rule), src, json!({"rule": rule, "src": src, "meta": {"src": src, "ext": ext}, "fixed": fixed}));
  }
}
fn parse_failure(out: &mut Out, rule: &str, src: &str, fixed: &str, e: &str, ext: &str) {
  out.found("C13", &format!("fixed-text-does-not-parse:{}", rule), src, json!({"rule": rule, "src": src, "meta": {"src": src, "ext": ext}, "fixed": fixed, "error": e}));
}

// ------------------------------------------------------------------------------------------------------------------
// no-window / no-window-prefix

fn run_window(rng: &mut Rng, out: &mut Out, lw: &deno_lint::linter::Linter, lp: &deno_lint::linter::Linter) {
  let sh = pick_shadow(rng, "window");
  out.count(&format!("win:shadow={}", sh.tag));
  let mut p = Prog { src: sh.pre.clone(), marks: vec![] };
  let mut occ: Vec<Value> = vec![];
  let mut counter = 0usize;
  let nfrag = rng.range(1, 6);
  for _ in 0..nfrag {
    let (tpl, poss) = WIN_FRAGS[rng.below(WIN_FRAGS.len())];
    out.count(&format!("win:frag:{}", shown(tpl)));
    let (mut spelled, mut name) = WIN_NAMES[rng.below(WIN_NAMES.len())];
    if spelled.contains('\\') && tpl.contains("<@") {
      spelled = "window";
      name = "window";
    }
    out.count(&format!("win:name={}", spelled));
    let prop = PROPS[rng.below(PROPS.len())];
    let (text, bound) = wrap_fragment(rng, &sh, "window", tpl, out, "win");
    let n = render(&mut p, &text, spelled, prop, &mut counter);
    assert_eq!(n, poss.len());
    p.src.push('\n');
    let global = !(bound && name == "window");
    for code in poss.iter() {
      let pos = match *code {
        "s" => json!("s"),
        "o" => json!("o"),
        "m:P" => json!(["m", false, prop]),
        "mc:P" => json!(["m", true, prop]),
        "m:-" => json!(["m", false, Value::Null]),
        "m:window" => json!(["m", false, "window"]),
        "mc:window" => json!(["m", true, "window"]),
        x => panic!("position code {}", x),
      };
      occ.push(json!([name, global, pos]));
    }
  }
  p.src.push_str(&sh.post);
  if rng.chance(3, 4) {
    p.src.push_str("export {};\n");
    out.count("win:module");
  } else {
    out.count("win:script-unless-import");
  }
  for (rule, model, linter) in [("no-window", "win", lw), ("no-window-prefix", "winprefix", lp)] {
    let ds = match lint(linter, &p.src, "tsx") {
      Outcome::Ok(ds) => ds,
      Outcome::ParseErr(e) => {
        out.count(&format!("{}:parse-error:{}", model, e.chars().take(40).collect::<String>()));
        return;
      }
      Outcome::Panic(m) => {
        out.found("C01", &format!("panic:{}", rule), &p.src, json!({"meta": {"src": p.src}, "panic": m}));
        return;
      }
    };
    let idx: Vec<Option<usize>> = ds.iter().map(|d| d.start.and_then(|s| p.index_at(s))).collect();
    out.count(&format!("{}:reports={}", model, ds.len().min(4)));
    out.case(json!({"m": model, "occ": occ, "fix": Value::Null}), json!({"reported": idx_json(&idx), "after": Value::Null}), json!({"src": p.src, "rule": rule}));
    for (d, i) in ds.iter().zip(idx.iter()) {
      let Some(i) = *i else { continue };
      if d.fixes.is_empty() {
        out.found("C13", &format!("no-fix-offered:{}", rule), &p.src, json!({"meta": {"src": p.src}, "at": d.start}));
      }
      for (_, ch) in &d.fixes {
        // the fix must rewrite exactly the identifier
        if ch.len() != 1 || (ch[0].0, ch[0].1 - ch[0].0) != p.marks[i] || ch[0].2 != "globalThis" {
          out.found("C13", &format!("unexpected-change:{}", rule), &p.src, json!({"meta": {"src": p.src}, "changes": ch}));
        }
        let Some(fixed) = crate::d_scan::apply_fix(&p.src, ch) else {
          out.found("C13", &format!("fix-not-applicable:{}", rule), &p.src, json!({"meta": {"src": p.src}, "changes": ch}));
          continue;
        };
        let q = Prog { src: fixed.clone(), marks: shifted(&p.marks, ch) };
        match lint(linter, &fixed, "tsx") {
          Outcome::Ok(d2) => {
            let idx2: Vec<Option<usize>> = d2.iter().map(|d| d.start.and_then(|s| q.index_at(s))).collect();
            oracles(out, rule, &p.src, &fixed, ds.len(), d2.len(), idx2.contains(&Some(i)), "tsx");
            out.count(&format!("{}:fix-applied", model));
            out.case(json!({"m": model, "occ": occ, "fix": i}), json!({"reported": idx_json(&idx), "after": idx_json(&idx2)}), json!({"src": p.src, "rule": rule, "fixed": fixed, "fix_of": i}));
          }
          Outcome::ParseErr(e) => parse_failure(out, rule, &p.src, &fixed, &e, "tsx"),
          Outcome::Panic(m) => out.found("C01", &format!("panic:{}", rule), &fixed, json!({"meta": {"src": fixed}, "panic": m})),
        }
      }
    }
  }
}

// ------------------------------------------------------------------------------------------------------------------
// no-node-globals: `global` -> `globalThis`

fn run_global(rng: &mut Rng, out: &mut Out, l: &deno_lint::linter::Linter) {
  let rule = "no-node-globals";
  let sh = pick_shadow(rng, "global");
  out.count(&format!("glob:shadow={}", sh.tag));
  let mut p = Prog { src: sh.pre.clone(), marks: vec![] };
  let mut occ: Vec<Value> = vec![];
  let mut counter = 0usize;
  let nfrag = rng.range(1, 5);
  for _ in 0..nfrag {
    let (tpl, partners) = GLOB_FRAGS[rng.below(GLOB_FRAGS.len())];
    out.count(&format!("glob:frag:{}", shown(tpl)));
    let (mut spelled, mut name) = GLOB_NAMES[rng.below(GLOB_NAMES.len())];
    if spelled.contains('\\') && tpl.contains('<') {
      spelled = "global";
      name = "global";
    }
    out.count(&format!("glob:name={}", spelled));
    let (text, bound) = wrap_fragment(rng, &sh, "global", tpl, out, "glob");
    let base = occ.len();
    let n = render(&mut p, &text, spelled, "x", &mut counter);
    assert_eq!(n, partners.len());
    p.src.push('\n');
    let unresolved = !(bound && name == "global");
    for code in partners.iter() {
      let k: Option<usize> = code[1..].parse::<usize>().ok().map(|k| base + k);
      let lower = name.chars().next().map_or(false, |c| c.is_ascii_lowercase());
      let (unres, partner, mate) = match &code[..1] {
        "-" => (unresolved, None, None),
        "p" => (unresolved, k, k),
        // a lower-case plain tag names an intrinsic element: no reference, never reported (repair e18f1c8; before it
        // both tags were reported, each with a fix of its own)
        _ => (if lower { false } else { unresolved }, None, k),
      };
      occ.push(json!([name, unres, partner, mate]));
    }
  }
  p.src.push_str(&sh.post);
  if rng.chance(3, 4) {
    p.src.push_str("export {};\n");
  }
  let ds = match lint(l, &p.src, "tsx") {
    Outcome::Ok(ds) => ds,
    Outcome::ParseErr(e) => {
      out.count(&format!("glob:parse-error:{}", e.chars().take(40).collect::<String>()));
      return;
    }
    Outcome::Panic(m) => {
      out.found("C01", &format!("panic:{}", rule), &p.src, json!({"meta": {"src": p.src}, "panic": m}));
      return;
    }
  };
  let is_repl = |d: &D| d.fixes.iter().any(|(desc, _)| desc == "Replace with globalThis");
  let idx: Vec<Option<usize>> = ds.iter().map(|d| d.start.and_then(|s| p.index_at(s))).collect();
  let repl: Vec<Option<usize>> = ds.iter().zip(idx.iter()).filter(|(d, _)| is_repl(d)).map(|(_, i)| *i).collect();
  out.count(&format!("glob:reports={}", ds.len().min(4)));
  out.case(json!({"m": "globalrepl", "occ": occ, "fix": Value::Null}), json!({"reported": idx_json(&idx), "repl": idx_json(&repl), "tags": true, "after": Value::Null}), json!({"src": p.src, "rule": rule}));
  for (d, i) in ds.iter().zip(idx.iter()) {
    let Some(i) = *i else { continue };
    for (desc, ch) in &d.fixes {
      if desc != "Replace with globalThis" {
        continue;
      }
      out.count(&format!("glob:fix-changes={}", ch.len()));
      let Some(fixed) = crate::d_scan::apply_fix(&p.src, ch) else {
        out.found("C13", &format!("fix-not-applicable:{}", rule), &p.src, json!({"meta": {"src": p.src}, "changes": ch}));
        continue;
      };
      let q = Prog { src: fixed.clone(), marks: shifted(&p.marks, ch) };
      match lint(l, &fixed, "tsx") {
        Outcome::Ok(d2) => {
          let idx2: Vec<Option<usize>> = d2.iter().map(|d| d.start.and_then(|s| q.index_at(s))).collect();
          oracles(out, rule, &p.src, &fixed, ds.len(), d2.len(), idx2.contains(&Some(i)), "tsx");
          out.case(
            json!({"m": "globalrepl", "occ": occ, "fix": i}),
            json!({"reported": idx_json(&idx), "repl": idx_json(&repl), "tags": true, "after": idx_json(&idx2)}),
            json!({"src": p.src, "rule": rule, "fixed": fixed, "fix_of": i}),
          );
        }
        Outcome::ParseErr(e) => {
          parse_failure(out, rule, &p.src, &fixed, &e, "tsx");
          // the model predicts this from the tag names alone (`tagsMatch`)
          out.case(
            json!({"m": "globalrepl", "occ": occ, "fix": i}),
            json!({"reported": idx_json(&idx), "repl": idx_json(&repl), "tags": false, "after": Value::Null}),
            json!({"src": p.src, "rule": rule, "fixed": fixed, "fix_of": i, "error": e}),
          );
        }
        Outcome::Panic(m) => out.found("C01", &format!("panic:{}", rule), &fixed, json!({"meta": {"src": fixed}, "panic": m})),
      }
    }
  }
}

// ------------------------------------------------------------------------------------------------------------------
// jsx-boolean-value

/// (text with `%A` = the attribute name, value kind of the model, whether another attribute may follow without white space)
const ATTRS: &[(&str, &str, bool)] = &[
  ("%A", "none", false),
  ("%A={true}", "true", true),
  ("%A={true}", "true", true),
  ("%A = { true }", "true", true),
  ("%A={false}", "false", true),
  ("%A=\"x\"", "str", true),
  ("%A='true'", "str", true),
  ("%A={x}", "expr", true),
  ("%A={\"true\"}", "expr", true),
  ("%A={!0}", "expr", true),
  ("%A={(true)}", "expr", true),
  ("%A={true && x}", "expr", true),
  ("{...p}", "spread", true),
  ("%A={true /* c */}", "truec", true),
  ("%A={/* c */ true}", "truec", true),
  ("%A={\n// c\ntrue}", "truec", true),
  ("%A={true // c\n}", "truec", true),
  ("%A=/* c */{true}", "true", true),
  ("%A /* c */ = {true}", "true", true),
  ("%A={ true }/* c */", "true", false),
  ("%A=\n  {true}", "true", true),
  ("%A=<b />", "expr", true),
];
const GAPS: &[&str] = &[" ", " ", " ", "\n  ", " /* g */ ", "  "];

fn run_bool(rng: &mut Rng, out: &mut Out, l: &deno_lint::linter::Linter) {
  let rule = "jsx-boolean-value";
  let ext = if rng.chance(1, 2) { "jsx" } else { "tsx" };
  let tag = ["Foo", "div", "a.B"][rng.below(3)];
  let mut src = format!("const x = <{}", tag);
  let n = rng.range(1, 6);
  let mut starts: Vec<usize> = vec![];
  let mut kinds: Vec<&str> = vec![];
  let mut prev_closed = false;
  for k in 0..n {
    let (tpl, kind, closed) = ATTRS[rng.below(ATTRS.len())];
    out.count(&format!("bool:attr:{}", shown(tpl)));
    let name = match rng.below(6) {
      0 => format!("n:a{}", k),
      1 => format!("a-{}", k),
      _ => format!("a{}", k),
    };
    if prev_closed && rng.chance(1, 5) {
      out.count("bool:gap=none");
    } else {
      src.push_str(GAPS[rng.below(GAPS.len())]);
    }
    starts.push(src.len());
    src.push_str(&tpl.replace("%A", &name));
    kinds.push(kind);
    prev_closed = closed;
  }
  if !(prev_closed && rng.chance(1, 4)) {
    src.push(' ');
  }
  if rng.chance(2, 3) {
    src.push_str("/>;\n");
  } else {
    src.push_str(&format!(">t</{}>;\n", tag));
  }
  let index_of = |starts: &[usize], pos: usize| -> Option<usize> { starts.iter().rposition(|s| *s <= pos) };
  let ds = match lint(l, &src, ext) {
    Outcome::Ok(ds) => ds,
    Outcome::ParseErr(e) => {
      out.count(&format!("bool:parse-error:{}", e.chars().take(40).collect::<String>()));
      return;
    }
    Outcome::Panic(m) => {
      out.found("C01", &format!("panic:{}", rule), &src, json!({"meta": {"src": src}, "panic": m}));
      return;
    }
  };
  let idx: Vec<Option<usize>> = ds.iter().map(|d| d.start.and_then(|s| index_of(&starts, s))).collect();
  out.count(&format!("bool:reports={}", ds.len().min(4)));
  out.case(json!({"m": "boolattr", "attrs": kinds, "fix": Value::Null}), json!({"reported": idx_json(&idx), "after": Value::Null}), json!({"src": src, "rule": rule, "ext": ext}));
  for (d, i) in ds.iter().zip(idx.iter()) {
    let Some(i) = *i else { continue };
    if d.fixes.is_empty() {
      out.found("C13", &format!("no-fix-offered:{}", rule), &src, json!({"meta": {"src": src, "ext": ext}, "at": d.start}));
    }
    for (_, ch) in &d.fixes {
      let Some(fixed) = crate::d_scan::apply_fix(&src, ch) else {
        out.found("C13", &format!("fix-not-applicable:{}", rule), &src, json!({"meta": {"src": src}, "changes": ch}));
        continue;
      };
      let (a, b) = (ch[0].0, ch[0].1);
      // the deleted range lies inside attribute `i`, behind its name
      // (a single blank instead of nothing when the next attribute follows the value at once: repair 629a81d)
      let glued = src[b..].starts_with(|c: char| !c.is_whitespace() && c != '/' && c != '>');
      if ch.len() != 1 || ch[0].2 != if glued { " " } else { "" } || a <= starts[i] || starts.get(i + 1).map_or(false, |s| b > *s) {
        out.found("C13", &format!("unexpected-change:{}", rule), &src, json!({"meta": {"src": src, "ext": ext}, "changes": ch}));
      }
      let starts2: Vec<usize> = starts.iter().map(|s| if *s >= b { s + ch[0].2.len() - (b - a) } else { *s }).collect();
      match lint(l, &fixed, ext) {
        Outcome::Ok(d2) => {
          let idx2: Vec<Option<usize>> = d2.iter().map(|d| d.start.and_then(|s| index_of(&starts2, s))).collect();
          oracles(out, rule, &src, &fixed, ds.len(), d2.len(), idx2.contains(&Some(i)), ext);
          out.count("bool:fix-applied");
          out.case(json!({"m": "boolattr", "attrs": kinds, "fix": i}), json!({"reported": idx_json(&idx), "after": idx_json(&idx2)}), json!({"src": src, "rule": rule, "ext": ext, "fixed": fixed, "fix_of": i}));
        }
        Outcome::ParseErr(e) => parse_failure(out, rule, &src, &fixed, &e, ext),
        Outcome::Panic(m) => out.found("C01", &format!("panic:{}", rule), &fixed, json!({"meta": {"src": fixed}, "panic": m})),
      }
    }
  }
}

// ------------------------------------------------------------------------------------------------------------------
// jsx-curly-braces: the fix for a string literal child

const VALUES: &[&str] = &[
  "text", "a", " ", "", "a b", "é", "😀", "&amp;", "&", "'", "\"", "a\nb", "\n", "x{y", "}", "<", ">", "a > b", "\\", "//", "/* c */", "\t", "a\r\nb", "\u{2028}",
  "  x  ", "</div>", "{}", "text with ' \" &amp; é", "b\n", "\nb", "text with > } < { \n ' \" &amp; é",
];
const TEXTS: &[&str] = &["foo", " ", "\n  ", "foo\n", "bar baz", "&nbsp;", "\n", " - ", "a\n  b", "// t", "'"];
const OTHERS: &[&str] = &["{x}", "{/* c */}", "{\nx}", "<b />", "<b>t</b>", "<b\n/>", "{`t`}", "{1}", "<></>", "<b>\n</b>", "{\"a\" + \"b\"}", "{(\"p\")}", "{x /* c\n */}"];

fn js_str(v: &str, q: char, continuation: bool) -> String {
  let mut s = String::new();
  s.push(q);
  let n = v.chars().count();
  for (k, c) in v.chars().enumerate() {
    if continuation && k == n / 2 {
      s.push_str("\\\n");
    }
    match c {
      '\\' => s.push_str("\\\\"),
      '\n' => s.push_str("\\n"),
      '\r' => s.push_str("\\r"),
      '\u{2028}' => s.push_str("\\u2028"),
      c if c == q => {
        s.push('\\');
        s.push(c);
      }
      c => s.push(c),
    }
  }
  if continuation && n == 0 {
    s.push_str("\\\n");
  }
  s.push(q);
  s
}

#[derive(Clone)]
enum Ch {
  Lit(String),
  Text,
  Other,
}

/// children of one element: the text, and per child (kind, start, length)
fn gen_children(rng: &mut Rng, out: &mut Out, src: &mut String, nested: bool) -> Vec<(Ch, usize, usize)> {
  let n = rng.range(1, 6);
  let mut cs: Vec<(Ch, usize, usize)> = vec![];
  let mut prev_text = false;
  for _ in 0..n {
    let start = src.len();
    let r = rng.below(8);
    if r < 4 {
      let v = VALUES[rng.below(VALUES.len())];
      let form = rng.below(10);
      out.count(&format!("curly:lit-form={}", ["plain", "plain", "plain", "single-quote", "spaced", "break-before", "break-after", "comment-after", "line-continuation", "comment-before"][form]));
      out.count(&format!("curly:value:{}", shown(v).replace('\r', "\\r")));
      let text = match form {
        0 | 1 | 2 => format!("{{{}}}", js_str(v, '"', false)),
        3 => format!("{{{}}}", js_str(v, '\'', false)),
        4 => format!("{{ {} }}", js_str(v, '"', false)),
        5 => format!("{{\n{}}}", js_str(v, '"', false)),
        6 => format!("{{{}\n}}", js_str(v, '"', false)),
        7 => format!("{{{} /* c */}}", js_str(v, '"', false)),
        8 => format!("{{{}}}", js_str(v, '"', true)),
        _ => format!("{{/* c */ {}}}", js_str(v, '"', false)),
      };
      src.push_str(&text);
      cs.push((Ch::Lit(v.to_string()), start, text.len()));
      prev_text = false;
    } else if r < 6 && !prev_text {
      let t = TEXTS[rng.below(TEXTS.len())];
      out.count(&format!("curly:text:{}", shown(t)));
      src.push_str(t);
      cs.push((Ch::Text, start, t.len()));
      prev_text = true;
    } else if nested && rng.chance(1, 2) {
      src.push_str("<span>");
      let _ = gen_children(rng, out, src, false);
      src.push_str("</span>");
      cs.push((Ch::Other, start, src.len() - start));
      prev_text = false;
    } else {
      let t = OTHERS[rng.below(OTHERS.len())];
      out.count(&format!("curly:other:{}", shown(t)));
      src.push_str(t);
      cs.push((Ch::Other, start, t.len()));
      prev_text = false;
    }
  }
  cs
}

fn run_curly(rng: &mut Rng, out: &mut Out, l: &deno_lint::linter::Linter) {
  let rule = "jsx-curly-braces";
  let ext = if rng.chance(1, 2) { "jsx" } else { "tsx" };
  let nested = rng.chance(1, 5);
  let (open, close) = [("<div>", "</div>"), ("<div a=\"1\">", "</div>"), ("<Foo.Bar>", "</Foo.Bar>"), ("<div\n>", "</div>")][rng.below(4)];
  let mut src = format!("const x = {}", open);
  let cs = gen_children(rng, out, &mut src, nested);
  src.push_str(close);
  src.push_str(";\n");
  out.count(if nested { "curly:shape=nested(search only)" } else { "curly:shape=flat" });
  let children: Vec<Value> = cs
    .iter()
    .map(|(c, s, n)| {
      let ml = src[*s..*s + *n].contains('\n');
      match c {
        Ch::Lit(v) => json!(["lit", v, ml]),
        Ch::Text => json!(["text", ml]),
        Ch::Other => json!(["other", ml]),
      }
    })
    .collect();
  let ds = match lint(l, &src, ext) {
    Outcome::Ok(ds) => ds,
    Outcome::ParseErr(e) => {
      out.count(&format!("curly:parse-error:{}", e.chars().take(40).collect::<String>()));
      return;
    }
    Outcome::Panic(m) => {
      out.found("C01", &format!("panic:{}", rule), &src, json!({"meta": {"src": src}, "panic": m}));
      return;
    }
  };
  let starts: Vec<usize> = cs.iter().map(|c| c.1).collect();
  // the last child that starts there (a child of length 0 shares its start with the next one)
  let index_of = |starts: &[usize], pos: usize| -> Option<usize> { starts.iter().rposition(|s| *s == pos) };
  let idx: Vec<Option<usize>> = ds.iter().map(|d| d.start.and_then(|s| index_of(&starts, s))).collect();
  out.count(&format!("curly:reports={}", ds.len().min(4)));
  if !nested {
    out.case(json!({"m": "curlychild", "children": children, "fix": Value::Null}), json!({"reported": idx_json(&idx), "after": Value::Null, "text": Value::Null}), json!({"src": src, "rule": rule, "ext": ext}));
  }
  for (d, i) in ds.iter().zip(idx.iter()) {
    if d.fixes.is_empty() {
      out.found("C13", &format!("no-fix-offered:{}", rule), &src, json!({"meta": {"src": src, "ext": ext}, "at": d.start}));
    }
    for (_, ch) in &d.fixes {
      let Some(fixed) = crate::d_scan::apply_fix(&src, ch) else {
        out.found("C13", &format!("fix-not-applicable:{}", rule), &src, json!({"meta": {"src": src}, "changes": ch}));
        continue;
      };
      let (a, b, new) = (ch[0].0, ch[0].1, ch[0].2.clone());
      match lint(l, &fixed, ext) {
        Outcome::Ok(d2) => {
          let still = d2.iter().any(|x| x.start == Some(a) && !new.is_empty() && x.end == Some(a + new.len()));
          oracles(out, rule, &src, &fixed, ds.len(), d2.len(), still, ext);
          out.count("curly:fix-applied");
          if nested {
            continue;
          }
          let Some(i) = *i else { continue };
          if ch.len() != 1 || (a, b) != (cs[i].1, cs[i].1 + cs[i].2) {
            out.found("C13", &format!("unexpected-change:{}", rule), &src, json!({"meta": {"src": src, "ext": ext}, "changes": ch}));
          }
          let starts2: Vec<usize> = starts.iter().map(|s| if *s >= b { s + new.len() - (b - a) } else { *s }).collect();
          let idx2: Vec<Option<usize>> = d2.iter().map(|d| d.start.and_then(|s| index_of(&starts2, s))).collect();
          out.case(
            json!({"m": "curlychild", "children": children, "fix": i}),
            json!({"reported": idx_json(&idx), "after": idx_json(&idx2), "text": new}),
            json!({"src": src, "rule": rule, "ext": ext, "fixed": fixed, "fix_of": i}),
          );
        }
        Outcome::ParseErr(e) => parse_failure(out, rule, &src, &fixed, &e, ext),
        Outcome::Panic(m) => out.found("C01", &format!("panic:{}", rule), &fixed, json!({"meta": {"src": fixed}, "panic": m})),
      }
    }
  }
}

/// `--opt replay=FILE`: the oracles of the property on the failing input of a replay file (rule, text, media type)
fn replay(out: &mut Out, r: &Value) {
  let fi = &r["failing_input"];
  let rule = fi["rule"].as_str().unwrap_or("");
  let src = fi["src"].as_str().unwrap_or("");
  let ext = fi["meta"]["ext"].as_str().unwrap_or("tsx");
  if !["no-window", "no-window-prefix", "no-node-globals", "jsx-boolean-value", "jsx-curly-braces"].contains(&rule) {
    return;
  }
  let l = mk_linter(rules_by_codes(&[rule.to_string()]), &Words::default());
  let Outcome::Ok(ds) = lint(&l, src, ext) else { return };
  out.count("replay");
  for d in &ds {
    for (_, ch) in &d.fixes {
      if rule == "no-node-globals" && ch.iter().any(|c| c.2 != "globalThis") {
        continue;
      }
      let Some(fixed) = crate::d_scan::apply_fix(src, ch) else { continue };
      match lint(&l, &fixed, ext) {
        Outcome::Ok(d2) => {
          let (a, new) = (ch[0].0, ch[0].2.clone());
          let still = d2.iter().any(|x| x.start == Some(a) && !new.is_empty() && x.end == Some(a + new.len()));
          oracles(out, rule, src, &fixed, ds.len(), d2.len(), still, ext);
        }
        Outcome::ParseErr(e) => parse_failure(out, rule, src, &fixed, &e, ext),
        Outcome::Panic(m) => out.found("C01", &format!("panic:{}", rule), &fixed, json!({"meta": {"src": fixed}, "panic": m})),
      }
    }
  }
}

pub fn run(args: &Args) {
  let mut out = Out::new(&args.out, "fixrest");
  if let Some(r) = args.opts.get("replay").and_then(|p| std::fs::read_to_string(p).ok()).and_then(|s| serde_json::from_str::<Value>(&s).ok()) {
    replay(&mut out, &r);
    out.finish();
    return;
  }
  let mut rng = Rng::new(args.seed ^ 0xF1C5);
  let one = |code: &str| mk_linter(rules_by_codes(&[code.to_string()]), &Words::default());
  let (lw, lp, lg, lb, lc) = (one("no-window"), one("no-window-prefix"), one("no-node-globals"), one("jsx-boolean-value"), one("jsx-curly-braces"));
  for case_no in 0..args.count {
    match case_no % 5 {
      0 => run_window(&mut rng, &mut out, &lw, &lp),
      1 => run_global(&mut rng, &mut out, &lg),
      2 => run_bool(&mut rng, &mut out, &lb),
      _ => run_curly(&mut rng, &mut out, &lc),
    }
  }
  out.finish();
}
