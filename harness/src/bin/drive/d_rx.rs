//! C12: regex validator correspondence.  Each case is one JS file of 1-5 statements `new RegExp("<pattern>", "<flags>");`
//! (also `RegExp(..)`, one-argument forms and regex literals), linted with only `no-invalid-regexp`; the rule keeps ONE
//! `EcmaRegexValidator` per file, so the request is the whole sequence `{"m":"rx","seq":[{"p":..,"f":..},..]}` and the
//! model (lean/DL/Model/Regex.lean) answers `{"reported":[..],"panic":b,"fuel":b}`.
//! Generators: (a) grammar-directed patterns meant to be valid in a target mode, (b) single-edit mutants and prefixes of
//! those, (c) a fixed nasty corpus + every string literal of the repo's own `js_regex` tests, (d) flag strings (valid
//! subsets, duplicates, unknown letters, empty), (e) history sequences (an invalid regex followed by valid ones that
//! share group names; repetitions).
use crate::{Args, Out};
use dlharness::*;
use serde_json::{json, Value};

const RULE: &str = "no-invalid-regexp";

// ---------------------------------------------------------------------------------------------
// (a) grammar-directed generator
const NAME_POOL: &[&str] = &["a", "b", "foo", "$x", "_1", "A9", "π", "名前", "ñu", "𝒜", "𠮷", "a\u{200d}b", "\\u0061", "\\u{62}c", "\\uD835\\uDC9C", "x\\u{1d49c}", "a\u{301}", "x٣", "a·b", "a‿b", "e\\u0301", "a\\u{b7}"];
const BAD_NAMES: &[&str] = &["\u{301}a", "٣", "·a", "\\u0301", "\\u{663}x", "1a", "a-b", "☀", "🚀", "", " ", "a b", "\\u0020", "\\uD800", "\\u{110000}", "a\\", "\\u{1f680}"];
const PROPS_OK: &[&str] = &[
  "L", "Lu", "Letter", "General_Category=Letter", "gc=L", "Script=Greek", "sc=Grek", "Script_Extensions=Latin", "scx=Latn", "ASCII", "Emoji", "Alphabetic",
  "Any", "Extended_Pictographic", "Script=Dogra", "sc=Elym", "White_Space", "punct", "Nd",
];
const PROPS_BAD: &[&str] = &["", "Foo", "General_Category", "General_Category=", "gc=Greek", "Script=L", "Script", "sc=", "=L", "L=", "Letter ", "lu", "Script=Greek=", "InGreek", "1"];
const LITERALS: &[&str] = &[
  "a", "b", "c", "x", "y", "z", "k", "u", "p", "d", "0", "1", "2", "7", "8", "9", " ", "-", ",", ":", "=", "!", "<", ">", "/", "\"", "'", "_", "#", "%", "&", "@", "~", "`", ";", "é", "あ", "☃",
  "ß", "😀", "😁", "𝒜", "\u{200d}", "\u{2028}", "\n", "\t", "\0", "]", "}", "{",
];

/// the two identifier range tables of src/js_regex/unicode.rs as the translator restored them from the source
fn id_table(name: &str) -> &'static Vec<u32> {
  use std::sync::OnceLock;
  static START: OnceLock<Vec<u32>> = OnceLock::new();
  static CONT: OnceLock<Vec<u32>> = OnceLock::new();
  let load = |n: &str| -> Vec<u32> { std::fs::read_to_string(format!("/verif/build/corpus/{}.json", n)).ok().and_then(|s| serde_json::from_str(&s).ok()).unwrap_or_default() };
  if name == "largeIdStartRanges" {
    START.get_or_init(|| load(name))
  } else {
    CONT.get_or_init(|| load(name))
  }
}

struct PG<'a> {
  rng: &'a mut Rng,
  u: bool,
  defined: Vec<String>,
  groups: usize,
  feats: Vec<&'static str>,
}

impl<'a> PG<'a> {
  fn feat(&mut self, f: &'static str) {
    self.feats.push(f);
  }
  fn disjunction(&mut self, d: usize) -> String {
    let k = if self.rng.chance(1, 3) { self.rng.range(2, 3) } else { 1 };
    if k > 1 {
      self.feat("alternation");
    }
    let v: Vec<String> = (0..k).map(|_| self.alternative(d)).collect();
    v.join("|")
  }
  fn alternative(&mut self, d: usize) -> String {
    let k = self.rng.below(if d > 2 { 3 } else { 5 }) + if d == 0 { 1 } else { 0 };
    (0..k).map(|_| self.term(d)).collect()
  }
  fn term(&mut self, d: usize) -> String {
    if self.rng.chance(1, 8) {
      return self.assertion(d);
    }
    let a = self.atom(d);
    if self.rng.chance(1, 3) {
      let q = self.quantifier();
      format!("{}{}", a, q)
    } else {
      a
    }
  }
  fn assertion(&mut self, d: usize) -> String {
    match self.rng.below(if d > 3 { 4 } else { 8 }) {
      0 => "^".into(),
      1 => "$".into(),
      2 => "\\b".into(),
      3 => "\\B".into(),
      4 | 5 => {
        self.feat("lookahead");
        let neg = self.rng.chance(1, 2);
        let b = self.disjunction(d + 1);
        let s = format!("(?{}{})", if neg { "!" } else { "=" }, b);
        // quantified look-ahead: legal only without `u` (Annex B)
        if !self.u && self.rng.chance(1, 3) {
          self.feat("quantified-lookahead");
          format!("{}{}", s, self.quantifier())
        } else {
          s
        }
      }
      _ => {
        self.feat("lookbehind");
        let neg = self.rng.chance(1, 2);
        let b = self.disjunction(d + 1);
        format!("(?<{}{})", if neg { "!" } else { "=" }, b)
      }
    }
  }
  fn quantifier(&mut self) -> String {
    let q = match self.rng.below(8) {
      0 => "*".to_string(),
      1 => "+".to_string(),
      2 => "?".to_string(),
      3 => format!("{{{}}}", self.rng.below(12)),
      4 => format!("{{{},}}", self.rng.below(12)),
      5 | 6 => {
        self.feat("braced-range");
        let n = self.rng.below(10);
        let m = n + self.rng.below(5);
        format!("{{{},{}}}", n, m)
      }
      _ => {
        // anything goes: out of order, huge, leading zeros
        self.feat("braced-odd");
        let xs = ["{2,1}", "{0,0}", "{007,08}", "{9223372036854775807}", "{1,9223372036854775807}", "{10,9}", "{1,1}", "{4294967296}", "{0}"];
        self.rng.pick(&xs).to_string()
      }
    };
    if self.rng.chance(1, 4) {
      self.feat("lazy");
      format!("{}?", q)
    } else {
      q
    }
  }
  fn literal(&mut self) -> String {
    let c = *self.rng.pick(LITERALS);
    // `]` `}` `{` as pattern characters are Annex-B only
    if self.u && (c == "]" || c == "}" || c == "{") {
      return format!("\\{}", c);
    }
    if !c.is_ascii() {
      self.feat(if c.chars().any(|x| x as u32 > 0xffff) { "astral-literal" } else { "bmp-literal" });
    }
    c.to_string()
  }
  fn name(&mut self) -> String {
    if self.rng.chance(1, 12) {
      self.feat("bad-group-name");
      return self.rng.pick(BAD_NAMES).to_string();
    }
    if self.rng.chance(1, 5) {
      // a code point at (or just outside) an end of a range of the identifier tables of the validator: the first and
      // the last range as often as all the others together
      let (tab, cont) = if self.rng.chance(1, 2) { (id_table("largeIdStartRanges"), false) } else { (id_table("largeIdContinueRanges"), true) };
      if tab.len() >= 2 {
        let pairs = tab.len() / 2;
        let i = match self.rng.below(4) {
          0 => 0,
          1 => pairs - 1,
          _ => self.rng.below(pairs),
        };
        let (lo, hi) = (tab[2 * i], tab[2 * i + 1]);
        let cp = match self.rng.below(6) {
          0 => lo,
          1 => hi,
          2 => lo.saturating_sub(1),
          3 => hi + 1,
          4 => (lo + hi) / 2,
          _ => lo + 1,
        };
        if let Some(c) = char::from_u32(cp) {
          self.feat("table-boundary-group-name");
          let written = match self.rng.below(3) {
            0 => c.to_string(),
            1 => format!("\\u{{{:x}}}", cp),
            _ if cp > 0xffff => {
              let v = cp - 0x10000;
              format!("\\u{:04X}\\u{:04X}", 0xd800 + (v >> 10), 0xdc00 + (v & 0x3ff))
            }
            _ => format!("\\u{:04x}", cp),
          };
          return if cont || self.rng.chance(1, 3) { format!("a{}", written) } else { written };
        }
      }
    }
    let n = self.rng.pick(NAME_POOL).to_string();
    if !n.is_ascii() {
      self.feat("unicode-group-name");
    }
    if n.contains('\\') {
      self.feat("escaped-group-name");
    }
    n
  }
  fn escape(&mut self, in_class: bool) -> String {
    match self.rng.below(16) {
      0 => format!("\\{}", self.rng.pick(&["d", "D", "w", "W", "s", "S"])),
      1 => format!("\\{}", self.rng.pick(&["t", "n", "v", "f", "r", "0"])),
      2 => format!("\\c{}", self.rng.pick(&["A", "z", "J", "M"])),
      3 => format!("\\x{:02X}", self.rng.below(256)),
      4 => format!("\\u{:04x}", self.rng.pick(&[0x41usize, 0x61, 0xe9, 0x3042, 0x2603, 0xffff, 0x0, 0x200d])),
      5 => {
        self.feat("surrogate-pair-escape");
        self.rng.pick(&["\\uD83D\\uDE00", "\\ud835\\udc9c", "\\uD83D", "\\uDE00", "\\uDE00\\uD83D"]).to_string()
      }
      6 | 7 => {
        self.feat("codepoint-escape");
        self.rng.pick(&["\\u{1F600}", "\\u{0}", "\\u{61}", "\\u{10FFFF}", "\\u{000000061}", "\\u{1d49c}"]).to_string()
      }
      8 | 9 => {
        self.feat("property-escape");
        let p = if self.rng.chance(1, 6) { *self.rng.pick(PROPS_BAD) } else { *self.rng.pick(PROPS_OK) };
        format!("\\{}{{{}}}", if self.rng.chance(1, 3) { "P" } else { "p" }, p)
      }
      10 => format!("\\{}", self.rng.pick(&["^", "$", "\\", ".", "*", "+", "?", "(", ")", "[", "]", "{", "}", "|", "/"])),
      11 if in_class => self.rng.pick(&["\\b", "\\-", "\\B"]).to_string(),
      11 | 12 => {
        // Annex B only
        self.feat("legacy-escape");
        self.rng.pick(&["\\a", "\\8", "\\9", "\\07", "\\377", "\\400", "\\c1", "\\c", "\\c_", "\\k", "\\p", "\\u", "\\x", "\\x1", "\\u12", "\\-", "\\ ", "\\é", "\\😀", "\\_", "\\00", "\\u{", "\\u{110000}"]).to_string()
      }
      13 if !in_class => {
        self.feat("backreference");
        let n = if self.rng.chance(1, 5) { self.groups + 1 + self.rng.below(12) } else { self.rng.range(1, self.groups.max(1)) };
        format!("\\{}", n)
      }
      14 if !in_class => {
        self.feat("named-backreference");
        let n = if !self.defined.is_empty() && self.rng.chance(4, 5) { self.rng.pick(&self.defined.clone()).clone() } else { self.name() };
        format!("\\k<{}>", n)
      }
      _ => format!("\\{}", self.rng.pick(&["d", "w", "s", "n", ".", "/"])),
    }
  }
  fn class_atom(&mut self) -> String {
    match self.rng.below(10) {
      0..=5 => {
        let c = *self.rng.pick(&["a", "b", "f", "z", "A", "Z", "0", "5", "9", " ", "_", ".", "*", "(", ")", "[", "{", "|", "^", "$", "é", "あ", "😀", "😁", "𝒜", "/", "\"", "-"]);
        if !c.is_ascii() && c.chars().any(|x| x as u32 > 0xffff) {
          self.feat("astral-in-class");
        }
        c.to_string()
      }
      _ => self.escape(true),
    }
  }
  /// a class atom with a numeric value below 256 most of the time: the verdict of `[X-Y]` then depends on the value the
  /// validator computed for both ends
  fn numeric_class_atom(&mut self) -> String {
    match self.rng.below(12) {
      0 | 1 => {
        let c = char::from_u32(self.rng.range(0x20, 0x7e) as u32).unwrap();
        if c == '\\' || c == ']' || c == '-' || c == '^' {
          "a".into()
        } else {
          c.to_string()
        }
      }
      2 | 3 => format!("\\x{:02x}", self.rng.below(256)),
      4 => format!("\\u{:04X}", self.rng.below(256)),
      5 => format!("\\u{{{:x}}}", self.rng.below(300)),
      6 => format!("\\c{}", char::from_u32(self.rng.range(0x41, 0x5a) as u32 + if self.rng.chance(1, 2) { 0x20 } else { 0 }).unwrap()),
      7 => format!("\\c{}", self.rng.pick(&["0", "1", "5", "9", "_"])),
      8 | 9 => {
        self.feat("octal-escape");
        let k = self.rng.range(1, 3);
        let ds: String = (0..k)
          .map(|_| {
            let radix = if self.rng.chance(1, 8) { 10 } else { 8 };
            char::from_digit(self.rng.below(radix) as u32, 10).unwrap()
          })
          .collect();
        format!("\\{}", ds)
      }
      10 => self.rng.pick(&["\\0", "\\b", "\\t", "\\n", "\\v", "\\f", "\\r", "\\-", "\\/", "\\.", "\\]", "\\\\"]).to_string(),
      _ => self.rng.pick(&["é", "ÿ", "Ā", "😀", "\\d", "\\w", "\\uD83D\\uDE00", "\\u{1F600}", "\\p{L}"]).to_string(),
    }
  }
  fn class(&mut self) -> String {
    self.feat("class");
    if self.rng.chance(1, 4) {
      self.feat("class-range-numeric");
      let mut s = String::from(if self.rng.chance(1, 5) { "[^" } else { "[" });
      for _ in 0..self.rng.range(1, 2) {
        let a = self.numeric_class_atom();
        let b = self.numeric_class_atom();
        if self.rng.chance(1, 6) {
          s.push_str(&a);
        }
        s.push_str(&format!("{}-{}", a, b));
      }
      s.push(']');
      return s;
    }
    let mut s = String::from("[");
    if self.rng.chance(1, 4) {
      s.push('^');
    }
    if self.rng.chance(1, 8) {
      s.push('-');
    }
    let k = self.rng.below(5);
    for _ in 0..k {
      if self.rng.chance(2, 5) {
        self.feat("class-range");
        // ordered by construction most of the time
        let pairs = [("a", "z"), ("A", "Z"), ("0", "9"), ("a", "a"), ("\\x00", "\\x7f"), ("\\u0000", "\\uffff"), ("!", "~"), ("😀", "😁"), ("\\u{1F600}", "\\u{1F64F}"), ("\\cA", "\\cZ"), ("\\b", "\\n"), ("é", "あ"), ("\\uD83D\\uDE00", "\\uD83D\\uDE4F"), ("\\0", "9")];
        if self.rng.chance(1, 8) {
          let a = self.class_atom();
          let b = self.class_atom();
          s.push_str(&format!("{}-{}", a, b));
        } else {
          let (a, b) = *self.rng.pick(&pairs);
          if self.rng.chance(1, 12) {
            self.feat("class-range-reversed");
            s.push_str(&format!("{}-{}", b, a));
          } else {
            s.push_str(&format!("{}-{}", a, b));
          }
        }
      } else {
        let a = self.class_atom();
        s.push_str(&a);
      }
    }
    if self.rng.chance(1, 8) {
      s.push('-');
    }
    s.push(']');
    s
  }
  fn atom(&mut self, d: usize) -> String {
    let deep = d > 3;
    match self.rng.below(if deep { 12 } else { 18 }) {
      0..=6 => self.literal(),
      7 => ".".into(),
      8..=10 => self.escape(false),
      11 => self.class(),
      12 | 13 => {
        self.feat("capturing-group");
        self.groups += 1;
        format!("({})", self.disjunction(d + 1))
      }
      14 => {
        self.feat("non-capturing-group");
        format!("(?:{})", self.disjunction(d + 1))
      }
      15 | 16 => {
        self.feat("named-group");
        self.groups += 1;
        let mut n = self.name();
        // fresh name most of the time
        if self.defined.contains(&n) && self.rng.chance(5, 6) {
          n = format!("{}{}", n, self.groups);
        }
        if self.defined.contains(&n) {
          self.feat("duplicate-group-name");
        }
        self.defined.push(n.clone());
        format!("(?<{}>{})", n, self.disjunction(d + 1))
      }
      _ => self.class(),
    }
  }
}

fn gen_pattern(rng: &mut Rng, u: bool, feats: &mut Vec<&'static str>) -> String {
  let mut g = PG { rng, u, defined: vec![], groups: 0, feats: vec![] };
  let p = g.disjunction(0);
  feats.extend(g.feats);
  p
}

// ---------------------------------------------------------------------------------------------
// (b) mutants
const MUT_CHARS: &[char] = &[
  '(', ')', '[', ']', '{', '}', '|', '\\', '*', '+', '?', '^', '$', '.', '-', '<', '>', '=', '!', ':', 'k', 'p', 'u', 'x', 'd', 'c', 'b', 'P', '0', '1', '2', '3', '4', '5', '6', '7', '8', '9', ',', '/', 'a',
  '😀',
];

fn mutate(rng: &mut Rng, p: &str, feats: &mut Vec<&'static str>) -> String {
  let mut cs: Vec<char> = p.chars().collect();
  let n = cs.len();
  match rng.below(7) {
    0 if n > 0 => {
      feats.push("mut-delete");
      cs.remove(rng.below(n));
    }
    1 => {
      feats.push("mut-insert");
      cs.insert(rng.below(n + 1), *rng.pick(MUT_CHARS));
    }
    2 if n > 0 => {
      feats.push("mut-replace");
      let i = rng.below(n);
      cs[i] = *rng.pick(MUT_CHARS);
    }
    3 if n > 1 => {
      feats.push("mut-swap");
      let i = rng.below(n - 1);
      cs.swap(i, i + 1);
    }
    4 | 5 => {
      feats.push("mut-truncate");
      cs.truncate(rng.below(n + 1));
    }
    6 if n > 0 => {
      feats.push("mut-suffix");
      let k = rng.below(n);
      cs.drain(0..k);
    }
    _ => {
      feats.push("mut-insert");
      cs.insert(rng.below(n + 1), *rng.pick(MUT_CHARS));
    }
  }
  cs.into_iter().collect()
}

// ---------------------------------------------------------------------------------------------
// (c) corpus
const NASTY: &[&str] = &[
  "(?<a", "(?<a>", "(?<", "(?<>)", "(?<a)", "(?", "(?a", "(?a)", "(?:", "(?:a", "(?=", "(?!", "(?<=", "(?<!", "(?<=a", "(?<a>x", "(?<a>x)(?<a", "(?<π", "(?<a\u{200d}",
  "\\k<", "\\k<a", "\\k<a>", "\\k", "\\k<>", "(?<a>x)\\k<", "(?<a>x)\\k<a", "(?<a>x)\\k<a>", "(?<a>x)\\k<b>", "\\k<a>(?<a>x)", "(?<a>x)\\k", "(?<a>\\k<a>)", "\\k<a", "(?<a>x)\\k<a\\",
  "\\u", "\\u1", "\\u12", "\\u123", "\\u1234", "\\u{", "\\u{}", "\\u{1", "\\u{1}", "\\u{110000}", "\\u{10FFFF}", "\\u{00000000000000000061}", "\\uD83D\\uDE00", "\\uD83D", "\\uDE00", "\\uD83D\\u0041",
  "\\uD83D\\", "\\uD83D\\u", "\\uD83D\\uDE0", "\\x", "\\x1", "\\x1g", "\\x41", "\\c", "\\c1", "\\cA", "\\c_", "[\\c]", "[\\c1]", "[\\c_]", "[\\cA]", "[\\c-a]", "[\\c", "\\", "a\\", "[\\", "[a\\", "[\\c_-\\x20]", "[\\c1-\\x12]", "[\\x10-\\c1]", "[\\c_-\\x1e]", "[\\101-\\60]", "[\\60-\\101]", "[\\400-!]", "[\\377-\\400]", "[\\477-\\100]", "[\\47-\\477]", "[\\18-\\17]", "[\\08-\\1]",
  "[", "[a", "[]", "[^]", "[^", "]", "(", ")", "()", "(()", "())", "{", "}", "{}", "{1}", "{1,}", "{1,2}", "{,2}", "a{", "a{1", "a{1,", "a{1,2", "a{,2}", "a{}", "a{a}", "a{1}{2}", "a{2,1}", "a{1,2}?", "a{2,1}?",
  "a{1,2}??", "a**", "a*?", "a*??", "a+*", "a?+", "*", "+", "?", "*a", "|*", "(*)", "(?:*)", "^*", "$+", "\\b*", "\\B?", "(?=a)*", "(?=a){2}", "(?!a)+", "(?<=a)*", "(?<!a)?", "(?<=a){1}", "(?=a)",
  "(?<=a)", "[b-a]", "[a-a]", "[a-]", "[-a]", "[--]", "[---]", "[a--]", "[--a]", "[\\d-z]", "[a-\\d]", "[\\d-\\w]", "[\\w-]", "[-\\w]", "[\\b-\\n]", "[\\n-\\b]", "[😀-😁]", "[😁-😀]", "[😀]", "[😀-]", "[a-😀]",
  "[😀-a]", "[\\uD83D\\uDE00-\\uD83D\\uDE01]", "[\\uD83D\\uDE01-\\uD83D\\uDE00]", "[\\u{1F600}-\\u{1F601}]", "[\\u{1F601}-\\u{1F600}]", "[\\u{1}-\\u{2}]", "[\\u{2}-\\u{1}]", "[\\u{2-\\u{1}]", "😀", "😀)",
  "😀😀)", "(😀", "😀{2}", "😀{2,1}", "a😀\\", "😀😀😀😀]", "😀😀}", "😀[", "\\00", "\\0", "\\01", "\\08", "\\1", "\\2", "\\10", "(a)\\1", "(a)\\2", "\\1(a)", "(?:a)\\1", "(?<a>a)\\1", "(?<a>a)\\2", "\\8", "\\9", "\\377",
  "\\400", "[\\00]", "[\\1]", "[\\8]", "[\\377]", "[\\400]", "(?<a>x)(?<a>y)", "(?<a>x)|(?<a>y)", "(?<a>x)(?<b>y)", "(?<a>(?<a>x))", "(?<a>x)(?<\\u0061>y)", "(?<a>x)(?<\\u{61}>y)", "(?<1a>x)", "(?<a-b>x)", "(?<☀>x)",
  "(?<🚀>x)", "(?<𝒜>x)", "(?<𝒜>x)\\k<𝒜>", "(?<\\uD835\\uDC9C>x)", "(?<\\uD835\\uDC9C>x)\\k<𝒜>", "(?<\\u{1d49c}>x)\\k<\\uD835\\uDC9C>", "(?<\\uD835>x)", "(?<\\uDC9C>x)", "(?<\\u{110000}>x)", "(?<\\u>x)", "(?<a\\u>x)",
  "(?<\\>x)", "(?<a\\>x)", "(?<$>x)", "(?<_>x)", "(?<a1>x)", "(?<a$>x)", "(?<a\u{200c}>x)", "(?<\u{200c}>x)", "(?<a😀>x)", "(?<a𝒜>x)", "(?<a𝒜", "(?<a😀", "(?<𝒜", "\\k<a😀", "(?<a>x)\\k<a𝒜", "\\p", "\\p{", "\\p{}", "\\p{L",
  "\\p{L}", "\\P{L}", "\\p{Lu}", "\\p{lu}", "\\p{Script=Greek}", "\\p{Script=Greek", "\\p{Script=}", "\\p{Script}", "\\p{=Greek}", "\\p{sc=Grek}", "\\p{scx=Grek}", "\\p{gc=L}", "\\p{gc=Greek}", "\\p{General_Category=Lu}",
  "\\p{General_Category}", "\\p{ASCII}", "\\p{ASCII=Y}", "\\p{Any}", "\\p{Extended_Pictographic}", "\\p{Script=Elym}", "\\p{Script=Dogr}", "\\p{L}{2}", "[\\p{L}]", "[\\p{L}-z]", "[a-\\p{L}]", "[\\p{L}-\\p{N}]", "[\\p]",
  "[\\p{]", "\\pL", "\\p{L1}", "\\p{_}", "\\p{a=b=c}", "\\p{é}", "\\p{L😀}", "\\-", "[\\-]", "\\a", "\\e", "\\_", "\\/", "/", "a/b", "\\😀", "\\é", "\\ ", "\\\n", "\n", "a\nb", "[\n]", "\r", "\u{2028}", "\0", "\\\0",
  "a|", "|a", "||", "a||b", "(|)", "(a|)", "(?:|)", "(?=|)", "^$", "$^", "^^", "\\b\\B", ".", "..", ".*", ".*?", "[.]", "a{99999999999999999999}", "a{1,99999999999999999999}", "\\99999999999999999999", "\\u{FFFFFFFFFFFFFFFFF}",
  "(a)(a)(a)(a)(a)(a)(a)(a)(a)(a)\\10", "(a)(a)(a)(a)(a)(a)(a)(a)(a)(a)\\11", "(a)(a)(a)(a)(a)(a)(a)(a)(a)(a)(a)\\11", "[(]\\1", "[(](a)\\1", "\\((a)\\2", "(?:(a))\\1", "(?=(a))\\1", "(?<=(a))\\1", "(?<n>(a))\\2",
  "(?<!(a))\\1\\2", "((((((((((a))))))))))", "(((((((((((", ")))", "[[[[", "[[]]", "[]]", "[\\]]", "[^\\]]", "{{", "}}", "}{", "a}", "a]", "a}{1}", "]{1}", "}*", "]+", "{*", "{1}*",
];

fn collect_strs(ts: proc_macro2::TokenStream, out: &mut Vec<String>) {
  for tt in ts {
    match tt {
      proc_macro2::TokenTree::Group(g) => collect_strs(g.stream(), out),
      proc_macro2::TokenTree::Literal(l) => {
        let t = l.to_string();
        if t.starts_with('"') || t.starts_with("r\"") || t.starts_with("r#") {
          if let Ok(ls) = syn::parse_str::<syn::LitStr>(&t) {
            out.push(ls.value());
          }
        }
      }
      _ => {}
    }
  }
}

/// every string literal of the repository's own js_regex tests (patterns, and a few flag strings / messages, which
/// are patterns as good as any)
fn repo_test_patterns() -> Vec<String> {
  let repo = std::env::var("DL_REPO").unwrap_or_else(|_| "/repo".to_string());
  let mut out = vec![];
  for f in ["src/js_regex/mod.rs", "src/js_regex/validator.rs", "src/js_regex/reader.rs"] {
    if let Ok(src) = std::fs::read_to_string(format!("{}/{}", repo, f)) {
      if let Ok(ts) = src.parse::<proc_macro2::TokenStream>() {
        collect_strs(ts, &mut out);
      }
    }
  }
  out.sort();
  out.dedup();
  out.retain(|s| s.chars().count() <= 120);
  out
}

// ---------------------------------------------------------------------------------------------
// (d) flags
fn gen_flags(rng: &mut Rng, feats: &mut Vec<&'static str>) -> String {
  let subset = |rng: &mut Rng, from: &str| -> String {
    let mut v: Vec<char> = from.chars().filter(|_| rng.chance(1, 2)).collect();
    rng.shuffle(&mut v);
    v.into_iter().collect()
  };
  match rng.below(22) {
    0..=7 => "".into(),
    8..=11 => "u".into(),
    12..=14 => {
      feats.push("flags-subset");
      subset(rng, "dgimsuy")
    }
    15 => {
      feats.push("flags-v");
      format!("{}v", subset(rng, "dgimsuy"))
    }
    16 => {
      feats.push("flags-duplicate");
      let mut s = subset(rng, "dgimsuy");
      if s.is_empty() {
        s.push('g');
      }
      let cs: Vec<char> = s.chars().collect();
      let d = *rng.pick(&cs);
      let mut cs = cs;
      cs.insert(rng.below(cs.len() + 1), d);
      cs.into_iter().collect()
    }
    17 => {
      feats.push("flags-unknown");
      let mut cs: Vec<char> = subset(rng, "dgimsuy").chars().collect();
      let bad = *rng.pick(&['z', 'x', 'G', 'U', 'I', '1', '-', '_', ' ', 'é', 'a', 'n', '😀', '$']);
      cs.insert(rng.below(cs.len() + 1), bad);
      cs.into_iter().collect()
    }
    18 => rng.pick(&["g", "i", "m", "s", "y", "d", "gi", "gim", "dgimsy"]).to_string(),
    19 => rng.pick(&["uu", "gg", "ugu", "gug", "uv", "vu", "v"]).to_string(),
    20 => rng.pick(&["gu", "ug", "iu", "uy", "su", "dgimsuy", "yusmigd"]).to_string(),
    _ => "u".into(),
  }
}

// ---------------------------------------------------------------------------------------------
// (e) history sequences
fn gen_history(rng: &mut Rng, feats: &mut Vec<&'static str>) -> Vec<(String, String)> {
  feats.push("kind=history");
  let a = rng.pick(&["a", "foo", "π", "𝒜", "$x"]).to_string();
  let b = rng.pick(&["b", "bar", "名前", "_1"]).to_string();
  let sub = |t: &str| t.replace("%a", &a).replace("%b", &b);
  let invalid: &[&str] = &[
    "(?<%a>x)(?<%a>y)", "(?<%a>x)\\k<%b>", "(?<%a>x)(", "(?<%a>x)[", "(?<%a>x)\\k<%a", "(?<%a>x)(?<%b>y)\\3\\k<%a>", "(?<%a>x){2,1}", "(?<%a>x)(?<%b>y))", "(?<%a>x)\\k<%a>*+", "(?<%a>(?<%b>x)", "(?<%a>x)(?<%b",
    "(?<%a>x)\\", "\\k<%a>(?<%b>x)", "(?<%a>[b-a])", "(?<%a>x)(?<%b>y)(?<%a>z)",
  ];
  let valid: &[&str] = &[
    "(?<%a>z)", "\\k<%a>", "(?<%a>.)\\k<%a>", "\\k<%a>(?<%a>x)", "(?<%b>y)|(?<%a>x)", "\\1(?<%a>)", "(?<%b>y)\\k<%b>", "\\k<%b>", "(?<%a>x)(?<%b>y)\\k<%b>\\k<%a>", "(x)\\1", "\\2(a)(b)", "[\\d-a]", "a{2}", "\\k<%a",
    "(?<%b>z)\\1", "\\k", "(?=a)*", "a{", "\\u{61}", "\\p{L}",
  ];
  let fl = |rng: &mut Rng| -> String { let xs: &[&str] = &["", "", "u", "u", "g", "gu"]; rng.pick(xs).to_string() };
  let mut seq = vec![];
  let k = rng.range(2, 5);
  match rng.below(4) {
    0 => {
      // invalid, then valid ones sharing its names
      seq.push((sub(*rng.pick(invalid)), fl(rng)));
      for _ in 1..k {
        seq.push((sub(*rng.pick(valid)), fl(rng)));
      }
    }
    1 => {
      // the same regex several times
      feats.push("history-repeat");
      let p = if rng.chance(1, 2) { sub(*rng.pick(invalid)) } else { sub(*rng.pick(valid)) };
      let f = fl(rng);
      for _ in 0..k {
        seq.push((p.clone(), f.clone()));
      }
    }
    2 => {
      // the same pattern with alternating modes
      feats.push("history-modes");
      let p = if rng.chance(1, 2) { sub(*rng.pick(invalid)) } else { sub(*rng.pick(valid)) };
      for i in 0..k {
        seq.push((p.clone(), if i % 2 == 0 { "u".to_string() } else { "".to_string() }));
      }
    }
    _ => {
      for _ in 0..k {
        let p = if rng.chance(1, 2) { sub(*rng.pick(invalid)) } else { sub(*rng.pick(valid)) };
        seq.push((p, fl(rng)));
      }
    }
  }
  seq
}

// ---------------------------------------------------------------------------------------------
// rendering
pub fn js_string(p: &str, quote: char) -> String {
  let mut o = String::new();
  o.push(quote);
  for c in p.chars() {
    match c {
      '\\' => o.push_str("\\\\"),
      '\n' => o.push_str("\\n"),
      '\r' => o.push_str("\\r"),
      '\t' => o.push_str("\\t"),
      '\u{2028}' => o.push_str("\\u2028"),
      '\u{2029}' => o.push_str("\\u2029"),
      c if c == quote => {
        o.push('\\');
        o.push(c);
      }
      c if (c as u32) < 0x20 || c as u32 == 0x7f => o.push_str(&format!("\\x{:02x}", c as u32)),
      c => o.push(c),
    }
  }
  o.push(quote);
  o
}

/// can `/<p>/<f>` be written as a regex literal whose `exp` is exactly `p` (the lexer's own scan: `\` escapes the
/// next character, `/` inside `[...]` does not terminate)
fn literal_safe(p: &str, f: &str) -> bool {
  if p.is_empty() || p.starts_with('*') || p.contains('/') {
    return false;
  }
  if p.chars().any(|c| c == '\n' || c == '\r' || c == '\u{2028}' || c == '\u{2029}') {
    return false;
  }
  if !f.chars().all(|c| c.is_ascii_alphanumeric()) {
    return false;
  }
  let (mut esc, mut in_class) = (false, false);
  for c in p.chars() {
    if esc {
      esc = false;
    } else if c == '\\' {
      esc = true;
    } else if c == '[' {
      in_class = true;
    } else if c == ']' && in_class {
      in_class = false;
    }
  }
  !esc && !in_class
}

#[derive(Clone, Copy, PartialEq)]
enum Form {
  New2,
  New1,
  Call2,
  Call1,
  Literal,
}

fn render(seq: &[(String, String)], forms: &[Form], quotes: &[char]) -> (String, Vec<usize>) {
  let mut src = String::new();
  let mut offs = vec![];
  for (i, (p, f)) in seq.iter().enumerate() {
    offs.push(src.len());
    let q = quotes[i];
    match forms[i] {
      Form::New2 => src.push_str(&format!("new RegExp({}, {});\n", js_string(p, q), js_string(f, q))),
      Form::New1 => src.push_str(&format!("new RegExp({});\n", js_string(p, q))),
      Form::Call2 => src.push_str(&format!("RegExp({}, {});\n", js_string(p, q), js_string(f, q))),
      Form::Call1 => src.push_str(&format!("RegExp({});\n", js_string(p, q))),
      Form::Literal => src.push_str(&format!("/{}/{};\n", p, f)),
    }
  }
  (src, offs)
}

fn form_name(f: Form) -> &'static str {
  match f {
    Form::New2 => "new2",
    Form::New1 => "new1",
    Form::Call2 => "call2",
    Form::Call1 => "call1",
    Form::Literal => "literal",
  }
}

// ---------------------------------------------------------------------------------------------
pub fn run_one(out: &mut Out, linter: &deno_lint::linter::Linter, rng: &mut Rng, seq: &[(String, String)], feats: &[&'static str], case_no: usize, with_panics: bool, expect: Option<&[bool]>) {
  let mut forms: Vec<Form> = seq
    .iter()
    .map(|(p, f)| {
      if literal_safe(p, f) && rng.chance(1, 3) {
        Form::Literal
      } else if f.is_empty() && rng.chance(1, 3) {
        if rng.chance(1, 3) {
          Form::Call1
        } else {
          Form::New1
        }
      } else if rng.chance(1, 5) {
        Form::Call2
      } else {
        Form::New2
      }
    })
    .collect();
  let quotes: Vec<char> = seq.iter().map(|_| if rng.chance(1, 4) { '\'' } else { '"' }).collect();
  let (mut src, mut offs) = render(seq, &forms, &quotes);
  let mut res = lint(linter, &src, "js");
  if let Outcome::ParseErr(_) = res {
    // a literal the parser itself rejects: fall back to string arguments for the whole file
    out.count("literal-fallback");
    for f in forms.iter_mut() {
      if *f == Form::Literal {
        *f = Form::New2;
      }
    }
    let r = render(seq, &forms, &quotes);
    src = r.0;
    offs = r.1;
    res = lint(linter, &src, "js");
  }
  for f in feats {
    out.count(&format!("feat={}", f));
  }
  for f in &forms {
    out.count(&format!("form={}", form_name(*f)));
  }
  out.count(&format!("outcome={}", res.tag()));
  out.count(&format!("seqlen={}", seq.len()));
  let seqj: Vec<Value> = seq.iter().map(|(p, f)| json!({"p": p, "f": f})).collect();
  let meta = json!({"case": case_no, "src": src, "seq": seqj, "forms": forms.iter().map(|f| form_name(*f)).collect::<Vec<_>>()});
  match res {
    Outcome::Ok(ds) => {
      let mut reported = vec![false; seq.len()];
      for d in ds.iter().filter(|d| d.code == RULE) {
        match d.start.and_then(|s| offs.iter().position(|o| *o == s)) {
          Some(i) => reported[i] = true,
          None => out.found("C12", "diagnostic-not-at-a-statement-start", &src, json!({"meta": meta, "diag": d.json()})),
        }
      }
      for r in &reported {
        out.count(if *r { "reported=true" } else { "reported=false" });
      }
      // verdicts known by construction (the generator built the pattern so that it knows what the grammar says)
      if let Some(exp) = expect {
        for (i, (e, r)) in exp.iter().zip(reported.iter()).enumerate() {
          if e != r {
            out.found("C12", if *e { "grammar-by-construction:invalid-pattern-not-reported" } else { "grammar-by-construction:valid-pattern-reported" }, &src,
              json!({"meta": meta, "index": i, "pattern": seq[i].0, "flags": seq[i].1, "reported": r, "expected": e}));
          }
        }
      }
      // history oracle (second sentence of C12): the verdict of each expression alone, on a fresh validator, must be
      // the verdict it got inside the sequence
      if seq.len() > 1 {
        for (i, one) in seq.iter().enumerate() {
          let (src1, _) = render(std::slice::from_ref(one), &[if forms[i] == Form::Literal { Form::New2 } else { forms[i] }], &quotes[i..i + 1]);
          // on a fresh thread with a fresh linter: neither instance state nor thread-local state can carry over
          let alone_res = std::thread::spawn(move || {
            let fresh = mk_linter(rules_by_codes(&[RULE.to_string()]), &Words::default());
            lint(&fresh, &src1, "js")
          })
          .join()
          .unwrap_or(Outcome::Panic("thread".into()));
          if let Outcome::Ok(d1) = alone_res {
            let alone = d1.iter().any(|d| d.code == RULE);
            if alone != reported[i] {
              out.found("C12", if reported[i] { "verdict-depends-on-earlier-regexes:reported-only-in-sequence" } else { "verdict-depends-on-earlier-regexes:reported-only-alone" }, &src,
                json!({"meta": meta, "index": i, "pattern": one.0, "flags": one.1, "in_sequence": reported[i], "alone": alone}));
              // the same observation is a violation of C02 (results depend on what was linted before)
              out.found("C02", "regex-verdict-depends-on-history", &src, json!({"meta": meta, "index": i, "pattern": one.0, "flags": one.1, "in_sequence": reported[i], "alone_on_fresh_thread": alone}));
            }
          }
        }
      }
      out.case(json!({"m": "rx", "seq": seqj}), json!({"reported": reported, "panic": false, "fuel": false}), meta);
    }
    Outcome::ParseErr(e) => {
      out.count("parse-error-skipped");
      let _ = e;
    }
    Outcome::Panic(m) => {
      out.found("C01", "panic:no-invalid-regexp", &src, json!({"meta": meta, "panic": m}));
      // `--opt panics=1`: also ask the model whether it predicts the panic (a panic unwinds out of `lint_file`, the
      // file gets no diagnostics: all `false`)
      if with_panics {
        out.case(json!({"m": "rx", "seq": seqj}), json!({"reported": vec![false; seq.len()], "panic": true, "fuel": false}), meta);
      }
    }
  }
}

pub fn run(args: &Args) {
  let mut out = Out::new(&args.out, "rx");
  let mut rng = Rng::new(args.seed ^ 0x5258);
  let codes = vec![RULE.to_string()];
  let linter = mk_linter(rules_by_codes(&codes), &Words::default());
  let repo_pats = repo_test_patterns();
  let with_panics = args.opts.get("panics").map(|s| s == "1").unwrap_or(false);
  out.add("repo-test-patterns", repo_pats.len() as u64);
  for case_no in 0..args.count {
    let mut crng = rng.fork();
    let mut feats: Vec<&'static str> = vec![];
    let kind = crng.below(20);
    let mut expect: Option<Vec<bool>> = None;
    let seq: Vec<(String, String)> = if kind == 5 {
      // decimal escapes against the number of capturing groups: with the u flag `\N` is a back-reference and must not
      // exceed the number of capturing groups of the whole pattern (wherever they stand); look-arounds, non-capturing
      // groups and character classes do not count.  Without u it is always accepted (legacy octal / identity escape).
      feats.push("kind=backref-count");
      let mut groups = 0usize;
      let mut parts: Vec<String> = vec![];
      for _ in 0..crng.range(1, 6) {
        parts.push(match crng.below(9) {
          0 | 1 => {
            groups += 1;
            "(a)".to_string()
          }
          2 => {
            groups += 1;
            format!("(?<n{}>b)", groups)
          }
          3 => "(?:c)".to_string(),
          4 => "(?=d)".to_string(),
          5 => "(?!e)".to_string(),
          6 => "(?<=f)".to_string(),
          7 => "(?<!g)".to_string(),
          _ => "[(h)]".to_string(),
        });
      }
      let n = crng.range(1, groups + 4);
      let at = crng.below(parts.len() + 1);
      parts.insert(at, format!("\\{}", n));
      let p = parts.concat();
      let u = crng.chance(2, 3);
      expect = Some(vec![u && n > groups]);
      vec![(p, if u { "u".to_string() } else { ["", "g"][crng.below(2)].to_string() })]
    } else if kind < 2 && crng.chance(1, 2) {
      // runs of `\u` escapes — lone lead / trail surrogates, pairs, BMP and braced escapes, literals — where a single
      // code point is expected: group names, `\k<…>`, both ends of a class range, a bare atom (seed C12-7: a look-ahead for
      // the second half of a pair that leaves the first half's value overwritten)
      feats.push("kind=escape-run");
      const ESC: &[&str] = &["\\uD83D", "\\uD800", "\\uDBFF", "\\uDE00", "\\uDC00", "\\u0041", "\\u0061", "\\u{41}", "\\u{61}", "\\u{1F600}", "\\u{D83D}", "a", "b", "\\u00", "\\u"];
      let n = crng.range(1, 3);
      let run: String = (0..n).map(|_| *crng.pick(ESC)).collect();
      let p = match crng.below(8) {
        0 => format!("(?<{}>x)", run),
        1 => format!("(?<a{}>x)", run),
        2 => format!("(?<{}>x)\\k<{}>", run, run),
        3 => format!("[b-{}]", run),
        4 => format!("[{}-b]", run),
        5 => format!("[{}-{}]", crng.pick(ESC), run),
        6 => run.clone(),
        _ => format!("{}{{2}}", run),
      };
      let flags: &[&str] = match crng.below(3) {
        0 => &["u"],
        1 => &[""],
        _ => &["u", "", "u"],
      };
      flags.iter().map(|f| (p.clone(), f.to_string())).collect()
    } else if kind < 2 {
      gen_history(&mut crng, &mut feats)
    } else if kind == 4 {
      // the same pattern text under different flags, back to back (caches keyed on the text alone)
      feats.push("kind=flag-flip");
      let u = crng.chance(1, 2);
      let mut p = match crng.below(4) {
        0 => crng.pick(NASTY).to_string(),
        1 => crng.pick(&["a{", "\\u{61}", "(?<a>x)\\k<a>", "\\k<a>", "[\\d-x]", "\\-", "}", "a{1", "\\p{L}", "(?=a)*"]).to_string(),
        _ => gen_pattern(&mut crng, u, &mut feats),
      };
      if crng.chance(1, 2) {
        let at = crng.below(p.chars().count() + 1);
        let cs: Vec<char> = p.chars().collect();
        p = format!("{}😀{}", cs[..at].iter().collect::<String>(), cs[at..].iter().collect::<String>());
      }
      let flags: &[&str] = match crng.below(4) {
        0 => &["u", ""],
        1 => &["", "u"],
        2 => &["u", "", "u"],
        _ => &["g", "gu", "g"],
      };
      flags.iter().map(|f| (p.clone(), f.to_string())).collect()
    } else if kind < 4 {
      // consecutive prefixes of one pattern, one mode
      feats.push("kind=prefix-run");
      let u = crng.chance(1, 2);
      let base = if crng.chance(1, 4) { crng.pick(NASTY).to_string() } else { gen_pattern(&mut crng, u, &mut feats) };
      let cs: Vec<char> = base.chars().collect();
      let k = crng.range(1, 5).min(cs.len() + 1);
      let hi = crng.range(k - 1, cs.len());
      let f = if u { "u".to_string() } else { "".to_string() };
      (0..k).map(|i| (cs[..hi + 1 - k + i].iter().collect::<String>(), f.clone())).collect()
    } else {
      let k = crng.range(1, 5);
      (0..k)
        .map(|_| {
          let f = gen_flags(&mut crng, &mut feats);
          // the mode the pattern is generated for usually agrees with the flags
          let u = if crng.chance(5, 6) { f.contains('u') || (f.is_empty() && crng.chance(1, 2)) } else { crng.chance(1, 2) };
          let p = match crng.below(20) {
            0..=7 => {
              feats.push("kind=grammar");
              gen_pattern(&mut crng, u, &mut feats)
            }
            8..=13 => {
              feats.push("kind=mutant");
              let base = if crng.chance(1, 5) { crng.pick(NASTY).to_string() } else { gen_pattern(&mut crng, u, &mut feats) };
              let m = mutate(&mut crng, &base, &mut feats);
              if crng.chance(1, 5) {
                mutate(&mut crng, &m, &mut feats)
              } else {
                m
              }
            }
            14..=16 => {
              feats.push("kind=nasty");
              crng.pick(NASTY).to_string()
            }
            _ if !repo_pats.is_empty() => {
              feats.push("kind=repo-test");
              crng.pick(&repo_pats).clone()
            }
            _ => {
              feats.push("kind=nasty");
              crng.pick(NASTY).to_string()
            }
          };
          (p, f)
        })
        .collect()
    };
    // the same characters split differently between pattern and flags, next to each other in one file (`/a{u/` and
    // `/a{/u`): a key made of pattern and flags run together confuses the two
    let mut seq = seq;
    if expect.is_none() && !seq.is_empty() && crng.chance(1, 4) {
      let at = crng.below(seq.len());
      let (p, f) = seq[at].clone();
      let all: Vec<char> = p.chars().chain(f.chars()).collect();
      let tail = all.iter().rev().take_while(|c| "dgimsuy".contains(**c)).count();
      let cuts: Vec<usize> = (0..=tail).filter(|k| *k != f.chars().count()).collect();
      if !cuts.is_empty() {
        let k = cuts[crng.below(cuts.len())];
        let n = all.len();
        let other = (all[..n - k].iter().collect::<String>(), all[n - k..].iter().collect::<String>());
        feats.push("resplit-neighbour");
        if crng.chance(1, 2) {
          seq.insert(at + 1, other);
        } else {
          seq.insert(at, other);
        }
      }
    }
    feats.sort();
    feats.dedup();
    run_one(&mut out, &linter, &mut crng, &seq, &feats, case_no, with_panics, expect.as_deref());
  }
  out.finish();
}
