//! C12: regex validator correspondence (stub)
use crate::{Args, Out};

pub fn run(args: &Args) {
  let out = Out::new(&args.out, "rx");
  out.finish();
}
