//! C12 oracle: the real rule's verdict on `new RegExp("<pattern>", "<flags>")` vs the verdict recorded once from V8 11.3
//! (`/verif/corpus/regex_v8.jsonl`; node is NOT needed at check time).  One regex per file, so there is no history.
use crate::{Args, Out};
use dlharness::*;
use serde_json::{json, Value};

fn classify(p: &str, f: &str, reported: bool) -> String {
  // a coarse shape, so that known findings can be matched by construct and a different disagreement is still new
  let astral = p.chars().any(|c| (c as u32) > 0xFFFF);
  let mut tags: Vec<&str> = vec![];
  if f.is_empty() {
    tags.push("no-flags");
  } else if f.contains('u') {
    tags.push("u");
  } else {
    tags.push("non-u");
  }
  if astral {
    tags.push("astral");
  }
  if p.contains("(?<") {
    tags.push("named-group");
  }
  if p.contains("\\k") {
    tags.push("k-escape");
  }
  if p.contains("\\p") || p.contains("\\P") {
    tags.push("property-escape");
  }
  if p.contains("\\u") {
    tags.push("u-escape");
  }
  if p.contains("\\0") {
    tags.push("zero-escape");
  }
  if p.contains('{') {
    tags.push("brace");
  }
  if p.contains("(?<=") || p.contains("(?<!") {
    tags.push("lookbehind");
  }
  if p.contains('[') {
    tags.push("class");
  }
  format!("{}:{}", if reported { "reported-but-v8-accepts" } else { "v8-rejects-but-not-reported" }, tags.join("+"))
}

pub fn run(args: &Args) {
  let mut out = Out::new(&args.out, "rxv8");
  let linter = mk_linter(rules_by_codes(&["no-invalid-regexp".to_string()]), &Words::default());
  let text = std::fs::read_to_string("/verif/corpus/regex_v8.jsonl").unwrap_or_default();
  let lines: Vec<&str> = text.lines().collect();
  if lines.is_empty() {
    out.found("C12", "v8-corpus-missing", "", json!({}));
    out.finish();
    return;
  }
  // a seed-dependent window of the corpus (the whole corpus in the thorough tier)
  let n = args.count.min(lines.len());
  let start = (args.seed as usize).wrapping_mul(7919) % lines.len();
  // every Unicode property name of the source tables and of ES2021 / ES2022 in every position (`\\p{N}`, `\\p{sc=N}`,
  // `\\p{gc=N}`, …; names newer than ES2022 left out): a seed-dependent eighth in the quick tier, all of it in the thorough one
  let ptext = std::fs::read_to_string("/verif/corpus/regex_v8_props.jsonl").unwrap_or_default();
  let plines: Vec<&str> = ptext.lines().collect();
  if plines.is_empty() {
    out.found("C12", "v8-corpus-missing", "props", json!({}));
  }
  let whole = n == lines.len();
  let pick: Vec<&str> = plines.iter().enumerate().filter(|(i, _)| whole || (i + args.seed as usize) % 8 == 0).map(|(_, l)| *l).collect();
  out.add("property-name-cases", pick.len() as u64);
  let all: Vec<&str> = pick.into_iter().chain((0..n).map(|i| lines[(start + i) % lines.len()])).collect();
  for l in all {
    let Ok(j) = serde_json::from_str::<Value>(l) else { continue };
    let (p, f) = (j["p"].as_str().unwrap_or(""), j["f"].as_str().unwrap_or(""));
    if f.contains('v') {
      continue; // the property excludes the `v` flag
    }
    let v8_rejects = !j["v8"].is_null();
    let src = format!("new RegExp({}, {});\n", crate::d_rx::js_string(p, '"'), crate::d_rx::js_string(f, '"'));
    out.count(if v8_rejects { "v8=SyntaxError" } else { "v8=ok" });
    match lint(&linter, &src, "js") {
      Outcome::Ok(ds) => {
        let reported = ds.iter().any(|d| d.code == "no-invalid-regexp");
        out.eval(l, reported, json!({"pattern": p, "flags": f, "v8_rejects": v8_rejects, "reported": reported}));
        if reported != v8_rejects {
          out.found("C12", &classify(p, f, reported), l, json!({"pattern": p, "flags": f, "v8_rejects": v8_rejects, "reported": reported, "src": src}));
        }
      }
      Outcome::Panic(m) => out.found("C01", "panic:no-invalid-regexp", &src, json!({"pattern": p, "flags": f, "panic": m, "src": src})),
      Outcome::ParseErr(_) => out.count("js-parse-error"),
    }
  }
  out.finish();
}
