//! C18: the per-file JSX factory configuration must not change any rule but no-unused-vars; for no-unused-vars it can
//! only remove reports, only in files that contain JSX, and only for identifiers of the effective factory expression;
//! an in-file pragma takes precedence.
use crate::{Args, Out};
use dlharness::*;
use serde_json::json;

pub const JSX_BODIES: &[&str] = &[
  "const a = <div>hi</div>;",
  "const b = <><span/></>;",
  "export const C = () => <Foo x={1}><Bar/></Foo>;",
  "function D() { return <>{[1,2].map((n) => <li key={n}>{n}</li>)}</>; }",
  "const e = 1;",
  "let f = h; f = <p/>;",
  // bindings that are referenced only from inside their own declaration (not a use), in a fragment / an element
  "function Tree(p) { return <>{p.depth > 0 ? <Tree depth={p.depth - 1}/> : null}</>; }",
  "const label = <>{typeof label}</>;",
  "function Rec(p) { return <div>{p.n ? <Rec n={p.n - 1}/> : null}</div>; }",
  "const selfRef = <a>{typeof selfRef}</a>;",
  "const g = () => <><b/>{typeof g}</>;",
  // elements named like the factories themselves (long-form fragments, the factory as a component)
  "const lf1 = <React.Fragment><i/></React.Fragment>;",
  "const lf2 = <Fragment></Fragment>;",
  "const lf3 = <div><F>text</F><Fragment><u/></Fragment></div>;",
  "const lf4 = <h>x</h>; const lf5 = <React.createElement/>;",
  "const lf6 = <ul><React.Fragment key=\"k\"><li/></React.Fragment></ul>;",
];
pub const IMPORTS: &[&str] = &[
  "import { h } from \"preact\";",
  "import { h, Fragment } from \"preact\";",
  "import React from \"react\";",
  "import * as React from \"react\";",
  "import { createElement, Fragment as F } from \"x\";",
  "import { jsx, unusedThing } from \"y\";",
  "const h = 1, Fragment = 2, React = 3;",
  "",
];
pub const PRAGMAS: &[&str] = &["", "/** @jsx h */\n", "/** @jsx h */\n/** @jsxFrag Fragment */\n", "/** @jsx React.createElement */\n", "// @jsx h\n"];
pub const FACTORIES: &[Option<&str>] = &[None, Some("h"), Some("React.createElement"), Some("createElement"), Some("jsx"), Some("a.b.c"), Some("a..b"), Some("class"), Some("")];
pub const FRAGS: &[Option<&str>] = &[None, Some("Fragment"), Some("React.Fragment"), Some("F")];

/// which of the two pragmas a header of block comments sets, by the documented reading: a line of a block comment
/// (after an optional leading `*`) that starts with `@jsx` is a sequence of `name value` pairs
fn pragmas_of(header: &str) -> (bool, bool) {
  let (mut j, mut f) = (false, false);
  let mut rest = header;
  while let Some(a) = rest.find("/*") {
    let Some(len) = rest[a + 2..].find("*/") else { break };
    let text = &rest[a + 2..a + 2 + len];
    for line in text.lines() {
      let mut l = line.trim();
      if let Some(r) = l.strip_prefix('*') {
        l = r.trim();
      }
      if !l.starts_with("@jsx") {
        continue;
      }
      let w: Vec<&str> = l.split_whitespace().collect();
      // a pragma whose text cannot name a factory (`a..b`, `1+1`, `h.`, `class`) is no pragma: an acceptable one before
      // or after it stays in force, and with none the configured default applies (seed C18-7)
      let acceptable = |t: &str| {
        t != "class" && t.split('.').all(|seg| !seg.is_empty() && seg.chars().all(|c| c.is_alphanumeric() || c == '_' || c == '$') && !seg.chars().next().unwrap().is_ascii_digit())
      };
      for pair in w.chunks(2) {
        if pair.len() == 2 && pair[0] == "@jsx" && acceptable(pair[1]) {
          j = true;
        }
        if pair.len() == 2 && pair[0] == "@jsxFrag" && acceptable(pair[1]) {
          f = true;
        }
      }
    }
    rest = &rest[a + 2 + len + 2..];
  }
  (j, f)
}

fn idents_of(expr: &str) -> Vec<String> {
  expr.split('.').take(1).map(|s| s.to_string()).collect() // only the root object is a variable reference
}

pub fn run(args: &Args) {
  let mut out = Out::new(&args.out, "cfg");
  let mut rng = Rng::new(args.seed ^ 0xC18);
  let corpus = crate::d_scan::load_corpus();
  let all = mk_linter(rules_by_codes(&all_codes()), &Words::default());
  for case_no in 0..args.count {
    let mut crng = rng.fork();
    // a JSX program assembled from parts, or a corpus snippet (JSX or not)
    let (src, ext, has_pragma_jsx, has_pragma_frag) = if crng.chance(2, 3) {
      let generated;
      let pr = if crng.chance(1, 2) {
        PRAGMAS[crng.below(PRAGMAS.len())]
      } else {
        // a header assembled from directive lines: the two pragmas alone, together, next to other `@jsx…` / `@ts-…`
        // directives in the same comment, on the same line, or in comments of their own
        let mut lines: Vec<String> = vec![];
        if crng.chance(2, 3) {
          lines.push(format!("@jsx {}", ["h", "React.createElement", "createElement"][crng.below(3)]));
        }
        if crng.chance(1, 2) {
          lines.push(format!("@jsxFrag {}", ["Fragment", "F", "React.Fragment"][crng.below(3)]));
        }
        if crng.chance(1, 3) {
          lines.push(["@jsx a..b", "@jsxFrag 1+1", "@jsx h.", "@jsx class", "@jsxFrag .F", "@jsx 1h", "@jsxFrag a..b"][crng.below(7)].to_string());
          out.count("pragma-header=with-unacceptable-pragma");
        }
        for _ in 0..crng.below(3) {
          lines.push(["@jsxRuntime classic", "@jsxRuntime automatic", "@jsxImportSource preact", "@ts-nocheck", "Copyright the authors.", "@deno-types=\"./x.d.ts\""][crng.below(6)].to_string());
        }
        // seed-dependent order
        for i in (1..lines.len()).rev() {
          let j = crng.below(i + 1);
          lines.swap(i, j);
        }
        let mut h = String::new();
        match crng.below(4) {
          0 => {
            for l in &lines {
              h.push_str(&format!("/** {} */\n", l));
            }
          }
          1 => h.push_str(&format!("/**\n{} */\n", lines.iter().map(|l| format!(" * {}\n", l)).collect::<String>())),
          2 => h.push_str(&format!("/* {} */\n", lines.join(" "))),
          _ => h.push_str(&format!("/*\n{}\n*/\n", lines.join("\n"))),
        }
        out.count("pragma-header=generated");
        generated = h;
        generated.as_str()
      };
      let imp = IMPORTS[crng.below(IMPORTS.len())];
      let n = crng.range(1, 3);
      let mut body = String::new();
      for _ in 0..n {
        body.push_str(JSX_BODIES[crng.below(JSX_BODIES.len())]);
        body.push('\n');
      }
      let ext = ["tsx", "jsx", "ts", "js"][crng.below(4)];
      let (pj, pf) = pragmas_of(pr);
      (format!("{}{}\n{}", pr, imp, body), ext, pj, pf)
    } else {
      let s = &corpus[crng.below(corpus.len())];
      let ext = if s.src.contains("</") || s.src.contains("/>") { "tsx" } else { "ts" };
      (s.src.clone(), ext, s.src.contains("@jsx ") && s.src.contains("/*"), s.src.contains("@jsxFrag") && s.src.contains("/*"))
    };
    let base_cfg = Cfg::default();
    let base = match lint_with(&all, &src, ext, &base_cfg, None) {
      Outcome::Ok(d) => d,
      Outcome::Panic(m) => {
        out.found("C01", "panic:config", &src, json!({"src": src, "ext": ext, "panic": m}));
        continue;
      }
      _ => continue,
    };
    let has_jsx = (ext == "tsx" || ext == "jsx") && (src.contains("</") || src.contains("/>"));
    out.count(&format!("ext={}", ext));
    out.count(if has_jsx { "jsx=yes" } else { "jsx=no" });
    out.count(if has_pragma_jsx { "pragma=yes" } else { "pragma=no" });
    for _ in 0..3 {
      let fac = FACTORIES[crng.below(FACTORIES.len())];
      let frag = FRAGS[crng.below(FRAGS.len())];
      if fac.is_none() && frag.is_none() {
        continue;
      }
      let cfg = Cfg { jsx_factory: fac.map(|s| s.to_string()), jsx_fragment_factory: frag.map(|s| s.to_string()) };
      let meta = json!({"src": src, "ext": ext, "factory": fac, "fragment_factory": frag});
      out.eval(&format!("{}|{:?}|{:?}", src, fac, frag), !base.is_empty(), meta.clone());
      match lint_with(&all, &src, ext, &cfg, None) {
        Outcome::Ok(d) => {
          // ban-unused-ignore is by design a function of the other rules' output (a directive naming no-unused-vars becomes unused)
          let other = |v: &Vec<D>| -> Vec<D> { v.iter().filter(|x| x.code != "no-unused-vars" && x.code != "ban-unused-ignore").cloned().collect() };
          if other(&d) != other(&base) {
            let codes: std::collections::BTreeSet<String> = other(&d).iter().chain(other(&base).iter()).filter(|x| !(other(&d).contains(x) && other(&base).contains(x))).map(|x| x.code.clone()).collect();
            out.found("C18", &format!("config-changed-other-rule:{}", codes.into_iter().collect::<Vec<_>>().join("+")), &src, json!({"meta": meta}));
          }
          let nu_base: Vec<D> = base.iter().filter(|x| x.code == "no-unused-vars").cloned().collect();
          let nu: Vec<D> = d.iter().filter(|x| x.code == "no-unused-vars").cloned().collect();
          let added: Vec<&D> = nu.iter().filter(|x| !nu_base.contains(x)).collect();
          let removed: Vec<&D> = nu_base.iter().filter(|x| !nu.contains(x)).collect();
          if !added.is_empty() {
            out.found("C18", "config-added-unused-var-report", &src, json!({"meta": meta, "added": added.iter().map(|x| x.json()).collect::<Vec<_>>()}));
          }
          if !removed.is_empty() {
            out.count("removed-some");
            if !has_jsx {
              out.found("C18", "config-removed-report-in-file-without-jsx", &src, json!({"meta": meta, "removed": removed.iter().map(|x| x.json()).collect::<Vec<_>>()}));
            }
            // effective factory: the pragma wins
            let mut allowed: Vec<String> = vec![];
            if !has_pragma_jsx {
              if let Some(f) = fac {
                allowed.extend(idents_of(f));
              }
            }
            if !has_pragma_frag {
              if let Some(f) = frag {
                allowed.extend(idents_of(f));
              }
            }
            for r in &removed {
              let name = r.msg.split('`').nth(1).unwrap_or("").to_string();
              if !allowed.contains(&name) {
                let kind = if has_pragma_jsx || has_pragma_frag { "pragma-did-not-take-precedence-or-foreign-identifier" } else { "removed-report-for-identifier-not-in-factory" };
                out.found("C18", kind, &src, json!({"meta": meta, "removed": r.json(), "allowed": allowed}));
              }
            }
          }
        }
        Outcome::Panic(m) => out.found("C01", "panic:config", &src, json!({"meta": meta, "panic": m})),
        Outcome::ParseErr(_) => {}
      }
    }
  }
  out.finish();
}
