//! C19: the dlint example binary (built from /repo into /verif/build/dlint) is run over generated file sets with
//! different thread-pool sizes and argument orders; stdout, stderr and the exit status must be identical, the files must
//! be reported in path order, and the problem count / exit status must match the per-file results computed in-process.
use crate::{Args, Out};
use deno_lint::rules::*;
use dlharness::*;
use serde_json::json;
use std::process::Command;

const BIN: &str = "/verif/build/dlint/release/examples/dlint";

// (files importing one absolute URL, among them a `deps.ts`: no-external-import judges an import by the file it stands in)
const URL_IMPORTS: &[&str] = &["import x from \"https://example.com/x.ts\";\nexport default x;\n", "import { y } from \"https://example.com/y.ts\";\nimport x from \"https://example.com/x.ts\";\nexport const z = [x, y];\n"];
const LINTY: &[&str] = &["debugger;\n", "var a = 1;\nconsole.log(a == 2);\n", "if (x) {}\n", "let y: any = 1;\nexport default y;\n", "eval('x');\n"];
const CLEAN: &[&str] = &["export const a = 1;\n", "export function f(): number { return 1; }\n", "// nothing\n"];
const RECOVERABLE: &[&str] = &["class A { abstract foo(): void; }\nexport default A;\n", "export function f(a?: number = 1) { return a; }\n", "class B { constructor(){} constructor(){} }\nexport default B;\n"];
const FATAL: &[&str] = &["let = ;\n", "function (\n"];

fn run(bin: &str, dir: &str, files: &[String], threads: usize, extra: &[String]) -> (String, String, i32) {
  let out = Command::new(bin).current_dir(dir).env("RAYON_NUM_THREADS", threads.to_string()).env_remove("RUST_LOG").env("RUST_BACKTRACE", "0").env("RUST_LIB_BACKTRACE", "0").arg("run").args(extra).args(files).output().expect("run dlint");
  (String::from_utf8_lossy(&out.stdout).to_string(), String::from_utf8_lossy(&out.stderr).to_string(), out.status.code().unwrap_or(-1))
}

pub fn run_all(args: &Args) {
  let mut out = Out::new(&args.out, "dlint");
  if !std::path::Path::new(BIN).exists() {
    out.found("C19", "dlint-binary-missing", BIN, json!({"bin": BIN}));
    out.finish();
    return;
  }
  let mut rng = Rng::new(args.seed ^ 0xD117);
  let root = format!("{}/dlint-files", args.out);
  let _ = std::fs::remove_dir_all(&root);
  for case_no in 0..args.count {
    let mut crng = rng.fork();
    let dir = format!("{}/c{}", root, case_no);
    std::fs::create_dir_all(&dir).unwrap();
    // mostly a handful of files; every seventh set is large (just past the usual batch sizes: the workers then share
    // more than one chunk of work)
    let n = if case_no % 7 == 3 {
      out.count("file-set=large");
      [65, 70, 129, 130, 200, 257, 64, 513][crng.below(8)]
    } else {
      crng.range(1, 9)
    };
    let mut files: Vec<String> = vec![];
    let with_fatal = case_no % 5 == 1 || crng.chance(1, 10);
    let mut expected = 0usize;
    let rule_mode = crng.below(3); // 0 recommended, 1 --rule X, 2 --config
    let rule_name = ["no-debugger", "eqeqeq", "no-explicit-any", "no-external-import"][crng.below(4)];
    // --config: tags, an include list and an exclude list in a drawn order; the reference selection is computed here by
    // set algebra (tagged or included, and not excluded), not by the function under test
    let pool = ["eqeqeq", "no-var", "no-explicit-any", "no-eval", "no-console", "prefer-const", "no-debugger", "no-empty", "camelcase", "ban-untagged-todo", "no-external-import", "no-external-import"];
    let mut cfg_include: Vec<String> = vec![];
    let mut cfg_exclude: Vec<String> = vec![];
    let cfg_tags: Vec<String> = if crng.chance(2, 3) { vec!["recommended".to_string()] } else { vec![] };
    if rule_mode == 2 {
      for _ in 0..crng.range(2, 5) {
        let c = pool[crng.below(pool.len())].to_string();
        if !cfg_include.contains(&c) {
          cfg_include.push(c);
        }
      }
      for _ in 0..crng.below(3) {
        let c = pool[crng.below(pool.len())].to_string();
        if !cfg_exclude.contains(&c) {
          cfg_exclude.push(c);
        }
      }
    }
    let rules: Vec<Box<dyn LintRule>> = match rule_mode {
      1 => filtered_rules(get_all_rules(), Some(vec![]), None, Some(vec![rule_name.to_string()])),
      2 => {
        let selected: Vec<String> = get_all_rules()
          .iter()
          .filter(|r| (r.tags().iter().any(|t| cfg_tags.iter().any(|x| x == t.display())) || cfg_include.contains(&r.code().to_string())) && !cfg_exclude.contains(&r.code().to_string()))
          .map(|r| r.code().to_string())
          .collect();
        rules_by_codes(&selected)
      }
      _ => recommended_rules(get_all_rules()),
    };
    let linter = mk_linter(rules, &Words::default());
    let mut per_file = vec![];
    for i in 0..n {
      // small totals on purpose: every fourth set is all clean, every fourth all clean but one single-finding file
      let kind = match case_no % 4 {
        0 => 4,
        1 if i == n / 2 => 100,
        1 => 4,
        _ => crng.below(10),
      };
      let (body, k) = match kind {
        100 => (
          match (rule_mode, rule_name) {
            (1, "no-debugger") => "debugger;\n",
            (1, "eqeqeq") => "export const q = a == b;\n",
            (1, _) => "const y: any = 1;\nexport default y;\n",
            (2, _) => "if (x) {}\n",
            _ => "debugger;\n",
          },
          "single-finding",
        ),
        0..=3 if rule_name == "no-external-import" || (rule_mode == 2 && cfg_include.iter().any(|c| c == "no-external-import")) => (URL_IMPORTS[crng.below(URL_IMPORTS.len())], "url-imports"),
        0..=3 => (LINTY[crng.below(LINTY.len())], "linty"),
        4..=5 => (CLEAN[crng.below(CLEAN.len())], "clean"),
        6..=8 => (RECOVERABLE[crng.below(RECOVERABLE.len())], "recoverable"),
        _ => (CLEAN[0], "clean"),
      };
      // names chosen so that argument order != path order
      let name = if k == "url-imports" && !files.iter().any(|f: &String| f == "deps.ts") && crng.chance(1, 2) {
        out.count("file=deps.ts");
        "deps.ts".to_string()
      } else {
        format!("{}{}.ts", ["z", "a", "m", "B", "_", "k"][crng.below(6)], i)
      };
      std::fs::write(format!("{}/{}", dir, name), body).unwrap();
      out.count(&format!("file={}", k));
      // in-process reference
      let spec = deno_ast::ModuleSpecifier::from_file_path(format!("{}/{}", dir, name)).unwrap();
      let r = linter.lint_file(deno_lint::linter::LintFileOptions {
        specifier: spec,
        source_code: body.to_string(),
        media_type: deno_ast::MediaType::TypeScript,
        config: deno_lint::linter::LintConfig { default_jsx_factory: Some("React.createElement".into()), default_jsx_fragment_factory: Some("React.Fragment".into()) },
        external_linter: None,
      });
      if let Ok((ps, ds)) = r {
        expected += ds.len() + ps.diagnostics().len();
        per_file.push(json!({"file": name, "lint": ds.len(), "parse": ps.diagnostics().len()}));
      }
      files.push(name);
    }
    // the same file under other spellings of its path (a `..` detour, a symbolic link): every argument is a file of
    // its own for the report — its diagnostics are printed under the path it was given by, and counted
    if case_no % 5 == 2 && !files.is_empty() {
      let f = files[crng.below(files.len())].clone();
      let body = std::fs::read_to_string(format!("{}/{}", dir, f)).unwrap_or_default();
      let _ = std::fs::create_dir_all(format!("{}/sub", dir));
      let link = format!("ln_{}", f);
      let _ = std::os::unix::fs::symlink(&f, format!("{}/{}", dir, link));
      for alias in [format!("sub/../{}", f), link] {
        let spec = deno_ast::ModuleSpecifier::from_file_path(format!("{}/{}", dir, alias.replace("sub/../", ""))).unwrap();
        let r = linter.lint_file(deno_lint::linter::LintFileOptions {
          specifier: spec,
          source_code: body.clone(),
          media_type: deno_ast::MediaType::TypeScript,
          config: deno_lint::linter::LintConfig { default_jsx_factory: Some("React.createElement".into()), default_jsx_fragment_factory: Some("React.Fragment".into()) },
          external_linter: None,
        });
        if let Ok((ps, ds)) = r {
          expected += ds.len() + ps.diagnostics().len();
          per_file.push(json!({"file": alias, "lint": ds.len(), "parse": ps.diagnostics().len(), "alias_of": f}));
        }
        files.push(alias);
      }
      out.count("file=path-aliases");
    }
    // a path named twice (as a command-line file that a configured glob matches as well would be): whatever such a
    // run reports, it reports it for every order of the arguments — only the order / schedule comparison looks at these
    let with_duplicate = case_no % 6 == 4 && files.len() >= 2;
    if with_duplicate {
      let f = files[crng.below(files.len())].clone();
      let at = crng.below(files.len() + 1);
      files.insert(at, f);
      out.count("file=named-twice");
    }
    // one to three files that end the run: unparsable, or not there at all; with several of them the one reported is
    // the least path, whatever the schedule (repair 07a5560)
    let mut fatal_names: Vec<String> = vec![];
    if with_fatal {
      let k = if case_no % 10 == 1 { crng.range(2, 3) } else { crng.range(1, 3) };
      for j in 0..k {
        let name = format!("{}{}_{}.ts", ["q", "A", "zz", "b"][crng.below(4)], n, j);
        if crng.chance(1, 4) {
          out.count("file=missing");
        } else {
          std::fs::write(format!("{}/{}", dir, name), FATAL[crng.below(FATAL.len())]).unwrap();
          out.count("file=fatal");
        }
        let at = crng.below(files.len() + 1);
        files.insert(at, name.clone());
        fatal_names.push(name);
      }
      out.count(&format!("fatal-files={}", k));
    }
    let mut extra: Vec<String> = vec![];
    if rule_mode == 1 {
      extra.push("--rule".into());
      extra.push(rule_name.into());
    } else if rule_mode == 2 {
      std::fs::write(format!("{}/cfg.json", dir), serde_json::to_string(&json!({"rules": {"tags": cfg_tags, "exclude": cfg_exclude, "include": cfg_include}})).unwrap()).unwrap();
      extra.push("--config".into());
      extra.push("cfg.json".into());
    }
    out.count(&format!("rule-mode={}", rule_mode));
    let mut sorted = files.clone();
    sorted.sort_by(|a, b| std::path::Path::new(a).cmp(std::path::Path::new(b)));
    out.count(&format!("expected-total={}", match expected { 0 => "0", 1 => "1", 2 => "2", _ => "3+" }));
    let meta = json!({"dir": dir, "files": files, "extra": extra, "per_file": per_file, "expected_count": expected, "with_fatal": with_fatal});
    let reference = run(BIN, &dir, &sorted, 1, &extra);
    out.eval(&format!("{}", case_no), true, json!({"meta": meta, "stderr_threads1": reference.1.chars().take(400).collect::<String>()}));
    if !with_fatal && !with_duplicate {
      // count and status against the in-process numbers
      let want_status = if expected > 0 { 1 } else { 0 };
      let count_line = if expected > 0 { format!("Found {} problem{}", expected, if expected == 1 { "" } else { "s" }) } else { String::new() };
      if reference.2 != want_status {
        out.found("C19", "exit-status-wrong", &dir, json!({"meta": meta, "status": reference.2, "expected_status": want_status, "stderr": reference.1}));
      }
      if expected > 0 && !reference.1.contains(&count_line) {
        let got = reference.1.lines().filter(|l| l.starts_with("Found ")).collect::<Vec<_>>().join("|");
        out.found("C19", "problem-count-wrong", &dir, json!({"meta": meta, "expected_line": count_line, "got": got}));
      }
      if expected == 0 && reference.1.contains("Found ") {
        out.found("C19", "problem-count-wrong", &dir, json!({"meta": meta, "expected_line": "", "stderr": reference.1}));
      }
      // files appear in path order
      let mut last = 0usize;
      let mut ok = true;
      for f in &sorted {
        // (the whole path as printed: `/z4.ts` alone also occurs inside the alias `sub/../z4.ts`)
        if let Some(i) = reference.1.find(&format!("{}/{}", dir, f)) {
          if i < last {
            ok = false;
          }
          last = last.max(i);
        }
      }
      if !ok {
        out.found("C19", "report-not-in-path-order", &dir, json!({"meta": meta, "stderr": reference.1}));
      }
    } else if with_fatal && reference.2 != 1 {
      out.found("C19", "exit-status-wrong", &dir, json!({"meta": meta, "status": reference.2, "expected_status": 1}));
    } else if with_fatal {
      // the error that ends the run is the one of the least failing path; nothing is reported about the other files
      let least = fatal_names.iter().min().cloned().unwrap_or_default();
      let others: Vec<&String> = fatal_names.iter().filter(|f| **f != least).collect();
      let names_least = reference.1.contains(&least) || reference.1.contains("No such file");
      if !names_least || others.iter().any(|o| reference.1.contains(o.as_str())) || reference.1.contains("Found ") {
        out.found("C19", "failure-reported-is-not-the-least-path", &dir, json!({"meta": meta, "least": least, "stderr": reference.1.chars().take(800).collect::<String>()}));
      }
    }
    // schedule / argument-order independence
    for threads in [2usize, 4, 16] {
      let mut order = files.clone();
      crng.shuffle(&mut order);
      let r = run(BIN, &dir, &order, threads, &extra);
      let same = r == reference;
      if !same {
        let kind = if r.2 != reference.2 { "status-depends-on-schedule" } else if r.1.lines().filter(|l| l.starts_with("Found ")).collect::<Vec<_>>() != reference.1.lines().filter(|l| l.starts_with("Found ")).collect::<Vec<_>>() { "count-depends-on-schedule" } else { "output-depends-on-schedule-or-argument-order" };
        out.found("C19", kind, &dir, json!({"meta": meta, "threads": threads, "order": order, "stderr": r.1.chars().take(1500).collect::<String>(), "reference_stderr": reference.1.chars().take(1500).collect::<String>()}));
      }
    }
    let _ = std::fs::remove_dir_all(&dir);
  }
  out.finish();
}
