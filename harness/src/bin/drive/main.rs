//! correspondence + search driver.  `drive <sub> --seed S --count N --out DIR [--opt k=v ...]`
//! writes DIR/<sub>.req.jsonl (requests for the Lean model), DIR/<sub>.impl.jsonl (the implementation's
//! canonical answers, line by line), DIR/<sub>.meta.jsonl (inputs for replay), DIR/<sub>.stats.json and
//! DIR/<sub>.search.jsonl (failures of the property oracles evaluated on the implementation itself).
#![allow(clippy::all)]
use dlharness::*;
use serde_json::{json, Value};
use std::collections::{BTreeMap, HashMap};
use std::io::Write;

mod d_cf;
mod d_cfexport;
mod d_cfg;
mod d_dlint;
mod d_embed;
mod d_entry;
mod d_fixb;
mod d_fixrest;
mod d_fixsmall;
mod d_imp;
mod d_limits;
mod d_pipe;
mod d_rx;
mod d_rxv8;
mod d_scan;
mod d_scope;
mod d_sel;
mod d_txt;
mod d_vms;
mod d_ws;

pub struct Out {
  pub req: std::io::BufWriter<std::fs::File>,
  pub imp: std::io::BufWriter<std::fs::File>,
  pub meta: std::io::BufWriter<std::fs::File>,
  pub search: std::io::BufWriter<std::fs::File>,
  pub stats: BTreeMap<String, u64>,
  pub n: u64,
  pub nsearch: u64,
  pub evals: u64,
  pub nontrivial: std::collections::HashSet<u64>,
  pub dir: String,
  pub sub: String,
}
impl Out {
  pub fn new(dir: &str, sub: &str) -> Out {
    std::fs::create_dir_all(dir).unwrap();
    let f = |suffix: &str| std::io::BufWriter::new(std::fs::File::create(format!("{}/{}.{}", dir, sub, suffix)).unwrap());
    Out { req: f("req.jsonl"), imp: f("impl.jsonl"), meta: f("meta.jsonl"), search: f("search.jsonl"), stats: BTreeMap::new(), n: 0, nsearch: 0, evals: 0, nontrivial: Default::default(), dir: dir.into(), sub: sub.into() }
  }
  /// one correspondence case
  pub fn case(&mut self, req: Value, imp: Value, meta: Value) {
    writeln!(self.req, "{}", req).unwrap();
    writeln!(self.imp, "{}", imp).unwrap();
    writeln!(self.meta, "{}", meta).unwrap();
    self.n += 1;
  }
  /// a failure of a property oracle on the implementation
  pub fn found(&mut self, property: &str, kind: &str, key: &str, detail: Value) {
    writeln!(self.search, "{}", json!({"property": property, "kind": kind, "key": key, "detail": detail})).unwrap();
    self.nsearch += 1;
  }
  /// one evaluation of property oracles on the implementation (no model request); `key` identifies the input
  pub fn eval(&mut self, key: &str, nontrivial: bool, sample: Value) {
    use std::hash::{Hash, Hasher};
    self.evals += 1;
    if nontrivial {
      let mut h = std::collections::hash_map::DefaultHasher::new();
      key.hash(&mut h);
      self.nontrivial.insert(h.finish());
    }
    if self.evals <= 3 {
      writeln!(self.meta, "{}", json!({"oracle_sample": sample})).unwrap();
    }
  }
  pub fn count(&mut self, k: &str) {
    *self.stats.entry(k.to_string()).or_insert(0) += 1;
  }
  pub fn add(&mut self, k: &str, v: u64) {
    *self.stats.entry(k.to_string()).or_insert(0) += v;
  }
  pub fn finish(mut self) {
    self.req.flush().unwrap();
    self.imp.flush().unwrap();
    self.meta.flush().unwrap();
    self.search.flush().unwrap();
    let s = json!({"cases": self.n, "search_failures": self.nsearch, "hist": self.stats, "oracle_evals": self.evals, "oracle_distinct_nontrivial": self.nontrivial.len()});
    std::fs::write(format!("{}/{}.stats.json", self.dir, self.sub), s.to_string()).unwrap();
  }
}

pub struct Args {
  pub seed: u64,
  pub count: usize,
  pub out: String,
  pub opts: HashMap<String, String>,
}

fn main() {
  let a: Vec<String> = std::env::args().collect();
  if a.len() < 2 {
    eprintln!("usage: drive <sub> --seed S --count N --out DIR");
    std::process::exit(2);
  }
  let sub = a[1].clone();
  let mut args = Args { seed: 1, count: 100, out: "/verif/build/run".into(), opts: HashMap::new() };
  let mut i = 2;
  while i < a.len() {
    match a[i].as_str() {
      "--seed" => {
        args.seed = a[i + 1].parse().unwrap();
        i += 2
      }
      "--count" => {
        args.count = a[i + 1].parse().unwrap();
        i += 2
      }
      "--out" => {
        args.out = a[i + 1].clone();
        i += 2
      }
      "--opt" => {
        let (k, v) = a[i + 1].split_once('=').unwrap();
        args.opts.insert(k.into(), v.into());
        i += 2
      }
      x => panic!("bad arg {}", x),
    }
  }
  quiet_panics();
  match sub.as_str() {
    "sel" => d_sel::run(&args),
    "pipe" => d_pipe::run(&args),
    "entry" => d_entry::run(&args),
    "scan" => d_scan::run(&args),
    "cf" => d_cf::run(&args),
    "rx" => d_rx::run(&args),
    "rxv8" => d_rxv8::run(&args),
    "embed" => d_embed::run(&args),
    "cfg" => d_cfg::run(&args),
    "scope" => d_scope::run(&args),
    "limits" => d_limits::run(&args),
    "fixb" => d_fixb::run(&args),
    "vms" => d_vms::run(&args),
    "ws" => d_ws::run(&args),
    "fixsmall" => d_fixsmall::run(&args),
    "fixrest" => d_fixrest::run(&args),
    "imp" => d_imp::run(&args),
    "cfexport" => d_cfexport::run(&args),
    "txt" => d_txt::run(&args),
    "dlint" => d_dlint::run_all(&args),
    x => {
      eprintln!("unknown sub {}", x);
      std::process::exit(2);
    }
  }
}
