//! C05/C06/C07/C16/C17 (+ the pipeline parts of C02/C03/C04): generated files with directives are linted with a
//! spy rule; raw diagnostics, parsed directives (in real HashMap iteration order) and comments go to the Lean
//! models (`pipe`, `dirs`), whose answers are compared with the real result.  Independently, the property
//! oracles are evaluated on the implementation's own output.
use crate::{Args, Out};
use dlharness::gen::*;
use dlharness::*;
use serde_json::{json, Value};
use std::collections::{BTreeMap, BTreeSet};

const DIRECTIVE_SENSITIVE: &[&str] = &["ban-untagged-ignore", "ban-unused-ignore", "ban-unknown-rule-code"];

fn quoted(msg: &str) -> Option<String> {
  let a = msg.find('"')?;
  let b = msg.rfind('"')?;
  if b > a {
    Some(msg[a + 1..b].to_string())
  } else {
    None
  }
}

fn line_index(src: &str, pos: usize) -> usize {
  src.as_bytes()[..pos.min(src.len())].iter().filter(|b| **b == b'\n').count()
}

pub struct WordCfg {
  pub words: Words,
  pub file_word: String,
  pub line_word: String,
  pub decoys: Vec<String>,
  pub name: &'static str,
}

pub fn word_cfgs(rng: &mut Rng) -> Vec<WordCfg> {
  // (custom words may be any text without white space, also non-ASCII; the first character stays ASCII so that the
  // same-length "neutralised" variant of a directive can be formed)
  // … and punctuation: a word is whatever stands between white space — also the reason marker `--` and the code
  // separator `,`, which mean nothing inside the word (seed C17-7)
  let file_customs = ["my-ignore-file", "x-ignore", "deno-lint-ignore-file", "fichier-ignoré", "@lint-ignore-file", "lint:ignore-file", "nolint!", "e\u{301}x.ignore~file", "mylint--ignore-file", "lint,off-file", "a--b,c"];
  let line_customs = ["deno-lint-ignore", "lint-skip", "skip-file", "x-игнор", "@lint-ignore", "lint:ignore(next)", "nolint?", "l\u{301}nt/ignore", "mylint--ignore", "lint,off", "--", "x,--y"];
  let cf = file_customs[rng.below(file_customs.len())];
  let cl = line_customs[rng.below(line_customs.len())];
  let v = vec![
    WordCfg { words: Words { file: None, line: None }, file_word: "deno-lint-ignore-file".into(), line_word: "deno-lint-ignore".into(), decoys: vec![], name: "default/default" },
    WordCfg { words: Words { file: Some(leak(cf)), line: None }, file_word: cf.into(), line_word: "deno-lint-ignore".into(), decoys: vec!["deno-lint-ignore-file".into()], name: "custom/default" },
    WordCfg { words: Words { file: None, line: Some(leak(cl)) }, file_word: "deno-lint-ignore-file".into(), line_word: cl.into(), decoys: vec!["deno-lint-ignore".into()], name: "default/custom" },
    WordCfg { words: Words { file: Some(leak(cf)), line: Some(leak(cl)) }, file_word: cf.into(), line_word: cl.into(), decoys: vec!["deno-lint-ignore-file".into(), "deno-lint-ignore".into()], name: "custom/custom" },
    // one word a prefix of the other, either way round (the defaults are such a pair themselves)
    WordCfg { words: Words { file: Some("lint-disable"), line: Some("lint-disable-next-line") }, file_word: "lint-disable".into(), line_word: "lint-disable-next-line".into(), decoys: vec!["deno-lint-ignore-file".into(), "deno-lint-ignore".into(), "lint-disable-next".into()], name: "custom-prefix-of-custom" },
    WordCfg { words: Words { file: Some("skip-all-of-it"), line: Some("skip") }, file_word: "skip-all-of-it".into(), line_word: "skip".into(), decoys: vec!["deno-lint-ignore-file".into(), "skip-all".into()], name: "custom-extends-custom" },
  ];
  v.into_iter()
    .map(|mut w| {
      let (f, l) = (w.file_word.clone(), w.line_word.clone());
      w.decoys.retain(|d| *d != f && *d != l);
      w
    })
    .collect()
}

fn gen_ext(rng: &mut Rng, src: &str, file_codes: Option<&Vec<String>>) -> Option<ExtSpec> {
  let n = rng.below(5);
  let mut diags = vec![];
  let mut bounds: Vec<usize> = (0..=src.len()).filter(|i| src.is_char_boundary(*i)).collect();
  if bounds.is_empty() {
    bounds.push(0);
  }
  for i in 0..n {
    let code = match rng.below(6) {
      0 => "ext-undeclared".to_string(),
      1 => "no-debugger".to_string(),
      _ => EXT_CODES[rng.below(EXT_CODES.len())].to_string(),
    };
    let range = if rng.chance(1, 4) {
      None
    } else {
      let a = bounds[rng.below(bounds.len())];
      let b = bounds[rng.below(bounds.len())];
      Some((a.min(b), a.max(b)))
    };
    diags.push((code, range, format!("ext message {}", i)));
  }
  let mut codes = vec![];
  for c in EXT_CODES {
    if rng.chance(2, 3) {
      codes.push(c.to_string());
    }
  }
  // a code the file-level directive names whose only diagnostics have no range: the directive suppresses them (they
  // belong to no line) and is thereby used
  if let Some(fc) = file_codes {
    let named: Vec<&String> = fc.iter().filter(|c| EXT_CODES.contains(&c.as_str())).collect();
    if !named.is_empty() && rng.chance(1, 2) {
      let c = named[rng.below(named.len())].clone();
      diags.retain(|d| d.0 != c);
      diags.push((c.clone(), None, "ext message without a range".to_string()));
      if !codes.contains(&c) {
        codes.push(c);
      }
    }
  }
  Some(ExtSpec { diags, codes })
}

pub fn run(args: &Args) {
  let mut out = Out::new(&args.out, "pipe");
  let mut rng = Rng::new(args.seed);
  let only_default_words = args.opts.get("words").map(|s| s == "default").unwrap_or(false);
  let all = all_codes();
  for case_no in 0..args.count {
    let mut crng = rng.fork();
    let cfgs = word_cfgs(&mut crng);
    let wc = if only_default_words { &cfgs[0] } else { &cfgs[crng.below(cfgs.len())] };
    let ts = crng.chance(1, 2);
    let opts = DirGenOpts { file_word: &wc.file_word, line_word: &wc.line_word, decoys: wc.decoys.clone(), ts };
    let df = if crng.chance(1, 12) { first_line_variant(&mut crng, &opts) } else { directive_file(&mut crng, &opts) };
    let (mut codes, mut subset_kind) = rule_subset(&mut crng);
    // every seventh case the enabled rules are exactly the built-in codes the file directive names (every enabled rule
    // is switched off for the file; whatever else reports — the external linter — is not)
    let mut force_ext = false;
    if case_no % 7 == 3 {
      if let Some(fc) = df.intended_file.as_ref() {
        let named: Vec<String> = fc.iter().filter(|c| all.contains(c)).cloned().collect();
        if !named.is_empty() {
          let mut named = named;
          named.sort();
          named.dedup();
          codes = named;
          subset_kind = "exactly-the-file-directive-codes";
          force_ext = true;
        }
      }
    }
    let names_ext = df.intended_file.as_ref().map_or(false, |fc| fc.iter().any(|c| EXT_CODES.contains(&c.as_str())));
    let ext = if force_ext || crng.chance(1, 3) || (names_ext && crng.chance(1, 2)) { gen_ext(&mut crng, &df.src, df.intended_file.as_ref()) } else { None };
    let ext_decline = ext.is_none() && crng.chance(1, 4);
    run_case(&mut out, case_no, wc, &df, &codes, subset_kind, ts, ext, ext_decline, &all);
  }
  out.finish();
}

#[allow(clippy::too_many_arguments)]
pub fn run_case(out: &mut Out, case_no: usize, wc: &WordCfg, df: &DirFile, codes: &[String], subset_kind: &str, ts: bool, ext: Option<ExtSpec>, ext_decline: bool, all: &[String]) {
  let extn = if ts { "ts" } else { "js" };
  let (rules, log) = with_spy(rules_by_codes(codes), false);
  let linter = mk_linter(rules, &wc.words);
  let cb = if ext.is_some() || ext_decline { Some(ext_cb(ext.clone())) } else { None };
  let res = lint_with(&linter, &df.src, extn, &Cfg::default(), cb.clone());
  let meta = json!({"case": case_no, "src": df.src, "ext": extn, "rules": codes, "subset": subset_kind, "words": wc.name,
      "file_word": wc.file_word, "line_word": wc.line_word,
      "external": ext.as_ref().map(|e| json!({"diags": e.diags, "codes": e.codes})), "ext_decline": ext_decline, "features": df.features});
  out.count(&format!("subset={}", subset_kind));
  out.count(&format!("words={}", wc.name));
  out.count(&format!("outcome={}", res.tag()));
  for f in &df.features {
    out.count(&format!("feat={}", f));
  }
  let final_ds = match res {
    Outcome::Ok(d) => d,
    Outcome::ParseErr(e) => {
      // generator bug, not a property matter: count it
      out.count("parse-err");
      let _ = e;
      return;
    }
    Outcome::Panic(m) => {
      out.found("C01", "panic", &df.src, json!({"meta": meta, "panic": m}));
      return;
    }
  };
  // the observer must not be what makes the result: the same run without the spy rule gives the same diagnostics (a
  // linter whose every rule is named by the file directive exists only without it)
  {
    let plain = mk_linter(rules_by_codes(codes), &wc.words);
    if let Outcome::Ok(dp) = lint_with(&plain, &df.src, extn, &Cfg::default(), cb.clone()) {
      if dp != final_ds {
        let only_with: Vec<_> = final_ds.iter().filter(|d| !dp.contains(d)).map(|d| d.json()).collect();
        let only_without: Vec<_> = dp.iter().filter(|d| !final_ds.contains(d)).map(|d| d.json()).collect();
        for prop in ["C04", "C05", "C06", "C07", "C16"] {
          out.found(prop, "result-depends-on-an-unrelated-extra-rule", &df.src, json!({"meta": meta, "only_with_the_extra_rule": only_with, "only_without_it": only_without}));
        }
      }
    }
  }
  let spy = log.lock().unwrap().clone();
  // the same linter instance is used again with an external linter that declares other codes (or none, or declines),
  // then once more as before: what an earlier call declared must not carry over (both directions)
  if case_no % 2 == 0 {
    let other: Option<deno_lint::linter::ExternalLinterCb> = match &ext {
      Some(e) if case_no % 4 == 0 => Some(ext_cb(Some(ExtSpec { diags: vec![], codes: e.codes.iter().rev().skip(1).cloned().chain(std::iter::once("ext-other".to_string())).collect() }))),
      Some(_) => Some(ext_cb(None)),
      None => Some(ext_cb(Some(ExtSpec { diags: vec![], codes: EXT_CODES.iter().map(|c| c.to_string()).collect() }))),
    };
    // (a) on the instance that has already seen this call, (b) on a second instance that sees the other declarations first
    let _ = lint_with(&linter, &df.src, extn, &Cfg::default(), other.clone());
    let second = mk_linter(rules_by_codes(codes), &wc.words);
    let _ = lint_with(&second, &df.src, extn, &Cfg::default(), other);
    let results = [lint_with(&linter, &df.src, extn, &Cfg::default(), cb.clone()), lint_with(&second, &df.src, extn, &Cfg::default(), cb.clone())];
    for again in results.into_iter().filter_map(|r| if let Outcome::Ok(d) = r { Some(d) } else { None }) {
      if again != final_ds {
        let only_first: Vec<_> = final_ds.iter().filter(|d| !again.contains(d)).map(|d| d.json()).collect();
        let only_again: Vec<_> = again.iter().filter(|d| !final_ds.contains(d)).map(|d| d.json()).collect();
        out.found("C16", "external-declarations-carry-over-between-calls", &df.src, json!({"meta": meta, "only_first_call": only_first, "only_after_other_declarations": only_again}));
        out.found("C02", "history-dependent:external-declarations", &df.src, json!({"meta": meta, "only_first_call": only_first, "only_after_other_declarations": only_again}));
        // the first call's accounting is the one checked against the oracle below; a later call that accounts for the
        // same directives differently accounts for some code twice or not at all
        if only_first.iter().chain(only_again.iter()).any(|d| ["ban-unknown-rule-code", "ban-unused-ignore"].contains(&d["code"].as_str().unwrap_or(""))) {
          out.found("C07", "accounting-differs-on-a-used-linter", &df.src, json!({"meta": meta, "only_first_call": only_first, "only_after_other_declarations": only_again}));
        }
        break;
      }
    }
  }
  let key = format!("{}|{}|{}", wc.name, codes.join(","), df.src);

  // ---------------- model requests -----------------------------------------------------------
  // (1) directive parsing: comments -> directives
  let cj = |c: &SpyComment| json!({"k": if c.line_kind {"L"} else {"B"}, "t": c.text, "s": c.start, "l": c.line});
  if spy.ran {
    let sd = |codes: &Vec<String>| {
      let mut c = codes.clone();
      c.sort();
      c
    };
    let mut lines: Vec<&(usize, SpyDir)> = spy.line_dirs.iter().collect();
    lines.sort_by_key(|x| x.0);
    let imp = json!({"file": spy.file_dir.as_ref().map(|f| json!({"s": f.start, "codes": sd(&f.codes)})),
      "lines": lines.iter().map(|(k, d)| json!({"k": k, "s": d.start, "codes": sd(&d.codes)})).collect::<Vec<_>>()});
    out.case(
      json!({"m": "dirs", "fword": wc.file_word, "lword": wc.line_word, "initial": spy.initial_comments.iter().map(cj).collect::<Vec<_>>(), "all": spy.all_comments.iter().map(cj).collect::<Vec<_>>()}),
      imp,
      json!({"kind": "dirs", "meta": meta}),
    );
  }

  // (2) pipeline
  let mut configured: Vec<String> = codes.to_vec();
  configured.push("zzz-spy".into());
  let mut raw_all: Vec<D> = spy.raw.iter().map(|r| r.2.clone()).collect();
  let mut raw_req: Vec<Value> = spy.raw.iter().enumerate().map(|(i, (c, p, _))| json!({"c": c, "p": p.map(|(s, l)| json!([s, l])), "id": i})).collect();
  let n_rule = raw_req.len();
  let mut ext_req = Value::Null;
  if let Some(e) = &ext {
    let mut ds = vec![];
    for (i, (c, r, m)) in e.diags.iter().enumerate() {
      ds.push(json!({"c": c, "p": r.map(|(a, _)| json!([a, line_index(&df.src, a)])), "id": n_rule + i}));
      raw_all.push(D { start: r.map(|x| x.0), end: r.map(|x| x.1), code: c.clone(), msg: m.clone(), hint: None, fixes: vec![] });
    }
    ext_req = json!({"diags": ds, "codes": e.codes});
  }
  let _ = &mut raw_req;
  // when the file is ignored entirely the spy never ran: the model gets the directive from the `dirs` answer
  let (file_req, lines_req) = if spy.ran {
    (
      spy.file_dir.as_ref().map(|f| json!({"s": f.start, "l": f.line, "codes": f.codes})),
      spy.line_dirs.iter().map(|(k, d)| json!({"k": k, "s": d.start, "l": d.line, "codes": d.codes})).collect::<Vec<_>>(),
    )
  } else {
    (Some(json!({"s": 0, "l": 0, "codes": []})), vec![])
  };
  // canonical implementation answer
  let mut used = vec![false; raw_all.len()];
  let mut imp = vec![];
  for d in &final_ds {
    let mut payload = None;
    for (i, r) in raw_all.iter().enumerate() {
      if !used[i] && r == d {
        used[i] = true;
        payload = Some(format!("r{}", i));
        break;
      }
    }
    let payload = payload.unwrap_or_else(|| {
      if d.code == "ban-unused-ignore" && d.msg.contains("was not used") {
        format!("U:{}", quoted(&d.msg).unwrap_or_default())
      } else if d.code == "ban-unknown-rule-code" && d.msg.contains("Unknown rule") {
        format!("K:{}", quoted(&d.msg).unwrap_or_default())
      } else {
        format!("?:{}", d.msg)
      }
    });
    imp.push(json!([d.code, d.start, payload]));
  }
  out.case(
    json!({"m": "pipe", "configured": configured, "all": all, "file": file_req, "lines": lines_req, "raw": raw_req, "ext": ext_req}),
    json!(imp),
    json!({"kind": "pipe", "meta": meta}),
  );
  out.add("raw-diags", raw_all.len() as u64);
  out.add("final-diags", final_ds.len() as u64);
  if !spy.ran {
    out.count("file-ignored-entirely");
  }

  // ---------------- property oracles on the implementation ------------------------------------
  // C03 (order): sorted by (start, code)
  for w in final_ds.windows(2) {
    if (w[0].start, &w[0].code) > (w[1].start, &w[1].code) {
      out.found("C03", "order", &key, json!({"meta": meta, "a": w[0].json(), "b": w[1].json()}));
      // "subject to the same … ordering as built-in ones": a misplaced pair with an external linter taking part is C16's too
      if meta.get("external").map(|e| !e.is_null() && e.as_bool() != Some(false)).unwrap_or(false) {
        out.found("C16", "external-diagnostics-not-in-position-then-code-order", &key, json!({"meta": meta, "a": w[0].json(), "b": w[1].json()}));
      }
    }
  }
  // the directives the text *means* (generator's view, by the property's own definition)
  let dedup = |v: &Vec<String>| -> BTreeSet<String> { v.iter().cloned().collect() };
  let intended_file: Option<BTreeSet<String>> = df.intended_file.as_ref().map(dedup);
  let intended_lines: BTreeMap<usize, BTreeSet<String>> = df.intended_lines.iter().map(|(l, c)| (*l, dedup(c))).collect();
  // C05: first leading file directive bare => nothing at all; and only then are the rules skipped
  let bare = intended_file.as_ref().map(|c| c.is_empty()).unwrap_or(false);
  if bare && !final_ds.is_empty() {
    out.found("C05", "bare-directive-did-not-silence", &key, json!({"meta": meta, "result": final_ds.iter().map(|d| d.json()).collect::<Vec<_>>()}));
  }
  if !bare && !spy.ran {
    out.found("C05", "file-silenced-without-bare-leading-directive", &key, json!({"meta": meta}));
    // …and with it went whatever the external linter reported under codes the directive does not list
    let listed: BTreeSet<String> = intended_file.clone().unwrap_or_default();
    let lost: Vec<String> = ext.as_ref().map(|e| e.diags.iter().filter(|d| !listed.contains(&d.0) && !final_ds.iter().any(|f| f.code == d.0)).map(|d| d.0.clone()).collect()).unwrap_or_default();
    let line_listed = |code: &String| intended_lines.values().any(|c| c.contains(code));
    if lost.iter().any(|c| !line_listed(c)) {
      out.found("C06", "file-directive-removed-diagnostics-it-does-not-list", &key, json!({"meta": meta, "lost_codes": lost}));
    }
  }
  if !spy.ran {
    return;
  }
  // the parser's view must be the intended one (separators / reason must not change which codes are meant)
  {
    let got_file: Option<BTreeSet<String>> = spy.file_dir.as_ref().map(|f| f.codes.iter().cloned().collect());
    let got_lines: BTreeMap<usize, BTreeSet<String>> = spy.line_dirs.iter().map(|(k, d)| (*k, d.codes.iter().cloned().collect())).collect();
    if got_file != intended_file {
      out.found("C06", "file-directive-codes-differ-from-what-the-text-means", &key, json!({"meta": meta, "parsed": got_file, "meant": intended_file}));
    }
    if got_lines != intended_lines {
      out.found("C06", "line-directive-codes-differ-from-what-the-text-means", &key, json!({"meta": meta, "parsed": got_lines, "meant": intended_lines}));
    }
  }
  // C04: codes of the result are enabled or external
  let ext_codes: Vec<String> = ext.as_ref().map(|e| e.codes.clone()).unwrap_or_default();
  let ext_diag_codes: Vec<String> = ext.as_ref().map(|e| e.diags.iter().map(|d| d.0.clone()).collect()).unwrap_or_default();
  for d in &final_ds {
    if !configured.contains(&d.code) && !ext_codes.contains(&d.code) && !ext_diag_codes.contains(&d.code) {
      let k = format!("code-not-enabled:{}", d.code);
      out.found("C04", &k, &key, json!({"meta": meta, "diag": d.json()}));
    }
  }
  // C06: kept = exactly the unsuppressed raw diagnostics (as a multiset; order is C03)
  let file_codes: BTreeSet<String> = intended_file.clone().unwrap_or_default();
  let line_map: BTreeMap<usize, BTreeSet<String>> = intended_lines.clone();
  let raw_pos: Vec<Option<(usize, usize)>> = spy.raw.iter().map(|r| r.1).chain(ext.iter().flat_map(|e| e.diags.iter().map(|d| d.1.map(|(a, _)| (a, line_index(&df.src, a)))))).collect();
  let mut expected_kept: Vec<D> = vec![];
  let mut used_marks: BTreeSet<(Option<usize>, String)> = BTreeSet::new(); // (None=file | Some(line), code)
  for (d, pos) in raw_all.iter().zip(raw_pos.iter()) {
    if file_codes.contains(&d.code) {
      used_marks.insert((None, d.code.clone()));
      continue;
    }
    if let Some((_, line)) = pos {
      if *line > 0 {
        if let Some(cs) = line_map.get(&(line - 1)) {
          if cs.contains(&d.code) {
            used_marks.insert((Some(line - 1), d.code.clone()));
            continue;
          }
        }
      }
    }
    expected_kept.push(d.clone());
  }
  let is_acc = |d: &D| (d.code == "ban-unused-ignore" && d.msg.contains("was not used")) || (d.code == "ban-unknown-rule-code" && d.msg.contains("Unknown rule"));
  let mut got_kept: Vec<D> = vec![];
  let mut got_acc: Vec<D> = vec![];
  {
    // an accounting-looking diagnostic that is also in raw (external) counts as raw
    let mut pool = expected_kept.clone();
    let mut pool_all = raw_all.clone();
    for d in &final_ds {
      if let Some(i) = pool.iter().position(|x| x == d) {
        pool.remove(i);
        got_kept.push(d.clone());
      } else if is_acc(d) {
        got_acc.push(d.clone());
      } else {
        let _ = &mut pool_all;
        got_kept.push(d.clone());
      }
    }
  }
  let mut a = expected_kept.clone();
  a.sort();
  let mut b = got_kept.clone();
  b.sort();
  if a != b {
    let missing: Vec<Value> = a.iter().filter(|x| !b.contains(x)).map(|x| x.json()).collect();
    let extra: Vec<Value> = b.iter().filter(|x| !a.contains(x)).map(|x| x.json()).collect();
    let kind = if missing.iter().any(|m| m["start"].is_null()) && extra.is_empty() && missing.iter().all(|m| m["start"].is_null()) { "rangeless-dropped" } else { "suppression-not-exact" };
    out.found("C06", kind, &key, json!({"meta": meta, "missing": missing, "extra": extra}));
  }
  // C07: accounting reference
  let enabled: BTreeSet<String> = configured.iter().cloned().chain(ext_codes.iter().cloned()).collect();
  let known: BTreeSet<String> = all.iter().cloned().chain(ext_codes.iter().cloned()).collect();
  let unused_on = configured.iter().any(|c| c == "ban-unused-ignore") && !file_codes.contains("ban-unused-ignore");
  let unknown_on = configured.iter().any(|c| c == "ban-unknown-rule-code") && !file_codes.contains("ban-unknown-rule-code");
  // directive positions: the start of the comment on that line (from swc's comment list)
  let comment_start_on_line = |l: usize| spy.all_comments.iter().filter(|c| c.line == l && c.line_kind).map(|c| c.start).last();
  let mut dirs: Vec<(Option<usize>, usize, Vec<String>)> = vec![];
  if let Some(f) = &intended_file {
    let start = spy.file_dir.as_ref().map(|d| d.start).unwrap_or(usize::MAX);
    dirs.push((None, start, f.iter().cloned().collect()));
  }
  for (k, cs) in &intended_lines {
    dirs.push((Some(*k), comment_start_on_line(*k).unwrap_or(usize::MAX), cs.iter().cloned().collect()));
  }
  let any_unknown_reported_possible = dirs.iter().any(|(_, _, cs)| cs.iter().any(|c| !known.contains(c)));
  let mut expected_acc: Vec<(usize, String, String)> = vec![]; // (start, kind, code)
  for (k, start, cs) in &dirs {
    for c in cs {
      let mut used = used_marks.contains(&(*k, c.clone()));
      // the file-level switch entries count as "used" when they did switch something off
      if k.is_none() && c == "ban-unknown-rule-code" && any_unknown_reported_possible {
        used = true;
      }
      if k.is_none() && c == "ban-unused-ignore" {
        used = true; // it switches the report off for the file; never itself reported
      }
      if used {
        continue;
      }
      if !known.contains(c) {
        if unknown_on {
          expected_acc.push((*start, "K".into(), c.clone()));
        }
      } else if enabled.contains(c) && unused_on {
        expected_acc.push((*start, "U".into(), c.clone()));
      }
    }
  }
  let mut got_acc_c: Vec<(usize, String, String)> = got_acc.iter().map(|d| (d.start.unwrap_or(usize::MAX), if d.code == "ban-unused-ignore" { "U".to_string() } else { "K".to_string() }, quoted(&d.msg).unwrap_or_default())).collect();
  // interpretation (DESIGN §9): a diagnostic whose code is neither built-in nor declared by the external linter
  // breaks the external linter's side of the contract; a directive naming such a code both suppresses and is
  // "unknown".  The accounting oracle does not speak about those codes.
  let undeclared: BTreeSet<String> = raw_all.iter().map(|d| d.code.clone()).filter(|c| !known.contains(c)).collect();
  expected_acc.retain(|x| !undeclared.contains(&x.2));
  got_acc_c.retain(|x| !undeclared.contains(&x.2));
  expected_acc.sort();
  got_acc_c.sort();
  if expected_acc != got_acc_c {
    let missing: Vec<_> = expected_acc.iter().filter(|x| !got_acc_c.contains(x)).cloned().collect();
    let extra: Vec<_> = got_acc_c.iter().filter(|x| !expected_acc.contains(x)).cloned().collect();
    let kind = if missing.is_empty() && extra.iter().all(|e| e.1 == "U") && !configured.iter().any(|c| c == "ban-unused-ignore") { "unused-reported-though-rule-not-enabled" } else { "accounting-mismatch" };
    out.found("C07", kind, &key, json!({"meta": meta, "missing": missing, "extra": extra}));
  }
  // C02 (pipeline part): a second call on the same instance returns the identical sequence
  let res2 = lint_with(&linter, &df.src, extn, &Cfg::default(), cb.clone());
  match res2 {
    Outcome::Ok(d2) => {
      if d2 != final_ds {
        let mut s1 = final_ds.clone();
        s1.sort();
        let mut s2 = d2.clone();
        s2.sort();
        let kind = if s1 == s2 { "same-set-different-order" } else { "different-set" };
        out.found("C02", kind, &key, json!({"meta": meta, "first": final_ds.iter().map(|d| d.json()).collect::<Vec<_>>(), "second": d2.iter().map(|d| d.json()).collect::<Vec<_>>()}));
      }
    }
    _ => out.found("C02", "second-run-failed", &key, json!({"meta": meta})),
  }
  // C16: a declining callback changes nothing; both entry points agree
  if ext_decline {
    let res3 = lint_with(&linter, &df.src, extn, &Cfg::default(), None);
    if let Outcome::Ok(d3) = res3 {
      let mut s1 = final_ds.clone();
      s1.sort();
      let mut s3 = d3;
      s3.sort();
      if s1 != s3 {
        out.found("C16", "declining-callback-changed-result", &key, json!({"meta": meta}));
      }
    }
  }
  // C05/C06 metamorphic: neutralise every directive in place; the difference must be suppression only
  if case_no % 2 == 0 {
    let (rules_n, log_n) = with_spy(rules_by_codes(codes), false);
    let linter_n = mk_linter(rules_n, &wc.words);
    if let Outcome::Ok(dn) = lint_with(&linter_n, &df.neutral, extn, &Cfg::default(), cb.clone()) {
      let spy_n = log_n.lock().unwrap().clone();
      if spy_n.file_dir.is_some() || !spy_n.line_dirs.is_empty() {
        out.count("neutral-still-has-directive");
      } else {
        // with no directives the result is the raw list; the directive run's kept list must be a sub-multiset
        let insens = |d: &&D| !DIRECTIVE_SENSITIVE.contains(&d.code.as_str());
        let mut base: Vec<D> = dn.iter().filter(insens).cloned().collect();
        let mut kept: Vec<D> = got_kept.iter().filter(insens).cloned().collect();
        base.sort();
        kept.sort();
        let mut ok = true;
        let mut pool = base.clone();
        for d in &kept {
          if let Some(i) = pool.iter().position(|x| x == d) {
            pool.remove(i);
          } else {
            ok = false;
          }
        }
        // everything removed must be named by a directive
        for d in &pool {
          let named_file = file_codes.contains(&d.code);
          let named_line = d.start.map(|s| {
            let l = line_index(&df.src, s);
            l > 0 && line_map.get(&(l - 1)).map(|cs| cs.contains(&d.code)).unwrap_or(false)
          });
          if !(named_file || named_line == Some(true)) && d.start.is_some() {
            ok = false;
          }
        }
        if !ok {
          out.found("C06", "neutralised-run-differs-beyond-suppression", &key, json!({"meta": meta, "neutral": df.neutral}));
        }
        out.count("neutral-compared");
      }
    }
  }
}
