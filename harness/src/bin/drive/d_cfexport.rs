//! `drive cfexport`: generated control-flow programs with a mark call in front of every statement of every statement list
//! (`__m(<byte offset of the statement in the ORIGINAL text>);`), for `tools/cf_exec_record.js` — node executes them under
//! random oracles for the free names and records which statements ran.  The recorded sets (`corpus/cf_exec.jsonl`) are an
//! engine's verdict on the hand-written reference semantics: every statement that ran must be `reachable` in it.
//! Not needed at check time (node is not part of the check).
use crate::{Args, Out};
use deno_ast::swc::ast::*;
use deno_ast::swc::ecma_visit::{Visit, VisitWith};
use deno_ast::{MediaType, SourceRangedForSpanned};
use dlharness::*;
use serde_json::json;
use std::io::Write;

struct Lists {
  base: deno_ast::StartSourcePos,
  at: Vec<usize>,
}
impl Lists {
  fn list(&mut self, ss: &[Stmt]) {
    for s in ss {
      self.at.push(s.start().as_byte_index(self.base));
    }
  }
}
impl Visit for Lists {
  fn visit_block_stmt(&mut self, n: &BlockStmt) {
    self.list(&n.stmts);
    n.visit_children_with(self);
  }
  fn visit_script(&mut self, n: &Script) {
    self.list(&n.body);
    n.visit_children_with(self);
  }
  fn visit_switch_case(&mut self, n: &SwitchCase) {
    self.list(&n.cons);
    n.visit_children_with(self);
  }
}

pub fn run(args: &Args) {
  let out = Out::new(&args.out, "cfexport");
  let mut rng = Rng::new(args.seed ^ 0xCFE);
  let mut f = std::io::BufWriter::new(std::fs::File::create(format!("{}/cfexport.programs.jsonl", args.out)).unwrap());
  let mut n = 0;
  // the kept regression programs first
  let mut progs: Vec<String> = crate::d_scan::load_corpus().iter().filter(|s| s.rule == "cf-regression").map(|s| s.src.clone()).collect();
  for case_no in 0..args.count {
    let mut crng = rng.fork();
    let (src, _) = if case_no % 3 == 2 { crate::d_cf::gen_small_program(&mut crng) } else { crate::d_cf::gen_cf_program(&mut crng) };
    progs.push(src);
  }
  for src in progs {
    // scripts only: a module cannot stand inside `with`, and its prelude re-declares the global constants
    if src.contains("export ") || src.contains("import ") || src.contains("await ") {
      continue;
    }
    let spec = spec_for("js");
    let Ok(ps) = deno_ast::parse_program(deno_ast::ParseParams {
      specifier: spec.clone(),
      media_type: MediaType::JavaScript,
      text: src.clone().into(),
      capture_tokens: false,
      maybe_syntax: None,
      scope_analysis: false,
    }) else {
      continue;
    };
    if ps.text().as_ref() != src {
      continue;
    }
    let deno_ast::ProgramRef::Script(sc) = ps.program_ref() else { continue };
    let mut l = Lists { base: ps.text_info_lazy().range().start, at: vec![] };
    sc.visit_with(&mut l);
    l.at.sort();
    l.at.dedup();
    let mut inst = src.clone();
    for p in l.at.iter().rev() {
      inst.insert_str(*p, &format!("__m({});", p));
    }
    writeln!(f, "{}", json!({"src": src, "inst": inst, "marks": l.at})).unwrap();
    n += 1;
  }
  f.flush().unwrap();
  eprintln!("cfexport: {} programs", n);
  out.finish();
}
