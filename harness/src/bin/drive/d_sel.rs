//! C15: rule selection.  Real `filtered_rules` / `recommended_rules` / `Linter::new` ordering vs M-SEL,
//! plus a direct set-algebra oracle.
use crate::{Args, Out};
use dlharness::*;
use deno_lint::rules::*;
use serde_json::json;

const TAGS: &[&str] = &["recommended", "fresh", "jsr", "react", "jsx"];

fn name_list(rng: &mut Rng, all: &[String]) -> Option<Vec<String>> {
  if rng.chance(1, 4) {
    return None;
  }
  let n = rng.below(6);
  let mut v = vec![];
  for _ in 0..n {
    match rng.below(10) {
      0 => v.push("no-such-rule".to_string()),
      1 => v.push(String::new()),
      2 if !v.is_empty() => v.push(v[rng.below(v.len())].clone()),
      3 => v.push("No-Debugger".to_string()),
      _ => v.push(all[rng.below(all.len())].clone()),
    }
  }
  Some(v)
}

pub fn run(args: &Args) {
  let mut out = Out::new(&args.out, "sel");
  let mut rng = Rng::new(args.seed);
  let all = all_codes();
  let exhaustive_tags = args.opts.get("tagsets").map(|s| s == "all").unwrap_or(false);

  // the very first call of the process is a narrow one (a memo filled by the first call would be wrong from here on)
  {
    let mut sub: Vec<String> = all.iter().filter(|_| rng.chance(1, 30)).cloned().collect();
    rng.shuffle(&mut sub);
    let mut rs = vec![];
    for c in &sub {
      rs.extend(rules_by_codes(&[c.clone()]));
    }
    let got_sub: Vec<String> = recommended_rules(rs).iter().map(|r| r.code().to_string()).collect();
    out.case(json!({"m": "recommended", "codes": sub}), json!(got_sub), json!({"case": "recommended-of-sublist-first-call", "codes": sub}));
  }
  // fixed cases
  let rec: Vec<String> = recommended_rules(get_all_rules()).iter().map(|r| r.code().to_string()).collect();
  out.case(json!({"m": "recommended"}), json!(rec), json!({"case": "recommended"}));
  {
    // oracle: recommended = tagged recommended, registry order
    let refv: Vec<String> = get_all_rules().iter().filter(|r| r.tags().iter().any(|t| t.display() == "recommended")).map(|r| r.code().to_string()).collect();
    if refv != rec {
      out.found("C15", "recommended-set", "recommended", json!({"got": rec, "expected": refv}));
    }
  }

  let mut tagsets: Vec<Option<Vec<String>>> = vec![None];
  for m in 0..32u32 {
    tagsets.push(Some(TAGS.iter().enumerate().filter(|(i, _)| m & (1 << i) != 0).map(|(_, t)| t.to_string()).collect()));
  }

  for i in 0..args.count {
    let tags = if exhaustive_tags || i < tagsets.len() {
      tagsets[i % tagsets.len()].clone()
    } else {
      match rng.below(8) {
        0 => None,
        1 => Some(vec!["nope".into()]),
        2 => Some(vec!["recommended".into(), "recommended".into(), "Recommended".into()]),
        _ => tagsets[1 + rng.below(32)].clone(),
      }
    };
    let excl = name_list(&mut rng, &all);
    let incl = name_list(&mut rng, &all);
    let got: Vec<String> = filtered_rules(get_all_rules(), tags.clone(), excl.clone(), incl.clone()).iter().map(|r| r.code().to_string()).collect();
    // the list of rules to choose from is the caller's: in any order, and with rules of the caller's own, the selection
    // is the same set, sorted by code
    {
      let mut supplied = get_all_rules();
      match i % 3 {
        0 => supplied.reverse(),
        1 => rng.shuffle(&mut supplied),
        _ => {
          rng.shuffle(&mut supplied);
          let (mut with_own, _) = with_spy(vec![], false);
          supplied.insert(rng.below(supplied.len() + 1), with_own.remove(0));
        }
      }
      let supplied_kind = ["reversed", "shuffled", "shuffled+own-rule"][i % 3];
      let got2: Vec<String> = filtered_rules(supplied, tags.clone(), excl.clone(), incl.clone()).iter().map(|r| r.code().to_string()).collect();
      let mut sorted2 = got2.clone();
      sorted2.sort();
      let builtin2: Vec<String> = got2.iter().filter(|c| all.contains(c)).cloned().collect();
      if sorted2 != got2 || builtin2 != got {
        out.found("C15", "selection-depends-on-supplied-list-order", &format!("{}", json!([tags, excl, incl])), json!({"tags": tags, "excl": excl, "incl": incl, "from_registry_order": got, "from_supplied_order": got2, "supplied": supplied_kind}));
      }
      out.count("supplied-list-permuted");
    }
    out.count(&format!("tags={}", tags.as_ref().map(|t| t.len().to_string()).unwrap_or("none".into())));
    out.count(&format!("excl={}", excl.as_ref().map(|t| if t.is_empty() { "empty" } else { "some" }).unwrap_or("none")));
    out.count(&format!("incl={}", incl.as_ref().map(|t| if t.is_empty() { "empty" } else { "some" }).unwrap_or("none")));
    out.count(&format!("result={}", match got.len() { 0 => "0", 1..=9 => "1-9", 10..=79 => "10-79", _ => "80+" }));
    // set-algebra oracle (the property's own words)
    let mut refv: Vec<String> = vec![];
    for r in get_all_rules() {
      let code = r.code().to_string();
      let by_tag = match &tags {
        None => true,
        Some(ts) => r.tags().iter().any(|t| ts.iter().any(|x| x == t.display())),
      };
      let by_incl = incl.as_ref().map(|i| i.contains(&code)).unwrap_or(false);
      let by_excl = excl.as_ref().map(|x| x.contains(&code)).unwrap_or(false);
      if (by_tag || by_incl) && !by_excl && !refv.contains(&code) {
        refv.push(code);
      }
    }
    refv.sort();
    let key = format!("{}", json!([tags, excl, incl]));
    if refv != got {
      out.found("C15", "selection-algebra", &key, json!({"tags": tags, "excl": excl, "incl": incl, "got": got, "expected": refv}));
    }
    out.case(json!({"m": "sel", "tags": tags, "excl": excl, "incl": incl}), json!(got), json!({"tags": tags, "excl": excl, "incl": incl}));

    // the linter runs exactly the selected rules: a file with directives (unused, unknown and used ones) and a
    // little of everything is linted under the selection; every diagnostic must come from a selected rule, and
    // each selected rule must report what it reports when run alone
    // every rule handed to the linter is run on every file, whatever its tags and whatever the file's media type: caller-
    // owned probe rules (one per tag) next to the selection
    if i % 6 == 2 {
      let probes = tag_probes();
      let mut rules = rules_by_codes(&got);
      let mut counters = vec![];
      for (r, code, ran) in probes {
        rules.push(r);
        counters.push((code, ran));
      }
      rng.shuffle(&mut rules);
      let l = mk_linter(rules, &Words::default());
      let exts = ["ts", "js", "tsx", "jsx", "mjs", "d.ts", "cts"];
      let mut linted = 0;
      for e in exts {
        let src = if e.ends_with('x') { "export const a = <div/>;\n" } else { "export const a = 1;\n" };
        if let Outcome::Ok(_) = lint(&l, src, e) {
          linted += 1;
        }
      }
      out.count("tag-probes");
      for (code, ran) in &counters {
        let n = ran.load(std::sync::atomic::Ordering::SeqCst);
        if n != linted {
          out.found("C15", "a-supplied-rule-did-not-run-on-every-file", &key, json!({"tags": tags, "excl": excl, "incl": incl, "probe": code, "files_linted": linted, "times_run": n, "media_types": exts}));
        }
      }
    }
    if i % 4 == 1 && !got.is_empty() {
      use dlharness::gen::*;
      let o = DirGenOpts { file_word: "deno-lint-ignore-file", line_word: "deno-lint-ignore", decoys: vec![], ts: true };
      let df = directive_file(&mut rng, &o);
      let l = mk_linter(rules_by_codes(&got), &Words::default());
      if let Outcome::Ok(ds) = lint(&l, &df.src, "ts") {
        out.eval(&format!("{}|{}", key, df.src), !ds.is_empty(), json!({"tags": tags, "excl": excl, "incl": incl, "src": df.src}));
        let stray: Vec<_> = ds.iter().filter(|d| !got.contains(&d.code)).map(|d| d.json()).collect();
        if !stray.is_empty() {
          out.found("C15", "diagnostic-from-unselected-rule", &key, json!({"meta": {"tags": tags, "excl": excl, "incl": incl, "selected": got, "src": df.src}, "stray": stray}));
        }
        out.count(if ds.is_empty() { "lint-under-selection=silent" } else { "lint-under-selection=reports" });
        // "ordering them internally": the order in which the caller hands the rules over must not matter
        let mut shuffled = got.clone();
        rng.shuffle(&mut shuffled);
        let mut rs = vec![];
        for c in &shuffled {
          rs.extend(rules_by_codes(&[c.clone()]));
        }
        let l2 = mk_linter(rs, &Words::default());
        if let Outcome::Ok(ds2) = lint(&l2, &df.src, "ts") {
          if ds2 != ds {
            let only_sorted: Vec<_> = ds.iter().filter(|d| !ds2.contains(d)).map(|d| d.json()).collect();
            let only_shuffled: Vec<_> = ds2.iter().filter(|d| !ds.contains(d)).map(|d| d.json()).collect();
            out.found("C15", "result-depends-on-supplied-rule-order", &key, json!({"meta": {"tags": tags, "excl": excl, "incl": incl, "supplied_order": shuffled, "src": df.src}, "only_in_code_order": only_sorted, "only_in_supplied_order": only_shuffled}));
          }
        }
      }
    }

    // `recommended_rules` is a function of the list it is given: arbitrary sub-lists of the registry in arbitrary
    // order (narrow ones first), then the whole registry again — a call must not remember an earlier one
    if i % 6 == 0 {
      let mut sub: Vec<String> = all.iter().filter(|_| rng.chance(1, if i % 12 == 0 { 40 } else { 3 })).cloned().collect();
      rng.shuffle(&mut sub);
      let mut rs = vec![];
      for c in &sub {
        rs.extend(rules_by_codes(&[c.clone()]));
      }
      let tagged: Vec<String> = rs.iter().filter(|r| r.tags().iter().any(|t| t.display() == "recommended")).map(|r| r.code().to_string()).collect();
      let got_sub: Vec<String> = recommended_rules(rs).iter().map(|r| r.code().to_string()).collect();
      out.case(json!({"m": "recommended", "codes": sub}), json!(got_sub), json!({"case": "recommended-of-sublist", "codes": sub}));
      out.count("recommended-of-sublist");
      if got_sub != tagged {
        out.found("C15", "recommended-set", "recommended-of-sublist", json!({"given": sub, "got": got_sub, "expected": tagged}));
      }
      let again: Vec<String> = recommended_rules(get_all_rules()).iter().map(|r| r.code().to_string()).collect();
      let refv: Vec<String> = get_all_rules().iter().filter(|r| r.tags().iter().any(|t| t.display() == "recommended")).map(|r| r.code().to_string()).collect();
      out.case(json!({"m": "recommended"}), json!(again), json!({"case": "recommended-after-sublist"}));
      if again != refv {
        out.found("C15", "recommended-set", "recommended-after-sublist", json!({"earlier_call_with": sub, "got": again, "expected": refv}));
      }
    }

    // …accounting rules last: observe execution order
    if i % 8 == 0 {
      let mut sel: Vec<String> = got.clone();
      rng.shuffle(&mut sel);
      let order = observed_run_order(&sel);
      out.case(json!({"m": "sortprio", "codes": sel}), json!(order), json!({"case": "run-order", "codes": sel}));
      let mut sorted_sel = sel.clone();
      sorted_sel.sort();
      let mut sorted_order = order.clone();
      sorted_order.sort();
      if sorted_sel != sorted_order {
        out.found("C15", "linter-runs-exactly-selected", &key, json!({"selected": sel, "ran": order}));
      }
      let acc_pos: Vec<usize> = order.iter().enumerate().filter(|(_, c)| *c == "ban-unused-ignore" || *c == "ban-unknown-rule-code").map(|(i, _)| i).collect();
      if acc_pos.iter().any(|p| *p < order.len() - acc_pos.len()) {
        out.found("C15", "accounting-rules-last", &key, json!({"ran": order}));
      }
    }
  }
  out.finish();
}

/// `{:?}` of a `Linter` prints `LinterContext.rules` in their internal (sorted) order; every rule is a
/// unit struct whose Debug is its type name, so we map back through a name->code table.
fn observed_run_order(codes: &[String]) -> Vec<String> {
  let rules = rules_by_codes(codes);
  let names: Vec<(String, String)> = get_all_rules().iter().map(|r| (format!("{:?}", r), r.code().to_string())).collect();
  let linter = mk_linter(rules, &Words::default());
  let dbg = format!("{:?}", linter);
  // rules: [A, B, C]
  let start = dbg.find("rules: [").map(|i| i + 8).unwrap_or(0);
  let end = dbg[start..].find(']').map(|i| i + start).unwrap_or(start);
  dbg[start..end]
    .split(", ")
    .filter(|s| !s.is_empty())
    .map(|n| names.iter().find(|(nn, _)| nn == n.trim()).map(|(_, c)| c.clone()).unwrap_or_else(|| format!("?{}", n)))
    .collect()
}
