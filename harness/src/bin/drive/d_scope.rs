//! C14 and C20.
//! C14: for every scope-aware global-name rule, a reference to the global (a) alone, (b) under an enclosing binding of
//! the same name in every ECMAScript binding form at several nesting depths, (c) beside a non-enclosing binding /
//! property key / member name.  (b) must be silent at the reference, (c) must report like (a).
//! C20: one *binding* (all identifiers with the same swc `Id`) of a program is renamed in place to a fresh name of the
//! same length and letter-case shape; all rules' diagnostics must be the same with the names mapped back.
use crate::{Args, Out};
use deno_ast::swc::ast as swc;
use deno_ast::swc::ecma_visit::{Visit, VisitWith};
use deno_ast::{MediaType, SourceRangedForSpanned};
use dlharness::*;
use serde_json::json;
use std::collections::{BTreeMap, BTreeSet};

/// (rule, global name, reference statement with `$` for the name, needs)  -- the diagnostic must start inside the reference
pub const REFS: &[(&str, &str, &str)] = &[
  ("no-window", "window", "$.foo;"),
  ("no-window-prefix", "window", "$.fetch();"),
  ("no-process-global", "process", "$.env;"),
  ("no-node-globals", "Buffer", "$.from(\"x\");"),
  ("no-node-globals", "global", "$.x;"),
  ("no-node-globals", "setImmediate", "$(() => 1);"),
  ("no-console", "console", "$.log(1);"),
  ("no-deprecated-deno-api", "Deno", "$.Buffer;"),
  ("no-deprecated-deno-api", "Deno", "$.readAll(r);"),
  ("no-new-symbol", "Symbol", "new $();"),
  ("no-obj-calls", "Math", "$();"),
  ("no-obj-calls", "JSON", "new $();"),
  ("no-obj-calls", "Reflect", "$();"),
  ("no-obj-calls", "Atomics", "$();"),
  ("no-global-assign", "Object", "$ = 1;"),
  ("no-global-assign", "undefined", "$ = 1;"),
  ("no-control-regex", "RegExp", "new $('\\\\x1f');"),
  ("no-control-regex", "RegExp", "$('\\\\x1f');"),
  ("no-regex-spaces", "RegExp", "$(\"a  b\");"),
  ("no-regex-spaces", "RegExp", "new $(\"a  b\");"),
  ("no-sync-fn-in-async-fn", "Deno", "(async () => { $.readTextFileSync(\"x\"); })();"),
  ("no-window", "window", "$;"),
  ("no-console", "console", "$;"),
  ("no-window-prefix", "window", "$.addEventListener(\"x\", g);"),
  // only the bare-identifier handler of prefer-primordials is scope-aware; its member-expression and `new` handlers
  // flag e.g. `const { JSON } = primordials; JSON.parse()` on purpose (the rule's own tests say so)
  // the global is one of several assignment targets, after a locally bound one (every target is checked on its own)
  ("no-global-assign", "Object", "let q1; [q1, $] = [1, 2];"),
  ("no-global-assign", "Array", "let q2; ({ q2, $ } = {});"),
  ("no-global-assign", "String", "let q3; [{ q3 }, ...$] = [];"),
  ("no-global-assign", "Number", "$++;"),
  ("no-obj-calls", "Math", "f($());"),
  ("no-new-symbol", "Symbol", "f(new $());"),
  ("no-window", "window", "f(q4, $.x);"),
  ("no-console", "console", "q5 ? $.log(1) : $.warn(2);"),
  ("no-process-global", "process", "[q6, $.env.X];"),
  ("no-node-globals", "clearImmediate", "$(1);"),
  // the reference is a write: assignment target, pattern element, loop head without a declaration
  ("no-node-globals", "Buffer", "$ = 1;"),
  ("no-node-globals", "global", "$ ||= {};"),
  ("no-node-globals", "setImmediate", "[q8, $] = ts;"),
  ("no-node-globals", "global", "({ g: $ } = hs);"),
  ("no-node-globals", "Buffer", "for ($ of ls) {}"),
  ("no-node-globals", "global", "$++;"),
  ("no-process-global", "process", "$ = 1;"),
  ("no-process-global", "process", "[$] = ts;"),
  ("no-process-global", "process", "for ($ in os) {}"),
  ("no-deprecated-deno-api", "Deno", "let q7: $.File;"),
  ("prefer-primordials", "isNaN", "$(1);"),
  ("prefer-primordials", "parseInt", "g($);"),
];
// not here: no-eval and no-invalid-regexp never consult the scope analysis (they are name-based like ESLint's), so
// they are not "scope-aware rules" in the sense of C14.

/// enclosing binding forms: (name, prefix, suffix) with `$` for the bound name; the hole is a statement position
const BINDERS: &[(&str, &str, &str)] = &[
  ("param", "function f0($) {\n", "\n}"),
  ("arrow-param", "const g0 = ($) => {\n", "\n};"),
  ("default-param", "function f1(a, $ = 1) {\n", "\n}"),
  ("rest-param", "function f2(...$) {\n", "\n}"),
  ("object-pattern-param", "function f3({ $ }) {\n", "\n}"),
  ("renamed-pattern-param", "function f4({ a: $ }) {\n", "\n}"),
  ("array-pattern-param", "function f5([$]) {\n", "\n}"),
  ("const-in-block", "{\nconst $ = 1;\n", "\n}"),
  ("let-in-function", "function f6() {\nlet $;\n", "\n}"),
  ("var-after-use", "function f7() {\n", "\nvar $;\n}"),
  ("var-in-nested-block", "function f8() {\n{ var $ = 1; }\n", "\n}"),
  ("function-decl", "function f9() {\nfunction $() {}\n", "\n}"),
  ("function-decl-after-use", "function f10() {\n", "\nfunction $() {}\n}"),
  ("class-decl", "{\nclass $ {}\n", "\n}"),
  ("named-function-expr", "const h0 = function $() {\n", "\n};"),
  ("named-class-expr-method", "const k0 = class $ { m() {\n", "\n} };"),
  ("import-default", "import $ from \"x\";\n", "\n"),
  ("import-named", "import { $ } from \"x\";\n", "\n"),
  ("import-renamed", "import { a as $ } from \"x\";\n", "\n"),
  ("import-namespace", "import * as $ from \"x\";\n", "\n"),
  ("catch-binding", "try { } catch ($) {\n", "\n}"),
  ("for-of-binding", "for (const $ of xs) {\n", "\n}"),
  ("for-in-binding", "for (const $ in xs) {\n", "\n}"),
  ("for-let-binding", "for (let $ = 0; ; ) {\n", "\n}"),
  ("destructuring-const", "{\nconst { $ } = o;\n", "\n}"),
  ("destructuring-array", "{\nconst [a, $] = o;\n", "\n}"),
  ("destructuring-nested-default", "{\nconst { a: { $ = 1 } } = o;\n", "\n}"),
  ("module-level-const", "const $ = 1;\n", "\n"),
  ("module-level-function", "function $() {}\n", "\n"),
  ("class-method-param", "class K1 { m($) {\n", "\n} }"),
  ("setter-param", "const o1 = { set s($) {\n", "\n} };"),
  ("setter-pattern-param", "const o2 = { set s({ $ }) {\n", "\n} };"),
  ("object-method-param", "const o3 = { m($) {\n", "\n} };"),
  ("getter-local", "const o4 = { get g() {\nconst $ = 1;\n", "\nreturn 1; } };"),
  ("static-block-const", "class K2 { static {\nconst $ = 1;\n", "\n} }"),
  ("private-method-param", "class K3 { #m($) {\n", "\n} }"),
  ("class-property-arrow-param", "class K4 { p = ($) => {\n", "\n}; }"),
  ("constructor-param", "class K5 { constructor($) {\n", "\n} }"),
  ("ts-parameter-property", "class K6 { constructor(private $: any) {\n", "\n} }"),
  ("arrow-in-default-value", "function f11(a = ($) => {\n", "\n}) {}"),
  ("function-expr-in-default-value", "function f12(a = function ($) {\n", "\n}) {}"),
  ("catch-destructuring", "try { } catch ({ $ }) {\n", "\n}"),
  ("for-await-binding", "async function f13() { for await (const $ of xs) {\n", "\n} }"),
  ("for-var-of", "for (var $ of xs) {\n", "\n}"),
  ("switch-case-let", "switch (v) { case 1: { let $ = 1;\n", "\n} }"),
  ("generator-param", "function* f14($) {\n", "\n}"),
  ("async-arrow-param", "const g1 = async ($) => {\n", "\n};"),
  ("export-default-function", "export default function $() {\n", "\n}"),
  ("ts-enum", "enum $ { A }\n", "\n"),
  ("ts-namespace", "namespace $ { export const a = 1; }\n", "\n"),
  ("ts-import-equals", "import $ = require(\"x\");\n", "\n"),
];

/// layers that may sit between the binding and the reference (depth)
const LAYERS: &[(&str, &str)] = &[
  ("{\n", "\n}"),
  ("(() => {\n", "\n})();"),
  ("function n0() {\n", "\n}"),
  ("if (c) {\n", "\n}"),
  ("class N1 { m() {\n", "\n} }"),
  ("for (;;) {\n", "\n}"),
  ("try {\n", "\n} finally { }"),
  ("const v0 = [1].map((q) => {\n", "\n});"),
];

/// same-named things that do NOT bind the reference: (name, text placed before the reference)
const NON_BINDERS: &[(&str, &str)] = &[
  ("sibling-block-let", "{ let $ = 1; }\n"),
  ("sibling-function-param", "function s0($) { return $; }\n"),
  ("sibling-function-local", "function s1() { const $ = 1; return $; }\n"),
  ("sibling-arrow-param", "const s2 = ($) => $;\n"),
  ("sibling-catch", "try { } catch ($) { }\n"),
  ("sibling-for-binding", "for (const $ of xs) { }\n"),
  ("property-key", "const s3 = { $: 1 };\n"),
  ("member-name", "obj.$;\n"),
  ("method-name", "class S4 { $() {} }\n"),
  ("string", "const s5 = \"$\";\n"),
  ("label-like-key", "const s6 = { [\"$\"]: 1 };\n"),
  ("inner-class-expr-name", "const s7 = class $ {};\n"),
  ("inner-function-expr-name", "const s8 = function $() {};\n"),
];

/// the global's name in positions that are *not* references (names of parameters of function types and index
/// signatures, `infer` bindings, export aliases, labels, keys, member and method names): "reports a reference only if …"
/// — there is no reference here, so no rule of the table may speak
const NON_REFERENCES: &[(&str, &str)] = &[
  ("fn-type-param", "type F9 = ($: any) => void;\nexport type { F9 };\n"),
  ("index-signature-param", "type U9 = { [$: string]: number };\nexport type { U9 };\n"),
  ("infer-binding", "type I9<X> = X extends (infer $)[] ? $ : never;\nexport type { I9 };\n"),
  ("export-alias", "const x9 = 1;\nexport { x9 as $ };\n"),
  ("import-original-name", "import { $ as y9 } from \"m9\";\ny9;\n"),
  ("label", "$: for (;;) { break $; }\n"),
  ("property-key", "f9({ $: 1 });\n"),
  ("member-name", "o9.$;\no9?.$;\n"),
  ("method-name", "class S9 { $() {} static $ = 1; }\nnew S9();\n"),
  ("ts-property-signature", "interface P9 { $: number; $2(): void }\nexport type { P9 };\n"),
  ("enum-member", "enum E9 { $ }\nf9(E9);\n"),
  ("jsx-attribute-like-string", "f9(\"$\", `$`);\n"),
  ("method-type-param", "interface M9 { m($: number): void }\nexport type { M9 };\n"),
  ("constructor-type-param", "type C9 = new ($: number) => object;\nexport type { C9 };\n"),
];

fn run_c14_nonref(out: &mut Out) {
  let mut done: BTreeSet<(String, String)> = BTreeSet::new();
  for (rule, name, _) in REFS {
    if !done.insert((rule.to_string(), name.to_string())) {
      continue;
    }
    let l = mk_linter(rules_by_codes(&[rule.to_string()]), &Words::default());
    for (shape, tmpl) in NON_REFERENCES {
      let src = tmpl.replace('$', name);
      let meta = json!({"rule": rule, "name": name, "shape": shape, "src": src});
      match lint(&l, &src, "ts") {
        Outcome::Ok(d) => {
          out.eval(&src, true, meta.clone());
          out.count("non-reference-occurrence");
          let got: Vec<_> = d.iter().filter(|x| x.code == *rule).map(|x| x.json()).collect();
          if !got.is_empty() {
            out.found("C14", &format!("non-reference-reported:{}:{}", rule, shape), &src, json!({"meta": meta, "diagnostics": got}));
          }
        }
        Outcome::Panic(m) => out.found("C01", &format!("panic:{}", rule), &src, json!({"meta": meta, "panic": m})),
        Outcome::ParseErr(_) => out.count(&format!("parse-error:non-reference:{}", shape)),
      }
    }
  }
}

fn diags_in(ds: &[D], rule: &str, lo: usize, hi: usize) -> Vec<(usize, usize)> {
  ds.iter().filter(|d| d.code == rule).filter_map(|d| d.start.zip(d.end)).filter(|(s, _)| *s >= lo && *s < hi).map(|(s, e)| (s - lo, e - lo)).collect()
}

fn run_c14(out: &mut Out, rng: &mut Rng, count: usize) {
  run_c14_nonref(out);
  let mut linters: BTreeMap<&str, deno_lint::linter::Linter> = BTreeMap::new();
  for case_no in 0..count {
    let (rule, name0, tmpl) = REFS[case_no % REFS.len()];
    // every fourth case the global's name is spelled with a Unicode escape wherever it occurs (reference, binder, decoy):
    // `w\u0069ndow` *is* the identifier `window`, and the file then never contains the name literally (seed C14-7)
    let escaped: String;
    let name: &str = if rng.chance(1, 4) && name0.chars().count() >= 2 && name0.is_ascii() {
      let cs: Vec<char> = name0.chars().collect();
      let k = 1 + rng.below(cs.len() - 1);
      let e = if rng.chance(1, 2) { format!("\\u{:04x}", cs[k] as u32) } else { format!("\\u{{{:x}}}", cs[k] as u32) };
      escaped = format!("{}{}{}", cs[..k].iter().collect::<String>(), e, cs[k + 1..].iter().collect::<String>());
      out.count("name-spelled-with-escape");
      &escaped
    } else {
      name0
    };
    let l = linters.entry(rule).or_insert_with(|| mk_linter(rules_by_codes(&[rule.to_string()]), &Words::default()));
    let reference = tmpl.replace('$', name);
    // (a) alone
    let alone = match lint(l, &reference, "ts") {
      Outcome::Ok(d) => diags_in(&d, rule, 0, reference.len()),
      _ => continue,
    };
    if alone.is_empty() {
      // every entry of the table is a reference the rule is known to report: silence here is the "does report" half
      // of the property failing
      out.count(&format!("baseline-silent:{}:{}", rule, name));
      out.found("C14", &format!("unbound-reference-not-reported:{}:alone", rule), &reference, json!({"meta": {"rule": rule, "name": name, "src": reference}}));
      continue;
    }
    let depth = rng.below(4);
    let mut lpre = String::new();
    let mut lsuf = String::new();
    let mut lnames = vec![];
    for _ in 0..depth {
      let (a, b) = LAYERS[rng.below(LAYERS.len())];
      lpre.push_str(a);
      lsuf.insert_str(0, b);
      lnames.push(a.trim().to_string());
    }
    if rng.chance(2, 3) {
      // (b) under an enclosing binding
      let (bname, pre, suf) = BINDERS[rng.below(BINDERS.len())];
      // in a Script the top-level declaration of the non-configurable `undefined` does not create a binding (and a
      // lexical one is an early error); it cannot be a class/function/import name in strict code either
      if name0 == "undefined" && (bname.contains("import") || bname.contains("class") || bname.contains("function") || bname.starts_with("ts-")) {
        continue;
      }
      // `undefined`: a top-level declaration in a Script does not shadow the non-configurable global, so make it a module
      let head = if name0 == "undefined" { "export {};\n" } else { "" };
      let src = format!("{}{}{}{}{}{}", head, pre.replace('$', name), lpre, reference, lsuf, suf.replace('$', name));
      let at = head.len() + pre.replace('$', name).len() + lpre.len();
      let meta = json!({"rule": rule, "name": name, "binder": bname, "layers": lnames, "src": src, "reference_at": at});
      match lint(l, &src, "ts") {
        Outcome::Ok(d) => {
          out.eval(&src, true, meta.clone());
          out.count(&format!("binder={}", bname));
          out.count(&format!("depth={}", depth));
          let got = diags_in(&d, rule, at, at + reference.len());
          if !got.is_empty() {
            out.found("C14", &format!("bound-reference-reported:{}:{}", rule, bname), &src, json!({"meta": meta, "diagnostics": got}));
          }
        }
        Outcome::Panic(m) => out.found("C01", &format!("panic:{}", rule), &src, json!({"meta": meta, "panic": m})),
        Outcome::ParseErr(_) => out.count(&format!("parse-error:{}", bname)),
      }
    } else {
      // (c) beside a non-enclosing binding / key / member name
      let (nname, before) = NON_BINDERS[rng.below(NON_BINDERS.len())];
      let src = format!("{}{}{}{}", before.replace('$', name), lpre, reference, lsuf);
      let at = before.replace('$', name).len() + lpre.len();
      let meta = json!({"rule": rule, "name": name, "non_binder": nname, "layers": lnames, "src": src, "reference_at": at});
      match lint(l, &src, "ts") {
        Outcome::Ok(d) => {
          out.eval(&src, true, meta.clone());
          out.count(&format!("non-binder={}", nname));
          let got = diags_in(&d, rule, at, at + reference.len());
          if got != alone {
            out.found("C14", &format!("unbound-reference-not-reported:{}:{}", rule, nname), &src, json!({"meta": meta, "alone": alone, "got": got}));
          }
        }
        Outcome::Panic(m) => out.found("C01", &format!("panic:{}", rule), &src, json!({"meta": meta, "panic": m})),
        Outcome::ParseErr(_) => out.count(&format!("parse-error:{}", nname)),
      }
    }
  }
}

// ---------------------------------------------------------------------------------------------------- C20
#[derive(Default)]
struct Idents {
  groups: BTreeMap<(String, u32), Vec<(usize, usize)>>,
  excluded_names: BTreeSet<String>,
  excluded_ids: BTreeSet<(String, u32)>,
  base: Option<deno_ast::StartSourcePos>,
}
impl Idents {
  fn id(i: &swc::Ident) -> (String, u32) {
    let (s, c) = i.to_id();
    (s.to_string(), c.as_u32())
  }
}
impl Visit for Idents {
  fn visit_ident(&mut self, i: &swc::Ident) {
    let b = self.base.unwrap();
    self.groups.entry(Self::id(i)).or_default().push((i.start().as_byte_index(b), i.end().as_byte_index(b)));
  }
  fn visit_ident_name(&mut self, i: &swc::IdentName) {
    self.excluded_names.insert(i.sym.to_string()); // property keys / member names
  }
  fn visit_prop(&mut self, p: &swc::Prop) {
    if let swc::Prop::Shorthand(i) = p {
      self.excluded_names.insert(i.sym.to_string());
    }
    p.visit_children_with(self);
  }
  fn visit_assign_pat_prop(&mut self, p: &swc::AssignPatProp) {
    self.excluded_names.insert(p.key.sym.to_string()); // `{ x }` pattern: key and binding coincide
    p.visit_children_with(self);
  }
  // keys of type members are spelled as plain identifiers in the AST
  fn visit_ts_method_signature(&mut self, n: &swc::TsMethodSignature) {
    if let swc::Expr::Ident(i) = &*n.key {
      self.excluded_names.insert(i.sym.to_string());
    }
    n.visit_children_with(self);
  }
  fn visit_ts_property_signature(&mut self, n: &swc::TsPropertySignature) {
    if let swc::Expr::Ident(i) = &*n.key {
      self.excluded_names.insert(i.sym.to_string());
    }
    n.visit_children_with(self);
  }
  fn visit_ts_getter_signature(&mut self, n: &swc::TsGetterSignature) {
    if let swc::Expr::Ident(i) = &*n.key {
      self.excluded_names.insert(i.sym.to_string());
    }
    n.visit_children_with(self);
  }
  fn visit_ts_setter_signature(&mut self, n: &swc::TsSetterSignature) {
    if let swc::Expr::Ident(i) = &*n.key {
      self.excluded_names.insert(i.sym.to_string());
    }
    n.visit_children_with(self);
  }
  fn visit_ts_enum_member(&mut self, n: &swc::TsEnumMember) {
    if let swc::TsEnumMemberId::Ident(i) = &n.id {
      self.excluded_names.insert(i.sym.to_string());
    }
    n.visit_children_with(self);
  }
  fn visit_labeled_stmt(&mut self, n: &swc::LabeledStmt) {
    self.excluded_names.insert(n.label.sym.to_string());
    n.visit_children_with(self);
  }
  fn visit_jsx_element_name(&mut self, n: &swc::JSXElementName) {
    if let swc::JSXElementName::Ident(i) = n {
      self.excluded_names.insert(i.sym.to_string());
    }
    n.visit_children_with(self);
  }
  fn visit_import_decl(&mut self, n: &swc::ImportDecl) {
    for s in &n.specifiers {
      let local = match s {
        swc::ImportSpecifier::Named(x) => &x.local,
        swc::ImportSpecifier::Default(x) => &x.local,
        swc::ImportSpecifier::Namespace(x) => &x.local,
      };
      // the imported binding itself is not eligible (renaming it would change what is imported); another binding that
      // merely has its spelling is
      self.excluded_ids.insert(Self::id(local));
      if let swc::ImportSpecifier::Named(swc::ImportNamedSpecifier { imported: Some(swc::ModuleExportName::Ident(i)), .. }) = s {
        self.excluded_names.insert(i.sym.to_string());
      }
    }
    n.visit_children_with(self);
  }
  fn visit_export_decl(&mut self, n: &swc::ExportDecl) {
    // everything declared by an export declaration is exported
    struct Decls<'a>(&'a mut BTreeSet<(String, u32)>);
    impl Visit for Decls<'_> {
      fn visit_binding_ident(&mut self, i: &swc::BindingIdent) {
        self.0.insert(Idents::id(&i.id));
      }
      fn visit_fn_decl(&mut self, n: &swc::FnDecl) {
        self.0.insert(Idents::id(&n.ident));
      }
      fn visit_class_decl(&mut self, n: &swc::ClassDecl) {
        self.0.insert(Idents::id(&n.ident));
      }
      fn visit_function(&mut self, _: &swc::Function) {}
      fn visit_class(&mut self, _: &swc::Class) {}
      fn visit_expr(&mut self, _: &swc::Expr) {}
    }
    n.decl.visit_with(&mut Decls(&mut self.excluded_ids));
    n.visit_children_with(self);
  }
  fn visit_export_named_specifier(&mut self, n: &swc::ExportNamedSpecifier) {
    if let swc::ModuleExportName::Ident(i) = &n.orig {
      self.excluded_names.insert(i.sym.to_string());
    }
    if let Some(swc::ModuleExportName::Ident(i)) = &n.exported {
      self.excluded_names.insert(i.sym.to_string());
    }
    n.visit_children_with(self);
  }
  fn visit_export_default_expr(&mut self, n: &swc::ExportDefaultExpr) {
    if let swc::Expr::Ident(i) = &*n.expr {
      self.excluded_ids.insert(Self::id(i));
    }
    n.visit_children_with(self);
  }
  fn visit_ts_module_decl(&mut self, n: &swc::TsModuleDecl) {
    if let swc::TsModuleName::Ident(i) = &n.id {
      self.excluded_names.insert(i.sym.to_string());
    }
    n.visit_children_with(self);
  }
}

const RESERVED: &[&str] = &[
  "undefined", "NaN", "Infinity", "arguments", "eval", "window", "self", "globalThis", "process", "Deno", "console", "Symbol", "Math", "JSON", "Reflect", "Atomics", "Buffer", "global", "setImmediate", "clearImmediate", "Object", "Array", "Promise", "Error", "RegExp", "String", "Number", "Boolean", "Date", "Map", "Set", "async", "await", "get", "set", "of", "static", "type", "as", "from", "yield", "let", "React", "h", "Fragment", "require", "module", "exports", "name", "length", "constructor", "prototype", "this", "super", "new", "target", "meta", "handler", "config",
];

fn fresh_name(rng: &mut Rng, old: &str, text: &str) -> Option<String> {
  for _ in 0..20 {
    let n: String = old
      .chars()
      .map(|c| {
        if c.is_ascii_lowercase() {
          (b'a' + rng.below(26) as u8) as char
        } else if c.is_ascii_uppercase() {
          (b'A' + rng.below(26) as u8) as char
        } else {
          c
        }
      })
      .collect();
    if n != old && !text.contains(&n) && !RESERVED.contains(&n.as_str()) && n.len() == old.len() && !is_keywordish(&n) && !hook_like(&n) {
      return Some(n);
    }
  }
  None
}
/// `useFoo` / `use`: the React convention the hooks rule keys on (a "restricted" spelling in the sense of C20)
fn hook_like(n: &str) -> bool {
  n == "use" || (n.starts_with("use") && n[3..].chars().next().map_or(false, |c| c.is_ascii_uppercase()))
}
fn is_ident_char(c: char) -> bool {
  c.is_alphanumeric() || c == '_' || c == '$'
}
/// replace whole-identifier occurrences of `from` by `to`
fn replace_word(s: &str, from: &str, to: &str) -> String {
  let mut out = String::new();
  let mut i = 0;
  while i < s.len() {
    if s[i..].starts_with(from) {
      let before = s[..i].chars().next_back().map_or(false, is_ident_char);
      let after = s[i + from.len()..].chars().next().map_or(false, is_ident_char);
      if !before && !after {
        out.push_str(to);
        i += from.len();
        continue;
      }
    }
    let c = s[i..].chars().next().unwrap();
    out.push(c);
    i += c.len_utf8();
  }
  out
}
/// camelcase's suggestions (`foo_bar` -> `fooBar` / `FooBar` / `FOO_BAR`), mirrored so they can be mapped back
fn derived(n: &str) -> Vec<String> {
  let chars: Vec<char> = n.chars().collect();
  let mut camel = String::new();
  let mut i = 0;
  while i < chars.len() {
    if i > 0 && chars[i] == '_' && chars[i - 1] != '_' && i + 1 < chars.len() && chars[i + 1].is_ascii_lowercase() && !camel.ends_with('_') {
      camel.push(chars[i + 1].to_ascii_uppercase());
      i += 2;
    } else {
      camel.push(chars[i]);
      i += 1;
    }
  }
  let mut pascal = camel.clone();
  if let Some(f) = pascal.chars().next() {
    pascal.replace_range(0..f.len_utf8(), &f.to_ascii_uppercase().to_string());
  }
  vec![camel, pascal, n.to_ascii_uppercase(), format!("_{}", n)]
}
fn is_keywordish(n: &str) -> bool {
  ["do", "if", "in", "for", "let", "new", "try", "var", "case", "else", "enum", "null", "this", "true", "void", "with", "break", "catch", "class", "const", "false", "super", "throw", "while", "yield", "delete", "export", "import", "public", "return", "static", "switch", "typeof", "default", "extends", "finally", "package", "private", "continue", "debugger", "function", "interface", "protected", "implements", "instanceof", "of", "as", "is", "any", "get", "set", "type", "from", "async", "await", "never", "number", "object", "string", "symbol", "unknown", "boolean", "declare", "keyof", "infer", "unique", "readonly", "abstract", "namespace", "module", "global", "require", "asserts", "satisfies", "out", "using", "accessor", "override", "bigint", "undefined"].contains(&n)
}

fn map_back(d: &D, fresh: &str, old: &str) -> D {
  let (df, dold) = (derived(fresh), derived(old));
  let r = |s: &str| {
    let mut t = replace_word(s, fresh, old);
    for (a, b) in df.iter().zip(dold.iter()) {
      if a != fresh && a != b {
        t = replace_word(&t, a, b);
      }
    }
    t
  };
  D {
    start: d.start,
    end: d.end,
    code: d.code.clone(),
    msg: r(&d.msg),
    hint: d.hint.as_ref().map(|h| r(h)),
    fixes: d.fixes.iter().map(|(a, ch)| (r(a), ch.iter().map(|(x, y, t)| (*x, *y, r(t))).collect())).collect(),
  }
}

fn run_c20(out: &mut Out, rng: &mut Rng, count: usize) {
  let corpus = crate::d_scan::load_corpus();
  let all = mk_linter(rules_by_codes(&all_codes()), &Words::default());
  let own: &[&str] = &[
    "let total = 1; function g() { var total; total = 2; return total; } g(); f(total);",
    // a declaration referenced only from inside itself, after an inner same-spelled binding whose scope has closed
    "function walk(n) { for (const k of n.kids) { const walk = k + 1; log(walk); } return walk(n.parent); }",
    "const tick = () => { { let tick = 1; f(tick); } return tick(); };",
    "class Node { m() { { const Node = 1; f(Node); } return new Node(); } }",
    "function outerFn() { function innerFn() { { var outerFn = 1; f(outerFn); } } innerFn(); return outerFn; }",
    // two subtrees compared by a rule, each with a binding of its own inside
    "if (f((el) => el)) {} else if (f((el) => el)) {}",
    "if (g(function (it) { return it; })) {} else if (h) {} else if (g(function (it) { return it; })) {}",
    "f(((el) => el) === ((el) => el));",
    "const o1 = { k: (el) => el, k: (el) => el };",
    "for (let idx = 0; idx < 3; idx++) { let idx = 9; f(idx); }",
    "for (const key of ks) { let key = 1; key++; f(key); }",
    "let total = 1; function g() { var total; { total = 2; } return total; } g(); f(total);",
    "let total = 1; function g() { function total() {} total = 2; } g(); f(total);",
    "let total = 1; function g() { class total {} total = 2; } g(); f(total);",
    "let count = 0; const fe = function count() { count = 1; }; fe(); f(count);",
    "let items = []; function g() { for (var items of xs) { items = 1; } } g(); f(items);",
    "const limit = 1; function g(limit) { limit = 2; return limit; } g(1); f(limit);",
    "function outer() { let acc = 0; return acc; }\nfunction other() { var acc; acc = 1; acc++; return () => { acc = 2; }; }\nouter(); other();",
    "function outer() { function helper() {} helper(); }\nfunction other() { function helper() {} }\nouter(); other();",
    "const abc = 1;\n{ const abc = 2; f(abc); }\nf(abc);",
    "function f(abc) { return (abc) => abc + 1; }\nf(1);",
    "class Abc {}\nfunction mk() { class Abc {} return new Abc(); }\nmk(); new Abc();",
    "try { f(); } catch (err) { g(err); }\ntry { f(); } catch (err) { }",
    "for (let idx = 0; idx < 3; idx++) { f(idx); }\nfor (const idx of xs) { }",
    "let cnt = 0;\nfunction inc() { cnt++; }\nfunction other() { let cnt = 1; cnt = 2; return cnt; }\ninc(); other();",
    "type Foo = number;\nfunction f(a: Foo) { type Foo = string; let b: Foo = \"\"; return [a, b]; }\nf(1);",
    // bindings the scope table of deno_ast has no entry for (setter parameter, parameter property, parameter of an arrow
    // in a default value) that share their spelling with a function / class / const / import / catch binding and are
    // assigned to
    "function handler() {}\nconst o = { set x(handler) { handler = 1; f(handler); } };\nhandler(); f(o);",
    "class Shape {}\nclass K { constructor(private Shape: number) { Shape = 2; f(Shape); } }\nnew Shape(); new K(1);",
    "function count() {}\nfunction g(cb = (count) => { count = 1; return count; }) { return cb; }\ncount(); g();",
    "import { item } from \"m\";\nconst o = { set v(item) { item = 2; f(item); } };\nuse(item, o);",
    "const total = 1;\nconst p = { set t(total) { total = 2; f(total); } };\nf(total, p);",
    "class Widget {}\nconst q = { set w(Widget) { Widget = null; f(Widget); } };\nnew Widget(); f(q);",
    "try { f(); } catch (err) { const r = { set e(err) { err = 1; f(err); } }; f(r, err); }",
    // a free (undeclared) name, and later a local binding of the same spelling in a sibling scope
    "function early() { return item; }\nfunction later() { let item = 1; item = item + 1; return item; }\nearly(); later();",
    "log(entry);\nfunction g(entry) { return [entry, entry.x]; }\ng(1);",
    "const r = () => missing;\ntry { f(); } catch (missing) { g(missing, missing); }\nr();",
    "use(Widget);\n{ class Widget {} new Widget(); f(Widget); }",
    "f(total);\nfor (const total of xs) { g(total); }\nfunction h() { var total = 0; total++; return total; }\nh();",
  ];
  for case_no in 0..count {
    let mut crng = rng.fork();
    // the binding that must be the renamed one (unquote programs)
    let mut forced_name: Option<String> = None;
    let (rule, src) = if case_no % 5 == 0 {
      ("own".to_string(), own[(case_no / 5) % own.len()].to_string())
    } else if case_no % 10 == 7 || case_no % 10 == 3 {
      // *unquote*: a string literal of a rule's own snippet whose text is an identifier (`"submit"`, `'readSync'`, …)
      // becomes a reference to a local binding of that spelling.  A rule that reads an identifier as if it were the
      // string of the same spelling (seed C20-7) then depends on how the binding is spelled.
      let mut found: Option<(String, String, String)> = None;
      for _ in 0..40 {
        let s = &corpus[crng.below(corpus.len())];
        let b = s.src.as_bytes();
        let mut cands: Vec<(usize, usize)> = vec![];
        let mut i = 0;
        while i < b.len() {
          if b[i] == b'"' || b[i] == b'\'' {
            let q = b[i];
            let mut j = i + 1;
            while j < b.len() && (b[j].is_ascii_alphanumeric() || b[j] == b'_') {
              j += 1;
            }
            if j < b.len() && b[j] == q && j > i + 3 && b[i + 1].is_ascii_alphabetic() {
              cands.push((i, j + 1));
            }
            i = j + 1;
          } else {
            i += 1;
          }
        }
        if cands.is_empty() {
          continue;
        }
        let (a, e) = cands[crng.below(cands.len())];
        let word = s.src[a + 1..e - 1].to_string();
        if RESERVED.contains(&word.as_str()) || is_keywordish(&word) || hook_like(&word) {
          continue;
        }
        // already an identifier of the snippet: not a fresh local
        if replace_word(&s.src[..a], &word, "\u{1}") != s.src[..a] || replace_word(&s.src[e..], &word, "\u{1}") != s.src[e..] {
          continue;
        }
        let (prel, body) = {
          // keep leading imports on top
          let cut = s.src[..a].rfind("\nimport ").map(|_| 0).unwrap_or(0);
          (s.src[..cut].to_string(), s.src[cut..].to_string())
        };
        let a2 = a - prel.len();
        let e2 = e - prel.len();
        let mutated = format!("{}const {} = q9z;\n{}{}{}", prel, word, &body[..a2], word, &body[e2..]);
        found = Some((s.rule.clone(), mutated, word));
        break;
      }
      match found {
        Some((r, m, w)) => {
          out.count("unquote-program");
          forced_name = Some(w);
          (r, m)
        }
        None => continue,
      }
    } else if case_no % 10 == 6 {
      // import / use / export programs (TypeScript modules): imported names are bindings too, and get shadowed below
      ("verbatim-module-syntax".to_string(), crate::d_scan::gen_verbatim_program(&mut crng))
    } else if case_no % 5 == 1 {
      crate::d_scan::gen_program(&mut crng, &corpus)
    } else {
      let s = &corpus[crng.below(corpus.len())];
      (s.rule.clone(), s.src.clone())
    };
    // shadow injection: a same-spelled binding of another kind (var / function / class / parameter), assigned in a
    // nested scope, is appended for one of the program's own declared names — the situation in which a table keyed on
    // the spelling confuses two bindings
    let src = if (case_no % 5 >= 2 && crng.chance(1, 2)) || case_no % 10 == 6 {
      let names: Vec<String> = {
        let mut v = vec![];
        for w in src.split(|c: char| !(c.is_alphanumeric() || c == '_' || c == '$')) {
          if w.len() >= 2 && w.chars().next().map_or(false, |c| c.is_ascii_alphabetic()) && !RESERVED.contains(&w) && !is_keywordish(w) && !hook_like(w) {
            let decl = ["let ", "const ", "var ", "function ", "class "].iter().any(|k| src.contains(&format!("{}{}", k, w)))
              || (src.contains("import ")
                && [format!("import {} ", w), format!("import {},", w), format!("{{ {},", w), format!("{{ {} }}", w), format!(", {} }}", w), format!("* as {} ", w), format!("type {} }}", w), format!("type {},", w), format!(" as {} }}", w)]
                  .iter()
                  .any(|pat| src.contains(pat.as_str())));
            if decl && !v.contains(&w.to_string()) {
              v.push(w.to_string());
            }
          }
        }
        v
      };
      if names.is_empty() {
        src
      } else {
        let n = &names[crng.below(names.len())];
        let mut return_src: Option<String> = None;
        out.count("shadow-injected");
        // …or inside the body of the function declaration of that name itself (before everything else in it)
        let marker = format!("function {}(", n);
        if let (true, Some(at)) = (crng.chance(1, 3), src.find(&marker)) {
          if let Some(close) = src[at..].find(')') {
            if let Some(open) = src[at + close..].find('{') {
              let pos = at + close + open + 1;
              out.count("shadow-injected-inside-own-body");
              let mut t = src.clone();
              t.insert_str(pos, &format!(" {{ const {n} = 1; void {n}; }} "));
              return_src = Some(t);
            }
          }
        }
        let inj = match crng.below(6) {
          0 => format!("function shadow0() {{ var {n}; {n} = 2; return {n}; }}"),
          1 => format!("function shadow1() {{ var {n} = 1; {{ {n} = 2; {n}++; }} return () => {n}; }}"),
          2 => format!("function shadow2() {{ function {n}() {{}} {n} = 2; return {n}; }}"),
          3 => format!("function shadow3({n}) {{ {n} = 2; return [{n}]; }}"),
          4 => format!("{{ class {n} {{}} new {n}(); }}"),
          _ => format!("const shadow5 = function {n}() {{ return {n}; }};"),
        };
        match return_src {
          Some(t) => t,
          None => format!("{}\n{}\n", src, inj),
        }
      }
    } else {
      src
    };
    let ext = if src.contains("</") || src.contains("/>") { "tsx" } else { "ts" };
    let spec = spec_for(ext);
    let Ok(ps) = deno_ast::parse_program(deno_ast::ParseParams {
      specifier: spec.clone(),
      media_type: MediaType::from_specifier(&spec),
      text: src.clone().into(),
      capture_tokens: true,
      maybe_syntax: Some(deno_ast::get_syntax(MediaType::from_specifier(&spec))),
      scope_analysis: true,
    }) else {
      continue;
    };
    if ps.text().as_ref() != src {
      continue;
    }
    let unresolved = ps.unresolved_context().as_u32();
    let mut v = Idents { base: Some(ps.text_info_lazy().range().start), ..Default::default() };
    match ps.program_ref() {
      deno_ast::ProgramRef::Module(m) => m.visit_with(&mut v),
      deno_ast::ProgramRef::Script(s) => s.visit_with(&mut v),
    }
    // eligible bindings
    let mut eligible: Vec<(&(String, u32), &Vec<(usize, usize)>)> = v
      .groups
      .iter()
      .filter(|((name, ctxt), occ)| {
        *ctxt != unresolved
          && name.len() >= 2
          && name.chars().any(|c| c.is_ascii_alphabetic())
          && !RESERVED.contains(&name.as_str())
          && !hook_like(name)
          && !is_keywordish(name)
          && !v.excluded_names.contains(name)
          && !v.excluded_ids.contains(&(name.clone(), *ctxt))
          && occ.iter().all(|(a, b)| src.get(*a..*b) == Some(name.as_str()))
      })
      .collect();
    if eligible.is_empty() {
      out.count("no-eligible-binding");
      continue;
    }
    // the binding must be *declared* in the file: at least two groups share the name, or the id is not the top-level
    // unresolved one (already filtered).  Prefer names that occur in several groups (the interesting case).
    eligible.sort_by_key(|((n, _), _)| std::cmp::Reverse(v.groups.keys().filter(|(m, _)| m == n).count()));
    let pick = match &forced_name {
      Some(w) => match eligible.iter().position(|((n, _), _)| n == w) {
        Some(i) => i,
        None => {
          out.count("unquote-binding-not-eligible");
          continue;
        }
      },
      None => {
        if crng.chance(1, 2) {
          0
        } else {
          crng.below(eligible.len())
        }
      }
    };
    let ((name, ctxt), occ) = eligible[pick];
    let Some(fresh) = fresh_name(&mut crng, name, &src) else { continue };
    let mut renamed = src.clone();
    for (a, b) in occ.iter() {
      renamed.replace_range(*a..*b, &fresh);
    }
    let same_name_groups = v.groups.keys().filter(|(m, _)| m == name).count();
    let meta = json!({"rule": rule, "src": src, "renamed": renamed, "binding": name, "ctxt": ctxt, "fresh": fresh, "occurrences": occ.len(), "same_name_bindings": same_name_groups, "ext": ext});
    let a = lint(&all, &src, ext);
    let b = lint(&all, &renamed, ext);
    match (a, b) {
      (Outcome::Ok(da), Outcome::Ok(db)) => {
        // the fresh name must not be a word of some fixed message text ("to", "the", …): mapping back would garble it
        let texts = |d: &D| {
          let mut t = vec![d.msg.clone()];
          t.extend(d.hint.clone());
          for (a, ch) in &d.fixes {
            t.push(a.clone());
            t.extend(ch.iter().map(|c| c.2.clone()));
          }
          t
        };
        let mut forms = derived(&fresh);
        forms.push(fresh.clone());
        if da.iter().flat_map(|d| texts(d)).any(|t| forms.iter().any(|f| replace_word(&t, f, "\u{1}") != t)) {
          out.count("fresh-name-occurs-in-message-text");
          continue;
        }
        out.eval(&format!("{}|{}|{}", src, name, ctxt), !da.is_empty(), meta.clone());
        out.count(if same_name_groups > 1 { "shadowing=yes" } else { "shadowing=no" });
        let mapped: Vec<D> = db.iter().map(|d| map_back(d, &fresh, name)).collect();
        if mapped != da {
          let missing: Vec<_> = da.iter().filter(|x| !mapped.contains(x)).map(|x| x.json()).collect();
          let extra: Vec<_> = mapped.iter().filter(|x| !da.contains(x)).map(|x| x.json()).collect();
          let codes: BTreeSet<String> = missing.iter().chain(extra.iter()).map(|x| x["code"].as_str().unwrap_or("").to_string()).collect();
          out.found("C20", &format!("renaming-changed:{}", codes.into_iter().collect::<Vec<_>>().join("+")), &src, json!({"meta": meta, "only_original": missing, "only_renamed": extra}));
        }
      }
      (Outcome::Ok(_), Outcome::ParseErr(e)) => out.count(&format!("renamed-does-not-parse:{}", e.chars().take(40).collect::<String>())),
      (Outcome::Panic(m), _) | (_, Outcome::Panic(m)) => out.found("C01", "panic:rename", &src, json!({"meta": meta, "panic": m})),
      _ => {}
    }
  }
}

// ------------------------------------------------------------------------------- M-SCOPE correspondence
/// programs of the model language, rendered to JavaScript; the real parser + resolver + scope analysis must partition
/// the identifier occurrences into bindings exactly like `DL.Scope.Program.res`, before and after renaming one binding
#[derive(Clone, Debug)]
enum MItem {
  Ref(usize),
  Key(usize),
  Decl(usize),
  Block(usize, Vec<MItem>),
  Func(usize, Vec<usize>, Vec<MItem>),
}
const POOL: &[&str] = &["console", "window", "process", "aa", "bb", "cc", "dd"];
/// the rule that reports references to POOL[k] (at the identifier), k < 3
const POOL_RULES: &[&str] = &["no-console", "no-window", "no-process-global"];
const FRESH: usize = 7; // "zz"
fn pool_name(k: usize) -> &'static str {
  if k == FRESH {
    "zz"
  } else {
    POOL[k]
  }
}
fn gen_items(rng: &mut Rng, depth: usize, next_id: &mut usize, budget: &mut usize) -> Vec<MItem> {
  let n = 2 + rng.below(6);
  let mut out = vec![];
  let mut declared: Vec<usize> = vec![];
  for _ in 0..n {
    if *budget == 0 {
      break;
    }
    *budget -= 1;
    let k = rng.below(POOL.len());
    match rng.below(10) {
      0..=3 => out.push(MItem::Ref(k)),
      4 => out.push(MItem::Key(k)),
      5 | 6 => {
        if !declared.contains(&k) {
          declared.push(k);
          out.push(MItem::Decl(k));
        }
      }
      7 if depth < 4 => {
        let id = *next_id;
        *next_id += 1;
        out.push(MItem::Block(id, gen_items(rng, depth + 1, next_id, budget)));
      }
      _ if depth < 4 => {
        let id = *next_id;
        *next_id += 1;
        let mut ps = vec![];
        for _ in 0..rng.below(3) {
          let p = rng.below(POOL.len());
          if !ps.contains(&p) {
            ps.push(p);
          }
        }
        let mut body = gen_items(rng, depth + 1, next_id, budget);
        // a parameter and a lexical declaration of the same name in the function body are an early error
        body.retain(|i| !matches!(i, MItem::Decl(x) if ps.contains(x)));
        out.push(MItem::Func(id, ps, body));
      }
      _ => out.push(MItem::Ref(k)),
    }
  }
  out
}
fn items_json(is: &[MItem]) -> serde_json::Value {
  serde_json::Value::Array(
    is.iter()
      .map(|i| match i {
        MItem::Ref(x) => json!(["ref", x]),
        MItem::Key(x) => json!(["key", x]),
        MItem::Decl(x) => json!(["decl", x]),
        MItem::Block(id, b) => json!(["block", id, items_json(b)]),
        MItem::Func(id, ps, b) => json!(["func", id, ps, items_json(b)]),
      })
      .collect(),
  )
}
/// (kind, name, scope that declares it when it is a declaration)
fn frame_of(ps: &[usize], is: &[MItem]) -> Vec<usize> {
  let mut f = ps.to_vec();
  f.extend(is.iter().filter_map(|i| if let MItem::Decl(x) = i { Some(*x) } else { None }));
  f
}
/// the generator's own view: occurrence indices of references to `g` that no enclosing scope of the tree declares
fn intended_reports(is: &[MItem], g: usize, env: &mut Vec<Vec<usize>>, k: &mut usize, out: &mut Vec<usize>) {
  for i in is {
    match i {
      MItem::Ref(x) => {
        if *x == g && !env.iter().any(|f| f.contains(&g)) {
          out.push(*k);
        }
        *k += 1;
      }
      MItem::Key(_) => {}
      MItem::Decl(_) => *k += 1,
      MItem::Block(_, b) => {
        env.push(frame_of(&[], b));
        intended_reports(b, g, env, k, out);
        env.pop();
      }
      MItem::Func(_, ps, b) => {
        *k += ps.len();
        env.push(frame_of(ps, b));
        intended_reports(b, g, env, k, out);
        env.pop();
      }
    }
  }
}
fn render(is: &[MItem], scope: usize, rng: &mut Rng, out: &mut String, occ: &mut Vec<(bool, usize, usize)>) {
  for i in is {
    match i {
      MItem::Ref(x) => {
        occ.push((false, *x, 0));
        out.push_str(&format!("{}.log(1);\n", pool_name(*x)));
      }
      MItem::Key(x) => {
        if rng.chance(1, 2) {
          out.push_str(&format!("({{ {}: 1 }});\n", pool_name(*x)));
        } else {
          out.push_str(&format!("obj.{};\n", pool_name(*x)));
        }
      }
      MItem::Decl(x) => {
        occ.push((true, *x, scope));
        let n = pool_name(*x);
        match rng.below(4) {
          0 => out.push_str(&format!("let {} = 1;\n", n)),
          1 => out.push_str(&format!("const {} = 1;\n", n)),
          2 => out.push_str(&format!("class {} {{}}\n", n)),
          _ => out.push_str(&format!("function {}() {{}}\n", n)),
        }
      }
      MItem::Block(id, b) => {
        out.push_str("{\n");
        render(b, *id, rng, out, occ);
        out.push_str("}\n");
      }
      MItem::Func(id, ps, b) => {
        for p in ps {
          occ.push((true, *p, *id));
        }
        let plist: Vec<&str> = ps.iter().map(|p| pool_name(*p)).collect();
        match rng.below(3) {
          0 => out.push_str(&format!("function fn{}({}) {{\n", id, plist.join(", "))),
          1 => out.push_str(&format!("const fn{} = ({}) => {{\n", id, plist.join(", "))),
          _ => out.push_str(&format!("const fn{} = function ({}) {{\n", id, plist.join(", "))),
        }
        render(b, *id, rng, out, occ);
        out.push_str("};\n");
      }
    }
  }
}
struct PoolIdents {
  found: Vec<((String, u32), usize, usize)>,
  base: deno_ast::StartSourcePos,
}
impl Visit for PoolIdents {
  fn visit_ident(&mut self, i: &swc::Ident) {
    let s = i.sym.to_string();
    if POOL.contains(&s.as_str()) || s == "zz" {
      self.found.push((Idents::id(i), i.start().as_byte_index(self.base), i.end().as_byte_index(self.base)));
    }
  }
}
/// entries of a source text: [name, canonical binding (first occurrence of the same Id, null = unresolved),
/// scope analysis has a declaration]
fn impl_entries(src: &str) -> Option<(Vec<serde_json::Value>, Vec<((String, u32), usize, usize)>, deno_ast::ParsedSource)> {
  let spec = spec_for("ts");
  let ps = deno_ast::parse_program(deno_ast::ParseParams {
    specifier: spec.clone(),
    media_type: MediaType::TypeScript,
    text: src.to_string().into(),
    capture_tokens: true,
    maybe_syntax: Some(deno_ast::get_syntax(MediaType::TypeScript)),
    scope_analysis: true,
  })
  .ok()?;
  let mut v = PoolIdents { found: vec![], base: ps.text_info_lazy().range().start };
  match ps.program_ref() {
    deno_ast::ProgramRef::Module(m) => m.visit_with(&mut v),
    deno_ast::ProgramRef::Script(s) => s.visit_with(&mut v),
  }
  v.found.sort_by_key(|f| f.1);
  let unresolved = ps.unresolved_context().as_u32();
  let found = v.found;
  let out = ps.with_view(|pg| {
    let scope = deno_ast::Scope::analyze(pg);
    let mut out = vec![];
    for (k, (id, _, _)) in found.iter().enumerate() {
      let canon = if id.1 == unresolved { None } else { found.iter().position(|f| f.0 == *id).map(|p| p.min(k)) };
      let name = if id.0 == "zz" { FRESH } else { POOL.iter().position(|p| *p == id.0).unwrap() };
      let swc_id = (deno_ast::swc::atoms::Atom::from(id.0.as_str()), deno_ast::swc::common::SyntaxContext::from_u32(id.1));
      out.push(json!([name, canon, scope.var(&swc_id).is_some()]));
    }
    out
  });
  Some((out, found, ps))
}

fn run_corr(out: &mut Out, rng: &mut Rng, count: usize) {
  let linters: Vec<_> = POOL_RULES.iter().map(|r| mk_linter(rules_by_codes(&[r.to_string()]), &Words::default())).collect();
  for _ in 0..count {
    let mut crng = rng.fork();
    let mut next_id = 1;
    let mut budget = 6 + crng.below(60);
    let prog = gen_items(&mut crng, 0, &mut next_id, &mut budget);
    let mut src = String::from("export {};\n");
    let mut occ = vec![];
    render(&prog, 0, &mut crng, &mut src, &mut occ);
    let Some((entries, found, _ps)) = impl_entries(&src) else {
      out.count("corr:parse-error");
      continue;
    };
    if entries.len() != occ.len() {
      out.found("C14", "corr:occurrence-count", &src, json!({"src": src, "expected": occ.len(), "got": entries.len()}));
      continue;
    }
    // the real rule on the same text: positions (occurrence indices) of its reports
    let mut reports0 = vec![];
    for (g, l) in linters.iter().enumerate() {
      let reports: Vec<usize> = match lint(l, &src, "ts") {
        Outcome::Ok(ds) => ds.iter().filter_map(|d| d.start).filter_map(|s| found.iter().position(|f| f.1 == s)).collect(),
        _ => vec![],
      };
      let mut want = vec![];
      intended_reports(&prog, g, &mut vec![frame_of(&[], &prog)], &mut 0, &mut want);
      out.eval(&format!("{}|{}", g, src), !want.is_empty(), json!({"src": src, "rule": POOL_RULES[g], "intended_reports": want}));
      if reports != want {
        out.found("C14", &format!("model-program:{}", POOL_RULES[g]), &src, json!({"meta": {"src": src, "rule": POOL_RULES[g]}, "occurrences": found.iter().map(|f| (f.0 .0.clone(), f.1)).collect::<Vec<_>>(), "intended_report_occurrences": want, "reported_occurrences": reports}));
      }
      if g == 0 {
        reports0 = reports;
      }
    }
    let reports = reports0;
    // rename one declared binding (when there is one) to the fresh name, through the resolver's Ids
    let decls: Vec<usize> = (0..occ.len()).filter(|k| occ[*k].0).collect();
    let (ren, entries2) = if !decls.is_empty() {
      let k = decls[crng.below(decls.len())];
      let (_, x, t) = occ[k];
      let id = &found[k].0;
      let mut spans: Vec<(usize, usize)> = found.iter().filter(|f| f.0 == *id).map(|f| (f.1, f.2)).collect();
      spans.sort();
      let mut text2 = src.clone();
      for (a, b) in spans.iter().rev() {
        text2.replace_range(*a..*b, "zz");
      }
      match impl_entries(&text2) {
        Some((e2, _, _)) => (json!([t, x, FRESH]), json!(e2)),
        None => (serde_json::Value::Null, serde_json::Value::Null),
      }
    } else {
      (serde_json::Value::Null, serde_json::Value::Null)
    };
    out.count(&format!("corr:occurrences={}", (entries.len() / 5) * 5));
    out.count(if ren.is_null() { "corr:rename=no" } else { "corr:rename=yes" });
    out.case(
      json!({"m": "scope", "prog": items_json(&prog), "ren": ren, "g": 0}),
      json!({"entries": entries, "reports": reports, "renamed": entries2}),
      json!({"src": src}),
    );
  }
}

// ------------------------------------------------------------------------------- M-SCOPE2 correspondence
/// the richer model language (`DL.Scope2`): `var` hoisting, named function expressions, catch parameters, loop-head
/// bindings.  Same comparison as above: partition of occurrences, scope-analysis presence, no-console reports, rename.
#[derive(Clone, Debug)]
enum M2 {
  Ref(usize),
  Key(usize),
  Let(usize),
  Var(usize),
  Block(usize, Vec<M2>),
  Func(usize, Option<usize>, Vec<usize>, Vec<M2>),
  Catch(usize, Option<usize>, Vec<M2>),
  ForLet(usize, usize, Vec<M2>),
}
fn m2_lets(is: &[M2]) -> Vec<usize> {
  is.iter().filter_map(|i| if let M2::Let(x) = i { Some(*x) } else { None }).collect()
}
fn m2_vars(is: &[M2]) -> Vec<usize> {
  let mut v = vec![];
  for i in is {
    match i {
      M2::Var(x) => v.push(*x),
      M2::Block(_, b) | M2::Catch(_, _, b) | M2::ForLet(_, _, b) => v.extend(m2_vars(b)),
      _ => {}
    }
  }
  v
}
fn nodup(v: &[usize]) -> bool {
  v.iter().enumerate().all(|(i, x)| !v[..i].contains(x))
}
fn disj(a: &[usize], b: &[usize]) -> bool {
  a.iter().all(|x| !b.contains(x))
}
/// the early-error rules the model calls `WF`
fn m2_wf(is: &[M2]) -> bool {
  is.iter().all(|i| match i {
    M2::Block(_, b) => nodup(&m2_lets(b)) && disj(&m2_lets(b), &m2_vars(b)) && m2_wf(b),
    M2::Func(_, _, ps, b) => nodup(&m2_lets(b)) && disj(ps, &m2_lets(b)) && disj(&m2_lets(b), &m2_vars(b)) && nodup(ps) && m2_wf(b),
    M2::Catch(_, p, b) => {
      let mut f: Vec<usize> = p.iter().cloned().collect();
      f.extend(m2_lets(b));
      nodup(&f) && disj(&f, &m2_vars(b)) && m2_wf(b)
    }
    M2::ForLet(_, x, b) => {
      let mut f = vec![*x];
      f.extend(m2_lets(b));
      nodup(&m2_lets(b)) && disj(&f, &m2_vars(b)) && m2_wf(b)
    }
    _ => true,
  })
}
fn gen2(rng: &mut Rng, depth: usize, next_id: &mut usize, budget: &mut usize) -> Vec<M2> {
  let n = 2 + rng.below(6);
  let mut out = vec![];
  for _ in 0..n {
    if *budget == 0 {
      break;
    }
    *budget -= 1;
    let k = rng.below(POOL.len());
    let id = *next_id;
    match rng.below(14) {
      0..=3 => out.push(M2::Ref(k)),
      4 => out.push(M2::Key(k)),
      5 | 6 => out.push(M2::Let(k)),
      7 | 8 => out.push(M2::Var(k)),
      9 if depth < 4 => {
        *next_id += 1;
        out.push(M2::Block(id, gen2(rng, depth + 1, next_id, budget)));
      }
      10 | 11 if depth < 4 => {
        *next_id += 1;
        let name = if rng.chance(1, 3) { Some(rng.below(POOL.len())) } else { None };
        let mut ps = vec![];
        for _ in 0..rng.below(3) {
          let p = rng.below(POOL.len());
          if !ps.contains(&p) {
            ps.push(p);
          }
        }
        out.push(M2::Func(id, name, ps, gen2(rng, depth + 1, next_id, budget)));
      }
      12 if depth < 4 => {
        *next_id += 1;
        let p = if rng.chance(2, 3) { Some(rng.below(POOL.len())) } else { None };
        out.push(M2::Catch(id, p, gen2(rng, depth + 1, next_id, budget)));
      }
      13 if depth < 4 => {
        *next_id += 1;
        out.push(M2::ForLet(id, rng.below(POOL.len()), gen2(rng, depth + 1, next_id, budget)));
      }
      _ => out.push(M2::Ref(k)),
    }
  }
  out
}
fn m2_json(is: &[M2]) -> serde_json::Value {
  serde_json::Value::Array(
    is.iter()
      .map(|i| match i {
        M2::Ref(x) => json!(["ref", x]),
        M2::Key(x) => json!(["key", x]),
        M2::Let(x) => json!(["let", x]),
        M2::Var(x) => json!(["var", x]),
        M2::Block(id, b) => json!(["block", id, m2_json(b)]),
        M2::Func(id, nm, ps, b) => json!(["func", id, nm, ps, m2_json(b)]),
        M2::Catch(id, p, b) => json!(["catch", id, p, m2_json(b)]),
        M2::ForLet(id, x, b) => json!(["forlet", id, x, m2_json(b)]),
      })
      .collect(),
  )
}
/// occurrences: (is declaration, name, scope id of the binding as the model names it); `fscope` = id of the enclosing
/// function scope (0 = program), `scope` = id of the innermost scope
fn render2(is: &[M2], scope: usize, fscope: usize, rng: &mut Rng, out: &mut String, occ: &mut Vec<(bool, usize, serde_json::Value)>) {
  for i in is {
    match i {
      M2::Ref(x) => {
        occ.push((false, *x, json!(null)));
        out.push_str(&format!("{}.log(1);\n", pool_name(*x)));
      }
      M2::Key(x) => out.push_str(&format!("({{ {}: 1 }});\n", pool_name(*x))),
      M2::Let(x) => {
        occ.push((true, *x, json!(["scope", scope])));
        let n = pool_name(*x);
        match rng.below(4) {
          0 => out.push_str(&format!("let {} = 1;\n", n)),
          1 => out.push_str(&format!("const {} = 1;\n", n)),
          2 => out.push_str(&format!("class {} {{}}\n", n)),
          _ => out.push_str(&format!("let {};\n", n)),
        }
      }
      M2::Var(x) => {
        occ.push((true, *x, json!(["scope", fscope])));
        out.push_str(&format!("var {}{};\n", pool_name(*x), if rng.chance(1, 2) { " = 1" } else { "" }));
      }
      M2::Block(id, b) => {
        out.push_str("{\n");
        render2(b, *id, fscope, rng, out, occ);
        out.push_str("}\n");
      }
      M2::Func(id, nm, ps, b) => {
        let plist: Vec<&str> = ps.iter().map(|p| pool_name(*p)).collect();
        match nm {
          Some(n) => {
            // a named function (or class-like) *expression*: the name is bound only inside
            occ.push((true, *n, json!(["head", id])));
            for p in ps {
              occ.push((true, *p, json!(["scope", id])));
            }
            out.push_str(&format!("(function {}({}) {{\n", pool_name(*n), plist.join(", ")));
            render2(b, *id, *id, rng, out, occ);
            out.push_str("});\n");
          }
          None => {
            for p in ps {
              occ.push((true, *p, json!(["scope", id])));
            }
            match rng.below(3) {
              0 => out.push_str(&format!("function fn{}({}) {{\n", id, plist.join(", "))),
              1 => out.push_str(&format!("const fn{} = ({}) => {{\n", id, plist.join(", "))),
              _ => out.push_str(&format!("const fn{} = function ({}) {{\n", id, plist.join(", "))),
            }
            render2(b, *id, *id, rng, out, occ);
            out.push_str("};\n");
          }
        }
      }
      M2::Catch(id, p, b) => {
        match p {
          Some(p) => {
            occ.push((true, *p, json!(["scope", id])));
            out.push_str(&format!("try {{ }} catch ({}) {{\n", pool_name(*p)));
          }
          None => out.push_str("try { } catch {\n"),
        }
        render2(b, *id, fscope, rng, out, occ);
        out.push_str("}\n");
      }
      M2::ForLet(id, x, b) => {
        occ.push((true, *x, json!(["head", id])));
        let kw = ["const", "let"][rng.below(2)];
        match rng.below(3) {
          0 => out.push_str(&format!("for ({} {} of xs) {{\n", kw, pool_name(*x))),
          1 => out.push_str(&format!("for ({} {} in xs) {{\n", kw, pool_name(*x))),
          _ => out.push_str(&format!("for (let {} = 0; ; ) {{\n", pool_name(*x))),
        }
        render2(b, *id, fscope, rng, out, occ);
        out.push_str("}\n");
      }
    }
  }
}

fn run_corr2(out: &mut Out, rng: &mut Rng, count: usize) {
  let console = mk_linter(rules_by_codes(&["no-console".to_string()]), &Words::default());
  let mut done = 0;
  let mut tries = 0;
  while done < count && tries < count * 30 {
    tries += 1;
    let mut crng = rng.fork();
    let mut next_id = 1;
    let mut budget = 6 + crng.below(50);
    let prog = gen2(&mut crng, 0, &mut next_id, &mut budget);
    // program level: like a function without parameters
    if !(nodup(&m2_lets(&prog)) && disj(&m2_lets(&prog), &m2_vars(&prog)) && m2_wf(&prog)) {
      out.count("corr2:not-wf-skipped");
      continue;
    }
    done += 1;
    let mut src = String::from("export {};\n");
    let mut occ = vec![];
    render2(&prog, 0, 0, &mut crng, &mut src, &mut occ);
    let Some((entries, found, _ps)) = impl_entries(&src) else {
      out.found("C14", "corr2:well-formed-model-program-does-not-parse", &src, json!({"meta": {"src": src}}));
      continue;
    };
    if entries.len() != occ.len() {
      out.found("C14", "corr2:occurrence-count", &src, json!({"meta": {"src": src}, "expected": occ.len(), "got": entries.len()}));
      continue;
    }
    let reports: Vec<usize> = match lint(&console, &src, "ts") {
      Outcome::Ok(ds) => ds.iter().filter_map(|d| d.start).filter_map(|s| found.iter().position(|f| f.1 == s)).collect(),
      _ => vec![],
    };
    let decls: Vec<usize> = (0..occ.len()).filter(|k| occ[*k].0).collect();
    let (ren, entries2) = if !decls.is_empty() {
      let k = decls[crng.below(decls.len())];
      let (_, x, t) = occ[k].clone();
      let id = &found[k].0;
      let mut spans: Vec<(usize, usize)> = found.iter().filter(|f| f.0 == *id).map(|f| (f.1, f.2)).collect();
      spans.sort();
      let mut text2 = src.clone();
      for (a, b) in spans.iter().rev() {
        text2.replace_range(*a..*b, "zz");
      }
      match impl_entries(&text2) {
        Some((e2, _, _)) => (json!([t, x, FRESH]), json!(e2)),
        None => (serde_json::Value::Null, serde_json::Value::Null),
      }
    } else {
      (serde_json::Value::Null, serde_json::Value::Null)
    };
    for f in ["var", "catch", "forlet", "named-func"] {
      let has = match f {
        "var" => src.contains("var "),
        "catch" => src.contains("catch"),
        "forlet" => src.contains("for ("),
        _ => src.contains("(function "),
      };
      if has {
        out.count(&format!("corr2:has-{}", f));
      }
    }
    out.case(json!({"m": "scope2", "prog": m2_json(&prog), "ren": ren, "g": 0}), json!({"entries": entries, "reports": reports, "renamed": entries2, "wf": true}), json!({"src": src}));
  }
}

pub fn run(args: &Args) {
  let mut out = Out::new(&args.out, "scope");
  let mut rng = Rng::new(args.seed ^ 0x5C0FE);
  let which = args.opts.get("props").cloned().unwrap_or_else(|| "C14,C20,corr".into());
  if which.contains("C14") {
    run_c14(&mut out, &mut rng, args.count);
  }
  if which.contains("C20") {
    run_c20(&mut out, &mut rng, args.count);
  }
  if which.contains("corr") {
    run_corr(&mut out, &mut rng, args.count);
    run_corr2(&mut out, &mut rng, args.count);
  }
  out.finish();
}
