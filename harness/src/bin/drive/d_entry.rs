//! C16 (entry points): `lint_file` vs `lint_with_ast` on the same text, media type and configuration.
use crate::{Args, Out};
use deno_ast::MediaType;
use deno_lint::linter::*;
use dlharness::gen::*;
use dlharness::*;
use serde_json::json;

pub fn run(args: &Args) {
  let mut out = Out::new(&args.out, "entry");
  let mut rng = Rng::new(args.seed ^ 0xE177);
  for case_no in 0..args.count {
    let mut crng = rng.fork();
    let ts = crng.chance(1, 2);
    let df = directive_file(&mut crng, &DirGenOpts { file_word: "deno-lint-ignore-file", line_word: "deno-lint-ignore", decoys: vec![], ts });
    let (codes, kind) = rule_subset(&mut crng);
    let ext = if ts { "ts" } else { ["js", "jsx", "mjs"][crng.below(3)] };
    let linter = mk_linter(rules_by_codes(&codes), &Words::default());
    let spec = spec_for(ext);
    let mt = MediaType::from_specifier(&spec);
    let cfg = LintConfig { default_jsx_factory: if crng.chance(1, 3) { Some("h".into()) } else { None }, default_jsx_fragment_factory: None };
    out.count(&format!("subset={}", kind));
    out.count(&format!("ext={}", ext));
    out.eval(&df.src, true, json!({"src": df.src, "ext": ext, "rules": codes.len()}));
    let a = std::panic::catch_unwind(std::panic::AssertUnwindSafe(|| {
      linter.lint_file(LintFileOptions { specifier: spec.clone(), source_code: df.src.clone(), media_type: mt, config: cfg.clone(), external_linter: None })
    }));
    let parsed = deno_ast::parse_program(deno_ast::ParseParams {
      specifier: spec.clone(),
      media_type: mt,
      text: df.src.clone().into(),
      capture_tokens: true,
      maybe_syntax: Some(deno_ast::get_syntax(mt)),
      scope_analysis: true,
    });
    let meta = json!({"case": case_no, "src": df.src, "ext": ext, "rules": codes});
    match (a, parsed) {
      (Ok(Ok((_ps, d1))), Ok(ps2)) => {
        let d1 = conv_all(&d1);
        let b = std::panic::catch_unwind(std::panic::AssertUnwindSafe(|| linter.lint_with_ast(&ps2, cfg.clone(), None)));
        match b {
          Ok(d2) => {
            let d2 = conv_all(&d2);
            out.count(if d1.is_empty() { "result=empty" } else { "result=nonempty" });
            if d1 != d2 {
              out.found("C16", "entry-points-differ", &df.src, json!({"meta": meta, "lint_file": d1.iter().map(|d| d.json()).collect::<Vec<_>>(), "lint_with_ast": d2.iter().map(|d| d.json()).collect::<Vec<_>>()}));
            }
          }
          Err(e) => out.found("C01", "panic", &df.src, json!({"meta": meta, "panic": panic_msg(e), "entry": "lint_with_ast"})),
        }
      }
      (Ok(Err(_)), Err(_)) => out.count("parse-err-both"),
      (Ok(Err(_)), Ok(_)) | (Ok(Ok(_)), Err(_)) => out.found("C16", "parse-outcome-differs", &df.src, json!({"meta": meta})),
      (Err(e), _) => out.found("C01", "panic", &df.src, json!({"meta": meta, "panic": panic_msg(e), "entry": "lint_file"})),
    }
  }
  out.finish();
}
