//! C16 (entry points): `lint_file` vs `lint_with_ast` on the same text, media type and configuration.
use crate::{Args, Out};
use deno_ast::MediaType;
use deno_lint::linter::*;
use dlharness::gen::*;
use dlharness::*;
use serde_json::json;

pub fn run(args: &Args) {
  let mut out = Out::new(&args.out, "entry");
  let mut rng = Rng::new(args.seed ^ 0xE177);
  for case_no in 0..args.count {
    let mut crng = rng.fork();
    let ts = crng.chance(1, 2);
    let mut df = directive_file(&mut crng, &DirGenOpts { file_word: "deno-lint-ignore-file", line_word: "deno-lint-ignore", decoys: vec![], ts });
    let (mut codes, mut kind) = rule_subset(&mut crng);
    let mut ext = if ts { "ts" } else { ["js", "jsx", "mjs"][crng.below(3)] };
    // every second case: a JSX program whose result depends on the per-file configuration (both factories set,
    // usually different), all rules — the configuration must reach the rules the same way through both entry points
    let jsx_case = case_no % 2 == 1;
    let mut cfg = LintConfig { default_jsx_factory: if crng.chance(1, 3) { Some("h".into()) } else { None }, default_jsx_fragment_factory: None };
    if jsx_case {
      use crate::d_cfg::*;
      let n = crng.range(1, 3);
      let mut body = String::new();
      for _ in 0..n {
        body.push_str(JSX_BODIES[crng.below(JSX_BODIES.len())]);
        body.push('\n');
      }
      df.src = format!("{}{}\n{}", PRAGMAS[crng.below(PRAGMAS.len())], IMPORTS[crng.below(IMPORTS.len())], body);
      ext = ["tsx", "jsx"][crng.below(2)];
      codes = all_codes();
      kind = "all+jsx-config";
      cfg = LintConfig {
        default_jsx_factory: FACTORIES[crng.below(FACTORIES.len())].map(|s| s.to_string()),
        default_jsx_fragment_factory: FRAGS[crng.below(FRAGS.len())].map(|s| s.to_string()),
      };
      out.count(&format!("factories={}/{}", cfg.default_jsx_factory.is_some(), cfg.default_jsx_fragment_factory.is_some()));
    }
    let linter = mk_linter(rules_by_codes(&codes), &Words::default());
    // the media type is the caller's word, whatever the specifier looks like: every third case the two are drawn
    // independently (Unknown with a .ts name, TypeScript with a .js name, no extension at all, ...)
    let (spec, mt) = if case_no % 3 == 1 {
      out.count("media-type=independent-of-specifier");
      let name = ["t.ts", "t.js", "t.tsx", "t.jsx", "t.mts", "t.cjs", "t.d.ts", "t", "t.xyz", "t.json", "dir.ts/t"][crng.below(11)];
      let mts = [MediaType::Unknown, MediaType::JavaScript, MediaType::TypeScript, MediaType::Tsx, MediaType::Jsx, MediaType::Mjs, MediaType::Cjs, MediaType::Mts, MediaType::Cts, MediaType::Unknown];
      let fitting = [MediaType::JavaScript, MediaType::Jsx, MediaType::Unknown];
      // JSX programs need a media type with JSX syntax to parse at all; Unknown is what is interesting there
      let mt = if jsx_case { [MediaType::Tsx, MediaType::Jsx, MediaType::Unknown, MediaType::JavaScript][crng.below(4)] } else if ext == "ts" { mts[crng.below(mts.len())] } else { fitting[crng.below(3)] };
      (deno_ast::ModuleSpecifier::parse(&format!("file:///{}", name)).unwrap(), mt)
    } else {
      let spec = spec_for(ext);
      let mt = MediaType::from_specifier(&spec);
      (spec, mt)
    };
    out.count(&format!("media-type={:?}", mt));
    // every third case: an external linter takes part, through both entry points alike
    let external: Option<ExternalLinterCb> = if case_no % 3 == 2 {
      out.count("external=yes");
      let len = df.src.len();
      Some(ext_cb(Some(ExtSpec { diags: vec![("ext-rule".into(), if len > 2 { Some((0, 1)) } else { None }, "external finding".into()), ("ext-rule".into(), None, "no range".into())], codes: vec!["ext-rule".into(), "ext-unused".into()] })))
    } else {
      None
    };
    out.count(&format!("subset={}", kind));
    out.count(&format!("ext={}", ext));
    out.eval(&df.src, true, json!({"src": df.src, "ext": ext, "rules": codes.len()}));
    let a = std::panic::catch_unwind(std::panic::AssertUnwindSafe(|| {
      linter.lint_file(LintFileOptions { specifier: spec.clone(), source_code: df.src.clone(), media_type: mt, config: cfg.clone(), external_linter: external.clone() })
    }));
    let parsed = deno_ast::parse_program(deno_ast::ParseParams {
      specifier: spec.clone(),
      media_type: mt,
      text: df.src.clone().into(),
      capture_tokens: true,
      maybe_syntax: Some(deno_ast::get_syntax(mt)),
      scope_analysis: true,
    });
    let meta = json!({"case": case_no, "src": df.src, "ext": ext, "rules": if codes.len() > 40 { json!("all") } else { json!(codes) }, "jsx_factory": cfg.default_jsx_factory, "jsx_fragment_factory": cfg.default_jsx_fragment_factory, "external": external.is_some()});
    match (a, parsed) {
      (Ok(Ok((ps1, d1))), Ok(ps2)) => {
        if ps1.media_type() != mt || ps1.specifier() != &spec {
          out.found("C16", "parsed-source-of-lint_file-has-another-media-type-or-specifier", &df.src, json!({"meta": meta, "asked": format!("{:?}", mt), "got": format!("{:?}", ps1.media_type())}));
        }
        let d1 = conv_all(&d1);
        let b = std::panic::catch_unwind(std::panic::AssertUnwindSafe(|| linter.lint_with_ast(&ps2, cfg.clone(), external.clone())));
        match b {
          Ok(d2) => {
            let d2 = conv_all(&d2);
            out.count(if d1.is_empty() { "result=empty" } else { "result=nonempty" });
            if d1 != d2 {
              out.found("C16", "entry-points-differ", &df.src, json!({"meta": meta, "lint_file": d1.iter().map(|d| d.json()).collect::<Vec<_>>(), "lint_with_ast": d2.iter().map(|d| d.json()).collect::<Vec<_>>()}));
            }
          }
          Err(e) => out.found("C01", "panic", &df.src, json!({"meta": meta, "panic": panic_msg(e), "entry": "lint_with_ast"})),
        }
      }
      (Ok(Err(_)), Err(_)) => out.count("parse-err-both"),
      (Ok(Err(_)), Ok(_)) | (Ok(Ok(_)), Err(_)) => out.found("C16", "parse-outcome-differs", &df.src, json!({"meta": meta})),
      (Err(e), _) => out.found("C01", "panic", &df.src, json!({"meta": meta, "panic": panic_msg(e), "entry": "lint_file"})),
    }
  }
  out.finish();
}
