//! input generators (all randomness from one `Rng`)
use crate::Rng;

/// Unicode White_Space characters that cannot end a line comment
pub const WS_INLINE: &[char] = &[' ', ' ', ' ', '\t', '\u{b}', '\u{c}', '\u{85}', '\u{a0}', '\u{1680}', '\u{2000}', '\u{2003}', '\u{200a}', '\u{202f}', '\u{205f}', '\u{3000}'];

pub fn pick_str(rng: &mut Rng, xs: &[&str]) -> String {
  xs[rng.below(xs.len())].to_string()
}

/// statement snippets, each known to trigger the named rule (when enabled); `ts` = needs TypeScript
pub const SNIPPETS: &[(&str, &str, bool)] = &[
  ("no-debugger", "debugger;", false),
  ("no-var", "var v$ = 1;", false),
  ("eqeqeq", "a$ == b$;", false),
  ("no-explicit-any", "let x$: any = 1;", true),
  ("no-empty", "if (c$) {}", false),
  ("no-eval", "eval(\"x\");", false),
  ("no-console", "console.log($);", false),
  ("prefer-const", "let p$ = 1;", false),
  ("no-constant-condition", "if (true) { f$(); }", false),
  ("no-debugger", "function g$() {\n  debugger;\n}", false),
  ("no-with", "  debugger; debugger;", false),
  ("no-sparse-arrays", "const s$ = [1,,2];", false),
  ("no-extra-boolean-cast", "if (!!q$) { h$(); }", false),
  ("no-debugger", "{ debugger }", false),
  ("no-empty", "try { t$(); } catch {}", false),
  ("no-unused-vars", "const u$ = 2;", false),
  ("no-inferrable-types", "const i$: number = 1;", true),
  ("", "ok$();", false),
  ("", "", false),
  ("", "/* block */ ok$();", false),
  ("no-debugger", "foo$(\n  1,\n  2); debugger;", false),
  ("no-debugger", "`a\nb`; debugger;", false),
  // two findings of one rule with the same start (the inner one is the leftmost operand of the outer one)
  ("eqeqeq", "a$ == b$ == c$;", false),
  ("eqeqeq", "a$ != b$ == (c$ == d$);", false),
  ("no-explicit-any", "let y$ = (z$ as any) as any;", true),
];

pub const BASE_CODES: &[&str] = &[
  "no-debugger", "no-var", "eqeqeq", "no-explicit-any", "no-empty", "no-eval", "no-console", "prefer-const",
  "no-constant-condition", "no-sparse-arrays", "no-extra-boolean-cast", "no-unused-vars", "no-inferrable-types", "no-undef",
];
pub const UNKNOWN_CODES: &[&str] = &["foo-bar", "Foo-Bar", "FOO-BAR", "no-such-rule", "x", "X", "no_debugger", "No-Debugger", "NO-DEBUGGER", "é-rule"];
pub const EXT_CODES: &[&str] = &["ext-a", "EXT-A", "ext-b", "ext/c"];
pub const ACC_CODES: &[&str] = &["ban-unused-ignore", "ban-unknown-rule-code"];

#[derive(Clone, Debug)]
pub struct DirFile {
  pub src: String,
  pub neutral: String, // same text with every directive word neutralised in place (same length)
  pub features: Vec<&'static str>,
  /// what the text *means* by the property's own definition (the generator's view, independent of the parser):
  /// codes of the first file-level directive among the leading line comments, if any
  pub intended_file: Option<Vec<String>>,
  /// (line index of the comment, codes) of every line-level directive
  pub intended_lines: Vec<(usize, Vec<String>)>,
}

fn sep(rng: &mut Rng) -> String {
  match rng.below(8) {
    0 => ",".into(),
    1 => ", ".into(),
    2 => " , ".into(),
    3 => "  ".into(),
    4 => ",,".into(),
    5 => WS_INLINE[rng.below(WS_INLINE.len())].to_string(),
    _ => " ".into(),
  }
}

pub fn code_pool(rng: &mut Rng) -> String {
  match rng.below(20) {
    0..=10 => pick_str(rng, BASE_CODES),
    11..=12 => pick_str(rng, UNKNOWN_CODES),
    13..=14 => pick_str(rng, EXT_CODES),
    15..=16 => pick_str(rng, ACC_CODES),
    _ => pick_str(rng, &["no-with", "no-octal", "camelcase", "no-await-in-loop", "no-window"]),
  }
}

/// (text, the codes it means)
pub fn code_list(rng: &mut Rng, feats: &mut Vec<&'static str>) -> (String, Vec<String>) {
  let n = match rng.below(10) {
    0 => 0,
    1..=5 => 1,
    6..=7 => 2,
    8 => 3,
    _ => 5,
  };
  let mut s = String::new();
  let mut codes: Vec<String> = vec![];
  for i in 0..n {
    let c = if i > 0 && rng.chance(1, 8) {
      feats.push("dup-code");
      codes[rng.below(codes.len())].clone()
    } else {
      code_pool(rng)
    };
    if i > 0 {
      s.push_str(&sep(rng));
    }
    s.push_str(&c);
    codes.push(c);
  }
  if n > 0 && rng.chance(1, 10) {
    s.push_str(&sep(rng));
    feats.push("trailing-sep");
  }
  (s, codes)
}

/// (text, extra codes the text means).  Always starts with white space unless it starts with `--` directly
/// after a code (a reason may follow a code without a space: `\s*--`).
pub fn reason(rng: &mut Rng, feats: &mut Vec<&'static str>, after_code: bool) -> (String, Vec<String>) {
  match rng.below(10) {
    0 => {
      feats.push("reason");
      (" -- because".into(), vec![])
    }
    1 => {
      feats.push("reason");
      (if after_code { "-- no-debugger".into() } else { " -- no-debugger".into() }, vec![])
    }
    2 => {
      feats.push("reason-with-second-dashes");
      (format!("{}--{}x -- y --z", WS_INLINE[rng.below(WS_INLINE.len())], WS_INLINE[rng.below(WS_INLINE.len())]), vec![])
    }
    3 => {
      feats.push("reason");
      (" --".into(), vec![])
    }
    4 => {
      feats.push("single-dash");
      (" - no-var".into(), vec!["-".into(), "no-var".into()])
    }
    5 => {
      feats.push("reason-generated-by");
      (" -- generated by `protoc --ts_out`, do not edit".into(), vec![])
    }
    _ => ("".into(), vec![]),
  }
}

/// the same length, not a directive: first character of the word replaced
pub fn neutralise(word: &str) -> String {
  let mut cs: Vec<char> = word.chars().collect();
  if !cs.is_empty() {
    cs[0] = if cs[0] == 'X' { 'Y' } else { 'X' };
  }
  cs.into_iter().collect()
}

pub struct DirGenOpts<'a> {
  pub file_word: &'a str,
  pub line_word: &'a str,
  /// words that must *not* act (e.g. overridden defaults); used as decoys
  pub decoys: Vec<String>,
  pub ts: bool,
}

struct B {
  src: String,
  neu: String,
  lines: Vec<(usize, Vec<String>)>,
}
impl B {
  fn push(&mut self, a: &str, b: &str) {
    self.src.push_str(a);
    self.neu.push_str(b);
  }
  fn same(&mut self, a: &str) {
    self.src.push_str(a);
    self.neu.push_str(a);
  }
  fn line(&self) -> usize {
    self.src.bytes().filter(|b| *b == b'\n').count()
  }
  /// a line-level directive comment (without the newline)
  fn line_dir(&mut self, rng: &mut Rng, o: &DirGenOpts, feats: &mut Vec<&'static str>, lead: &str) {
    let ws1: String = (0..rng.below(2)).map(|_| WS_INLINE[rng.below(WS_INLINE.len())]).collect();
    let (ctext, mut codes) = code_list(rng, feats);
    let (rs, extra) = reason(rng, feats, !codes.is_empty() && !ctext.ends_with(|c: char| c.is_whitespace() || c == ','));
    codes.extend(extra);
    let line = self.line();
    // with the file word == line word the same comment would be both; generator keeps them distinct
    self.lines.push((line, codes));
    let a = format!("{}//{}{} {}{}", lead, ws1, o.line_word, ctext, rs);
    let b = format!("{}//{}{} {}{}", lead, ws1, neutralise(o.line_word), ctext, rs);
    self.push(&a, &b);
  }
}

/// a file made of rule-triggering statements interleaved with directive comments
pub fn directive_file(rng: &mut Rng, o: &DirGenOpts) -> DirFile {
  let mut b = B { src: String::new(), neu: String::new(), lines: vec![] };
  let mut feats: Vec<&'static str> = vec![];
  let mut intended_file: Option<Vec<String>> = None;
  let mut n = 0usize;
  let nl = if rng.chance(1, 8) {
    feats.push("crlf");
    "\r\n"
  } else {
    "\n"
  };
  if rng.chance(1, 4) {
    feats.push("shebang");
    // (a hashbang line is `#!` followed by anything up to the end of the line)
    let sb = ["#!/usr/bin/env deno", "#!/usr/bin/env deno", "#! /usr/bin/env -S deno run", "#!deno run", "#!", "#!\t/bin/sh -x"][rng.below(6)];
    b.same(&format!("{}{}", sb, nl));
  }
  // leading comments
  // every sixth file mentions the line word nowhere: only file directives and plain comments in the header, no
  // directive comments in the body
  let plain = rng.chance(1, 6);
  if plain {
    feats.push("no-line-word-anywhere");
  }
  let lead = rng.below(4);
  for _ in 0..lead {
    match if plain { [0, 1, 5][rng.below(3)] } else { rng.below(7) } {
      0 if rng.chance(1, 2) => {
        // a comment whose first word merely starts with the file word: not a directive, and nothing after it changes
        feats.push("near-miss-file-word");
        let suffix = ["d-rules:", "s", "X", "_", "é"][rng.below(5)];
        let (ct, _) = code_list(rng, &mut feats);
        b.same(&format!("// {}{} {}{}", o.file_word, suffix, ct, nl));
      }
      0 => b.same(&format!("// a leading comment{}", nl)),
      1 => b.same(&format!("/* leading block */{}", nl)),
      2 => {
        // directive text inside a block comment: no effect
        feats.push("file-dir-in-block");
        b.same(&format!("/* {} */{}", o.file_word, nl));
      }
      3 if !o.decoys.is_empty() => {
        feats.push("decoy-file");
        let w = o.decoys[rng.below(o.decoys.len())].clone();
        // a decoy that happens to be the configured line word is a real line directive
        if w == o.line_word {
          b.line_dir(rng, o, &mut feats, "");
          b.same(nl);
        } else {
          let (ct, _) = code_list(rng, &mut feats);
          b.same(&format!("// {} {}{}", w, ct, nl));
        }
      }
      4 => {
        feats.push("leading-line-dir");
        b.line_dir(rng, o, &mut feats, "");
        b.same(nl);
      }
      _ => {
        feats.push("file-dir");
        let ws1: String = (0..rng.below(3)).map(|_| WS_INLINE[rng.below(WS_INLINE.len())]).collect();
        let (ctext, mut codes) = if rng.chance(1, 4) { (String::new(), vec![]) } else { code_list(rng, &mut feats) };
        let gap = if ctext.is_empty() { "" } else { " " };
        let (r, extra) = reason(rng, &mut feats, !codes.is_empty() && !ctext.ends_with(|c: char| c.is_whitespace() || c == ','));
        codes.extend(extra);
        if codes.is_empty() {
          feats.push("file-dir-bare");
        }
        if intended_file.is_none() {
          intended_file = Some(codes);
        }
        let a = format!("//{}{}{}{}{}{}", ws1, o.file_word, gap, ctext, r, nl);
        let bb = format!("//{}{}{}{}{}{}", ws1, neutralise(o.file_word), gap, ctext, r, nl);
        b.push(&a, &bb);
      }
    }
  }
  // the first statement is never empty, so the leading comments above are attached to a statement
  n += 1;
  // …of any kind: a script statement, or a module item (the leading comments then hang on an import / export)
  match rng.below(8) {
    0 => {
      feats.push("first-item=import");
      b.same(&format!("import * as imp{} from \"./m.ts\";{}", n, nl));
    }
    1 => {
      feats.push("first-item=export-decl");
      b.same(&format!("export const exp{} = 1;{}", n, nl));
    }
    2 => {
      feats.push("first-item=export-empty");
      b.same(&format!("export {{}};{}", nl));
    }
    3 => {
      feats.push("first-item=directive-prologue");
      b.same(&format!("\"use strict\";{}", nl));
    }
    5 if o.ts => {
      // decorators before `export`: the item's span starts at `export`, the comments hang on the decorator
      feats.push("first-item=decorated-export");
      if rng.chance(1, 2) {
        b.same(&format!("@dec export class Kd{} {{}}{}", n, nl));
      } else {
        b.same(&format!("@dec{}export default class Kdd{} {{}}{}", nl, n, nl));
      }
    }
    4 => {
      feats.push("first-item=class");
      b.same(&format!("class Kl{} {{}}{}", n, nl));
    }
    _ => b.same(&format!("ok{}();{}", n, nl)),
  }
  let stmts = rng.range(0, 11);
  for _ in 0..stmts {
    let r = if plain { 9 } else { rng.below(10) };
    if r < 4 {
      feats.push("line-dir");
      let indent: String = (0..rng.below(3)).map(|_| ' ').collect();
      b.line_dir(rng, o, &mut feats, &indent);
      b.same(nl);
      if rng.chance(1, 8) {
        feats.push("blank-after-dir");
        b.same(nl);
      }
      if rng.chance(1, 8) {
        feats.push("consecutive-dirs");
        b.line_dir(rng, o, &mut feats, "");
        b.same(nl);
      }
    } else if r == 4 {
      feats.push("late-file-dir");
      let (ct, _) = code_list(rng, &mut feats);
      let a = format!("// {} {}{}", o.file_word, ct, nl);
      let bb = format!("// {} {}{}", neutralise(o.file_word), ct, nl);
      if o.file_word == o.line_word {
        // identical words: a late "file" directive is a line directive; keep the generator out of that corner
        b.same(&format!("// late {}", nl));
      } else {
        b.push(&a, &bb);
      }
    } else if r == 5 {
      feats.push("dir-in-string");
      n += 1;
      b.same(&format!("const str{} = \"// {} no-debugger\"; `// {}`;{}", n, o.line_word, o.file_word, nl));
    } else if r == 6 && !o.decoys.is_empty() {
      feats.push("decoy-line");
      let w = o.decoys[rng.below(o.decoys.len())].clone();
      if w == o.line_word {
        b.line_dir(rng, o, &mut feats, "");
        b.same(nl);
      } else {
        let (ct, _) = code_list(rng, &mut feats);
        b.same(&format!("// {} {}{}", w, ct, nl));
      }
    } else if r == 8 {
      // a line directive naming an accounting rule directly above another line directive whose codes are unknown or
      // unused: line-level accounting codes suppress nothing, in particular not the accounting of the next line
      feats.push("stacked-accounting-dirs");
      let acc = ACC_CODES[rng.below(ACC_CODES.len())];
      let line = b.line();
      b.lines.push((line, vec![acc.to_string()]));
      b.push(&format!("// {} {}", o.line_word, acc), &format!("// {} {}", neutralise(o.line_word), acc));
      b.same(nl);
      b.line_dir(rng, o, &mut feats, "");
      b.same(nl);
    } else if r == 7 {
      feats.push("trailing-dir-same-line");
      // a directive comment at the end of a statement line: counts for the *next* line only
      n += 1;
      let stmt = match rng.below(3) {
        0 => format!("ok{}(); ", n),
        1 => "debugger; ".to_string(),
        _ => format!("var t{} = 1; ", n),
      };
      b.line_dir(rng, o, &mut feats, &stmt);
      b.same(nl);
    }
    // a statement
    loop {
      let (_code, text, ts) = SNIPPETS[rng.below(SNIPPETS.len())];
      if ts && !o.ts {
        continue;
      }
      n += 1;
      let t = text.replace('$', &n.to_string()).replace('\n', nl);
      b.same(&t);
      b.same(nl);
      break;
    }
  }
  if rng.chance(1, 10) {
    feats.push("dir-at-eof");
    b.line_dir(rng, o, &mut feats, "");
  }
  feats.sort();
  feats.dedup();
  DirFile { src: b.src, neutral: b.neu, features: feats, intended_file, intended_lines: b.lines }
}

/// a variant in which the very first line is a statement with a trailing line directive (first-line corner)
pub fn first_line_variant(rng: &mut Rng, o: &DirGenOpts) -> DirFile {
  let mut feats: Vec<&'static str> = vec!["first-line-trailing-dir"];
  let mut b = B { src: String::new(), neu: String::new(), lines: vec![] };
  let stmt = match rng.below(3) {
    0 => "debugger; ",
    1 => "var f0 = 1; ",
    _ => "eval(\"\"); ",
  };
  b.line_dir(rng, o, &mut feats, stmt);
  b.same("\n");
  let rest = directive_file(rng, o);
  // shift the rest's intended line numbers by one; its leading comments are no longer leading
  let mut lines = b.lines.clone();
  for (l, c) in rest.intended_lines {
    lines.push((l + 1, c));
  }
  let body_src: String = rest.src.lines().filter(|l| !l.starts_with("#!")).map(|l| format!("{}\n", l)).collect();
  let body_neu: String = rest.neutral.lines().filter(|l| !l.starts_with("#!")).map(|l| format!("{}\n", l)).collect();
  if rest.src.starts_with("#!") || rest.src.contains("\r\n") {
    // keep it simple: no shebang / CRLF in this variant
    return DirFile { src: b.src.clone(), neutral: b.neu.clone(), features: feats, intended_file: None, intended_lines: b.lines };
  }
  let mut src = b.src.clone();
  src.push_str(&body_src);
  let mut neu = b.neu.clone();
  neu.push_str(&body_neu);
  feats.extend(rest.features);
  DirFile { src, neutral: neu, features: feats, intended_file: None, intended_lines: lines }
}

pub fn rule_subset(rng: &mut Rng) -> (Vec<String>, &'static str) {
  match rng.below(10) {
    0 => (crate::all_codes(), "all"),
    1 => (vec![], "empty"),
    2 => (ACC_CODES.iter().map(|s| s.to_string()).collect(), "only-accounting"),
    _ => {
      let mut v: Vec<String> = vec![];
      for c in BASE_CODES {
        if rng.chance(1, 2) {
          v.push(c.to_string());
        }
      }
      let mut kind = "subset";
      if rng.chance(1, 2) {
        v.push("ban-unused-ignore".into());
        kind = "subset+acc";
      }
      if rng.chance(1, 2) {
        v.push("ban-unknown-rule-code".into());
        kind = "subset+acc";
      }
      rng.shuffle(&mut v);
      (v, kind)
    }
  }
}
