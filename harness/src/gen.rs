//! input generators (all randomness from one `Rng`)
use crate::Rng;

/// Unicode White_Space characters that cannot end a line comment
pub const WS_INLINE: &[char] = &[' ', ' ', ' ', '\t', '\u{b}', '\u{c}', '\u{85}', '\u{a0}', '\u{1680}', '\u{2000}', '\u{2003}', '\u{200a}', '\u{202f}', '\u{205f}', '\u{3000}'];

pub fn pick_str(rng: &mut Rng, xs: &[&str]) -> String {
  xs[rng.below(xs.len())].to_string()
}

/// statement snippets, each known to trigger the named rule (when enabled); `ts` = needs TypeScript
pub const SNIPPETS: &[(&str, &str, bool)] = &[
  ("no-debugger", "debugger;", false),
  ("no-var", "var v$ = 1;", false),
  ("eqeqeq", "a$ == b$;", false),
  ("no-explicit-any", "let x$: any = 1;", true),
  ("no-empty", "if (c$) {}", false),
  ("no-eval", "eval(\"x\");", false),
  ("no-console", "console.log($);", false),
  ("prefer-const", "let p$ = 1;", false),
  ("no-constant-condition", "if (true) { f$(); }", false),
  ("no-debugger", "function g$() {\n  debugger;\n}", false),
  ("no-with", "  debugger; debugger;", false),
  ("no-sparse-arrays", "const s$ = [1,,2];", false),
  ("no-extra-boolean-cast", "if (!!q$) { h$(); }", false),
  ("no-debugger", "{ debugger }", false),
  ("no-empty", "try { t$(); } catch {}", false),
  ("no-unused-vars", "const u$ = 2;", false),
  ("no-inferrable-types", "const i$: number = 1;", true),
  ("", "ok$();", false),
  ("", "", false),
  ("", "/* block */ ok$();", false),
  ("no-debugger", "foo$(\n  1,\n  2); debugger;", false),
  ("no-debugger", "`a\nb`; debugger;", false),
];

pub const BASE_CODES: &[&str] = &[
  "no-debugger", "no-var", "eqeqeq", "no-explicit-any", "no-empty", "no-eval", "no-console", "prefer-const",
  "no-constant-condition", "no-sparse-arrays", "no-extra-boolean-cast", "no-unused-vars", "no-inferrable-types", "no-undef",
];
pub const UNKNOWN_CODES: &[&str] = &["foo-bar", "no-such-rule", "x", "no_debugger", "No-Debugger", "é-rule"];
pub const EXT_CODES: &[&str] = &["ext-a", "ext-b", "ext/c"];
pub const ACC_CODES: &[&str] = &["ban-unused-ignore", "ban-unknown-rule-code"];

#[derive(Clone, Debug)]
pub struct DirFile {
  pub src: String,
  pub neutral: String, // same text with every directive word neutralised in place (same length)
  pub features: Vec<&'static str>,
}

fn sep(rng: &mut Rng) -> String {
  match rng.below(8) {
    0 => ",".into(),
    1 => ", ".into(),
    2 => " , ".into(),
    3 => "  ".into(),
    4 => ",,".into(),
    5 => WS_INLINE[rng.below(WS_INLINE.len())].to_string(),
    _ => " ".into(),
  }
}

pub fn code_pool(rng: &mut Rng) -> String {
  match rng.below(20) {
    0..=10 => pick_str(rng, BASE_CODES),
    11..=12 => pick_str(rng, UNKNOWN_CODES),
    13..=14 => pick_str(rng, EXT_CODES),
    15..=16 => pick_str(rng, ACC_CODES),
    _ => pick_str(rng, &["no-with", "no-octal", "camelcase", "no-await-in-loop", "no-window"]),
  }
}

pub fn code_list(rng: &mut Rng, feats: &mut Vec<&'static str>) -> String {
  let n = match rng.below(10) {
    0 => 0,
    1..=5 => 1,
    6..=7 => 2,
    8 => 3,
    _ => 5,
  };
  let mut s = String::new();
  let mut codes: Vec<String> = vec![];
  for i in 0..n {
    let c = if i > 0 && rng.chance(1, 8) {
      feats.push("dup-code");
      codes[rng.below(codes.len())].clone()
    } else {
      code_pool(rng)
    };
    if i > 0 {
      s.push_str(&sep(rng));
    }
    s.push_str(&c);
    codes.push(c);
  }
  if rng.chance(1, 10) {
    s.push_str(&sep(rng));
    feats.push("trailing-sep");
  }
  s
}

pub fn reason(rng: &mut Rng, feats: &mut Vec<&'static str>) -> String {
  match rng.below(10) {
    0 => {
      feats.push("reason");
      " -- because".into()
    }
    1 => {
      feats.push("reason");
      "-- no-debugger".into()
    }
    2 => {
      feats.push("reason");
      format!("{}--{}x -- y", WS_INLINE[rng.below(WS_INLINE.len())], WS_INLINE[rng.below(WS_INLINE.len())])
    }
    3 => {
      feats.push("reason");
      " --".into()
    }
    4 => {
      feats.push("single-dash");
      " - no-var".into()
    }
    _ => "".into(),
  }
}

/// the same length, not a directive: first character of the word replaced
pub fn neutralise(word: &str) -> String {
  let mut cs: Vec<char> = word.chars().collect();
  if !cs.is_empty() {
    cs[0] = if cs[0] == 'X' { 'Y' } else { 'X' };
  }
  cs.into_iter().collect()
}

pub struct DirGenOpts<'a> {
  pub file_word: &'a str,
  pub line_word: &'a str,
  /// words that must *not* act (e.g. overridden defaults); used as decoys
  pub decoys: Vec<String>,
  pub ts: bool,
}

/// a file made of rule-triggering statements interleaved with directive comments
pub fn directive_file(rng: &mut Rng, o: &DirGenOpts) -> DirFile {
  let mut src = String::new();
  let mut neu = String::new();
  let mut feats: Vec<&'static str> = vec![];
  let mut n = 0usize;
  let nl = if rng.chance(1, 8) {
    feats.push("crlf");
    "\r\n"
  } else {
    "\n"
  };
  let mut push = |src: &mut String, neu: &mut String, a: &str, b: &str| {
    src.push_str(a);
    neu.push_str(b);
  };
  if rng.chance(1, 8) {
    feats.push("shebang");
    let l = format!("#!/usr/bin/env deno{}", nl);
    push(&mut src, &mut neu, &l, &l);
  }
  // leading comments
  let lead = rng.below(4);
  for _ in 0..lead {
    match rng.below(6) {
      0 => {
        let l = format!("// a leading comment{}", nl);
        push(&mut src, &mut neu, &l, &l);
      }
      1 => {
        let l = format!("/* leading block */{}", nl);
        push(&mut src, &mut neu, &l, &l);
      }
      2 => {
        // directive text inside a block comment: no effect
        feats.push("file-dir-in-block");
        let l = format!("/* {} */{}", o.file_word, nl);
        push(&mut src, &mut neu, &l, &l);
      }
      3 if !o.decoys.is_empty() => {
        feats.push("decoy-file");
        let w = &o.decoys[rng.below(o.decoys.len())];
        let l = format!("// {} {}{}", w, code_list(rng, &mut feats), nl);
        push(&mut src, &mut neu, &l, &l);
      }
      _ => {
        feats.push("file-dir");
        let ws1: String = (0..rng.below(3)).map(|_| WS_INLINE[rng.below(WS_INLINE.len())]).collect();
        let codes = if rng.chance(1, 6) {
          feats.push("file-dir-bare");
          String::new()
        } else {
          code_list(rng, &mut feats)
        };
        let gap = if codes.is_empty() { "" } else { " " };
        let r = reason(rng, &mut feats);
        let a = format!("//{}{}{}{}{}{}", ws1, o.file_word, gap, codes, r, nl);
        let b = format!("//{}{}{}{}{}{}", ws1, neutralise(o.file_word), gap, codes, r, nl);
        push(&mut src, &mut neu, &a, &b);
      }
    }
  }
  let stmts = rng.range(1, 12);
  for _ in 0..stmts {
    // maybe a directive line
    let r = rng.below(10);
    if r < 4 {
      feats.push("line-dir");
      let indent: String = (0..rng.below(3)).map(|_| ' ').collect();
      let ws1: String = (0..rng.below(2)).map(|_| WS_INLINE[rng.below(WS_INLINE.len())]).collect();
      let codes = code_list(rng, &mut feats);
      let rs = reason(rng, &mut feats);
      let a = format!("{}//{}{} {}{}{}", indent, ws1, o.line_word, codes, rs, nl);
      let b = format!("{}//{}{} {}{}{}", indent, ws1, neutralise(o.line_word), codes, rs, nl);
      push(&mut src, &mut neu, &a, &b);
      if rng.chance(1, 8) {
        feats.push("blank-after-dir");
        push(&mut src, &mut neu, nl, nl);
      }
      if rng.chance(1, 8) {
        feats.push("consecutive-dirs");
        let codes = code_list(rng, &mut feats);
        let a = format!("// {} {}{}", o.line_word, codes, nl);
        let b = format!("// {} {}{}", neutralise(o.line_word), codes, nl);
        push(&mut src, &mut neu, &a, &b);
      }
    } else if r == 4 {
      feats.push("late-file-dir");
      let l = format!("// {} {}{}", o.file_word, code_list(rng, &mut feats), nl);
      push(&mut src, &mut neu, &l, &l.replace(o.file_word, &neutralise(o.file_word)));
    } else if r == 5 {
      feats.push("dir-in-string");
      n += 1;
      let l = format!("const str{} = \"// {} no-debugger\"; `// {}`;{}", n, o.line_word, o.file_word, nl);
      push(&mut src, &mut neu, &l, &l);
    } else if r == 6 && !o.decoys.is_empty() {
      feats.push("decoy-line");
      let w = &o.decoys[rng.below(o.decoys.len())];
      let l = format!("// {} {}{}", w, code_list(rng, &mut feats), nl);
      push(&mut src, &mut neu, &l, &l);
    } else if r == 7 {
      feats.push("trailing-dir-same-line");
      // a directive comment at the end of a statement line: counts for the *next* line
      n += 1;
      let codes = code_list(rng, &mut feats);
      let a = format!("ok{}(); // {} {}{}", n, o.line_word, codes, nl);
      let b = format!("ok{}(); // {} {}{}", n, neutralise(o.line_word), codes, nl);
      push(&mut src, &mut neu, &a, &b);
    }
    // a statement
    loop {
      let (_code, text, ts) = SNIPPETS[rng.below(SNIPPETS.len())];
      if ts && !o.ts {
        continue;
      }
      n += 1;
      let t = text.replace('$', &n.to_string()).replace('\n', nl);
      push(&mut src, &mut neu, &t, &t);
      push(&mut src, &mut neu, nl, nl);
      break;
    }
  }
  if rng.chance(1, 10) {
    feats.push("dir-at-eof");
    let a = format!("// {} no-debugger", o.line_word);
    let b = format!("// {} no-debugger", neutralise(o.line_word));
    push(&mut src, &mut neu, &a, &b);
  }
  feats.sort();
  feats.dedup();
  DirFile { src, neutral: neu, features: feats }
}

pub fn rule_subset(rng: &mut Rng) -> (Vec<String>, &'static str) {
  match rng.below(10) {
    0 => (crate::all_codes(), "all"),
    1 => (vec![], "empty"),
    2 => (ACC_CODES.iter().map(|s| s.to_string()).collect(), "only-accounting"),
    _ => {
      let mut v: Vec<String> = vec![];
      for c in BASE_CODES {
        if rng.chance(1, 2) {
          v.push(c.to_string());
        }
      }
      let mut kind = "subset";
      if rng.chance(1, 2) {
        v.push("ban-unused-ignore".into());
        kind = "subset+acc";
      }
      if rng.chance(1, 2) {
        v.push("ban-unknown-rule-code".into());
        kind = "subset+acc";
      }
      rng.shuffle(&mut v);
      (v, kind)
    }
  }
}
