//! swc AST -> the CF model's syntax.  The dumper is a swc `Visit` with exactly the overrides of
//! `control_flow::Analyzer` (same `noop_visit_type!`), so that "what the default traversal reaches" is the same
//! tree for both.  Also queries the real metadata at every position that occurs in the dump.
use deno_ast::swc::ast::*;
use deno_ast::swc::ecma_visit::{noop_visit_type, Visit, VisitWith};
use deno_ast::swc::utils::{ExprCtx, ExprExt, Value as SwcValue};
use deno_ast::{SourceRangedForSpanned, StartSourcePos};
use deno_lint::context::Context;
use deno_lint::{Program, ProgramRef};
use serde_json::{json, Value};

struct Dump {
  kids: Vec<Value>,
  base: StartSourcePos,
  ectx: ExprCtx,
  positions: Vec<usize>,
}

fn id_str(i: &Ident) -> String {
  let (sym, ctxt) = i.to_id();
  format!("{}#{}", sym, ctxt.as_u32())
}

impl Dump {
  fn pos<T: SourceRangedForSpanned>(&mut self, n: &T) -> usize {
    let p = n.start().as_byte_index(self.base);
    self.positions.push(p);
    p
  }
  fn capture<F: FnOnce(&mut Dump)>(&mut self, f: F) -> Vec<Value> {
    let saved = std::mem::take(&mut self.kids);
    f(self);
    std::mem::replace(&mut self.kids, saved)
  }
  fn known_true(&self, e: &Expr) -> bool {
    // the analyzer's `is_always_true`: known to be true *and* free of side effects (`foo() || true` may throw)
    matches!(e.cast_to_bool(self.ectx), (deno_ast::swc::utils::Purity::Pure, SwcValue::Known(true)))
  }
  fn stmts(&mut self, ss: &[Stmt]) -> Vec<Value> {
    ss.iter().map(|s| self.stmt(s)).collect()
  }
  fn stmt(&mut self, s: &Stmt) -> Value {
    let p = self.pos(s);
    match s {
      Stmt::Block(b) => json!({"t": "block", "p": p, "body": self.stmts(&b.stmts)}),
      Stmt::Empty(_) => json!({"t": "simple", "p": p, "tag": "empty", "kids": []}),
      Stmt::If(n) => {
        let test = self.capture(|d| n.test.visit_with(d));
        let cons = self.stmt(&n.cons);
        let alt = n.alt.as_ref().map(|a| self.stmt(a));
        json!({"t": "if", "p": p, "test": test, "cons": cons, "alt": alt})
      }
      Stmt::While(n) => {
        let test = self.capture(|d| n.test.visit_with(d));
        let tt = self.known_true(&n.test);
        let body = self.stmt(&n.body);
        json!({"t": "while", "p": p, "test": test, "tt": tt, "body": body})
      }
      Stmt::DoWhile(n) => {
        let test = self.capture(|d| n.test.visit_with(d));
        let tt = self.known_true(&n.test);
        let body = self.stmt(&n.body);
        json!({"t": "dowhile", "p": p, "test": test, "tt": tt, "body": body})
      }
      Stmt::For(n) => {
        let init = self.capture(|d| n.init.visit_with(d));
        let update = self.capture(|d| n.update.visit_with(d));
        let test = self.capture(|d| n.test.visit_with(d));
        let tt = n.test.as_ref().map(|t| self.known_true(t)).unwrap_or(false);
        let body = self.stmt(&n.body);
        json!({"t": "for", "p": p, "init": init, "update": update, "test": test, "hasTest": n.test.is_some(), "tt": tt, "body": body})
      }
      Stmt::ForIn(n) => {
        let left = self.capture(|d| n.left.visit_with(d));
        let right = self.capture(|d| n.right.visit_with(d));
        let body = self.stmt(&n.body);
        json!({"t": "forinof", "p": p, "left": left, "right": right, "body": body})
      }
      Stmt::ForOf(n) => {
        let left = self.capture(|d| n.left.visit_with(d));
        let right = self.capture(|d| n.right.visit_with(d));
        let body = self.stmt(&n.body);
        json!({"t": "forinof", "p": p, "left": left, "right": right, "body": body})
      }
      Stmt::Switch(n) => {
        let disc = self.capture(|d| n.discriminant.visit_with(d));
        let cases: Vec<Value> = n
          .cases
          .iter()
          .map(|c| {
            let cp = self.pos(c);
            let test = self.capture(|d| c.test.visit_with(d));
            json!({"p": cp, "def": c.test.is_none(), "test": test, "body": self.stmts(&c.cons)})
          })
          .collect();
        json!({"t": "switch", "p": p, "disc": disc, "cases": cases})
      }
      Stmt::Try(n) => {
        let bp = self.pos(&n.block);
        let block = self.stmts(&n.block.stmts);
        let handler = n.handler.as_ref().map(|h| {
          let hp = self.pos(h);
          let kids = self.capture(|d| h.visit_children_with(d));
          json!({"p": hp, "kids": kids})
        });
        let fin = n.finalizer.as_ref().map(|f| {
          let fp = self.pos(f);
          json!({"p": fp, "body": self.stmts(&f.stmts)})
        });
        json!({"t": "try", "p": p, "bp": bp, "block": block, "handler": handler, "fin": fin})
      }
      Stmt::Labeled(n) => {
        let body = self.stmt(&n.body);
        json!({"t": "labeled", "p": p, "label": id_str(&n.label), "body": body})
      }
      Stmt::Break(n) => json!({"t": "break", "p": p, "label": n.label.as_ref().map(id_str)}),
      Stmt::Continue(n) => json!({"t": "continue", "p": p, "label": n.label.as_ref().map(id_str)}),
      Stmt::Return(n) => {
        let arg = self.capture(|d| n.visit_children_with(d));
        json!({"t": "return", "p": p, "arg": arg})
      }
      Stmt::Throw(n) => {
        let arg = self.capture(|d| n.visit_children_with(d));
        json!({"t": "throw", "p": p, "arg": arg})
      }
      other => {
        let tag = match other {
          Stmt::Decl(Decl::Fn(f)) => format!("fn:{}", id_str(&f.ident)),
          Stmt::Decl(Decl::Var(v)) if v.kind == VarDeclKind::Var && v.decls.iter().all(|d| d.init.is_none()) => "varnoinit".to_string(),
          Stmt::Decl(Decl::TsInterface(_)) | Stmt::Decl(Decl::TsTypeAlias(_)) | Stmt::Decl(Decl::TsModule(_)) => "ts".to_string(),
          Stmt::Decl(_) => "decl".to_string(),
          Stmt::Expr(_) => "expr".to_string(),
          _ => "other".to_string(),
        };
        let kids = self.capture(|d| other.visit_children_with(d));
        json!({"t": "simple", "p": p, "tag": tag, "kids": kids})
      }
    }
  }
  fn fn_scope<T: SourceRangedForSpanned + VisitWith<Dump>>(&mut self, n: &T) {
    let p = self.pos(n);
    let kids = self.capture(|d| n.visit_children_with(d));
    self.kids.push(json!({"k": "fn", "p": p, "kids": kids}));
  }
}

impl Visit for Dump {
  noop_visit_type!();

  fn visit_stmt(&mut self, s: &Stmt) {
    let v = self.stmt(s);
    self.kids.push(json!({"k": "stmt", "s": v}));
  }
  fn visit_block_stmt(&mut self, b: &BlockStmt) {
    let p = self.pos(b);
    let body = self.stmts(&b.stmts);
    self.kids.push(json!({"k": "block", "p": p, "body": body}));
  }
  fn visit_expr(&mut self, e: &Expr) {
    let kids = self.capture(|d| e.visit_children_with(d));
    let kind = match e {
      Expr::Ident(i) => format!("ident:{}", id_str(i)),
      Expr::This(_) => "this".to_string(),
      _ => "other".to_string(),
    };
    self.kids.push(json!({"k": "expr", "e": kind, "kids": kids}));
  }
  fn visit_member_expr(&mut self, n: &MemberExpr) {
    n.obj.visit_with(self);
    if let MemberProp::Computed(c) = &n.prop {
      c.visit_with(self);
    }
  }
  fn visit_arrow_expr(&mut self, n: &ArrowExpr) {
    self.fn_scope(n);
  }
  fn visit_function(&mut self, n: &Function) {
    self.fn_scope(n);
  }
  fn visit_constructor(&mut self, n: &Constructor) {
    self.fn_scope(n);
  }
  fn visit_getter_prop(&mut self, n: &GetterProp) {
    self.fn_scope(n);
  }
  fn visit_static_block(&mut self, n: &StaticBlock) {
    self.fn_scope(n);
  }
  fn visit_setter_prop(&mut self, n: &SetterProp) {
    self.fn_scope(n);
  }
}

fn canon_meta(dbg: &str) -> String {
  // Metadata { unreachable: false, end: Some(Forced { ret: true, throw: false, infinite_loop: false }) }
  let u = if dbg.contains("unreachable: true") { "u1" } else { "u0" };
  let e = if dbg.contains("end: None") {
    "-".to_string()
  } else if dbg.contains("Forced") {
    let b = |k: &str| if dbg.contains(&format!("{}: true", k)) { '1' } else { '0' };
    format!("F{}{}{}", b("ret"), b("throw"), b("infinite_loop"))
  } else if dbg.contains("Break") {
    "B".to_string()
  } else if dbg.contains("Continue") {
    "C".to_string()
  } else {
    format!("?{}", dbg)
  };
  format!("{} {}", u, e)
}

/// getters and switch cases with what the two rules look at besides the metadata
struct Extra<'a, 'v> {
  ctx: &'a Context<'v>,
  base: StartSourcePos,
  ectx: ExprCtx,
  getters: Vec<Value>,
  cases: Vec<Value>,
}
fn allow_ft<'c>(mut comments: impl Iterator<Item = &'c deno_ast::swc::common::comments::Comment>) -> bool {
  comments.any(|c| {
    let l = c.text.to_ascii_lowercase();
    l.contains("fallthrough") || l.contains("falls through") || l.contains("fall through")
  })
}
impl Extra<'_, '_> {
  fn body(&self, stmts: &[Stmt]) -> Vec<Value> {
    let mut d = Dump { kids: vec![], base: self.base, ectx: self.ectx, positions: vec![] };
    d.stmts(stmts)
  }
}
impl Visit for Extra<'_, '_> {
  noop_visit_type!();
  fn visit_class_method(&mut self, n: &ClassMethod) {
    if n.kind == MethodKind::Getter {
      if let Some(b) = &n.function.body {
        self.getters.push(json!({"at": n.start().as_byte_index(self.base), "bodyp": b.start().as_byte_index(self.base), "body": self.body(&b.stmts)}));
      }
    }
    n.visit_children_with(self);
  }
  fn visit_getter_prop(&mut self, n: &GetterProp) {
    if let Some(b) = &n.body {
      self.getters.push(json!({"at": n.start().as_byte_index(self.base), "bodyp": b.start().as_byte_index(self.base), "body": self.body(&b.stmts)}));
    }
    n.visit_children_with(self);
  }
  /// `Object.defineProperty(o, k, { …, get() { … }, … })`: the `get` member of the descriptor is a getter for
  /// getter-return, reported at the member (whatever other members the descriptor has, in whatever order)
  fn visit_call_expr(&mut self, n: &CallExpr) {
    let is_define = matches!(&n.callee, Callee::Expr(e) if matches!(&**e, Expr::Member(m)
      if matches!(&*m.obj, Expr::Ident(o) if &*o.sym == "Object") && matches!(&m.prop, MemberProp::Ident(p) if &*p.sym == "defineProperty")));
    if is_define && n.args.len() == 3 {
      if let Expr::Object(desc) = &*n.args[2].expr {
        for p in &desc.props {
          let PropOrSpread::Prop(p) = p else { continue };
          match &**p {
            Prop::Method(m) if matches!(&m.key, PropName::Ident(k) if &*k.sym == "get") && !m.function.is_generator => {
              if let Some(b) = &m.function.body {
                self.getters.push(json!({"at": p.start().as_byte_index(self.base), "bodyp": b.start().as_byte_index(self.base), "body": self.body(&b.stmts)}));
              }
            }
            Prop::KeyValue(kv) if matches!(&kv.key, PropName::Ident(k) if &*k.sym == "get") => {
              if let Expr::Fn(f) = &*kv.value {
                if let (false, Some(b)) = (f.function.is_generator, &f.function.body) {
                  self.getters.push(json!({"at": p.start().as_byte_index(self.base), "bodyp": b.start().as_byte_index(self.base), "body": self.body(&b.stmts)}));
                }
              }
            }
            _ => {}
          }
        }
      }
    }
    n.visit_children_with(self);
  }
  fn visit_switch_stmt(&mut self, n: &SwitchStmt) {
    for (i, c) in n.cases.iter().enumerate() {
      if i + 1 == n.cases.len() {
        break;
      }
      let next = &n.cases[i + 1];
      let mut ft = allow_ft(self.ctx.leading_comments_at(next.start()));
      if let Some(last) = c.cons.last() {
        ft = ft || allow_ft(self.ctx.trailing_comments_at(last.end()));
      }
      let empty = c.cons.is_empty() || matches!(c.cons.as_slice(), [Stmt::Block(b)] if b.stmts.is_empty());
      self.cases.push(json!({"p": c.start().as_byte_index(self.base), "body": self.body(&c.cons), "empty": empty, "ft": ft}));
    }
    n.visit_children_with(self);
  }
}

/// returns {"prog": <model syntax>, "query": [positions], "meta": {pos: canonical metadata}, "getters", "cases"}
pub fn dump<'v>(ctx: &Context<'v>, program: Program<'v>) -> Value {
  let base = ctx.text_info().range().start;
  let ectx = ExprCtx { unresolved_ctxt: ctx.parsed_source().unresolved_context(), is_unresolved_ref_safe: false, in_strict: true, remaining_depth: 4 };
  let mut d = Dump { kids: vec![], base, ectx, positions: vec![] };
  let (is_module, items): (bool, Vec<Value>) = match deno_lint::rules::program_ref(program) {
    ProgramRef::Module(m) => (
      true,
      m.body
        .iter()
        .map(|it| match it {
          ModuleItem::Stmt(s) => json!({"i": "stmt", "s": d.stmt(s)}),
          ModuleItem::ModuleDecl(md) => {
            let kids = d.capture(|dd| md.visit_children_with(dd));
            json!({"i": "decl", "kids": kids})
          }
        })
        .collect(),
    ),
    ProgramRef::Script(s) => (false, s.body.iter().map(|st| json!({"i": "stmt", "s": d.stmt(st)})).collect()),
  };
  let mut q = d.positions.clone();
  q.sort();
  q.dedup();
  let mut meta = serde_json::Map::new();
  for p in &q {
    let m = ctx.control_flow().meta(base + *p);
    meta.insert(p.to_string(), json!(m.map(|m| canon_meta(&format!("{:?}", m))).unwrap_or_else(|| "absent".to_string())));
  }
  let mut ex = Extra { ctx, base, ectx, getters: vec![], cases: vec![] };
  match deno_lint::rules::program_ref(program) {
    ProgramRef::Module(m) => m.visit_with(&mut ex),
    ProgramRef::Script(s) => s.visit_with(&mut ex),
  }
  json!({"prog": {"module": is_module, "items": items}, "query": q, "meta": meta, "getters": ex.getters, "cases": ex.cases})
}
