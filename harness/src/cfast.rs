//! swc AST -> the CF model's syntax (filled in with the M-CF model)
use deno_lint::context::Context;
use deno_lint::Program;
use serde_json::Value;

pub fn dump<'v>(_ctx: &Context<'v>, _program: Program<'v>) -> Value {
  Value::Null
}
