//! Shared pieces of the correspondence / search harness: PRNG, linter construction, canonical
//! diagnostics, the spy rule (an *external* `LintRule` that reads the public `Context` API).
#![allow(clippy::all)]

use deno_ast::swc::ast as swc;
use deno_ast::swc::common::comments::CommentKind;
use deno_ast::swc::ecma_visit::{Visit, VisitWith};
use deno_ast::{MediaType, ModuleSpecifier, SourceRange, SourceRanged, SourceRangedForSpanned};
use deno_lint::context::Context;
use deno_lint::diagnostic::*;
use deno_lint::linter::*;
use deno_lint::rules::*;
use deno_lint::{Program, ProgramRef};
use serde_json::{json, Value};
use std::borrow::Cow;
use std::collections::HashSet;
use std::panic::{catch_unwind, AssertUnwindSafe};
use std::sync::{Arc, Mutex};

pub mod gen;
pub mod cfast;

// ---------------------------------------------------------------------------------------------
// PRNG: every random choice of a run derives from one state
#[derive(Clone)]
pub struct Rng(pub u64);
impl Rng {
  pub fn new(seed: u64) -> Self {
    let mut r = Rng(seed ^ 0x9E37_79B9_7F4A_7C15);
    r.next();
    r
  }
  pub fn next(&mut self) -> u64 {
    // splitmix64
    self.0 = self.0.wrapping_add(0x9E37_79B9_7F4A_7C15);
    let mut z = self.0;
    z = (z ^ (z >> 30)).wrapping_mul(0xBF58_476D_1CE4_E5B9);
    z = (z ^ (z >> 27)).wrapping_mul(0x94D0_49BB_1331_11EB);
    z ^ (z >> 31)
  }
  pub fn below(&mut self, n: usize) -> usize {
    if n == 0 {
      0
    } else {
      (self.next() % n as u64) as usize
    }
  }
  pub fn range(&mut self, lo: usize, hi: usize) -> usize {
    lo + self.below(hi - lo + 1)
  }
  pub fn chance(&mut self, num: usize, den: usize) -> bool {
    self.below(den) < num
  }
  pub fn pick<'a, T>(&mut self, xs: &'a [T]) -> &'a T {
    &xs[self.below(xs.len())]
  }
  pub fn shuffle<T>(&mut self, xs: &mut Vec<T>) {
    for i in (1..xs.len()).rev() {
      let j = self.below(i + 1);
      xs.swap(i, j);
    }
  }
  pub fn fork(&mut self) -> Rng {
    Rng::new(self.next())
  }
}

// ---------------------------------------------------------------------------------------------
// canonical diagnostics
#[derive(Clone, Debug, PartialEq, Eq, PartialOrd, Ord, Hash)]
pub struct D {
  pub start: Option<usize>,
  pub end: Option<usize>,
  pub code: String,
  pub msg: String,
  pub hint: Option<String>,
  pub fixes: Vec<(String, Vec<(usize, usize, String)>)>,
}

impl D {
  pub fn json(&self) -> Value {
    json!({"start": self.start, "end": self.end, "code": self.code, "msg": self.msg, "hint": self.hint,
      "fixes": self.fixes.iter().map(|(d, ch)| json!({"desc": d, "changes": ch.iter().map(|(a,b,t)| json!([a,b,t])).collect::<Vec<_>>() })).collect::<Vec<_>>()})
  }
  pub fn shift(&self, k: isize) -> D {
    let s = |x: usize| (x as isize + k) as usize;
    D {
      start: self.start.map(s),
      end: self.end.map(s),
      code: self.code.clone(),
      msg: self.msg.clone(),
      hint: self.hint.clone(),
      fixes: self
        .fixes
        .iter()
        .map(|(d, ch)| (d.clone(), ch.iter().map(|(a, b, t)| (s(*a), s(*b), t.clone())).collect()))
        .collect(),
    }
  }
}

pub fn conv(d: &LintDiagnostic) -> D {
  let (s, e, base) = match &d.range {
    Some(r) => {
      let b = r.text_info.range().start;
      (Some(r.range.start.as_byte_index(b)), Some(r.range.end.as_byte_index(b)), Some(b))
    }
    None => (None, None, None),
  };
  let fixes = d
    .details
    .fixes
    .iter()
    .map(|f| {
      (
        f.description.to_string(),
        f.changes
          .iter()
          .map(|c| match base {
            Some(b) => (c.range.start.as_byte_index(b), c.range.end.as_byte_index(b), c.new_text.to_string()),
            None => (usize::MAX, usize::MAX, c.new_text.to_string()),
          })
          .collect(),
      )
    })
    .collect();
  D { start: s, end: e, code: d.details.code.clone(), msg: d.details.message.clone(), hint: d.details.hint.clone(), fixes }
}
pub fn conv_all(ds: &[LintDiagnostic]) -> Vec<D> {
  ds.iter().map(conv).collect()
}

// ---------------------------------------------------------------------------------------------
// linter construction
pub fn all_codes() -> Vec<String> {
  get_all_rules().iter().map(|r| r.code().to_string()).collect()
}
pub fn all_codes_set() -> HashSet<Cow<'static, str>> {
  get_all_rules().iter().map(|r| Cow::from(r.code())).collect()
}
pub fn rules_by_codes(codes: &[String]) -> Vec<Box<dyn LintRule>> {
  // keeps the order of `codes` (unknown codes are dropped)
  let mut out = vec![];
  for c in codes {
    for r in get_all_rules() {
      if r.code() == c {
        out.push(r);
      }
    }
  }
  out
}

#[derive(Clone, Default)]
pub struct Words {
  pub file: Option<&'static str>,
  pub line: Option<&'static str>,
}
pub fn leak(s: &str) -> &'static str {
  Box::leak(s.to_string().into_boxed_str())
}

pub fn mk_linter(rules: Vec<Box<dyn LintRule>>, words: &Words) -> Linter {
  Linter::new(LinterOptions {
    rules,
    all_rule_codes: all_codes_set(),
    custom_ignore_file_directive: words.file,
    custom_ignore_diagnostic_directive: words.line,
  })
}

pub fn spec_for(ext: &str) -> ModuleSpecifier {
  ModuleSpecifier::parse(&format!("file:///t.{}", ext)).unwrap()
}

pub enum Outcome {
  Ok(Vec<D>),
  ParseErr(String),
  Panic(String),
}
impl Outcome {
  pub fn ok(&self) -> Option<&Vec<D>> {
    match self {
      Outcome::Ok(d) => Some(d),
      _ => None,
    }
  }
  pub fn tag(&self) -> &'static str {
    match self {
      Outcome::Ok(_) => "ok",
      Outcome::ParseErr(_) => "parse-err",
      Outcome::Panic(_) => "panic",
    }
  }
}

pub fn panic_msg(e: Box<dyn std::any::Any + Send>) -> String {
  e.downcast_ref::<String>().cloned().or_else(|| e.downcast_ref::<&str>().map(|s| s.to_string())).unwrap_or_else(|| "<non-string panic>".into())
}

#[derive(Clone, Default)]
pub struct Cfg {
  pub jsx_factory: Option<String>,
  pub jsx_fragment_factory: Option<String>,
}

pub fn lint_with(l: &Linter, src: &str, ext: &str, cfg: &Cfg, external: Option<ExternalLinterCb>) -> Outcome {
  let spec = spec_for(ext);
  let mt = MediaType::from_specifier(&spec);
  let r = catch_unwind(AssertUnwindSafe(|| {
    l.lint_file(LintFileOptions {
      specifier: spec.clone(),
      source_code: src.to_string(),
      media_type: mt,
      config: LintConfig { default_jsx_factory: cfg.jsx_factory.clone(), default_jsx_fragment_factory: cfg.jsx_fragment_factory.clone() },
      external_linter: external,
    })
  }));
  match r {
    Ok(Ok((_p, ds))) => Outcome::Ok(conv_all(&ds)),
    Ok(Err(e)) => Outcome::ParseErr(e.to_string()),
    Err(e) => Outcome::Panic(panic_msg(e)),
  }
}
pub fn lint(l: &Linter, src: &str, ext: &str) -> Outcome {
  lint_with(l, src, ext, &Cfg::default(), None)
}

pub fn quiet_panics() {
  std::panic::set_hook(Box::new(|_| {}));
}

// ---------------------------------------------------------------------------------------------
// the spy rule
#[derive(Clone, Debug, Default)]
pub struct SpyDir {
  pub start: usize,
  pub line: usize,
  pub codes: Vec<String>, // in HashMap iteration order
}
#[derive(Clone, Debug)]
pub struct SpyComment {
  pub line_kind: bool,
  pub text: String,
  pub start: usize,
  pub line: usize,
}
#[derive(Clone, Debug, Default)]
pub struct SpyLog {
  pub ran: bool,
  pub raw: Vec<(String, Option<(usize, usize)>, D)>, // (code, (start,line), canonical)
  pub file_dir: Option<SpyDir>,
  pub line_dirs: Vec<(usize, SpyDir)>, // iteration order
  pub all_comments: Vec<SpyComment>,
  pub initial_comments: Vec<SpyComment>,
  pub cf: Option<Value>, // program in the CF model's syntax + metadata dump
  pub want_cf: bool,
}

#[derive(Debug)]
pub struct Spy(pub Arc<Mutex<SpyLog>>);

impl LintRule for Spy {
  fn code(&self) -> &'static str {
    "zzz-spy"
  }
  fn priority(&self) -> u32 {
    u32::MAX
  }
  fn tags(&self) -> deno_lint::tags::Tags {
    &[]
  }
  fn lint_program_with_ast_view<'v>(&self, ctx: &mut Context<'v>, program: Program<'v>) {
    let mut log = self.0.lock().unwrap();
    log.ran = true;
    let ti = ctx.text_info().clone();
    let base = ti.range().start;
    log.raw = ctx
      .diagnostics()
      .iter()
      .map(|d| {
        let pos = d.range.as_ref().map(|r| (r.range.start.as_byte_index(r.text_info.range().start), r.text_info.line_index(r.range.start)));
        (d.details.code.clone(), pos, conv(d))
      })
      .collect();
    log.file_dir = ctx.file_ignore_directive().map(|f| SpyDir {
      start: f.range().start.as_byte_index(base),
      line: ti.line_index(f.range().start),
      codes: f.codes().into_iter().map(|(k, _)| k.clone()).collect(),
    });
    log.line_dirs = ctx
      .line_ignore_directives()
      .iter()
      .map(|(l, d)| (*l, SpyDir { start: d.range().start.as_byte_index(base), line: ti.line_index(d.range().start), codes: d.codes().into_iter().map(|(k, _)| k.clone()).collect() }))
      .collect();
    let mk = |c: &deno_ast::swc::common::comments::Comment| SpyComment {
      line_kind: c.kind == CommentKind::Line,
      text: c.text.to_string(),
      start: c.range().start.as_byte_index(base),
      line: ti.line_index(c.range().start),
    };
    log.all_comments = ctx.all_comments().map(mk).collect();
    // the file's leading comments, by their meaning (not by the implementation's case analysis): every comment that
    // starts before the first token of the program, the shebang aside
    {
      use deno_ast::swc::parser::token::Token;
      use deno_ast::RootNode;
      let first_token = program.token_container().tokens.iter().find(|t| !matches!(t.token, Token::Shebang(_))).map(|t| t.start());
      let mut v: Vec<SpyComment> = ctx.all_comments().filter(|c| first_token.map_or(true, |ft| c.range().start < ft)).map(mk).collect();
      v.sort_by_key(|c| c.start);
      log.initial_comments = v;
    }
    if log.want_cf {
      log.cf = Some(cfast::dump(ctx, program));
    }
  }
}

/// a caller-owned rule that carries one built-in tag (or none) and only records that it ran
#[derive(Debug)]
pub struct TagProbe {
  pub code: &'static str,
  pub tags: deno_lint::tags::Tags,
  pub priority: u32,
  pub ran: Arc<std::sync::atomic::AtomicUsize>,
}
impl LintRule for TagProbe {
  fn code(&self) -> &'static str {
    self.code
  }
  fn priority(&self) -> u32 {
    self.priority
  }
  fn tags(&self) -> deno_lint::tags::Tags {
    self.tags
  }
  fn lint_program_with_ast_view<'v>(&self, _ctx: &mut Context<'v>, _program: Program<'v>) {
    self.ran.fetch_add(1, std::sync::atomic::Ordering::SeqCst);
  }
}
/// one probe per tag (and one without a tag), with their run counters
pub fn tag_probes() -> Vec<(Box<dyn LintRule>, &'static str, Arc<std::sync::atomic::AtomicUsize>)> {
  use deno_lint::tags::*;
  let specs: [(&'static str, Tags, u32); 6] = [
    ("zzp-untagged", &[], 0),
    ("zzp-recommended", &[RECOMMENDED], 0),
    ("zzp-jsx", &[JSX], 0),
    ("zzp-react", &[REACT], 7),
    ("zzp-fresh", &[FRESH], 0),
    ("zzp-jsr-jsx", &[JSR, JSX], u32::MAX - 5),
  ];
  specs
    .into_iter()
    .map(|(code, tags, priority)| {
      let ran = Arc::new(std::sync::atomic::AtomicUsize::new(0));
      (Box::new(TagProbe { code, tags, priority, ran: ran.clone() }) as Box<dyn LintRule>, code, ran)
    })
    .collect()
}

pub fn with_spy(mut rules: Vec<Box<dyn LintRule>>, want_cf: bool) -> (Vec<Box<dyn LintRule>>, Arc<Mutex<SpyLog>>) {
  let log = Arc::new(Mutex::new(SpyLog { want_cf, ..Default::default() }));
  rules.push(Box::new(Spy(log.clone())));
  (rules, log)
}

// ---------------------------------------------------------------------------------------------
// external linter callbacks built from data
#[derive(Clone, Debug)]
pub struct ExtSpec {
  pub diags: Vec<(String, Option<(usize, usize)>, String)>, // code, range, message
  pub codes: Vec<String>,
}

pub fn ext_cb(spec: Option<ExtSpec>) -> ExternalLinterCb {
  Arc::new(move |ps: deno_ast::ParsedSource| {
    let spec = spec.clone()?;
    let ti = ps.text_info_lazy().clone();
    let diags = spec
      .diags
      .iter()
      .map(|(code, range, msg)| LintDiagnostic {
        specifier: ps.specifier().clone(),
        range: range.map(|(a, b)| LintDiagnosticRange { range: SourceRange::new(ti.range().start + a, ti.range().start + b), text_info: ti.clone(), description: None }),
        details: LintDiagnosticDetails { message: msg.clone(), code: code.clone(), hint: None, fixes: vec![], custom_docs_url: LintDocsUrl::Default, info: vec![] },
      })
      .collect();
    Some(ExternalLinterResult { diagnostics: diags, rules: spec.codes.iter().map(|c| Cow::Owned(c.clone())).collect() })
  })
}

pub fn program_ref_of<'a>(p: Program<'a>) -> ProgramRef<'a> {
  program_ref(p)
}

/// all statements / switch cases of a program (used by several drivers)
pub struct StmtCollector<'a>(pub &'a mut Vec<(usize, usize, String)>, pub deno_ast::StartSourcePos);
impl Visit for StmtCollector<'_> {
  fn visit_stmt(&mut self, s: &swc::Stmt) {
    self.0.push((s.start().as_byte_index(self.1), s.end().as_byte_index(self.1), "stmt".into()));
    s.visit_children_with(self);
  }
}
