"""Shared machinery of /verif/check: build, translate, prove+audit, correspond, search, report."""
import fcntl, hashlib, json, os, re, subprocess, sys, time

VERIF = os.path.dirname(os.path.abspath(__file__))
REPO = os.environ.get("VERIF_REPO", "/repo")
BUILD = os.path.join(VERIF, "build")
LEAN = os.path.join(VERIF, "lean")
HARNESS = os.path.join(VERIF, "harness")
BIN = os.path.join(BUILD, "target", "release")
DLMODEL = os.path.join(LEAN, ".lake", "build", "bin", "dlmodel")
ALLOWED_AXIOMS = {"propext", "Classical.choice", "Quot.sound"}
ENV = dict(os.environ, CARGO_NET_OFFLINE="true", CARGO_TERM_COLOR="never")

TRUSTED_BASE = [
    "Lean 4.33 kernel (theorems re-checked by `lake build`; leanchecker in the thorough tier)",
    "axioms permitted in property theorems: propext, Classical.choice, Quot.sound (audited by #print axioms on every run); no native_decide/bv_decide/sorry/own axioms",
    "hand-written Lean models tied to /repo only by the correspondence runs of this check (differential testing on generated inputs) and by the translator tables regenerated from /repo on every run",
    "harness (Rust, /verif/harness): spy rule reading the public Context API, generators, canonicalisation, syn-based translator",
    "not modelled, taken as parameters: swc parser/spans/comment attachment, deno_ast::Scope, SourceTextInfo, HashMap iteration order (explicit permutation), Rust's stable sort (modelled by List.mergeSort), regex crate",
]


class Lock:
    def __enter__(self):
        os.makedirs(BUILD, exist_ok=True)
        self.f = open(os.path.join(BUILD, ".lock"), "w")
        fcntl.flock(self.f, fcntl.LOCK_EX)
        return self

    def __exit__(self, *a):
        fcntl.flock(self.f, fcntl.LOCK_UN)
        self.f.close()


def sh(cmd, cwd=None, timeout=3600, env=None):
    p = subprocess.run(cmd, cwd=cwd, shell=isinstance(cmd, str), stdout=subprocess.PIPE, stderr=subprocess.STDOUT,
                       timeout=timeout, env=env or ENV, text=True, errors="replace")
    return p.returncode, p.stdout


class Obligation:
    """one thing the check needs to hold: a theorem (T), a correspondence (K), a table (G), or a search oracle (S)"""

    def __init__(self, kind, name, ok, detail=""):
        self.kind, self.name, self.ok, self.detail = kind, name, ok, detail

    def json(self):
        return {"kind": self.kind, "name": self.name, "ok": self.ok, "detail": self.detail[:2000]}


def build_harness():
    """rebuild the harness against /repo's current working tree"""
    t = time.time()
    rc, out = sh(["cargo", "build", "--release", "--offline"], cwd=HARNESS, timeout=3000)
    return rc == 0, out[-6000:], time.time() - t


def translate():
    rc, out = sh([os.path.join(BIN, "translate"), os.path.join(LEAN, "DL", "Gen"), REPO], timeout=600)
    rc2, out2 = sh([os.path.join(BIN, "translate2"), os.path.join(LEAN, "DL", "Gen"), REPO], timeout=600)
    return rc == 0 and rc2 == 0, (out + out2)[-4000:]


def lake_build(targets):
    rc, out = sh(["lake", "build"] + targets, cwd=LEAN, timeout=3000)
    return rc == 0, out[-8000:]


def strip_comments(src):
    # remove /- ... -/ (nested) and -- ... comments
    out, i, depth = [], 0, 0
    n = len(src)
    while i < n:
        if src.startswith("/-", i):
            depth += 1
            i += 2
        elif depth and src.startswith("-/", i):
            depth -= 1
            i += 2
        elif depth:
            i += 1
        elif src.startswith("--", i):
            while i < n and src[i] != "\n":
                i += 1
        else:
            out.append(src[i])
            i += 1
    return "".join(out)


FORBIDDEN = re.compile(r"\bsorry\b|\badmit\b|^\s*axiom\s|\bnative_decide\b|\bbv_decide\b|\bimplemented_by\b|\bunsafe\s|maxHeartbeats\s+0\b", re.M)


def forbidden_tokens():
    hits = []
    for root, _, files in os.walk(os.path.join(LEAN, "DL")):
        for f in files:
            if f.endswith(".lean"):
                p = os.path.join(root, f)
                s = strip_comments(open(p, encoding="utf-8").read())
                for m in FORBIDDEN.finditer(s):
                    hits.append(f"{os.path.relpath(p, LEAN)}: {m.group(0).strip()}")
    return hits


def theorem_names(props_file):
    src = strip_comments(open(props_file, encoding="utf-8").read())
    ns = []
    names = []
    for line in src.splitlines():
        m = re.match(r"\s*namespace\s+(\S+)", line)
        if m:
            ns.append(m.group(1))
            continue
        m = re.match(r"\s*end\s+(\S+)\s*$", line)
        if m and ns and ns[-1].split(".")[-1] == m.group(1).split(".")[-1]:
            ns.pop()
            continue
        m = re.match(r"\s*(?:private\s+|protected\s+)?theorem\s+([^\s:({\[]+)", line)
        if m:
            names.append(".".join(ns + [m.group(1)]))
    return names


def audit(prop_modules):
    """#print axioms for every theorem of the given Props modules; returns list of Obligation"""
    obs = []
    names = []
    for mod in prop_modules:
        path = os.path.join(LEAN, *mod.split(".")) + ".lean"
        names += [(mod, n) for n in theorem_names(path)]
    os.makedirs(os.path.join(BUILD, "audit"), exist_ok=True)
    tag = hashlib.sha1(" ".join(prop_modules).encode()).hexdigest()[:10]
    apath = os.path.join(BUILD, "audit", f"Audit_{tag}.lean")
    with open(apath, "w") as f:
        for mod in prop_modules:
            f.write(f"import {mod}\n")
        for _, n in names:
            f.write(f"#print axioms {n}\n")
    rc, out = sh(["lake", "env", "lean", apath], cwd=LEAN, timeout=1800)
    # parse: "'name' depends on axioms: [a, b]" or "'name' does not depend on any axioms"
    found = {}
    # (names may end in primes: `foo'` is printed as 'foo'')
    for m in re.finditer(r"(?m)^(?:info: [^\n]*?: )?'([^\n]+)' depends on axioms: \[([^\]]*)\]", out):
        found[m.group(1)] = {a.strip() for a in m.group(2).replace("\n", " ").split(",") if a.strip()}
    for m in re.finditer(r"(?m)^(?:info: [^\n]*?: )?'([^\n]+)' does not depend on any axioms", out):
        found[m.group(1)] = set()
    for mod, n in names:
        if n not in found:
            obs.append(Obligation("T", n, False, "theorem not found by #print axioms (does not compile?)\n" + out[-1500:]))
        else:
            bad = found[n] - ALLOWED_AXIOMS
            obs.append(Obligation("T", n, not bad, "axioms: " + ", ".join(sorted(found[n]))))
    return obs


def run_drive(sub, seed, count, outdir, opts=None, timeout=3000):
    cmd = [os.path.join(BIN, "drive"), sub, "--seed", str(seed), "--count", str(count), "--out", outdir]
    for k, v in (opts or {}).items():
        cmd += ["--opt", f"{k}={v}"]
    rc, out = sh(cmd, timeout=timeout)
    return rc == 0, out[-4000:]


def run_model(outdir, sub, timeout=3000):
    req = os.path.join(outdir, f"{sub}.req.jsonl")
    mod = os.path.join(outdir, f"{sub}.model.jsonl")
    with open(req, "rb") as fi, open(mod, "wb") as fo:
        p = subprocess.run([DLMODEL], stdin=fi, stdout=fo, stderr=subprocess.PIPE, timeout=timeout)
    return p.returncode == 0, p.stderr.decode(errors="replace")[-2000:]


def load_jsonl(path):
    out = []
    if not os.path.exists(path):
        return out
    with open(path, encoding="utf-8") as f:
        for line in f:
            line = line.strip()
            if line:
                out.append(json.loads(line))
    return out


def canon(v):
    return json.dumps(v, sort_keys=True, ensure_ascii=False)


def compare(outdir, sub):
    imp = load_jsonl(os.path.join(outdir, f"{sub}.impl.jsonl"))
    mod = load_jsonl(os.path.join(outdir, f"{sub}.model.jsonl"))
    meta = load_jsonl(os.path.join(outdir, f"{sub}.meta.jsonl"))
    req = load_jsonl(os.path.join(outdir, f"{sub}.req.jsonl"))
    mism = []
    oracle = []
    for i in range(max(len(imp), len(mod))):
        a = imp[i] if i < len(imp) else "<missing>"
        b = mod[i] if i < len(mod) else "<missing>"
        if isinstance(b, dict) and "oracle" in b:
            # verdicts of the model's reference semantics about what the *implementation* reported
            for o in b.pop("oracle"):
                oracle.append({"property": o[0], "kind": o[1], "key": str(o[2:]), "detail": {"position": o[2:], "meta": meta[i] if i < len(meta) else None}})
        if canon(a) != canon(b):
            mism.append({"index": i, "impl": a, "model": b, "meta": meta[i] if i < len(meta) else None, "request": req[i] if i < len(req) else None})
    distinct = len({canon(r) for r in req})
    nontrivial = len({canon(r) for r, a in zip(req, imp) if a not in ([], None, {}, "")})
    return {"cases": len(imp), "mismatches": mism, "oracle": oracle, "distinct_requests": distinct, "distinct_nontrivial": nontrivial,
            "samples": [{"request": req[i], "impl": imp[i]} for i in range(min(2, len(req)))]}


def load_known():
    p = os.path.join(VERIF, "known_findings.json")
    if not os.path.exists(p):
        return {"findings": [], "fixed": []}
    return json.load(open(p))


def finding_matches(entry, prop, item):
    """an entry matches a search failure when property, kind and (if given) every `match` regex agree"""
    if entry.get("property") != prop:
        return False
    if "kind" in entry and entry["kind"] != item.get("kind"):
        return False
    text = canon(item)
    for rx in entry.get("match", []):
        if not re.search(rx, text):
            return False
    for rx in entry.get("not_match", []):
        if re.search(rx, text):
            return False
    return True


def write_replay(prop, payload):
    d = os.path.join(VERIF, "evidence", "replay")
    os.makedirs(d, exist_ok=True)
    h = hashlib.sha1(canon(payload).encode()).hexdigest()[:12]
    p = os.path.join(d, f"{prop}-{h}.json")
    with open(p, "w", encoding="utf-8") as f:
        json.dump(payload, f, indent=1, ensure_ascii=False)
    return p


def write_evidence(prop, tier, seed, coverage, assumptions, wall, violations):
    os.makedirs(os.path.join(VERIF, "evidence"), exist_ok=True)
    ev = {"property_id": prop, "tier": tier, "seed": seed, "level": "proof", "coverage": coverage,
          "assumptions": assumptions, "wall_s": round(wall, 2), "violations": violations}
    with open(os.path.join(VERIF, "evidence", f"{prop}.json"), "w", encoding="utf-8") as f:
        json.dump(ev, f, indent=1, ensure_ascii=False)
