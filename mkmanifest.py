#!/usr/bin/env python3
import json, os, sys
sys.path.insert(0, os.path.dirname(os.path.abspath(__file__)))
from props import PROPS, NOT_APPLICABLE

checks = []
for pid in sorted(PROPS):
    c = PROPS[pid]
    checks.append({
        "property_id": pid,
        "quick_cmd": f"./check {pid} --tier quick",
        "thorough_cmd": f"./check {pid} --tier thorough",
        "evidence_file": f"/verif/evidence/{pid}.json",
        "replay_cmd_template": f"./check {pid} --tier quick --replay {{path}}",
        "engine": "lean4+correspondence",
        "level_claimed": {"category": "proof", "text": c["level_text"], "design_ref": c.get("design_ref", "")},
        "level_note": c["level_note"],
        "technique": c["technique"],
    })
m = {
    "version": 1,
    "setup_cmd": "./setup.sh",
    "hooks": {
        "guard": "none (no hooks: everything is observed through the public API by an external LintRule in /verif/harness)",
        "enable": "not applicable - the harness links /repo as an unmodified path dependency",
        "baseline_off_cmd": "cd /repo && cargo nextest run --workspace --no-fail-fast --tool-config-file pb:/w/lib/nextest.toml --profile pb --test-threads 8 --offline || cargo test --workspace --no-fail-fast --offline",
        "source_commits": [],
        "add_only": True,
    },
    "engines": [
        {"name": "lean4+correspondence", "path": "/verif/lean, /verif/harness, /verif/check",
         "serves_properties": sorted(PROPS),
         "kind_free_text": "Lean 4.33 proofs over hand-written executable models (lean/DL/Model, lean/DL/Props) + translator tables regenerated from /repo (lean/DL/Gen) + correspondence runs: Rust harness drives the real code and the compiled Lean model (dlmodel) on the same generated inputs"}
    ],
    "checks": checks,
    "not_applicable": NOT_APPLICABLE,
    "notes": "fix: commits made in /repo for genuine defects are listed in /verif/known_findings.json (fixed) and DESIGN.md §7.",
}
json.dump(m, open(os.path.join(os.path.dirname(os.path.abspath(__file__)), "MANIFEST.json"), "w"), indent=1)
print("checks:", [c["property_id"] for c in checks], "not_applicable:", [n["property_id"] for n in NOT_APPLICABLE])
