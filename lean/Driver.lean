import Lean.Data.Json
import DL.Model.Dir
import DL.Model.Pipe
import DL.Model.Sel
import DL.Gen.RuleTable
import DL.Model.CFJson
import DL.Model.CFRules
import DL.Model.RegexJson
import DL.Model.ScopeJson
import DL.Model.Scope2Json
import DL.Model.FixBuild
import DL.Model.Txt
import DL.Model.VmsJson
import DL.Model.FixSmall
import DL.Model.Ws
import DL.Model.ImportFixJson
import DL.Model.FixRestJson

/-! `dlmodel`: one JSON request per line on stdin, one JSON answer per line on stdout. -/
open Lean (Json)

namespace Drv

def getStr (j : Json) (k : String) : Except String String := do (← j.getObjVal? k).getStr?
def getNat (j : Json) (k : String) : Except String Nat := do (← j.getObjVal? k).getNat?
def getArr (j : Json) (k : String) : Except String (Array Json) := do (← j.getObjVal? k).getArr?
def getOpt (j : Json) (k : String) : Option Json :=
  match j.getObjVal? k with
  | .ok .null => none
  | .ok v => some v
  | .error _ => none
def strList (a : Array Json) : Except String (List String) := a.toList.mapM (·.getStr?)
def getStrList (j : Json) (k : String) : Except String (List String) := do strList (← getArr j k)
def getOptStrList (j : Json) (k : String) : Except String (Option (List String)) :=
  match getOpt j k with
  | none => pure none
  | some v => do pure (some (← strList (← v.getArr?)))

/-! ### dir -/
def kindOf (s : String) : DL.Dir.Kind := if s == "L" then .line else .block

def runDir (j : Json) : Except String Json := do
  let word ← getStr j "word"
  let kind ← getStr j "kind"
  let text ← getStr j "text"
  match DL.Dir.parseIgnore word.toList (kindOf kind) text.toList with
  | none => pure (Json.mkObj [("r", Json.null), ("panic", DL.Dir.parseIgnorePanics word.toList (kindOf kind) text.toList)])
  | some cs => pure (Json.mkObj [("r", Json.arr (cs.map (fun c => Json.str (String.ofList c))).toArray),
      ("panic", false)])

def parseComment (j : Json) : Except String DL.Dir.Comment := do
  pure { kind := kindOf (← getStr j "k"), text := (← getStr j "t").toList, start := ← getNat j "s", line := ← getNat j "l" }

def sortDedup (l : List String) : List String := (l.mergeSort (fun a b => decide (a ≤ b))).eraseDups

def runDirs (j : Json) : Except String Json := do
  let fword ← getStr j "fword"
  let lword ← getStr j "lword"
  let initial ← (← getArr j "initial").toList.mapM parseComment
  let all ← (← getArr j "all").toList.mapM parseComment
  let f := DL.Dir.fileDirective fword.toList initial
  let ls := DL.Dir.lineDirectives lword.toList all
  let fj := match f with
    | none => Json.null
    | some (c, codes) => Json.mkObj [("s", c.start), ("codes", Json.arr ((sortDedup (codes.map String.ofList)).map Json.str).toArray)]
  let lj := (ls.mergeSort (fun a b => a.1 ≤ b.1)).map fun (k, (c, codes)) =>
    Json.mkObj [("k", k), ("s", c.start), ("codes", Json.arr ((sortDedup (codes.map String.ofList)).map Json.str).toArray)]
  pure (Json.mkObj [("file", fj), ("lines", Json.arr lj.toArray)])

/-! ### pipe -/
open DL.Pipe in
def parseDir (j : Json) : Except String Dir := do
  pure { start := ← getNat j "s", line := ← getNat j "l", codes := ← getStrList j "codes" }

open DL.Pipe in
def parseDiag (j : Json) : Except String Diag := do
  let pos ← match getOpt j "p" with
    | none => pure none
    | some v => do
      let a ← v.getArr?
      if h : a.size = 2 then pure (some (← a[0].getNat?, ← a[1].getNat?)) else throw "bad pos"
  pure { code := ← getStr j "c", pos := pos, payload := .raw (← getNat j "id") }

open DL.Pipe in
def diagJson (d : Diag) : Json :=
  let p := match d.pos with
    | none => Json.null
    | some (s, _) => (s : Json)
  let pl := match d.payload with
    | .raw id => s!"r{id}"
    | .unused c => s!"U:{c}"
    | .unknown c => s!"K:{c}"
  Json.arr #[d.code, p, pl]

open DL.Pipe in
def runPipe (j : Json) : Except String Json := do
  let cfg : Cfg := { configured := ← getStrList j "configured", allCodes := ← getStrList j "all" }
  let file ← match getOpt j "file" with
    | none => pure none
    | some v => do pure (some (← parseDir v))
  let lines ← (← getArr j "lines").toList.mapM fun v => do pure ((← getNat v "k"), (← parseDir v))
  let raw ← (← getArr j "raw").toList.mapM parseDiag
  let ext ← match getOpt j "ext" with
    | none => pure none
    | some v => do
      let ds ← (← getArr v "diags").toList.mapM parseDiag
      pure (some (ds, ← getStrList v "codes"))
  let out := lintInner cfg { file := file, lines := lines } raw ext
  pure (Json.arr (out.map diagJson).toArray)

/-! ### sel -/
def runSel (j : Json) : Except String Json := do
  let tags ← getOptStrList j "tags"
  let excl ← getOptStrList j "excl"
  let incl ← getOptStrList j "incl"
  let out := DL.Sel.filtered DL.Gen.ruleTable tags excl incl
  pure (Json.arr (out.map (fun r => Json.str r.code)).toArray)

def runSortPrio (j : Json) : Except String Json := do
  let codes ← getStrList j "codes"
  let rs := codes.filterMap fun c => DL.Gen.ruleTable.find? (·.code == c)
  pure (Json.arr ((DL.Sel.sortByPriority rs).map (fun r => Json.str r.code)).toArray)

/-! ### cf -/
open DL.CF in
def parseMetaStr (s : String) : Option Meta :=
  if s == "absent" then none else
  let u := s.startsWith "u1"
  let e := (s.drop 3).toString
  let b := fun (c : Char) => c == '1'
  let en : Option End :=
    if e == "-" then none
    else if e == "B" then some .brk
    else if e == "C" then some .cont
    else match e.toList with
      | ['F', r, t, i] => some (.forced (b r) (b t) (b i))
      | _ => none
  some { unreachable := u, end_ := en }

def natList (j : Json) (k : String) : Except String (List Nat) := do
  (← getArr j k).toList.mapM (·.getNat?)

def sortNat (l : List Nat) : List Nat := (l.mergeSort (fun a b => a ≤ b)).eraseDups

open DL.CF in
def runCf (j : Json) : Except String Json := do
  let prog ← DL.CF.J.program (← j.getObjVal? "prog")
  let q ← natList j "query"
  let info := DL.CF.analyze prog
  let metaJ := Json.mkObj (q.map fun p => (toString p, Json.str (DL.CF.J.canonMeta (info p))))
  -- rule layers on the model's own analysis
  let getters ← (← getArr j "getters").toList.mapM fun g => do
    pure ({ at_ := ← getNat g "at", bodyP := ← getNat g "bodyp", body := ← DL.CF.J.stmts (← DL.CF.J.arr g "body") } : Getter)
  let cases ← (← getArr j "cases").toList.mapM fun c => do
    pure ({ p := ← getNat c "p", body := ← DL.CF.J.stmts (← DL.CF.J.arr c "body"), empty := ← DL.CF.J.bool c "empty",
            ftComment := ← DL.CF.J.bool c "ft" } : SwCase)
  let un := sortNat (prog.flagged info)
  let ge := sortNat ((getters.filter (getterReported info)).map (·.at_))
  let ft := sortNat ((cases.filter (caseReported info)).map (·.p))
  -- the property oracles, evaluated on what the *implementation* reported
  let implUn ← natList j "impl_unreachable"
  let implGe ← natList j "impl_getter"
  let implFt ← natList j "impl_fallthrough"
  let implMetaJ ← j.getObjVal? "impl_meta"
  let implInfo : Info := fun p =>
    match implMetaJ.getObjVal? (toString p) with
    | .ok (.str s) => parseMetaStr s
    | _ => none
  let o1 := (implUn.filter prog.reachable).map fun (p : Nat) => Json.arr #["C10", "flagged-but-reachable", (p : Json)]
  let o2 := (getters.filter fun g => g.body.compl.n && !implGe.contains g.at_).map fun g =>
    Json.arr #["C11", "getter-can-fall-off-the-end-but-not-reported", (g.at_ : Json)]
  let o3 := (cases.filter fun c => !c.empty && !c.ftComment && c.body.compl.n && prog.reachable c.p && !implFt.contains c.p).map fun c =>
    Json.arr #["C11", "case-can-fall-through-but-not-reported", (c.p : Json)]
  -- statements that an engine (node, recorded once in corpus/cf_exec.jsonl) really executed: the reference semantics must
  -- call every one of them reachable — a check of the hand-written specification itself, not of the linter
  let executed : List Nat := match j.getObjVal? "executed" with
    | .ok (.arr a) => a.toList.filterMap (fun x => x.getNat?.toOption)
    | _ => []
  let o5 := (executed.filter (fun p => !prog.reachable p)).map fun (p : Nat) =>
    Json.arr #["C10", "reference-semantics-contradicted-by-recorded-execution", (p : Json)]
  let o4 := (sortNat ((prog.stopViol implInfo).filter prog.reachable)).map fun (p : Nat) => Json.arr #["C11", "metadata-says-stops-but-can-complete-normally", (p : Json)]
  pure (Json.mkObj [("meta", metaJ), ("unreachable", Json.arr (un.map (fun (n : Nat) => (n : Json))).toArray),
    ("getter", Json.arr (ge.map (fun (n : Nat) => (n : Json))).toArray),
    ("fallthrough", Json.arr (ft.map (fun (n : Nat) => (n : Json))).toArray),
    ("oracle", Json.arr (o1 ++ o2 ++ o3 ++ o4 ++ o5).toArray)])

def dispatch (j : Json) : Except String Json := do
  match ← getStr j "m" with
  | "dir" => runDir j
  | "dirs" => runDirs j
  | "pipe" => runPipe j
  | "sel" => runSel j
  | "recommended" =>
    -- `recommended_rules` applied to the whole registry, or (key `codes`) to the rules named, in the order given
    let rs := match (getStrList j "codes").toOption with
      | some codes => codes.filterMap fun c => DL.Gen.ruleTable.find? (·.code == c)
      | none => DL.Gen.ruleTable
    pure (Json.arr ((DL.Sel.recommended rs).map (fun r => Json.str r.code)).toArray)
  | "sortprio" => runSortPrio j
  | "cf" => runCf j
  | "rx" => DL.Rx.runRx j
  | "scope" => DL.Scope.runScope j
  | "scope2" => DL.Scope2.runScope2 j
  | "txt" => do
    let t ← getStr j "t"
    pure (Json.mkObj [("hits", Json.arr ((DL.Txt.preferAscii t.toList).map (fun h => Json.arr #[(h.start : Json), (h.stop : Json)])).toArray)])
  | "vms" => DL.Vms.runVms j
  | "imp" => DL.Imp.runImp j
  | "ws" => do
    let segs ← (← getArr j "segs").toList.mapM fun s => do
      let a ← s.getArr?
      pure ((← (a[0]!).getBool?), (← (a[1]!).getStr?).toList)
    let rs := (DL.Ws.noIrregularWhitespace segs).mergeSort (fun a b => a.start < b.start || (a.start == b.start && a.stop ≤ b.stop))
    pure (Json.mkObj [("ranges", Json.arr (rs.map (fun r => Json.arr #[(r.start : Json), (r.stop : Json)])).toArray)])
  | "ent" => do
    let t ← getStr j "t"
    let e := DL.FixSmall.escape t.toList
    pure (Json.mkObj [("reported", DL.FixSmall.entReported t.toList),
      ("fixed", if DL.FixSmall.entReported t.toList then Json.str (String.ofList e) else Json.null)])
  | "spread" => do
    let attrs ← (← getArr j "attrs").toList.mapM fun a => match a with
      | .null => pure (none : DL.FixSmall.Attr)
      | a => do pure (some (← a.getStr?).toList)
    let attrs' := match getOpt j "fix" with
      | some v => match v.getNat? with
        | .ok i => DL.FixSmall.spreadFix attrs i
        | .error _ => attrs
      | none => attrs
    pure (Json.mkObj [("reported", Json.arr ((DL.FixSmall.spreadReported attrs').map (fun (n : Nat) => (n : Json))).toArray)])
  | "win" => DL.FixRest.runWin false j
  | "winprefix" => DL.FixRest.runWin true j
  | "globalrepl" => DL.FixRest.runGlobalRepl j
  | "boolattr" => DL.FixRest.runBoolAttr j
  | "curlychild" => DL.FixRest.runCurlyChild j
  | "fixb" => do
    let v ← getStr j "v"
    pure (Json.mkObj [("text", match DL.FixBuild.jsxAttrQuote v.toList with
      | some t => Json.str (String.ofList t)
      | none => Json.null)])
  | m => throw s!"unknown model {m}"

end Drv

partial def loop (h : IO.FS.Stream) (out : IO.FS.Stream) : IO Unit := do
  let line ← h.getLine
  if line.isEmpty then return ()
  let ans := match Json.parse line with
    | .error e => Json.mkObj [("error", e)]
    | .ok j => match Drv.dispatch j with
      | .ok r => r
      | .error e => Json.mkObj [("error", e)]
  out.putStrLn ans.compress
  loop h out

def main : IO Unit := do
  loop (← IO.getStdin) (← IO.getStdout)
