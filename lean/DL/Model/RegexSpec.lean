import DL.Model.Regex

/-!
# ECMA-262 (ES2022) §22.2.1 *Patterns* — the grammar for the `u` flag, as derivation relations

Parameters of the standard's grammar fixed here: `[+UnicodeMode, +NamedCaptureGroups]` (a pattern compiled with the
`u` flag), main-body grammar only (Annex B.1.2 does not apply with `u`).

**How to read it.**  Every nonterminal `X` of the standard is a relation `X i r …` ("definite-clause" style):
`i` is the input at the point where `X` starts, `r` is what is left after `X`, so the text matched by `X` is the
prefix `w` with `i = w ++ r`.  The sequence `X Y` is `X i m ∧ Y m r`; a terminal `c` is `i = c :: r`.  This makes the
standard's *lookahead restrictions* (`[lookahead ∉ DecimalDigit]`, `[lookahead ≠ ^]`) ordinary side conditions on `r`.
Further arguments are the synthesized attributes the standard defines by static semantics:
`CharacterValue` / `MV` (a `Nat`), `IsCharacterClass` (`none` instead of a value), `CapturingGroupName` (a `Name`),
and `Attr` = the capturing groups of the phrase (with their names, in source order) and the names referenced by `\k`.

The **early errors** (§22.2.1.1) are side conditions of the constructors they belong to, except the three that
concern the whole pattern (`NcapturingParens`, duplicate names, dangling `\k`), which are in `ValidPattern`.
`N` is `NcapturingParens` of the enclosing pattern (an inherited attribute, needed by `DecimalEscape`).

Code points are `Nat`; a pattern is a list of code points (`SourceCharacter` = any code point ≤ 0x10FFFF).

Data taken from the model (`DL.Rx`, generated tables): the Unicode property name/value tables
(`isValidUnicodeProperty`, `isValidLoneUnicodeProperty`) and the two range tables for ID_Start / ID_Continue beyond
ASCII (`largeIdStartRanges`, `largeIdContinueRanges`).  They are data of the Unicode version, not grammar.

Not modelled: the early error `NcapturingParens ≥ 2³² − 1` (needs a pattern of 4·10⁹ characters).
-/
namespace DL.RxSpec
open DL.Gen.Unicode

abbrev Str := List Nat
abbrev Name := List Nat

/-- a character literal of the grammar -/
abbrev c (x : Char) : Nat := x.toNat

/-- the terminal string `s` -/
def lit (s : List Char) (i r : Str) : Prop := i = s.map Char.toNat ++ r

/-! ## lexical classes -/

def SourceCharacter (x : Nat) : Prop := x ≤ 0x10FFFF

/-- `SyntaxCharacter :: one of ^ $ \ . * + ? ( ) [ ] { } |` -/
def SyntaxCharacter (x : Nat) : Prop :=
  x ∈ [c '^', c '$', c '\\', c '.', c '*', c '+', c '?', c '(', c ')', c '[', c ']', c '{', c '}', c '|']

/-- `PatternCharacter :: SourceCharacter but not SyntaxCharacter` -/
def PatternCharacter (x : Nat) : Prop := SourceCharacter x ∧ ¬SyntaxCharacter x

def DecimalDigit (x : Nat) : Prop := c '0' ≤ x ∧ x ≤ c '9'
def NonZeroDigit (x : Nat) : Prop := c '1' ≤ x ∧ x ≤ c '9'
def HexDigit (x : Nat) : Prop := (c '0' ≤ x ∧ x ≤ c '9') ∨ (c 'a' ≤ x ∧ x ≤ c 'f') ∨ (c 'A' ≤ x ∧ x ≤ c 'F')
/-- `ControlLetter :: one of a..z A..Z` (also `AsciiLetter`) -/
def ControlLetter (x : Nat) : Prop := (c 'a' ≤ x ∧ x ≤ c 'z') ∨ (c 'A' ≤ x ∧ x ≤ c 'Z')

def decVal (x : Nat) : Nat := x - c '0'
def hexVal (x : Nat) : Nat :=
  if x ≤ c '9' then x - c '0' else if x ≤ c 'F' then x - c 'A' + 10 else x - c 'a' + 10

/-- MV of a string of decimal / hexadecimal digits -/
def mvDec (ds : Str) : Nat := ds.foldl (fun a d => 10 * a + decVal d) 0
def mvHex (ds : Str) : Nat := ds.foldl (fun a d => 16 * a + hexVal d) 0

/-- `DecimalDigits` / `HexDigits`: one or more digits `ds` -/
def DigitRun (p : Nat → Prop) (ds : Str) (i r : Str) : Prop := i = ds ++ r ∧ ds ≠ [] ∧ ∀ d ∈ ds, p d

/-- `cp` lies in one of the ranges `[t[2k], t[2k+1]]` of a range table -/
def InTable (cp : Nat) (t : Array Nat) : Prop :=
  ∃ k lo hi, t[2 * k]? = some lo ∧ t[2 * k + 1]? = some hi ∧ lo ≤ cp ∧ cp ≤ hi

/-- `UnicodeIDStart`: a code point with the Unicode property ID_Start -/
def UnicodeIDStart (x : Nat) : Prop := ControlLetter x ∨ InTable x largeIdStartRanges
/-- `UnicodeIDContinue`: ID_Continue = ID_Start + digits + `_` + the combining marks etc. of the second table -/
def UnicodeIDContinue (x : Nat) : Prop :=
  UnicodeIDStart x ∨ DecimalDigit x ∨ x = c '_' ∨ InTable x largeIdContinueRanges
/-- §12.7 `IdentifierStartChar :: UnicodeIDStart | $ | _` -/
def IdentifierStartChar (x : Nat) : Prop := UnicodeIDStart x ∨ x = c '$' ∨ x = c '_'
/-- §12.7 `IdentifierPartChar :: UnicodeIDContinue | $ | <ZWNJ> | <ZWJ>` -/
def IdentifierPartChar (x : Nat) : Prop := UnicodeIDContinue x ∨ x = c '$' ∨ x = 0x200C ∨ x = 0x200D

/-! ## escapes -/

/-- `Hex4Digits :: HexDigit HexDigit HexDigit HexDigit`, with its MV -/
def Hex4Digits (i r : Str) (v : Nat) : Prop :=
  ∃ a b c' d, i = a :: b :: c' :: d :: r ∧ HexDigit a ∧ HexDigit b ∧ HexDigit c' ∧ HexDigit d ∧ v = mvHex [a, b, c', d]

def isLead (v : Nat) : Prop := 0xD800 ≤ v ∧ v ≤ 0xDBFF
def isTrail (v : Nat) : Prop := 0xDC00 ≤ v ∧ v ≤ 0xDFFF

/-- `RegExpUnicodeEscapeSequence[+UnicodeMode]` (the text after the `\`), with its CharacterValue.
```
  u HexLeadSurrogate \u HexTrailSurrogate | u HexLeadSurrogate | u HexTrailSurrogate | u HexNonSurrogate
  | u{ CodePoint }          CodePoint :: HexDigits but only if MV ≤ 0x10FFFF
```
The standard's disambiguation note ("each `\u` HexTrailSurrogate … shall be associated with the nearest possible
`u` HexLeadSurrogate") is the side condition of `lead`: a lead surrogate stands alone only if no `\u` trail follows. -/
inductive RegExpUnicodeEscapeSequence : Str → Str → Nat → Prop
  | surrogatePair (m₁ m₂ r : Str) (lead trail : Nat) :
      Hex4Digits m₁ (c '\\' :: c 'u' :: m₂) lead → isLead lead → Hex4Digits m₂ r trail → isTrail trail →
      RegExpUnicodeEscapeSequence (c 'u' :: m₁) r ((lead - 0xD800) * 0x400 + (trail - 0xDC00) + 0x10000)
  | lead (m r : Str) (v : Nat) :
      Hex4Digits m r v → isLead v →
      (¬∃ m' r' t, r = c '\\' :: c 'u' :: m' ∧ Hex4Digits m' r' t ∧ isTrail t) →
      RegExpUnicodeEscapeSequence (c 'u' :: m) r v
  | nonLead (m r : Str) (v : Nat) :          -- HexTrailSurrogate and HexNonSurrogate
      Hex4Digits m r v → ¬isLead v → RegExpUnicodeEscapeSequence (c 'u' :: m) r v
  | codePoint (m r : Str) (ds : Str) :
      DigitRun HexDigit ds m (c '}' :: r) → mvHex ds ≤ 0x10FFFF →                 -- early error: > 0x10FFFF
      RegExpUnicodeEscapeSequence (c 'u' :: c '{' :: m) r (mvHex ds)

/-- `CharacterEscape[+UnicodeMode]`, with its CharacterValue
```
  ControlEscape | c ControlLetter | 0 [lookahead ∉ DecimalDigit] | HexEscapeSequence
  | RegExpUnicodeEscapeSequence | IdentityEscape        IdentityEscape[+U] :: SyntaxCharacter | /
``` -/
inductive CharacterEscape : Str → Str → Nat → Prop
  | f (r : Str) : CharacterEscape (c 'f' :: r) r 12      -- ControlEscape :: one of f n r t v
  | n (r : Str) : CharacterEscape (c 'n' :: r) r 10
  | r (r : Str) : CharacterEscape (c 'r' :: r) r 13
  | t (r : Str) : CharacterEscape (c 't' :: r) r 9
  | v (r : Str) : CharacterEscape (c 'v' :: r) r 11
  | controlLetter (l : Nat) (r : Str) : ControlLetter l → CharacterEscape (c 'c' :: l :: r) r (l % 32)
  | zero (r : Str) : (∀ d, r.head? = some d → ¬DecimalDigit d) → CharacterEscape (c '0' :: r) r 0
  | hex (a b : Nat) (r : Str) : HexDigit a → HexDigit b →          -- HexEscapeSequence :: x HexDigit HexDigit
      CharacterEscape (c 'x' :: a :: b :: r) r (mvHex [a, b])
  | unicode (i r : Str) (v : Nat) : RegExpUnicodeEscapeSequence i r v → CharacterEscape i r v
  | identity (x : Nat) (r : Str) : SyntaxCharacter x ∨ x = c '/' → CharacterEscape (x :: r) r x

/-- `UnicodePropertyNameCharacter :: ControlLetter | _`, `UnicodePropertyValueCharacter :: … | DecimalDigit` -/
def UnicodePropertyNameCharacter (x : Nat) : Prop := ControlLetter x ∨ x = c '_'
def UnicodePropertyValueCharacter (x : Nat) : Prop := UnicodePropertyNameCharacter x ∨ DecimalDigit x

/-- `UnicodePropertyValueExpression :: UnicodePropertyName = UnicodePropertyValue | LoneUnicodePropertyNameOrValue`
with its early errors (the name / value must be listed in the standard's tables) -/
inductive UnicodePropertyValueExpression : Str → Str → Prop
  | nameValue (i m r : Str) (name value : Str) :
      DigitRun UnicodePropertyNameCharacter name i (c '=' :: m) →
      DigitRun UnicodePropertyValueCharacter value m r →
      (∀ x, r.head? = some x → ¬UnicodePropertyValueCharacter x) →        -- the character runs are maximal
      DL.Rx.isValidUnicodeProperty name value = true →
      UnicodePropertyValueExpression i r
  | lone (i r : Str) (v : Str) :
      DigitRun UnicodePropertyValueCharacter v i r →
      (∀ x, r.head? = some x → ¬UnicodePropertyValueCharacter x) →
      (DL.Rx.isValidUnicodeProperty DL.Rx.generalCategory v = true ∨ DL.Rx.isValidLoneUnicodeProperty v = true) →
      UnicodePropertyValueExpression i r

/-- `CharacterClassEscape[+UnicodeMode] :: d | D | s | S | w | W | p{ … } | P{ … }` -/
inductive CharacterClassEscape : Str → Str → Prop
  | simple (x : Nat) (r : Str) : x ∈ [c 'd', c 'D', c 's', c 'S', c 'w', c 'W'] → CharacterClassEscape (x :: r) r
  | property (x : Nat) (m r : Str) : x = c 'p' ∨ x = c 'P' →
      UnicodePropertyValueExpression m (c '}' :: r) → CharacterClassEscape (x :: c '{' :: m) r

/-! ## group names -/

/-- `RegExpIdentifierStart[+U] :: IdentifierStartChar | \ RegExpUnicodeEscapeSequence[+U]`, with the code point it
denotes; early error: the escape must denote an `IdentifierStartChar` -/
inductive RegExpIdentifierStart : Str → Str → Nat → Prop
  | char (x : Nat) (r : Str) : IdentifierStartChar x → RegExpIdentifierStart (x :: r) r x
  | escape (m r : Str) (v : Nat) : RegExpUnicodeEscapeSequence m r v → IdentifierStartChar v →
      RegExpIdentifierStart (c '\\' :: m) r v

/-- `RegExpIdentifierPart[+U] :: IdentifierPartChar | \ RegExpUnicodeEscapeSequence[+U]` -/
inductive RegExpIdentifierPart : Str → Str → Nat → Prop
  | char (x : Nat) (r : Str) : IdentifierPartChar x → RegExpIdentifierPart (x :: r) r x
  | escape (m r : Str) (v : Nat) : RegExpUnicodeEscapeSequence m r v → IdentifierPartChar v →
      RegExpIdentifierPart (c '\\' :: m) r v

/-- `RegExpIdentifierName :: RegExpIdentifierStart | RegExpIdentifierName RegExpIdentifierPart`, with its
CapturingGroupName (the code points, escapes decoded) -/
inductive RegExpIdentifierName : Str → Str → Name → Prop
  | start (i r : Str) (x : Nat) : RegExpIdentifierStart i r x → RegExpIdentifierName i r [x]
  | part (i m r : Str) (n : Name) (x : Nat) : RegExpIdentifierName i m n → RegExpIdentifierPart m r x →
      RegExpIdentifierName i r (n ++ [x])

/-- `GroupName :: < RegExpIdentifierName >` -/
def GroupName (i r : Str) (n : Name) : Prop := ∃ m, i = c '<' :: m ∧ RegExpIdentifierName m (c '>' :: r) n

/-- `GroupSpecifier :: [empty] | ? GroupName` -/
inductive GroupSpecifier : Str → Str → Option Name → Prop
  | empty (r : Str) : GroupSpecifier r r none
  | named (m r : Str) (n : Name) : GroupName m r n → GroupSpecifier (c '?' :: m) r (some n)

/-! ## attributes of phrases that may contain groups -/

structure Attr where
  /-- the capturing groups, in the order of their left parentheses, with their names -/
  groups : List (Option Name)
  /-- the names referenced by `\k<…>` -/
  refs : List Name

instance : Append Attr := ⟨fun a b => ⟨a.groups ++ b.groups, a.refs ++ b.refs⟩⟩
def Attr.nil : Attr := ⟨[], []⟩

/-! ## atom escapes -/

/-- `DecimalEscape :: NonZeroDigit DecimalDigits_opt [lookahead ∉ DecimalDigit]`, with its CapturingGroupNumber -/
def DecimalEscape (i r : Str) (v : Nat) : Prop :=
  ∃ ds, i = ds ++ r ∧ (∃ d ds', ds = d :: ds' ∧ NonZeroDigit d) ∧ (∀ d ∈ ds, DecimalDigit d) ∧
    (∀ d, r.head? = some d → ¬DecimalDigit d) ∧ v = mvDec ds

/-- `AtomEscape[+U, +N] :: DecimalEscape | CharacterClassEscape | CharacterEscape | k GroupName` (text after `\`).
Early error of `DecimalEscape`: CapturingGroupNumber > NcapturingParens. -/
inductive AtomEscape (N : Nat) : Str → Str → Attr → Prop
  | decimal (i r : Str) (v : Nat) : DecimalEscape i r v → v ≤ N → AtomEscape N i r Attr.nil
  | characterClass (i r : Str) : CharacterClassEscape i r → AtomEscape N i r Attr.nil
  | character (i r : Str) (v : Nat) : CharacterEscape i r v → AtomEscape N i r Attr.nil
  | named (m r : Str) (n : Name) : GroupName m r n → AtomEscape N (c 'k' :: m) r ⟨[], [n]⟩

/-! ## character classes -/

/-- `ClassEscape[+U] :: b | - | CharacterClassEscape | CharacterEscape`; the attribute is `none` if
IsCharacterClass, else the CharacterValue -/
inductive ClassEscape : Str → Str → Option Nat → Prop
  | b (r : Str) : ClassEscape (c 'b' :: r) r (some 8)
  | dash (r : Str) : ClassEscape (c '-' :: r) r (some (c '-'))
  | characterClass (i r : Str) : CharacterClassEscape i r → ClassEscape i r none
  | character (i r : Str) (v : Nat) : CharacterEscape i r v → ClassEscape i r (some v)

/-- `ClassAtomNoDash :: SourceCharacter but not one of \ or ] or - | \ ClassEscape` -/
inductive ClassAtomNoDash : Str → Str → Option Nat → Prop
  | char (x : Nat) (r : Str) : SourceCharacter x → x ≠ c '\\' → x ≠ c ']' → x ≠ c '-' →
      ClassAtomNoDash (x :: r) r (some x)
  | escape (m r : Str) (v : Option Nat) : ClassEscape m r v → ClassAtomNoDash (c '\\' :: m) r v

/-- `ClassAtom :: - | ClassAtomNoDash` -/
inductive ClassAtom : Str → Str → Option Nat → Prop
  | dash (r : Str) : ClassAtom (c '-' :: r) r (some (c '-'))
  | noDash (i r : Str) (v : Option Nat) : ClassAtomNoDash i r v → ClassAtom i r v

/-- the early error of a range `A - B`: neither end is a character class, and the ends are in order -/
def RangeOk (a b : Option Nat) : Prop := ∃ x y, a = some x ∧ b = some y ∧ x ≤ y

inductive CRSym where
  | ClassRanges | NonemptyClassRanges | NonemptyClassRangesNoDash

/--
```
ClassRanges :: [empty] | NonemptyClassRanges
NonemptyClassRanges :: ClassAtom | ClassAtom NonemptyClassRangesNoDash | ClassAtom - ClassAtom ClassRanges
NonemptyClassRangesNoDash :: ClassAtom | ClassAtomNoDash NonemptyClassRangesNoDash
                           | ClassAtomNoDash - ClassAtom ClassRanges
``` -/
inductive CR : CRSym → Str → Str → Prop
  | empty (r : Str) : CR .ClassRanges r r
  | nonempty (i r : Str) : CR .NonemptyClassRanges i r → CR .ClassRanges i r
  | atom (i r : Str) (v : Option Nat) : ClassAtom i r v → CR .NonemptyClassRanges i r
  | atomMore (i m r : Str) (v : Option Nat) : ClassAtom i m v → CR .NonemptyClassRangesNoDash m r →
      CR .NonemptyClassRanges i r
  | range (i m₁ m₂ r : Str) (a b : Option Nat) : ClassAtom i (c '-' :: m₁) a → ClassAtom m₁ m₂ b →
      RangeOk a b → CR .ClassRanges m₂ r → CR .NonemptyClassRanges i r
  | ndAtom (i r : Str) (v : Option Nat) : ClassAtom i r v → CR .NonemptyClassRangesNoDash i r
  | ndAtomMore (i m r : Str) (v : Option Nat) : ClassAtomNoDash i m v → CR .NonemptyClassRangesNoDash m r →
      CR .NonemptyClassRangesNoDash i r
  | ndRange (i m₁ m₂ r : Str) (a b : Option Nat) : ClassAtomNoDash i (c '-' :: m₁) a → ClassAtom m₁ m₂ b →
      RangeOk a b → CR .ClassRanges m₂ r → CR .NonemptyClassRangesNoDash i r

abbrev ClassRanges := CR .ClassRanges

/-- `CharacterClass :: [ [lookahead ≠ ^] ClassRanges ] | [^ ClassRanges ]` -/
inductive CharacterClass : Str → Str → Prop
  | pos (m r : Str) : m.head? ≠ some (c '^') → ClassRanges m (c ']' :: r) → CharacterClass (c '[' :: m) r
  | neg (m r : Str) : ClassRanges m (c ']' :: r) → CharacterClass (c '[' :: c '^' :: m) r

/-! ## quantifiers -/

/-- `QuantifierPrefix :: * | + | ? | { DecimalDigits } | { DecimalDigits , } | { DecimalDigits , DecimalDigits }`.
`qok lo hi` is the early error of the last alternative; the standard's is `lo ≤ hi` on the MVs. -/
inductive QuantifierPrefix (qok : Nat → Nat → Prop) : Str → Str → Prop
  | star (r : Str) : QuantifierPrefix qok (c '*' :: r) r
  | plus (r : Str) : QuantifierPrefix qok (c '+' :: r) r
  | opt (r : Str) : QuantifierPrefix qok (c '?' :: r) r
  | exact (m r ds : Str) : DigitRun DecimalDigit ds m (c '}' :: r) → QuantifierPrefix qok (c '{' :: m) r
  | atLeast (m r ds : Str) : DigitRun DecimalDigit ds m (c ',' :: c '}' :: r) → QuantifierPrefix qok (c '{' :: m) r
  | range (m₁ m₂ r ds₁ ds₂ : Str) : DigitRun DecimalDigit ds₁ m₁ (c ',' :: m₂) →
      DigitRun DecimalDigit ds₂ m₂ (c '}' :: r) → qok (mvDec ds₁) (mvDec ds₂) → QuantifierPrefix qok (c '{' :: m₁) r

/-- `Quantifier :: QuantifierPrefix | QuantifierPrefix ?` -/
inductive Quantifier (qok : Nat → Nat → Prop) : Str → Str → Prop
  | greedy (i r : Str) : QuantifierPrefix qok i r → Quantifier qok i r
  | lazy (i r : Str) : QuantifierPrefix qok i (c '?' :: r) → Quantifier qok i r

/-! ## the recursive productions -/

inductive Sym where
  | Disjunction | Alternative | Term | Assertion | Atom

/--
```
Disjunction :: Alternative | Alternative `|` Disjunction
Alternative :: [empty] | Alternative Term
Term        :: Assertion | Atom | Atom Quantifier
Assertion   :: ^ | $ | \b | \B | (?= Disjunction ) | (?! Disjunction ) | (?<= Disjunction ) | (?<! Disjunction )
Atom        :: PatternCharacter | . | \ AtomEscape | CharacterClass | ( GroupSpecifier Disjunction )
             | (?: Disjunction )
``` -/
inductive Derives (qok : Nat → Nat → Prop) (N : Nat) : Sym → Str → Str → Attr → Prop
  -- Disjunction
  | disjOne (i r : Str) (a : Attr) : Derives qok N .Alternative i r a → Derives qok N .Disjunction i r a
  | disjMore (i m r : Str) (a₁ a₂ : Attr) : Derives qok N .Alternative i (c '|' :: m) a₁ →
      Derives qok N .Disjunction m r a₂ → Derives qok N .Disjunction i r (a₁ ++ a₂)
  -- Alternative
  | altEmpty (r : Str) : Derives qok N .Alternative r r Attr.nil
  | altSnoc (i m r : Str) (a₁ a₂ : Attr) : Derives qok N .Alternative i m a₁ → Derives qok N .Term m r a₂ →
      Derives qok N .Alternative i r (a₁ ++ a₂)
  -- Term
  | termAssertion (i r : Str) (a : Attr) : Derives qok N .Assertion i r a → Derives qok N .Term i r a
  | termAtom (i r : Str) (a : Attr) : Derives qok N .Atom i r a → Derives qok N .Term i r a
  | termQuantified (i m r : Str) (a : Attr) : Derives qok N .Atom i m a → Quantifier qok m r →
      Derives qok N .Term i r a
  -- Assertion
  | caret (r : Str) : Derives qok N .Assertion (c '^' :: r) r Attr.nil
  | dollar (r : Str) : Derives qok N .Assertion (c '$' :: r) r Attr.nil
  | wordBoundary (r : Str) : Derives qok N .Assertion (c '\\' :: c 'b' :: r) r Attr.nil
  | notWordBoundary (r : Str) : Derives qok N .Assertion (c '\\' :: c 'B' :: r) r Attr.nil
  | lookahead (i m r : Str) (a : Attr) : lit ['(', '?', '='] i m → Derives qok N .Disjunction m (c ')' :: r) a →
      Derives qok N .Assertion i r a
  | negativeLookahead (i m r : Str) (a : Attr) : lit ['(', '?', '!'] i m →
      Derives qok N .Disjunction m (c ')' :: r) a → Derives qok N .Assertion i r a
  | lookbehind (i m r : Str) (a : Attr) : lit ['(', '?', '<', '='] i m →
      Derives qok N .Disjunction m (c ')' :: r) a → Derives qok N .Assertion i r a
  | negativeLookbehind (i m r : Str) (a : Attr) : lit ['(', '?', '<', '!'] i m →
      Derives qok N .Disjunction m (c ')' :: r) a → Derives qok N .Assertion i r a
  -- Atom
  | patternCharacter (x : Nat) (r : Str) : PatternCharacter x → Derives qok N .Atom (x :: r) r Attr.nil
  | dot (r : Str) : Derives qok N .Atom (c '.' :: r) r Attr.nil
  | atomEscape (m r : Str) (a : Attr) : AtomEscape N m r a → Derives qok N .Atom (c '\\' :: m) r a
  | characterClass (i r : Str) : CharacterClass i r → Derives qok N .Atom i r Attr.nil
  | group (m₁ m₂ r : Str) (name : Option Name) (a : Attr) : GroupSpecifier m₁ m₂ name →
      Derives qok N .Disjunction m₂ (c ')' :: r) a → Derives qok N .Atom (c '(' :: m₁) r (⟨[name], []⟩ ++ a)
  | nonCapturing (i m r : Str) (a : Attr) : lit ['(', '?', ':'] i m →
      Derives qok N .Disjunction m (c ')' :: r) a → Derives qok N .Atom i r a

/-! ## the pattern and its early errors -/

/-- the names of the named groups -/
def groupNames (gs : List (Option Name)) : List Name := gs.filterMap id

/-- `Pattern :: Disjunction` (the whole input), together with the early errors that concern the whole pattern:
* `N` is the number of capturing groups (`NcapturingParens`) — it is what `DecimalEscape` was checked against;
* no two `GroupSpecifier`s have the same CapturingGroupName;
* every `\k<name>` names an existing group. -/
def ValidPatternWith (qok : Nat → Nat → Prop) (src : Str) : Prop :=
  (∀ x ∈ src, SourceCharacter x) ∧
  ∃ a : Attr, Derives qok a.groups.length .Disjunction src [] a ∧
    (groupNames a.groups).Nodup ∧ ∀ n ∈ a.refs, n ∈ groupNames a.groups

/-- a pattern that an ES2022 engine compiles without a SyntaxError when the `u` flag is given -/
def ValidPattern (src : Str) : Prop := ValidPatternWith (fun lo hi => lo ≤ hi) src

end DL.RxSpec
