import Lean.Data.Json
import DL.Model.FixRest

/-! JSON front end of M-FIX rest for `dlmodel` (not part of any theorem).

Requests (`fix`: the index of the diagnostic whose fix is applied, or `null`):
* `{"m":"win"|"winprefix","occ":[[name, global, pos]…],"fix":i}` with `pos` = `"s"` (expression statement) | `"o"` (other) |
  `["m", chained, prop|null]` (object of a member expression) → `{"reported":[…],"after":[…]|null}`
* `{"m":"globalrepl","occ":[[name, unresolved, partner|null, mate|null]…],"fix":i}` →
  `{"reported":[…],"repl":[…],"tags":b,"after":[…]|null}` (`tags`: opening and closing tags still match)
* `{"m":"boolattr","attrs":["none"|"true"|"truec"|"false"|"str"|"expr"|"spread"…],"fix":i}` → `{"reported","after"}`
* `{"m":"curlychild","children":[["lit", v, ml]|["text", ml]|["other", ml]…],"fix":i}` → `{"reported","after","text"}`
  (`text`: the replacement text of that fix)
-/
open Lean (Json)

namespace DL.FixRest

def natsJson (l : List Nat) : Json := Json.arr (l.map (fun (n : Nat) => (n : Json))).toArray

def fixOf (j : Json) : Option Nat :=
  match j.getObjVal? "fix" with
  | .ok v => v.getNat?.toOption
  | .error _ => none

def posOfJson (j : Json) : Except String Pos :=
  match j with
  | .str "s" => pure .exprStmt
  | .str "o" => pure .other
  | .arr a => do
    let chained ← (a[1]!).getBool?
    let prop ← match a[2]! with
      | .null => pure none
      | p => do pure (some (← p.getStr?).toList)
    pure (.memberObj chained prop)
  | _ => throw "pos"

def occOfJson (j : Json) : Except String Occ := do
  let a ← j.getArr?
  pure ⟨(← (a[0]!).getStr?).toList, ← (a[1]!).getBool?, ← posOfJson (a[2]!)⟩

def runWin (isPrefix : Bool) (j : Json) : Except String Json := do
  let f ← (← (← j.getObjVal? "occ").getArr?).toList.mapM occOfJson
  let rep := if isPrefix then prefixReported else winReported
  let fix := if isPrefix then prefixFix else winFix
  pure (Json.mkObj [("reported", natsJson (rep f)),
    ("after", match fixOf j with
      | some i => natsJson (rep (fix f i))
      | none => Json.null)])

def goccOfJson (j : Json) : Except String GOcc := do
  let a ← j.getArr?
  let partner ← match a[2]! with
    | .null => pure none
    | p => do pure (some (← p.getNat?))
  let mate ← match a[3]! with
    | .null => pure none
    | p => do pure (some (← p.getNat?))
  pure ⟨(← (a[0]!).getStr?).toList, ← (a[1]!).getBool?, partner, mate⟩

def runGlobalRepl (j : Json) : Except String Json := do
  let f ← (← (← j.getObjVal? "occ").getArr?).toList.mapM goccOfJson
  pure (Json.mkObj [("reported", natsJson (globReported f)), ("repl", natsJson (globReplReported f)),
    ("tags", match fixOf j with
      | some i => tagsMatch (globFix f i)
      | none => tagsMatch f),
    -- the reports after the fix; `null` when the fix leaves two tags of one element with different names (no parse)
    ("after", match fixOf j with
      | some i => if tagsMatch (globFix f i) then natsJson (globReported (globFix f i)) else Json.null
      | none => Json.null)])

def attrOfJson (j : Json) : Except String AttrVal := do
  match ← j.getStr? with
  | "none" => pure .none
  | "true" => pure .trueBare
  | "truec" => pure .trueCommented
  | "false" => pure .false_
  | "str" => pure .str
  | "expr" => pure .expr
  | "spread" => pure .spread
  | s => throw s!"attr {s}"

def runBoolAttr (j : Json) : Except String Json := do
  let f ← (← (← j.getObjVal? "attrs").getArr?).toList.mapM attrOfJson
  pure (Json.mkObj [("reported", natsJson (boolReported f)),
    ("after", match fixOf j with
      | some i => natsJson (boolReported (boolFix f i))
      | none => Json.null)])

def childOfJson (j : Json) : Except String Child := do
  let a ← j.getArr?
  match ← (a[0]!).getStr? with
  | "lit" => pure (.lit (← (a[1]!).getStr?).toList (← (a[2]!).getBool?))
  | "text" => pure (.text (← (a[1]!).getBool?))
  | "other" => pure (.other (← (a[1]!).getBool?))
  | s => throw s!"child {s}"

def runCurlyChild (j : Json) : Except String Json := do
  let cs ← (← (← j.getObjVal? "children").getArr?).toList.mapM childOfJson
  let (after, text) := match fixOf j with
    | some i =>
      (natsJson (childReported (childFix cs i)),
        match cs[i]? with
        | some (.lit v _) => (match childFixText v with
          | some t => Json.str (String.ofList t)
          | none => Json.null)
        | _ => Json.null)
    | none => (Json.null, Json.null)
  pure (Json.mkObj [("reported", natsJson (childReported cs)), ("after", after), ("text", text)])

end DL.FixRest
