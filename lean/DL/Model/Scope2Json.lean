import Lean.Data.Json
import DL.Model.Scope2

/-! JSON front end of M-SCOPE2 for the `dlmodel` driver.

Items: `["ref",x] ["key",x] ["let",x] ["var",x] ["block",id,[..]] ["func",id,name|null,[params],[..]]
["catch",id,param|null,[..]] ["forlet",id,x,[..]]`.  Request: `{"prog":[..], "g":n, "ren":[t,x,y]?}` where `t` is a
scope id `n` (= `["scope",n]`) or `["head",n]` (the name scope of function expression `n` / the head scope of loop `n`).
Answer: as `runScope` (`entries`, `reports`, `renamed`) plus `wf`. -/
open Lean (Json)
namespace DL.Scope2

def optNatOfJson (j : Json) : Except String (Option Nat) :=
  match j with
  | .null => pure none
  | j => do pure (some (← j.getNat?))

partial def itemOfJson (j : Json) : Except String Item := do
  let a ← j.getArr?
  let tag ← (a[0]!).getStr?
  let body (k : Nat) : Except String Items := do
    let b ← (← (a[k]!).getArr?).toList.mapM itemOfJson
    pure (b.foldr Items.cons .nil)
  match tag with
  | "ref" => pure (.ref (← (a[1]!).getNat?))
  | "key" => pure (.key (← (a[1]!).getNat?))
  | "let" => pure (.letDecl (← (a[1]!).getNat?))
  | "decl" => pure (.letDecl (← (a[1]!).getNat?))
  | "var" => pure (.varDecl (← (a[1]!).getNat?))
  | "block" => pure (.block (← (a[1]!).getNat?) (← body 2))
  | "func" => do
    let ps ← (← (a[3]!).getArr?).toList.mapM (·.getNat?)
    pure (.func (← (a[1]!).getNat?) (← optNatOfJson (a[2]!)) ps (← body 4))
  | "catch" => pure (.catchC (← (a[1]!).getNat?) (← optNatOfJson (a[2]!)) (← body 3))
  | "forlet" => pure (.forLet (← (a[1]!).getNat?) (← (a[2]!).getNat?) (← body 3))
  | t => throw s!"bad item {t}"

def sidOfJson (j : Json) : Except String Sid :=
  match j with
  | .arr a => do
    let tag ← (a[0]!).getStr?
    let n ← (a[1]!).getNat?
    match tag with
    | "scope" => pure (.scope n)
    | "head" => pure (.head n)
    | t => throw s!"bad scope id {t}"
  | j => do pure (.scope (← j.getNat?))

/-- canonical form of the resolver's output: [name, index of the first occurrence of the same binding or null,
is declared] -/
def canon (l : List Entry) : List Json :=
  let rec firstIdx (k : Nat) : List Entry → Entry → Nat
    | [], _ => k
    | f :: r, e => if f.name == e.name && f.bind == e.bind then k else firstIdx (k + 1) r e
  l.map fun e =>
    match e.bind with
    | none => Json.arr #[e.name, Json.null, false]
    | some _ => Json.arr #[e.name, firstIdx 0 l e, true]

def runScope2 (j : Json) : Except String Json := do
  let items ← (← (← j.getObjVal? "prog").getArr?).toList.mapM itemOfJson
  let p := items.foldr Items.cons .nil
  let g ← (← j.getObjVal? "g").getNat?
  let renamed ← match j.getObjVal? "ren" with
    | .ok (.arr a) => do
      let t ← sidOfJson (a[0]!)
      let x ← (a[1]!).getNat?
      let y ← (a[2]!).getNat?
      pure (Json.arr (canon (Program.res (Program.ren t x y p))).toArray)
    | _ => pure Json.null
  pure (Json.mkObj [("entries", Json.arr (canon (Program.res p)).toArray),
    ("reports", Json.arr ((globalReports g p).map (fun (n : Nat) => (n : Json))).toArray),
    ("renamed", renamed),
    ("wf", Json.bool (Program.wf p))])

end DL.Scope2
