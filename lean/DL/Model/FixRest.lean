/-!
# M-FIX rest: the fix-providing rules whose fixes replace or delete a piece of text

Five rules, each modelled by what it looks at, what it reports, and the effect of the fix of one diagnostic on that
abstraction.

* `no-window` (`src/rules/no_window.rs`): an identifier occurrence is reported iff it is spelled `window`, is the
  unresolved global, and is the object of a member expression or the expression of an expression statement; the fix
  replaces the identifier by `globalThis`.
* `no-window-prefix` (`src/rules/no_window_prefix.rs`): the member expression whose object is such a `window`, whose
  parent is no member expression, and whose property is statically known and on the deny list; the fix replaces the
  *object* by `globalThis` (the report's range is the member expression, the change's range the identifier).
* `no-node-globals`, `FixKind::Replace` (`src/rules/no_node_globals.rs`): every identifier node that is left in the
  unresolved context and is spelled like one of the four Node globals is reported; for `global` the fix renames it to
  `globalThis`, together with the identifier in the other tag when it is the root of the tag name of a JSX element
  with two tags.
* `jsx-boolean-value` (`src/rules/jsx_boolean_value.rs`): an attribute `a={true}` whose literal carries no comment is
  reported; the fix deletes everything from the end of the attribute name to the closing brace.
* `jsx-curly-braces`, child fix (`src/rules/jsx_curly_braces.rs`, `jsx_element`): the loop over the children of one
  element, with its one-child look-ahead and `skip_count`; the fix replaces `{"v"}` by `v`.

Names are `List Char`.  Core Lean only, structural recursion only.
-/
namespace DL.FixRest

/-! ## Reports by position, fixes that rewrite some positions (shared by four of the five rules) -/

/-- the indices (counted from `k`) of the entries that satisfy `p` -/
def idxWhere {α : Type} (p : α → Bool) : List α → Nat → List Nat
  | [], _ => []
  | a :: r, k => if p a then k :: idxWhere p r (k + 1) else idxWhere p r (k + 1)

/-- `g` applied to the entries whose index (counted from `k`) is selected by `s` -/
def mapAt {α : Type} (g : α → α) (s : Nat → Bool) : List α → Nat → List α
  | [], _ => []
  | a :: r, k => (if s k then g a else a) :: mapAt g s r (k + 1)

/-- "apply the fix of the first report" `fuel` times -/
def repair {σ : Type} (rep : σ → List Nat) (fix : σ → Nat → σ) : Nat → σ → σ
  | 0, s => s
  | fuel + 1, s =>
    match rep s with
    | [] => s
    | i :: _ => repair rep fix fuel (fix s i)

/-! ## Names -/

def nWindow : List Char := ['w', 'i', 'n', 'd', 'o', 'w']
def nGlobal : List Char := ['g', 'l', 'o', 'b', 'a', 'l']
def nGlobalThis : List Char := ['g', 'l', 'o', 'b', 'a', 'l', 'T', 'h', 'i', 's']
def nBuffer : List Char := ['B', 'u', 'f', 'f', 'e', 'r']
def nSetImmediate : List Char := ['s', 'e', 't', 'I', 'm', 'm', 'e', 'd', 'i', 'a', 't', 'e']
def nClearImmediate : List Char := ['c', 'l', 'e', 'a', 'r', 'I', 'm', 'm', 'e', 'd', 'i', 'a', 't', 'e']

/-! ## no-window and no-window-prefix -/

/-- where an identifier occurrence stands -/
inductive Pos where
  /-- the object of a member expression `id.p` / `id[e]` / `id?.p`; `chained`: the parent of that member expression is
  a member expression again; `prop`: `extract_symbol` — the property name if it is an identifier, a private name, a
  string literal or a template without substitutions -/
  | memberObj (chained : Bool) (prop : Option (List Char))
  /-- the whole expression of an expression statement `id;` -/
  | exprStmt
  /-- anywhere else (argument, operand, type query, JSX tag, under parentheses or `!` …) -/
  | other
  deriving DecidableEq, Repr

/-- one identifier occurrence; `global`: `ident.ctxt() == ctx.unresolved_ctxt() && ctx.scope().is_global(..)` -/
structure Occ where
  name : List Char
  global : Bool
  pos : Pos
  deriving DecidableEq, Repr

def Pos.isMemberObj : Pos → Bool
  | .memberObj _ _ => true
  | _ => false

def Pos.isExprStmt : Pos → Bool
  | .exprStmt => true
  | _ => false

/-- the fix of both rules: the identifier is now spelled `globalThis` -/
def Occ.rename (o : Occ) : Occ := { o with name := nGlobalThis }

/-- `NoWindowGlobalHandler::member_expr` / `::expr_stmt` -/
def winReportedOcc (o : Occ) : Bool :=
  o.name == nWindow && o.global && (o.pos.isMemberObj || o.pos.isExprStmt)

def winReported (f : List Occ) : List Nat := idxWhere winReportedOcc f 0

/-- the fix of the diagnostic at occurrence `i` -/
def winFix (f : List Occ) (i : Nat) : List Occ := mapAt Occ.rename (fun n => n == i) f 0

/-- `PROPERTY_DENY_LIST` of `no_window_prefix.rs` -/
def denyList : List String := [
    "AbortController", "AbortSignal", "Blob", "BroadcastChannel", "ByteLengthQueuingStrategy", "Cache", "CacheStorage", 
    "CanvasGradient", "CanvasPattern", "CloseEvent", "CountQueuingStrategy", "Crypto", "CryptoKey", "CustomEvent", 
    "DOMException", "DOMMatrix", "DOMMatrixReadOnly", "DOMPoint", "DOMPointReadOnly", "DOMQuad", "DOMRect", 
    "DOMRectReadOnly", "DOMStringList", "ErrorEvent", "Event", "EventSource", "EventTarget", "File", "FileList", 
    "FileReader", "FontFace", "FontFaceSet", "FontFaceSetLoadEvent", "FormData", "Headers", "IDBCursor", 
    "IDBCursorWithValue", "IDBDatabase", "IDBFactory", "IDBIndex", "IDBKeyRange", "IDBObjectStore", "IDBOpenDBRequest", 
    "IDBRequest", "IDBTransaction", "IDBVersionChangeEvent", "ImageBitmap", "ImageBitmapRenderingContext", "ImageData", 
    "MediaCapabilities", "MessageChannel", "MessageEvent", "MessagePort", "NetworkInformation", "Notification", "Path2D", 
    "Performance", "PerformanceEntry", "PerformanceMark", "PerformanceMeasure", "PerformanceObserver", 
    "PerformanceObserverEntryList", "PerformanceResourceTiming", "PerformanceServerTiming", "PermissionStatus", 
    "Permissions", "ProgressEvent", "PromiseRejectionEvent", "PushManager", "PushSubscription", 
    "PushSubscriptionOptions", "ReadableStream", "ReadableStreamDefaultController", "ReadableStreamDefaultReader", 
    "Request", "Response", "SecurityPolicyViolationEvent", "ServiceWorker", "ServiceWorkerContainer", 
    "ServiceWorkerRegistration", "StorageManager", "SubtleCrypto", "TextDecoder", "TextDecoderStream", "TextEncoder", 
    "TextEncoderStream", "TextMetrics", "TransformStream", "TransformStreamDefaultController", "URL", "URLSearchParams", 
    "WebGL2RenderingContext", "WebGLActiveInfo", "WebGLBuffer", "WebGLContextEvent", "WebGLFramebuffer", "WebGLProgram", 
    "WebGLQuery", "WebGLRenderbuffer", "WebGLRenderingContext", "WebGLSampler", "WebGLShader", 
    "WebGLShaderPrecisionFormat", "WebGLSync", "WebGLTexture", "WebGLTransformFeedback", "WebGLUniformLocation", 
    "WebGLVertexArrayObject", "WebSocket", "Worker", "WritableStream", "WritableStreamDefaultController", 
    "WritableStreamDefaultWriter", "XMLHttpRequest", "XMLHttpRequestEventTarget", "XMLHttpRequestUpload", "console", 
    "WebAssembly", "name", "navigator", "self", "close", "postMessage", "dispatchEvent", "cancelAnimationFrame", 
    "requestAnimationFrame", "onerror", "onlanguagechange", "onmessage", "onmessageerror", "onoffline", "ononline", 
    "onrejectionhandled", "onunhandledrejection", "caches", "crossOriginIsolated", "crypto", "indexedDB", 
    "isSecureContext", "origin", "performance", "atob", "btoa", "clearInterval", "clearTimeout", "createImageBitmap", 
    "fetch", "queueMicrotask", "setInterval", "setTimeout", "addEventListener", "removeEventListener", "Deno"]

def denied (p : List Char) : Bool := denyList.any fun s => s.toList == p

/-- `NoWindowPrefixHandler::member_expr` -/
def prefixReportedOcc (o : Occ) : Bool :=
  o.name == nWindow && o.global &&
    match o.pos with
    | .memberObj false (some p) => denied p
    | _ => false

def prefixReported (f : List Occ) : List Nat := idxWhere prefixReportedOcc f 0

def prefixFix (f : List Occ) (i : Nat) : List Occ := mapAt Occ.rename (fun n => n == i) f 0

/-! ## no-node-globals, the `Replace` fix -/

/-- one identifier node; `unresolved`: `id.ctxt() == ctx.unresolved_ctxt()`; `partner`: `other_tag_range` — the index of
the identifier in the other tag when this one is the root of the *member* tag name (`a.b.C`) of a JSX element with two
tags; `mate`: the syntactic fact — the index of the identifier that stands at the same place in the other tag of the
same element, whatever the shape of the name (`<global.Foo>…</global.Foo>` and `<global>…</global>` alike).  The rule
computes `partner`; the parser demands that mates are spelled alike (`tagsMatch`). -/
structure GOcc where
  name : List Char
  unresolved : Bool
  partner : Option Nat
  mate : Option Nat := none
  deriving DecidableEq, Repr

/-- the keys of `NODE_GLOBALS` -/
def nodeGlobals : List (List Char) := [nBuffer, nGlobal, nSetImmediate, nClearImmediate]

def globReportedOcc (o : GOcc) : Bool := nodeGlobals.contains o.name && o.unresolved

def globReported (f : List GOcc) : List Nat := idxWhere globReportedOcc f 0

/-- the reports that offer a `Replace` fix (the other three names offer an import, `Model/ImportFix.lean`) -/
def globReplReported (f : List GOcc) : List Nat := idxWhere (fun o => globReportedOcc o && o.name == nGlobal) f 0

def GOcc.rename (o : GOcc) : GOcc := { o with name := nGlobalThis }

/-- the positions the fix of diagnostic `i` rewrites: `i` itself and its partner -/
def globSel (f : List GOcc) (i : Nat) (n : Nat) : Bool :=
  n == i || (match f[i]? with
    | some o => o.partner == some n
    | none => false)

/-- the `Replace` fix of the diagnostic at occurrence `i`: one change, or two (both tags) -/
def globFix (f : List GOcc) (i : Nat) : List GOcc := mapAt GOcc.rename (globSel f i) f 0

/-- opening and closing tag of every element carry the same name: necessary for the text to parse -/
def tagsMatchFrom (f : List GOcc) : List GOcc → Bool
  | [] => true
  | o :: r =>
    (match o.mate with
      | some j => (match f[j]? with
        | some o' => o'.name == o.name
        | none => false)
      | none => true) && tagsMatchFrom f r

def tagsMatch (f : List GOcc) : Bool := tagsMatchFrom f f

/-! ## jsx-boolean-value -/

/-- the value of one attribute of an opening element, as far as the rule distinguishes -/
inductive AttrVal where
  /-- `a` -/
  | none
  /-- `a={true}`, no comment attached to the literal -/
  | trueBare
  /-- `a={true /* c */}`, `a={/* c */ true}` -/
  | trueCommented
  /-- `a={false}` -/
  | false_
  /-- `a="x"` -/
  | str
  /-- `a={e}` for any other expression, `a=<b/>` -/
  | expr
  /-- `{...p}` (no `JSXAttr` at all) -/
  | spread
  deriving DecidableEq, Repr

def boolReportedAttr (a : AttrVal) : Bool := a == .trueBare

def boolReported (f : List AttrVal) : List Nat := idxWhere boolReportedAttr f 0

/-- the fix of the diagnostic at attribute `i`: the text from the end of the name to the closing brace is deleted -/
def boolFix (f : List AttrVal) (i : Nat) : List AttrVal := mapAt (fun _ => AttrVal.none) (fun n => n == i) f 0

/-! ## jsx-curly-braces, the fix for a string literal child

The children of a JSX element tile the text between its tags, so `line(child.end) < line(next.end)` says that the
source text of the *next* child contains a line break (`ml`).  A `text` entry of the model is a *piece* of JSX text: a
maximal run of adjacent pieces stands for the one `JSXText` child the parser makes of them, so that the fix — `{"v"}`
becomes the piece `v` — is a replacement in place although the real text merges with its neighbours.  On a list
without adjacent pieces (`Canon`, what the parser delivers) the look-ahead below is literally the rule's
(`nextMl_canon`). -/

inductive Child where
  /-- `{"v"}` — an expression container holding a string literal with value `v` -/
  | lit (v : List Char) (ml : Bool)
  /-- a piece of JSX text -/
  | text (ml : Bool)
  /-- any other child: element, fragment, `{e}`, `{}` -/
  | other (ml : Bool)
  deriving DecidableEq, Repr

def Child.ml : Child → Bool
  | .lit _ ml => ml
  | .text ml => ml
  | .other ml => ml

def Child.isText : Child → Bool
  | .text _ => true
  | _ => false

def isSpecialChar (c : Char) : Bool := c == '{' || c == '}' || c == '<' || c == '>'

/-- `IGNORE_CHARS.is_match(value)` with `IGNORE_CHARS = [{}<>]` -/
def special (v : List Char) : Bool := v.any isSpecialChar

/-- the value contains a line feed (what `line_index` counts) -/
def hasLF (v : List Char) : Bool := v.any fun c => c == '\n'

/-- the run of text pieces at the head of the list contains a line break -/
def textRunMl : List Child → Bool
  | .text ml :: r => ml || textRunMl r
  | _ => false

/-- `child_iter.peek()` and the line comparison: `none` — there is no next child; `some b` — there is one, and
`b = (line < line_next_child)` -/
def nextMl : List Child → Option Bool
  | [] => none
  | .text ml :: r => some (ml || textRunMl r)
  | .lit _ ml :: _ => some ml
  | .other ml :: _ => some ml

/-- the `while let Some(child) = child_iter.next()` loop of `jsx_element`; `skip` = `skip_count > 0` (it never
exceeds 1: it is raised only when it is 0) -/
def scan : Bool → List Child → Nat → List Nat
  | _, [], _ => []
  | skip, c :: r, k =>
    if skip then scan false r (k + 1)
    else
      match c with
      | .lit v _ =>
        if special v then scan false r (k + 1)
        else if nextMl r = some true then scan true r (k + 1)
        else k :: scan false r (k + 1)
      | _ => scan false r (k + 1)

def childReported (cs : List Child) : List Nat := scan false cs 0

/-- the replacement text of the fix for `{"v"}`; `none`: nothing is reported for this value -/
def childFixText (v : List Char) : Option (List Char) := if special v then none else some v

/-- the fix of the diagnostic at child `i`: the container becomes the piece of text `v` -/
def childFix (cs : List Child) (i : Nat) : List Child :=
  match cs[i]? with
  | some (.lit v _) => cs.set i (.text (hasLF v))
  | _ => cs

/-- the number of string literal containers among the children -/
def litCount : List Child → Nat
  | [] => 0
  | .lit _ _ :: r => litCount r + 1
  | _ :: r => litCount r

/-- no two adjacent pieces of text: the shape of a parsed child list -/
def Canon : List Child → Prop
  | [] => True
  | [_] => True
  | a :: b :: r => ¬ (a.isText = true ∧ b.isText = true) ∧ Canon (b :: r)

end DL.FixRest
