import DL.Model.CF
import DL.Model.CFRef

/-!
# A plain big-step semantics for the statement language of M-CF

This file is independent of the closed forms of `DL.Model.CFRef` (`Stmt.compl`, `Stmt.reach`, …); it only re-uses the
syntactic predicate `Kids.mayThrow` ("evaluating these expressions can throw").  `DL.Lemmas.CFExec*` prove that the
closed forms are exactly this semantics.

`Exec ls s o` — "some execution of statement `s` (immediately labelled by the labels `ls`) ends with outcome `o`".
Divergence is the absence of a derivation.  The abstractions built in:

* **expressions** (`Eval`): evaluating an expression tree completes normally, or throws if `Kids.mayThrow`;
  function expressions are values — their bodies are *not* executed;
* **conditions are opaque**: an `if`/loop test may go either way — except tests known to be true (`testTrue`), which
  are true and cannot throw; a `for` without a test never leaves by its test; a `for-in/of` may stop after any
  number of rounds and binding the next item (`left`) may throw;
* **loops by unrolling**: a body outcome either leaves the loop (`Outcome.exitsLoop`: `break` → normal; `return`,
  `throw`, a labelled `break`, a `continue` to an outer label propagate) or goes round again
  (`Outcome.continuesLoop`: normal, `continue`, `continue L` with `L` a label of this loop);
* **labels**: `L: s` runs `s` with `L` added to its labels; `break L` out of `s` completes `L: s` normally;
  (`continue L` reaching a labelled statement that is not a loop is a syntax error: no rule);
* **switch**: the discriminant, then the case tests, may throw; then any case may be entered (or none, if there is no
  `default`); bodies fall through; `break` completes the `switch` normally;
* **try/catch/finally** per ECMA-262: the handler runs iff the block throws (first the parameter patterns, which may
  throw, then the body); the finalizer runs after every outcome of block/handler and overrides it when it is abrupt.

`Reaches s p` — "some execution of `s`, once `s` is entered, reaches the program point at position `p`" (a statement, a
`case` clause or the body block of a `catch` clause), with `Exec` deciding what can come before.
-/
namespace DL.CF

inductive Outcome
  | normal
  | brk (l : Option Id)
  | cont (l : Option Id)
  | ret
  | thr
  deriving DecidableEq, Repr

/-- how the outcome of a loop body leaves the loop (`none`: it does not) -/
def Outcome.exitsLoop (ls : List Id) : Outcome → Option Outcome
  | .brk none => some .normal
  | .brk (some l) => some (.brk (some l))
  | .cont (some l) => if ls.contains l then none else some (.cont (some l))
  | .ret => some .ret
  | .thr => some .thr
  | .normal => none
  | .cont none => none

/-- the outcomes of a loop body after which the loop goes round again -/
def Outcome.continuesLoop (ls : List Id) : Outcome → Bool
  | .normal => true
  | .cont none => true
  | .cont (some l) => ls.contains l
  | _ => false

/-- what an outcome of the cases means for the `switch` statement -/
def Outcome.leavesSwitch : Outcome → Outcome
  | .brk none => .normal
  | o => o

def Kid.isBlock : Kid → Bool
  | .block _ _ => true
  | _ => false

def Cases.hasDefault : Cases → Bool
  | .nil => false
  | .cons _ isDefault _ _ r => isDefault || r.hasDefault

/-- evaluating expressions -/
inductive Eval : Kids → Outcome → Prop
  | normal (ks : Kids) : Eval ks .normal
  | thr (ks : Kids) : ks.mayThrow = true → Eval ks .thr

mutual
inductive Exec : List Id → Stmt → Outcome → Prop
  -- expression / declaration / other simple statements
  | simple {ls p t kids o} : Eval kids o → Exec ls (.simple p t kids) o
  | block {ls p body o} : ExecList body o → Exec ls (.block p body) o
  -- if
  | if_testThrows {ls p test c alt} : Eval test .thr → Exec ls (.ifS p test c alt) .thr
  | if_then {ls p test c alt o} : Exec [] c o → Exec ls (.ifS p test c alt) o
  | if_skip {ls p test c} : Exec ls (.ifS p test c none) .normal
  | if_else {ls p test c a o} : Exec [] a o → Exec ls (.ifS p test c (some a)) o
  -- while
  | while_testThrows {ls p test body} : Eval test .thr → Exec ls (.whileS p test false body) .thr
  | while_done {ls p test body} : Exec ls (.whileS p test false body) .normal
  | while_exit {ls p test tt body o o'} : Exec [] body o → o.exitsLoop ls = some o' → Exec ls (.whileS p test tt body) o'
  | while_again {ls p test tt body o o'} : Exec [] body o → o.continuesLoop ls = true →
      Exec ls (.whileS p test tt body) o' → Exec ls (.whileS p test tt body) o'
  -- do-while
  | do_exit {ls p body test tt o o'} : Exec [] body o → o.exitsLoop ls = some o' → Exec ls (.doWhileS p body test tt) o'
  | do_testThrows {ls p body test o} : Exec [] body o → o.continuesLoop ls = true → Eval test .thr →
      Exec ls (.doWhileS p body test false) .thr
  | do_done {ls p body test o} : Exec [] body o → o.continuesLoop ls = true → Exec ls (.doWhileS p body test false) .normal
  | do_again {ls p body test tt o o'} : Exec [] body o → o.continuesLoop ls = true →
      Exec ls (.doWhileS p body test tt) o' → Exec ls (.doWhileS p body test tt) o'
  -- for: the initialiser once, then the loop
  | for_initThrows {ls p init update test hasTest tt body} : Eval init .thr → Exec ls (.forS p init update test hasTest tt body) .thr
  | for_loop {ls p init update test hasTest tt body o} : ExecFor ls update test hasTest tt body o →
      Exec ls (.forS p init update test hasTest tt body) o
  -- for-in / for-of: the iterated expression once, then the loop
  | forIn_rightThrows {ls p left right body} : Eval right .thr → Exec ls (.forInOf p left right body) .thr
  | forIn_loop {ls p left right body o} : ExecForIn ls left body o → Exec ls (.forInOf p left right body) o
  -- switch
  | switch_discThrows {ls p disc cases} : Eval disc .thr → Exec ls (.switchS p disc cases) .thr
  | switch_testThrows {ls p disc cases} : cases.testsMayThrow = true → Exec ls (.switchS p disc cases) .thr
  | switch_noMatch {ls p disc cases} : cases.hasDefault = false → Exec ls (.switchS p disc cases) .normal
  | switch_enter {ls p disc cases o} : ExecCases cases o → Exec ls (.switchS p disc cases) o.leavesSwitch
  -- try
  | try_noFinally {ls p bp block hh cp ck fp fin o} : ExecTryCatch block hh ck o →
      Exec ls (.tryS p bp block hh cp ck false fp fin) o
  | try_finallyNormal {ls p bp block hh cp ck fp fin o} : ExecTryCatch block hh ck o → ExecList fin .normal →
      Exec ls (.tryS p bp block hh cp ck true fp fin) o
  | try_finallyAbrupt {ls p bp block hh cp ck fp fin o o'} : ExecTryCatch block hh ck o → ExecList fin o' → o' ≠ .normal →
      Exec ls (.tryS p bp block hh cp ck true fp fin) o'
  -- labels
  | labeled_break {ls p l body} : Exec (l :: ls) body (.brk (some l)) → Exec ls (.labeled p l body) .normal
  | labeled_other {ls p l body o} : Exec (l :: ls) body o → o ≠ .brk (some l) → o ≠ .cont (some l) →
      Exec ls (.labeled p l body) o
  -- jumps
  | brk {ls p l} : Exec ls (.brk p l) (.brk l)
  | cont {ls p l} : Exec ls (.cont p l) (.cont l)
  | ret_argThrows {ls p arg} : Eval arg .thr → Exec ls (.ret p arg) .thr
  | ret {ls p arg} : Exec ls (.ret p arg) .ret
  | throw {ls p arg} : Exec ls (.throw p arg) .thr
/-- a statement list: in order, until one does not complete normally -/
inductive ExecList : Stmts → Outcome → Prop
  | nil : ExecList .nil .normal
  | stop {s r o} : Exec [] s o → o ≠ .normal → ExecList (.cons s r) o
  | next {s r o} : Exec [] s .normal → ExecList r o → ExecList (.cons s r) o
/-- the loop of a `for` statement (after the initialiser): test, body, update -/
inductive ExecFor : List Id → Kids → Kids → Bool → Bool → Stmt → Outcome → Prop
  | testThrows {ls update test hasTest body} : Eval test .thr → ExecFor ls update test hasTest false body .thr
  | done {ls update test body} : ExecFor ls update test true false body .normal
  | exit {ls update test hasTest tt body o o'} : Exec [] body o → o.exitsLoop ls = some o' → ExecFor ls update test hasTest tt body o'
  | updateThrows {ls update test hasTest tt body o} : Exec [] body o → o.continuesLoop ls = true → Eval update .thr →
      ExecFor ls update test hasTest tt body .thr
  | again {ls update test hasTest tt body o o'} : Exec [] body o → o.continuesLoop ls = true →
      ExecFor ls update test hasTest tt body o' → ExecFor ls update test hasTest tt body o'
/-- the loop of a `for-in/of` statement: bind the next item (if any), body -/
inductive ExecForIn : List Id → Kids → Stmt → Outcome → Prop
  | done {ls left body} : ExecForIn ls left body .normal
  | leftThrows {ls left body} : Eval left .thr → ExecForIn ls left body .thr
  | exit {ls left body o o'} : Exec [] body o → o.exitsLoop ls = some o' → ExecForIn ls left body o'
  | again {ls left body o o'} : Exec [] body o → o.continuesLoop ls = true → ExecForIn ls left body o' → ExecForIn ls left body o'
/-- enter the cases at some case -/
inductive ExecCases : Cases → Outcome → Prop
  | here {p d t body r o} : ExecFall (.cons p d t body r) o → ExecCases (.cons p d t body r) o
  | later {p d t body r o} : ExecCases r o → ExecCases (.cons p d t body r) o
/-- run the case bodies from the first one on (fall-through) -/
inductive ExecFall : Cases → Outcome → Prop
  | nil : ExecFall .nil .normal
  | stop {p d t body r o} : ExecList body o → o ≠ .normal → ExecFall (.cons p d t body r) o
  | next {p d t body r o} : ExecList body .normal → ExecFall r o → ExecFall (.cons p d t body r) o
/-- `try { block } catch { handler }`, before the finalizer -/
inductive ExecTryCatch : Stmts → Bool → Kids → Outcome → Prop
  | noThrow {block hh ck o} : ExecList block o → o ≠ .thr → ExecTryCatch block hh ck o
  | uncaught {block ck} : ExecList block .thr → ExecTryCatch block false ck .thr
  | caught {block ck o} : ExecList block .thr → ExecCatch ck o → ExecTryCatch block true ck o
/-- the catch clause: the parameter patterns, then the body block -/
inductive ExecCatch : Kids → Outcome → Prop
  | nil : ExecCatch .nil .normal
  | paramThrows {k r} : k.isBlock = false → k.mayThrow = true → ExecCatch (.cons k r) .thr
  | param {k r o} : k.isBlock = false → ExecCatch r o → ExecCatch (.cons k r) o
  | bodyStop {q body r o} : ExecList body o → o ≠ .normal → ExecCatch (.cons (.block q body) r) o
  | bodyNext {q body r o} : ExecList body .normal → ExecCatch r o → ExecCatch (.cons (.block q body) r) o
end

mutual
inductive Reaches : Stmt → Nat → Prop
  | self (s : Stmt) : Reaches s s.pos
  | block {q body p} : ReachesList body p → Reaches (.block q body) p
  | if_then {q test c alt p} : Eval test .normal → Reaches c p → Reaches (.ifS q test c alt) p
  | if_else {q test c a p} : Eval test .normal → Reaches a p → Reaches (.ifS q test c (some a)) p
  | while_body {q test tt body p} : Reaches body p → Reaches (.whileS q test tt body) p
  | do_body {q body test tt p} : Reaches body p → Reaches (.doWhileS q body test tt) p
  | for_body {q init update test hasTest tt body p} : Reaches body p → Reaches (.forS q init update test hasTest tt body) p
  | forIn_body {q left right body p} : Reaches body p → Reaches (.forInOf q left right body) p
  | switch {q disc cases p} : ReachesCases cases p → Reaches (.switchS q disc cases) p
  | try_block {q bp block hh cp ck hf fp fin p} : ReachesList block p → Reaches (.tryS q bp block hh cp ck hf fp fin) p
  | try_handler {q bp block cp ck hf fp fin p} : ExecList block .thr → ReachesCatch ck p →
      Reaches (.tryS q bp block true cp ck hf fp fin) p
  | try_finalizer {q bp block hh cp ck fp fin o p} : ExecTryCatch block hh ck o → ReachesList fin p →
      Reaches (.tryS q bp block hh cp ck true fp fin) p
  | labeled {q l body p} : Reaches body p → Reaches (.labeled q l body) p
inductive ReachesList : Stmts → Nat → Prop
  | head {s r p} : Reaches s p → ReachesList (.cons s r) p
  | tail {s r p} : Exec [] s .normal → ReachesList r p → ReachesList (.cons s r) p
/-- every case can be entered directly -/
inductive ReachesCases : Cases → Nat → Prop
  | clause {q d t body r} : ReachesCases (.cons q d t body r) q
  | body {q d t body r p} : ReachesList body p → ReachesCases (.cons q d t body r) p
  | later {q d t body r p} : ReachesCases r p → ReachesCases (.cons q d t body r) p
inductive ReachesCatch : Kids → Nat → Prop
  | bodyBlock {q body r} : ReachesCatch (.cons (.block q body) r) q
  | body {q body r p} : ReachesList body p → ReachesCatch (.cons (.block q body) r) p
  | param {k r p} : k.isBlock = false → ReachesCatch r p → ReachesCatch (.cons k r) p
end

end DL.CF

namespace DL.CF

/-- the top-level flow of a program: items in order (module declarations complete normally) -/
inductive ReachesItems : List Item → Nat → Prop
  | here {s r p} : Reaches s p → ReachesItems (.stmt s :: r) p
  | next {s r p} : Exec [] s .normal → ReachesItems r p → ReachesItems (.stmt s :: r) p
  | skipDecl {kids r p} : ReachesItems r p → ReachesItems (.decl kids :: r) p

end DL.CF
