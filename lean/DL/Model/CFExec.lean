import DL.Model.CF
import DL.Model.CFRef

/-!
# A plain big-step semantics for the statement language of M-CF

This file is independent of the closed forms of `DL.Model.CFRef` (`Stmt.compl`, `Stmt.reach`, …); it only re-uses the
syntactic predicate `Kids.mayThrow` ("evaluating these expressions can throw").  `DL.Lemmas.CFExec*` prove that the
closed forms are exactly this semantics.

`Exec ls s o` — "some execution of statement `s` (immediately labelled by the labels `ls`) ends with outcome `o`".
Divergence is the absence of a derivation.  The abstractions built in:

* **expressions** (`EvalKids`): an expression tree is evaluated in order; a node completes normally or, unless it is a
  bare identifier or `this`, throws; function expressions are values — their bodies are *not* executed; a statement
  nested directly in an expression (`with` body, class static block) executes, and an abrupt outcome of it ends the
  evaluation (case tests and catch parameters are only looked at through `Kids.mayThrow`);
* **conditions are opaque**: an `if`/loop test may go either way — except tests known to be true (`testTrue`), which
  are true and cannot throw; a `for` without a test never leaves by its test; a `for-in/of` may stop after any
  number of rounds and binding the next item (`left`) may throw;
* **loops by unrolling**: a body outcome either leaves the loop (`Outcome.exitsLoop`: `break` → normal; `return`,
  `throw`, a labelled `break`, a `continue` to an outer label propagate) or goes round again
  (`Outcome.continuesLoop`: normal, `continue`, `continue L` with `L` a label of this loop);
* **labels**: `L: s` runs `s` with `L` added to its labels; `break L` out of `s` completes `L: s` normally;
  (`continue L` reaching a labelled statement that is not a loop is a syntax error: no rule);
* **switch**: the discriminant, then the case tests, may throw; then any case may be entered (or none, if there is no
  `default`); bodies fall through; `break` completes the `switch` normally;
* **try/catch/finally** per ECMA-262: the handler runs iff the block throws (first the parameter patterns, which may
  throw, then the body); the finalizer runs after every outcome of block/handler and overrides it when it is abrupt.

`Reaches s p` — "some execution of `s`, once `s` is entered, reaches the program point at position `p`" (a statement, a
`case` clause or the body block of a `catch` clause), with `Exec` deciding what can come before.
-/
namespace DL.CF

inductive Outcome
  | normal
  | brk (l : Option Id)
  | cont (l : Option Id)
  | ret
  | thr
  deriving DecidableEq, Repr

/-- how the outcome of a loop body leaves the loop (`none`: it does not) -/
def Outcome.exitsLoop (ls : List Id) : Outcome → Option Outcome
  | .brk none => some .normal
  | .brk (some l) => some (.brk (some l))
  | .cont (some l) => if ls.contains l then none else some (.cont (some l))
  | .ret => some .ret
  | .thr => some .thr
  | .normal => none
  | .cont none => none

/-- the outcomes of a loop body after which the loop goes round again -/
def Outcome.continuesLoop (ls : List Id) : Outcome → Bool
  | .normal => true
  | .cont none => true
  | .cont (some l) => ls.contains l
  | _ => false

/-- what an outcome of the cases means for the `switch` statement -/
def Outcome.leavesSwitch : Outcome → Outcome
  | .brk none => .normal
  | o => o

def Kid.isBlock : Kid → Bool
  | .block _ _ => true
  | _ => false

def Cases.hasDefault : Cases → Bool
  | .nil => false
  | .cons _ isDefault _ _ r => isDefault || r.hasDefault

/-- for reaching the test of a `do-while` / the update of a `for`: the body goes round (any `continue`, labelled or not,
is taken to target this loop — reachability carries no label context) -/
def Outcome.goesRoundAny : Outcome → Bool
  | .normal => true
  | .cont _ => true
  | _ => false

mutual
inductive Exec : List Id → Stmt → Outcome → Prop
  -- expression / declaration / `with` statements: evaluate the kids
  | simple {ls p t kids o} : EvalKids kids o → Exec ls (.simple p t kids) o
  | block {ls p body o} : ExecList body o → Exec ls (.block p body) o
  -- if
  | if_testAbrupt {ls p test c alt o} : EvalKids test o → o ≠ .normal → Exec ls (.ifS p test c alt) o
  | if_then {ls p test c alt o} : EvalKids test .normal → Exec [] c o → Exec ls (.ifS p test c alt) o
  | if_skip {ls p test c} : EvalKids test .normal → Exec ls (.ifS p test c none) .normal
  | if_else {ls p test c a o} : EvalKids test .normal → Exec [] a o → Exec ls (.ifS p test c (some a)) o
  -- while
  | while_testAbrupt {ls p test tt body o} : EvalTest tt test o → o ≠ .normal → Exec ls (.whileS p test tt body) o
  | while_done {ls p test body} : EvalTest false test .normal → Exec ls (.whileS p test false body) .normal
  | while_exit {ls p test tt body o o'} : EvalTest tt test .normal → Exec [] body o → o.exitsLoop ls = some o' →
      Exec ls (.whileS p test tt body) o'
  | while_again {ls p test tt body o o'} : EvalTest tt test .normal → Exec [] body o → o.continuesLoop ls = true →
      Exec ls (.whileS p test tt body) o' → Exec ls (.whileS p test tt body) o'
  -- do-while
  | do_exit {ls p body test tt o o'} : Exec [] body o → o.exitsLoop ls = some o' → Exec ls (.doWhileS p body test tt) o'
  | do_testAbrupt {ls p body test tt o o'} : Exec [] body o → o.continuesLoop ls = true → EvalTest tt test o' → o' ≠ .normal →
      Exec ls (.doWhileS p body test tt) o'
  | do_done {ls p body test o} : Exec [] body o → o.continuesLoop ls = true → EvalTest false test .normal →
      Exec ls (.doWhileS p body test false) .normal
  | do_again {ls p body test tt o o'} : Exec [] body o → o.continuesLoop ls = true → EvalTest tt test .normal →
      Exec ls (.doWhileS p body test tt) o' → Exec ls (.doWhileS p body test tt) o'
  -- for: the initialiser once, then the loop
  | for_initAbrupt {ls p init update test hasTest tt body o} : EvalKids init o → o ≠ .normal →
      Exec ls (.forS p init update test hasTest tt body) o
  | for_loop {ls p init update test hasTest tt body o} : EvalKids init .normal → ExecFor ls update test hasTest tt body o →
      Exec ls (.forS p init update test hasTest tt body) o
  -- for-in / for-of: the iterated expression once, then the loop
  | forIn_rightAbrupt {ls p left right body o} : EvalKids right o → o ≠ .normal → Exec ls (.forInOf p left right body) o
  | forIn_loop {ls p left right body o} : EvalKids right .normal → ExecForIn ls left body o → Exec ls (.forInOf p left right body) o
  -- switch
  | switch_discAbrupt {ls p disc cases o} : EvalKids disc o → o ≠ .normal → Exec ls (.switchS p disc cases) o
  | switch_testThrows {ls p disc cases} : EvalKids disc .normal → cases.testsMayThrow = true → Exec ls (.switchS p disc cases) .thr
  | switch_noMatch {ls p disc cases} : EvalKids disc .normal → cases.hasDefault = false → Exec ls (.switchS p disc cases) .normal
  | switch_enter {ls p disc cases o} : EvalKids disc .normal → ExecCases cases o → Exec ls (.switchS p disc cases) o.leavesSwitch
  -- try
  | try_noFinally {ls p bp block hh cp ck fp fin o} : ExecTryCatch block hh ck o →
      Exec ls (.tryS p bp block hh cp ck false fp fin) o
  | try_finallyNormal {ls p bp block hh cp ck fp fin o} : ExecTryCatch block hh ck o → ExecList fin .normal →
      Exec ls (.tryS p bp block hh cp ck true fp fin) o
  | try_finallyAbrupt {ls p bp block hh cp ck fp fin o o'} : ExecTryCatch block hh ck o → ExecList fin o' → o' ≠ .normal →
      Exec ls (.tryS p bp block hh cp ck true fp fin) o'
  -- labels
  | labeled_break {ls p l body} : Exec (l :: ls) body (.brk (some l)) → Exec ls (.labeled p l body) .normal
  | labeled_other {ls p l body o} : Exec (l :: ls) body o → o ≠ .brk (some l) → o ≠ .cont (some l) →
      Exec ls (.labeled p l body) o
  -- jumps
  | brk {ls p l} : Exec ls (.brk p l) (.brk l)
  | cont {ls p l} : Exec ls (.cont p l) (.cont l)
  | ret_argAbrupt {ls p arg o} : EvalKids arg o → o ≠ .normal → Exec ls (.ret p arg) o
  | ret {ls p arg} : EvalKids arg .normal → Exec ls (.ret p arg) .ret
  | throw_argAbrupt {ls p arg o} : EvalKids arg o → o ≠ .normal → Exec ls (.throw p arg) o
  | throw {ls p arg} : EvalKids arg .normal → Exec ls (.throw p arg) .thr
/-- a statement list: in order, until one does not complete normally -/
inductive ExecList : Stmts → Outcome → Prop
  | nil : ExecList .nil .normal
  | stop {s r o} : Exec [] s o → o ≠ .normal → ExecList (.cons s r) o
  | next {s r o} : Exec [] s .normal → ExecList r o → ExecList (.cons s r) o
/-- evaluating one node of an expression tree: its sub-expressions in order, then the node itself (anything but a bare
identifier or `this` may throw); a function scope is a value; a statement nested directly in the expression (`with`
body, class static block) executes -/
inductive EvalKid : Kid → Outcome → Prop
  | sub {e ks o} : EvalKids ks o → o ≠ .normal → EvalKid (.expr e ks) o
  | expr {e ks} : EvalKids ks .normal → EvalKid (.expr e ks) .normal
  | exprThrows {ks} : EvalKids ks .normal → EvalKid (.expr .other ks) .thr
  | fnScope {p ks} : EvalKid (.fnScope p ks) .normal
  | block {p body o} : ExecList body o → EvalKid (.block p body) o
  | stmt {s o} : Exec [] s o → EvalKid (.stmt s) o
/-- evaluating expressions in order, until one does not complete normally -/
inductive EvalKids : Kids → Outcome → Prop
  | nil : EvalKids .nil .normal
  | stop {k r o} : EvalKid k o → o ≠ .normal → EvalKids (.cons k r) o
  | next {k r o} : EvalKid k .normal → EvalKids r o → EvalKids (.cons k r) o
/-- a loop test: known-true tests are true and cannot throw -/
inductive EvalTest : Bool → Kids → Outcome → Prop
  | known {test} : EvalTest true test .normal
  | eval {test o} : EvalKids test o → EvalTest false test o
/-- the loop of a `for` statement (after the initialiser): test, body, update -/
inductive ExecFor : List Id → Kids → Kids → Bool → Bool → Stmt → Outcome → Prop
  | testAbrupt {ls update test hasTest tt body o} : EvalTest tt test o → o ≠ .normal → ExecFor ls update test hasTest tt body o
  | done {ls update test body} : EvalTest false test .normal → ExecFor ls update test true false body .normal
  | exit {ls update test hasTest tt body o o'} : EvalTest tt test .normal → Exec [] body o → o.exitsLoop ls = some o' →
      ExecFor ls update test hasTest tt body o'
  | updateAbrupt {ls update test hasTest tt body o o'} : EvalTest tt test .normal → Exec [] body o → o.continuesLoop ls = true →
      EvalKids update o' → o' ≠ .normal → ExecFor ls update test hasTest tt body o'
  | again {ls update test hasTest tt body o o'} : EvalTest tt test .normal → Exec [] body o → o.continuesLoop ls = true →
      EvalKids update .normal → ExecFor ls update test hasTest tt body o' → ExecFor ls update test hasTest tt body o'
/-- the loop of a `for-in/of` statement: bind the next item (if any), body -/
inductive ExecForIn : List Id → Kids → Stmt → Outcome → Prop
  | leftAbrupt {ls left body o} : EvalKids left o → o ≠ .normal → ExecForIn ls left body o
  | done {ls left body} : EvalKids left .normal → ExecForIn ls left body .normal
  | exit {ls left body o o'} : EvalKids left .normal → Exec [] body o → o.exitsLoop ls = some o' → ExecForIn ls left body o'
  | again {ls left body o o'} : EvalKids left .normal → Exec [] body o → o.continuesLoop ls = true →
      ExecForIn ls left body o' → ExecForIn ls left body o'
/-- enter the cases at some case -/
inductive ExecCases : Cases → Outcome → Prop
  | here {p d t body r o} : ExecFall (.cons p d t body r) o → ExecCases (.cons p d t body r) o
  | later {p d t body r o} : ExecCases r o → ExecCases (.cons p d t body r) o
/-- run the case bodies from the first one on (fall-through) -/
inductive ExecFall : Cases → Outcome → Prop
  | nil : ExecFall .nil .normal
  | stop {p d t body r o} : ExecList body o → o ≠ .normal → ExecFall (.cons p d t body r) o
  | next {p d t body r o} : ExecList body .normal → ExecFall r o → ExecFall (.cons p d t body r) o
/-- `try { block } catch { handler }`, before the finalizer -/
inductive ExecTryCatch : Stmts → Bool → Kids → Outcome → Prop
  | noThrow {block hh ck o} : ExecList block o → o ≠ .thr → ExecTryCatch block hh ck o
  | uncaught {block ck} : ExecList block .thr → ExecTryCatch block false ck .thr
  | caught {block ck o} : ExecList block .thr → ExecCatch ck o → ExecTryCatch block true ck o
/-- the catch clause: the parameter patterns (may throw if `Kid.mayThrow`), then the body block -/
inductive ExecCatch : Kids → Outcome → Prop
  | nil : ExecCatch .nil .normal
  | paramThrows {k r} : k.isBlock = false → k.mayThrow = true → ExecCatch (.cons k r) .thr
  | param {k r o} : k.isBlock = false → ExecCatch r o → ExecCatch (.cons k r) o
  | bodyStop {q body r o} : ExecList body o → o ≠ .normal → ExecCatch (.cons (.block q body) r) o
  | bodyNext {q body r o} : ExecList body .normal → ExecCatch r o → ExecCatch (.cons (.block q body) r) o
end

mutual
inductive Reaches : Stmt → Nat → Prop
  | self (s : Stmt) : Reaches s s.pos
  | simple_kids {q t kids p} : ReachesKids kids p → Reaches (.simple q t kids) p
  | block {q body p} : ReachesList body p → Reaches (.block q body) p
  | if_test {q test c alt p} : ReachesKids test p → Reaches (.ifS q test c alt) p
  | if_then {q test c alt p} : EvalKids test .normal → Reaches c p → Reaches (.ifS q test c alt) p
  | if_else {q test c a p} : EvalKids test .normal → Reaches a p → Reaches (.ifS q test c (some a)) p
  | while_test {q test tt body p} : ReachesKids test p → Reaches (.whileS q test tt body) p
  | while_body {q test tt body p} : EvalTest tt test .normal → Reaches body p → Reaches (.whileS q test tt body) p
  | do_body {q body test tt p} : Reaches body p → Reaches (.doWhileS q body test tt) p
  | do_test {q body test tt o p} : Exec [] body o → o.goesRoundAny = true → ReachesKids test p → Reaches (.doWhileS q body test tt) p
  | for_init {q init update test hasTest tt body p} : ReachesKids init p → Reaches (.forS q init update test hasTest tt body) p
  | for_test {q init update test hasTest tt body p} : EvalKids init .normal → ReachesKids test p →
      Reaches (.forS q init update test hasTest tt body) p
  | for_body {q init update test hasTest tt body p} : EvalKids init .normal → EvalTest tt test .normal → Reaches body p →
      Reaches (.forS q init update test hasTest tt body) p
  | for_update {q init update test hasTest tt body o p} : EvalKids init .normal → EvalTest tt test .normal → Exec [] body o →
      o.goesRoundAny = true → ReachesKids update p → Reaches (.forS q init update test hasTest tt body) p
  | forIn_right {q left right body p} : ReachesKids right p → Reaches (.forInOf q left right body) p
  | forIn_left {q left right body p} : EvalKids right .normal → ReachesKids left p → Reaches (.forInOf q left right body) p
  | forIn_body {q left right body p} : EvalKids right .normal → EvalKids left .normal → Reaches body p →
      Reaches (.forInOf q left right body) p
  | switch_disc {q disc cases p} : ReachesKids disc p → Reaches (.switchS q disc cases) p
  | switch {q disc cases p} : EvalKids disc .normal → ReachesCases cases p → Reaches (.switchS q disc cases) p
  | try_block {q bp block hh cp ck hf fp fin p} : ReachesList block p → Reaches (.tryS q bp block hh cp ck hf fp fin) p
  | try_handler {q bp block cp ck hf fp fin p} : ExecList block .thr → ReachesCatch ck p →
      Reaches (.tryS q bp block true cp ck hf fp fin) p
  | try_finalizer {q bp block hh cp ck fp fin o p} : ExecTryCatch block hh ck o → ReachesList fin p →
      Reaches (.tryS q bp block hh cp ck true fp fin) p
  | labeled {q l body p} : Reaches body p → Reaches (.labeled q l body) p
  | ret_arg {q arg p} : ReachesKids arg p → Reaches (.ret q arg) p
  | throw_arg {q arg p} : ReachesKids arg p → Reaches (.throw q arg) p
inductive ReachesList : Stmts → Nat → Prop
  | head {s r p} : Reaches s p → ReachesList (.cons s r) p
  | tail {s r p} : Exec [] s .normal → ReachesList r p → ReachesList (.cons s r) p
/-- every case can be entered directly; any case test may be evaluated -/
inductive ReachesCases : Cases → Nat → Prop
  | clause {q d t body r} : ReachesCases (.cons q d t body r) q
  | test {q d t body r p} : ReachesKids t p → ReachesCases (.cons q d t body r) p
  | body {q d t body r p} : ReachesList body p → ReachesCases (.cons q d t body r) p
  | later {q d t body r p} : ReachesCases r p → ReachesCases (.cons q d t body r) p
inductive ReachesCatch : Kids → Nat → Prop
  | bodyBlock {q body r} : ReachesCatch (.cons (.block q body) r) q
  | body {q body r p} : ReachesList body p → ReachesCatch (.cons (.block q body) r) p
  | param {k r p} : k.isBlock = false → ReachesCatch r p → ReachesCatch (.cons k r) p
/-- the statements nested directly in an expression tree, reached in evaluation order -/
inductive ReachesKid : Kid → Nat → Prop
  | expr {e ks p} : ReachesKids ks p → ReachesKid (.expr e ks) p
  | blockPos {q body} : ReachesKid (.block q body) q
  | block {q body p} : ReachesList body p → ReachesKid (.block q body) p
  | stmt {s p} : Reaches s p → ReachesKid (.stmt s) p
inductive ReachesKids : Kids → Nat → Prop
  | head {k r p} : ReachesKid k p → ReachesKids (.cons k r) p
  | tail {k r p} : EvalKid k .normal → ReachesKids r p → ReachesKids (.cons k r) p
end

end DL.CF

namespace DL.CF

/-- the top-level flow of a program: items in order (module declarations complete normally) -/
inductive ReachesItems : List Item → Nat → Prop
  | here {s r p} : Reaches s p → ReachesItems (.stmt s :: r) p
  | next {s r p} : Exec [] s .normal → ReachesItems r p → ReachesItems (.stmt s :: r) p
  | decl {kids r p} : ReachesKids kids p → ReachesItems (.decl kids :: r) p
  | skipDecl {kids r p} : EvalKids kids .normal → ReachesItems r p → ReachesItems (.decl kids :: r) p

end DL.CF
