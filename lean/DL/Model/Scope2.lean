/-!
# M-SCOPE2 — lexical scoping with `var` hoisting, named function expressions, catch clauses and loop heads

The richer sibling of `DL.Scope` (`Model/Scope.lean`): the same contract of the swc resolver (every declaration /
parameter / reference occurrence with the binding it denotes; `none` = unresolved = global), for ECMAScript module code
(strict) scoping:

* `ref x`                    an identifier reference
* `key x`                    the same spelling in a position that is not a reference (property key, member name)
* `letDecl x`                a lexical declaration (`let`/`const`/`class`/function declaration) — scoped to the enclosing
                             block or function body and visible in the whole of it (a reference before it resolves to it)
* `varDecl x`                `var x` — scoped to the nearest enclosing *function* scope (or the program), also when it sits
                             inside nested blocks, catch bodies, loop bodies; not through nested functions
* `block id body`            a block scope
* `func id name? ps body`    a function scope: parameters and body share the scope `id`; the optional name of a function /
                             class *expression* is bound in an extra small scope just outside the parameters
* `catchC id param? body`    a catch clause: the parameter and the lexical declarations of the body share the scope `id`
* `forLet id x body`         `for (const x of …) { body }`: `x` lives in the head scope of the loop, the body is a block
                             inside it

A binding is a pair (name, scope); scopes are `Sid.scope id` (the block / function / catch / loop-body scope `id`) or
`Sid.head id` (the small scope just outside scope `id`: the name of a function expression, the head binding of a loop).
-/
namespace DL.Scope2

mutual
inductive Item where
  | ref (x : Nat)
  | key (x : Nat)
  | letDecl (x : Nat)
  | varDecl (x : Nat)
  | block (id : Nat) (body : Items)
  | func (id : Nat) (name : Option Nat) (ps : List Nat) (body : Items)
  | catchC (id : Nat) (param : Option Nat) (body : Items)
  | forLet (id : Nat) (x : Nat) (body : Items)
  deriving DecidableEq, Repr
inductive Items where
  | nil
  | cons (i : Item) (r : Items)
  deriving DecidableEq, Repr
end

/-- names declared lexically directly in a scope body -/
def Items.lets : Items → List Nat
  | .nil => []
  | .cons (.letDecl x) r => x :: r.lets
  | .cons _ r => r.lets

-- names declared by `var` in a subtree: through blocks, catch bodies and loop bodies, not through functions
mutual
def Item.vars : Item → List Nat
  | .ref _ => []
  | .key _ => []
  | .letDecl _ => []
  | .varDecl x => [x]
  | .block _ b => b.vars
  | .func _ _ _ _ => []
  | .catchC _ _ b => b.vars
  | .forLet _ _ b => b.vars
def Items.vars : Items → List Nat
  | .nil => []
  | .cons i r => i.vars ++ r.vars
end

/-- scope identifiers (the role of the swc resolver's syntax contexts) -/
inductive Sid where
  | scope (id : Nat)
  | head (id : Nat)
  deriving DecidableEq, Repr

/-- environment: the enclosing scopes, innermost first, each with its id and the names it declares -/
abbrev Env := List (Sid × List Nat)

def lookup : Env → Nat → Option Sid
  | [], _ => none
  | (id, fr) :: rest, x => if x ∈ fr then some id else lookup rest x

/-- kind of an occurrence -/
inductive Occ where
  | decl | ref
  deriving DecidableEq, Repr

/-- one resolved occurrence: kind, spelling, binding scope (`none` = unresolved) -/
structure Entry where
  kind : Occ
  name : Nat
  bind : Option Sid
  deriving DecidableEq, Repr

/-- declaration occurrences of the names `l`, resolved in `env` -/
def declsIn (env : Env) (l : List Nat) : List Entry := l.map fun p => ⟨.decl, p, lookup env p⟩

/-! ### frames -/
/-- the frame of a function body (or of the program, with no parameters): parameters, body-level lexical
declarations, and every `var` of the body that does not cross a function boundary -/
def funcFrame (ps : List Nat) (b : Items) : List Nat := ps ++ b.lets ++ b.vars
/-- the frame of a catch clause -/
def catchFrame (p : Option Nat) (b : Items) : List Nat := p.toList ++ b.lets

mutual
def Item.res (env : Env) : Item → List Entry
  | .ref x => [⟨.ref, x, lookup env x⟩]
  | .key _ => []
  | .letDecl x => [⟨.decl, x, lookup env x⟩]
  | .varDecl x => [⟨.decl, x, lookup env x⟩]
  | .block id b => b.res ((.scope id, b.lets) :: env)
  | .func id nm ps b =>
      declsIn ((.head id, nm.toList) :: env) nm.toList ++
      (declsIn ((.scope id, funcFrame ps b) :: (.head id, nm.toList) :: env) ps ++
       b.res ((.scope id, funcFrame ps b) :: (.head id, nm.toList) :: env))
  | .catchC id p b =>
      declsIn ((.scope id, catchFrame p b) :: env) p.toList ++ b.res ((.scope id, catchFrame p b) :: env)
  | .forLet id x b =>
      declsIn ((.head id, [x]) :: env) [x] ++ b.res ((.scope id, b.lets) :: (.head id, [x]) :: env)
def Items.res (env : Env) : Items → List Entry
  | .nil => []
  | .cons i r => i.res env ++ r.res env
end

/-- a program is the body of the outermost (module) scope, id 0: like a function without parameters -/
def Program.res (p : Items) : List Entry := p.res [(.scope 0, funcFrame [] p)]

/-! ### well-formedness: what ECMAScript rejects as early errors (plus the Annex B catch-parameter/`var` case) -/
def nodup : List Nat → Bool
  | [] => true
  | x :: r => !decide (x ∈ r) && nodup r

def disj (a b : List Nat) : Bool := a.all fun x => !decide (x ∈ b)

mutual
def Item.wf : Item → Bool
  | .ref _ => true
  | .key _ => true
  | .letDecl _ => true
  | .varDecl _ => true
  -- no lexical name twice; no `var` of the block (at any depth below it, not crossing functions) hits a lexical name
  | .block _ b => nodup b.lets && disj b.lets b.vars && b.wf
  -- parameters and body-level lexical declarations are disjoint; `function f() { let x; { var x; } }` is an error
  | .func _ _ ps b => nodup b.lets && disj ps b.lets && disj b.lets b.vars && b.wf
  -- the parameter counts as a lexical name of the clause (`catch (e) { var e; }`, legal in Annex B, is excluded)
  | .catchC _ p b => nodup (catchFrame p b) && disj (catchFrame p b) b.vars && b.wf
  -- `for (const x of …) { var x; }` is an error; `{ let x; }` in the body is not
  | .forLet _ x b => nodup b.lets && disj (x :: b.lets) b.vars && b.wf
def Items.wf : Items → Bool
  | .nil => true
  | .cons i r => i.wf && r.wf
end

def Program.wf (p : Items) : Bool := nodup p.lets && disj p.lets p.vars && p.wf

/-- well-formedness of a program, as a proposition -/
abbrev WF (p : Items) : Prop := Program.wf p = true

/-! ### one-hole contexts: a stack of enclosing scopes, each with the statements before and after the hole -/
def Items.append : Items → Items → Items
  | .nil, b => b
  | .cons i r, b => .cons i (r.append b)

inductive Layer where
  | block (id : Nat) (pre post : Items)
  | func (id : Nat) (name : Option Nat) (ps : List Nat) (pre post : Items)
  | catchC (id : Nat) (param : Option Nat) (pre post : Items)
  | forLet (id : Nat) (x : Nat) (pre post : Items)

def Layer.wrap : Layer → Item → Item
  | .block id pre post, inner => .block id (pre.append (.cons inner post))
  | .func id nm ps pre post, inner => .func id nm ps (pre.append (.cons inner post))
  | .catchC id p pre post, inner => .catchC id p (pre.append (.cons inner post))
  | .forLet id x pre post, inner => .forLet id x (pre.append (.cons inner post))

/-- plug an item into a context given outermost scope first -/
def plug : List Layer → Item → Item
  | [], i => i
  | l :: ls, i => l.wrap (plug ls i)

def Layer.isFunc : Layer → Bool
  | .func _ _ _ _ _ => true
  | _ => false

/-- the `var`s declared beside the hole in a layer (in sibling subtrees, not crossing functions) -/
def Layer.sideVars : Layer → List Nat
  | .block _ pre post => pre.vars ++ post.vars
  | .func _ _ _ pre post => pre.vars ++ post.vars
  | .catchC _ _ pre post => pre.vars ++ post.vars
  | .forLet _ _ pre post => pre.vars ++ post.vars

/-- the `var`s that leave a layer upwards, given those (`v`) that come out of the hole -/
def Layer.out : Layer → List Nat → List Nat
  | .block _ pre post, v => pre.vars ++ (v ++ post.vars)
  | .func _ _ _ _ _, _ => []
  | .catchC _ _ pre post, v => pre.vars ++ (v ++ post.vars)
  | .forLet _ _ pre post, v => pre.vars ++ (v ++ post.vars)

/-- the `var`s of `plug ls i` where `v` are those of `i` -/
def holeVars : List Layer → List Nat → List Nat
  | [], v => v
  | l :: ls, v => l.out (holeVars ls v)

/-- the frames a layer pushes, innermost first; `v` = the `var`s that come out of the hole -/
def Layer.frames : Layer → List Nat → Env
  | .block id pre post, _ => [(.scope id, pre.lets ++ post.lets)]
  | .func id nm ps pre post, v =>
      [(.scope id, ps ++ (pre.lets ++ post.lets) ++ (pre.vars ++ (v ++ post.vars))), (.head id, nm.toList)]
  | .catchC id p pre post, _ => [(.scope id, p.toList ++ (pre.lets ++ post.lets))]
  | .forLet id x pre post, _ => [(.scope id, pre.lets ++ post.lets), (.head id, [x])]

/-- the environment at the hole of `plug ls i` (resolved in `e`) where `v` are the `var`s of `i` -/
def envOf : List Layer → List Nat → Env → Env
  | [], _, e => e
  | l :: ls, v, e => envOf ls v (l.frames (holeVars ls v) ++ e)

/-! ### the model of a global-name rule (C14): report references to `g` that the resolver left unresolved -/
def isGlobalRef (g : Nat) (e : Entry) : Bool := e.kind == .ref && e.name == g && e.bind == none

/-- positions (indices into the occurrence list) reported by the rule -/
def reportIdx (g : Nat) : Nat → List Entry → List Nat
  | _, [] => []
  | k, e :: r => if isGlobalRef g e then k :: reportIdx g (k + 1) r else reportIdx g (k + 1) r

def globalReports (g : Nat) (p : Items) : List Nat := reportIdx g 0 (Program.res p)

/-! ### consistent renaming of one binding (C20) -/
def sw (x y z : Nat) : Nat := if z = x then y else z

/-- is the renaming active inside a scope `id` declaring `fr`?  yes if this is the target scope, or if it was active
outside and the scope does not shadow `x` -/
def act' (t : Sid) (x : Nat) (active : Bool) (id : Sid) (fr : List Nat) : Bool :=
  (id == t && decide (x ∈ fr)) || (active && !decide (x ∈ fr))

/-- rename a list of declared names / an optional name when active -/
def renL (x y : Nat) (a : Bool) (l : List Nat) : List Nat := if a then l.map (sw x y) else l
def renO (x y : Nat) (a : Bool) (o : Option Nat) : Option Nat := if a then o.map (sw x y) else o
def renN (x y : Nat) (a : Bool) (z : Nat) : Nat := if a then sw x y z else z

mutual
-- rename the binding (`x`, scope `t`) to `y`: `active` = we are inside its scope and it is not shadowed
def Item.ren (t : Sid) (x y : Nat) (active : Bool) : Item → Item
  | .ref z => .ref (renN x y active z)
  | .key z => .key z
  | .letDecl z => .letDecl (renN x y active z)
  | .varDecl z => .varDecl (renN x y active z)
  | .block id b => .block id (b.ren t x y (act' t x active (.scope id) b.lets))
  | .func id nm ps b =>
      .func id (renO x y (act' t x active (.head id) nm.toList) nm)
        (renL x y (act' t x (act' t x active (.head id) nm.toList) (.scope id) (funcFrame ps b)) ps)
        (b.ren t x y (act' t x (act' t x active (.head id) nm.toList) (.scope id) (funcFrame ps b)))
  | .catchC id p b =>
      .catchC id (renO x y (act' t x active (.scope id) (catchFrame p b)) p)
        (b.ren t x y (act' t x active (.scope id) (catchFrame p b)))
  | .forLet id z b =>
      .forLet id (renN x y (act' t x active (.head id) [z]) z)
        (b.ren t x y (act' t x (act' t x active (.head id) [z]) (.scope id) b.lets))
def Items.ren (t : Sid) (x y : Nat) (active : Bool) : Items → Items
  | .nil => .nil
  | .cons i r => .cons (i.ren t x y active) (r.ren t x y active)
end

def Program.ren (t : Sid) (x y : Nat) (p : Items) : Items :=
  p.ren t x y (act' t x false (.scope 0) (funcFrame [] p))

-- every spelling that occurs as declaration, parameter or reference
mutual
def Item.names : Item → List Nat
  | .ref x => [x]
  | .key _ => []
  | .letDecl x => [x]
  | .varDecl x => [x]
  | .block _ b => b.names
  | .func _ nm ps b => nm.toList ++ (ps ++ b.names)
  | .catchC _ p b => p.toList ++ b.names
  | .forLet _ x b => x :: b.names
def Items.names : Items → List Nat
  | .nil => []
  | .cons i r => i.names ++ r.names
end

/-- the renaming seen on the resolver's output -/
def swE (t : Sid) (x y : Nat) (e : Entry) : Entry :=
  if e.name = x ∧ e.bind = some t then { e with name := y } else e

/-! ### a binding-keyed rule (the shape of no-unused-vars) and its name-keyed mutant -/
/-- declarations whose binding (spelling **and** scope) is never referenced; reported by position -/
def unusedIdx (all : List Entry) : Nat → List Entry → List Nat
  | _, [] => []
  | k, e :: r =>
    if e.kind == .decl && !(all.any fun f => f.kind == .ref && f.name == e.name && f.bind == e.bind)
    then k :: unusedIdx all (k + 1) r else unusedIdx all (k + 1) r
def unused (l : List Entry) : List Nat := unusedIdx l 0 l

/-- the mutant: keyed on the spelling alone -/
def unusedByNameIdx (all : List Entry) : Nat → List Entry → List Nat
  | _, [] => []
  | k, e :: r =>
    if e.kind == .decl && !(all.any fun f => f.kind == .ref && f.name == e.name)
    then k :: unusedByNameIdx all (k + 1) r else unusedByNameIdx all (k + 1) r
def unusedByName (l : List Entry) : List Nat := unusedByNameIdx l 0 l

end DL.Scope2
