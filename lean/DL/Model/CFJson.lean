import Lean.Data.Json
import DL.Model.CF

/-! JSON -> M-CF syntax (driver glue, not part of the model) -/
open Lean (Json)
namespace DL.CF.J

def str (j : Json) (k : String) : Except String String := do (← j.getObjVal? k).getStr?
def nat (j : Json) (k : String) : Except String Nat := do (← j.getObjVal? k).getNat?
def bool (j : Json) (k : String) : Except String Bool := do (← j.getObjVal? k).getBool?
def arr (j : Json) (k : String) : Except String (List Json) := do pure (← (← j.getObjVal? k).getArr?).toList
def opt (j : Json) (k : String) : Option Json :=
  match j.getObjVal? k with
  | .ok .null => none
  | .ok v => some v
  | .error _ => none

def tagOf (s : String) : Tag :=
  if s == "empty" then .empty
  else if s == "varnoinit" then .varNoInit
  else if s == "ts" then .tsDecl
  else if s == "decl" then .decl
  else if s == "expr" then .exprStmt
  else if s.startsWith "fn:" then .fnDecl (s.drop 3).toString
  else .other

def ekind (s : String) : EKind :=
  if s == "this" then .this
  else if s.startsWith "ident:" then .ident (s.drop 6).toString
  else .other

mutual
partial def stmt (j : Json) : Except String Stmt := do
  let p ← nat j "p"
  match ← str j "t" with
  | "simple" => pure (.simple p (tagOf (← str j "tag")) (← kids (← arr j "kids")))
  | "block" => pure (.block p (← stmts (← arr j "body")))
  | "if" =>
    let alt ← match opt j "alt" with
      | none => pure none
      | some a => do pure (some (← stmt a))
    pure (.ifS p (← kids (← arr j "test")) (← stmt (← j.getObjVal? "cons")) alt)
  | "while" => pure (.whileS p (← kids (← arr j "test")) (← bool j "tt") (← stmt (← j.getObjVal? "body")))
  | "dowhile" => pure (.doWhileS p (← stmt (← j.getObjVal? "body")) (← kids (← arr j "test")) (← bool j "tt"))
  | "for" => pure (.forS p (← kids (← arr j "init")) (← kids (← arr j "update")) (← kids (← arr j "test"))
      (← bool j "hasTest") (← bool j "tt") (← stmt (← j.getObjVal? "body")))
  | "forinof" => pure (.forInOf p (← kids (← arr j "left")) (← kids (← arr j "right")) (← stmt (← j.getObjVal? "body")))
  | "switch" => pure (.switchS p (← kids (← arr j "disc")) (← cases (← arr j "cases")))
  | "try" =>
    let (hh, hp, hk) ← match opt j "handler" with
      | none => pure (false, 0, Kids.nil)
      | some h => do pure (true, ← nat h "p", ← kids (← arr h "kids"))
    let (hf, fp, fb) ← match opt j "fin" with
      | none => pure (false, 0, Stmts.nil)
      | some f => do pure (true, ← nat f "p", ← stmts (← arr f "body"))
    pure (.tryS p (← nat j "bp") (← stmts (← arr j "block")) hh hp hk hf fp fb)
  | "labeled" => pure (.labeled p (← str j "label") (← stmt (← j.getObjVal? "body")))
  | "break" =>
    let l ← match opt j "label" with
      | none => pure none
      | some v => do pure (some (← v.getStr?))
    pure (.brk p l)
  | "continue" =>
    let l ← match opt j "label" with
      | none => pure none
      | some v => do pure (some (← v.getStr?))
    pure (.cont p l)
  | "return" => pure (.ret p (← kids (← arr j "arg")))
  | "throw" => pure (.throw p (← kids (← arr j "arg")))
  | t => throw s!"unknown stmt {t}"
partial def stmts (l : List Json) : Except String Stmts :=
  match l with
  | [] => pure .nil
  | j :: r => do pure (.cons (← stmt j) (← stmts r))
partial def kid (j : Json) : Except String Kid := do
  match ← str j "k" with
  | "expr" => pure (.expr (ekind (← str j "e")) (← kids (← arr j "kids")))
  | "fn" => pure (.fnScope (← nat j "p") (← kids (← arr j "kids")))
  | "block" => pure (.block (← nat j "p") (← stmts (← arr j "body")))
  | "stmt" => pure (.stmt (← stmt (← j.getObjVal? "s")))
  | k => throw s!"unknown kid {k}"
partial def kids (l : List Json) : Except String Kids :=
  match l with
  | [] => pure .nil
  | j :: r => do pure (.cons (← kid j) (← kids r))
partial def cases (l : List Json) : Except String Cases :=
  match l with
  | [] => pure .nil
  | j :: r => do pure (.cons (← nat j "p") (← bool j "def") (← kids (← arr j "test")) (← stmts (← arr j "body")) (← cases r))
end

def program (j : Json) : Except String Program := do
  let items ← (← arr j "items").mapM fun it => do
    match ← str it "i" with
    | "stmt" => pure (Item.stmt (← stmt (← it.getObjVal? "s")))
    | _ => pure (Item.decl (← kids (← arr it "kids")))
  pure { isModule := ← bool j "module", items := items }

def canonMeta : Option Meta → String
  | none => "absent"
  | some m =>
    let u := if m.unreachable then "u1" else "u0"
    let b := fun (x : Bool) => if x then "1" else "0"
    let e := match m.end_ with
      | none => "-"
      | some (.forced r t i) => s!"F{b r}{b t}{b i}"
      | some .brk => "B"
      | some .cont => "C"
    s!"{u} {e}"

end DL.CF.J
