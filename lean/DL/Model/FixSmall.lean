/-!
# M-FIX, two more rules whose fixes are modelled completely

* `jsx-no-unescaped-entities` (`src/rules/jsx_no_unescaped_entities.rs`): a JSX text is reported iff replacing every
  `>` by `&gt;` and every `}` by `&#125;` changes it; the fix is that replacement.
* `jsx-props-no-spread-multi` (`src/rules/jsx_props_no_spread_multi.rs`): of the attributes of one opening element, every
  spread attribute whose expression text was seen in an earlier spread attribute is reported; the fix removes it.
-/
namespace DL.FixSmall

/-! ## jsx-no-unescaped-entities -/

def escChar (c : Char) : List Char :=
  if c = '>' then ['&', 'g', 't', ';'] else if c = '}' then ['&', '#', '1', '2', '5', ';'] else [c]

/-- `text.replace('>', "&gt;").replace('}', "&#125;")` (the two replacements do not interfere: neither replacement text
contains the other's character) -/
def escape : List Char → List Char
  | [] => []
  | c :: t => escChar c ++ escape t

/-- the rule's verdict -/
def entReported (t : List Char) : Bool := escape t != t

/-! ## jsx-props-no-spread-multi -/

/-- an attribute: `some text` = a spread attribute with that expression text, `none` = any other attribute -/
abbrev Attr := Option (List Char)

/-- indices of the reported attributes, given the spread texts seen so far -/
def spreadDiags : List Attr → List (List Char) → Nat → List Nat
  | [], _, _ => []
  | none :: r, seen, i => spreadDiags r seen (i + 1)
  | some t :: r, seen, i => (if seen.contains t then [i] else []) ++ spreadDiags r (t :: seen) (i + 1)

def spreadReported (attrs : List Attr) : List Nat := spreadDiags attrs [] 0

/-- the fix of the diagnostic at attribute `i` -/
def spreadFix (attrs : List Attr) (i : Nat) : List Attr := attrs.eraseIdx i

end DL.FixSmall
