/-!
# M-FIX, builders — the replacement texts quick fixes are made of

Fix builders format a piece of program text from a *value*.  What C13 needs of them is lexical: the text they produce
must be one token of the kind the fix puts it in place of, denoting the value it was built from.

`jsxAttrQuote` is `jsx-curly-braces`' fix for `attr={"v"}` (`src/rules/jsx_curly_braces.rs`): a JSX attribute string has
no escape sequences, so it is delimited by a quote that does not occur in the value; if both kinds occur no fix is
offered.  `lexJsxAttrString` is the JSX lexer's rule for an attribute string: an opening quote, then everything up to the
next occurrence of the same quote.
-/
namespace DL.FixBuild

/-- the replacement text for an attribute value `v`, or `none` (no diagnostic is reported then) -/
def jsxAttrQuote (v : List Char) : Option (List Char) :=
  if !v.contains '"' then some ('"' :: v ++ ['"'])
  else if !v.contains '\'' then some ('\'' :: v ++ ['\''])
  else none

/-- read up to the closing delimiter: (value, rest after the delimiter) -/
def untilQuote (q : Char) : List Char → Option (List Char × List Char)
  | [] => none
  | c :: t => if c = q then some ([], t) else (untilQuote q t).map fun (v, r) => (c :: v, r)

/-- JSX attribute string literal at the head of the input -/
def lexJsxAttrString : List Char → Option (List Char × List Char)
  | [] => none
  | q :: t => if q = '"' ∨ q = '\'' then untilQuote q t else none

end DL.FixBuild
