/-!
# M-VMS — `verbatim-module-syntax`: what it reports for a module's imports / exports, and what its fixes do

The rule (`src/rules/verbatim_module_syntax.rs`) looks at three things only:

* the identifiers used in *value* positions anywhere outside import / export specifiers (`IdCollector::id_usage`;
  TypeScript types are skipped, declarations count as uses) — `Module.used`;
* the `import` declarations: type-only or not, and for every specifier its kind (named / default / namespace), its local
  name and whether it carries the inline `type` modifier;
* the `export { … }` declarations without `from`: type-only or not, per specifier the exported local name and the inline
  `type` modifier.

`diags` is `analyze_import` / `analyze_export` over the whole module, `applyFix` is the effect of the fix attached to one
diagnostic on that abstract module (the text-level fix is compared with it by the correspondence check).
-/
namespace DL.Vms

inductive SpecKind
  | named | dflt | ns
  deriving DecidableEq, Repr

structure ISpec where
  kind : SpecKind
  name : Nat
  /-- inline `type` modifier; only a named specifier can carry one -/
  inlineType : Bool
  deriving DecidableEq, Repr

structure IDecl where
  typeOnly : Bool
  specs : List ISpec
  deriving DecidableEq, Repr

structure ESpec where
  orig : Nat
  inlineType : Bool
  deriving DecidableEq, Repr

structure EDecl where
  typeOnly : Bool
  /-- `export { … } from "m"`: not looked at -/
  hasSrc : Bool
  specs : List ESpec
  deriving DecidableEq, Repr

inductive Item
  | imp (d : IDecl)
  | exp (d : EDecl)
  deriving DecidableEq, Repr

structure Module where
  used : List Nat
  items : List Item
  deriving DecidableEq, Repr

/-- the inline modifier as the rule sees it (`named.is_type_only()`): default and namespace specifiers have none -/
def ISpec.typed (s : ISpec) : Bool := s.kind == .named && s.inlineType

/-- `IdCollector::import_value_id_usage`: locals of the specifiers without `type` of the declarations without `type` -/
def importValue : List Item → List Nat
  | [] => []
  | .imp d :: r => (if d.typeOnly then [] else (d.specs.filter (fun s => !s.typed)).map (·.name)) ++ importValue r
  | .exp _ :: r => importValue r

/-- `IdCollector::export_value_id_usage`: names exported without `type` by declarations without `type` and `from` -/
def exportValue : List Item → List Nat
  | [] => []
  | .exp d :: r => (if d.typeOnly || d.hasSrc then [] else (d.specs.filter (fun s => !s.inlineType)).map (·.orig)) ++ exportValue r
  | .imp _ :: r => exportValue r

def Module.hasImportIdent (m : Module) (x : Nat) : Bool := m.used.contains x || (exportValue m.items).contains x
def Module.hasExportIdent (m : Module) (x : Nat) : Bool := m.used.contains x || (importValue m.items).contains x

/-- what a diagnostic is about: a whole declaration, or specifier `i` of it -/
inductive Target
  | all
  | spec (i : Nat)
  deriving DecidableEq, Repr

/-- a diagnostic: the index of the item in the module and its target -/
structure Diag where
  item : Nat
  target : Target
  deriving DecidableEq, Repr

/-- indices of the specifiers "only used in types" -/
def usageIdx (p : α → Bool) : List α → Nat → List Nat
  | [], _ => []
  | a :: r, i => (if p a then [i] else []) ++ usageIdx p r (i + 1)

/-- `analyze_import` -/
def importDiags (m : Module) (k : Nat) (d : IDecl) : List Diag :=
  if d.typeOnly || d.specs.isEmpty then []
  else
    let usage := usageIdx (fun s => !s.typed && !m.hasImportIdent s.name) d.specs 0
    let typed := (d.specs.filter (·.typed)).length
    if d.specs.length == usage.length + typed then [⟨k, .all⟩]
    else usage.map (fun i => ⟨k, .spec i⟩)

/-- `analyze_export` -/
def exportDiags (m : Module) (k : Nat) (d : EDecl) : List Diag :=
  if d.typeOnly || d.specs.isEmpty || d.hasSrc then []
  else
    let usage := usageIdx (fun s => !s.inlineType && !m.hasExportIdent s.orig) d.specs 0
    let typed := (d.specs.filter (·.inlineType)).length
    if d.specs.length == usage.length + typed then [⟨k, .all⟩]
    else usage.map (fun i => ⟨k, .spec i⟩)

def itemsDiags (m : Module) : List Item → Nat → List Diag
  | [], _ => []
  | .imp d :: r, k => importDiags m k d ++ itemsDiags m r (k + 1)
  | .exp d :: r, k => exportDiags m k d ++ itemsDiags m r (k + 1)

/-- all diagnostics of the module, in source order -/
def diags (m : Module) : List Diag := itemsDiags m m.items 0

/-! ## the fixes -/

def setTyped (i : Nat) (l : List ISpec) : List ISpec := l.modify i (fun s => { s with inlineType := true })
def setTypedE (i : Nat) (l : List ESpec) : List ESpec := l.modify i (fun s => { s with inlineType := true })

/-- the item(s) that replace item `it` when the fix of a diagnostic with target `t` is applied to it -/
def fixItem (it : Item) (t : Target) : List Item :=
  match it, t with
  -- `import type { … }`, the inline modifiers removed
  | .imp d, .all => [.imp { typeOnly := true, specs := d.specs.map (fun s => { s with inlineType := false }) }]
  | .imp d, .spec i =>
    match d.specs[i]? with
    | none => [it]
    | some s =>
      if s.kind == .named then [.imp { d with specs := setTyped i d.specs }]
      -- a default / namespace binding moves to an `import type` declaration of its own, placed before
      else [.imp { typeOnly := true, specs := [s] }, .imp { d with specs := d.specs.eraseIdx i }]
  | .exp d, .all => [.exp { d with typeOnly := true, specs := d.specs.map (fun s => { s with inlineType := false }) }]
  | .exp d, .spec i => [.exp { d with specs := setTypedE i d.specs }]

def fixItems : List Item → Nat → Target → List Item
  | [], _, _ => []
  | it :: r, 0, t => fixItem it t ++ r
  | it :: r, k + 1, t => it :: fixItems r k t

/-- the module after the fix of diagnostic `d` -/
def applyFix (m : Module) (d : Diag) : Module := { m with items := fixItems m.items d.item d.target }

end DL.Vms
