import Lean.Data.Json
import DL.Model.Vms

/-! JSON front end of M-VMS for the `dlmodel` driver.

Request: `{"m":"vms","used":[n..],"items":[["imp",typeOnly,[[kind,name,inline]..]] | ["exp",typeOnly,hasSrc,[[orig,inline]..]] ..],
"fix": null | [item,"all"] | [item,"spec",name]}` with kind ∈ "named" | "default" | "ns".
Answer: `{"diags":[[item,"all"] | [item,"spec",name] ..], "items": n}` — the diagnostics of the module, after the fix
of the given diagnostic if one is given (a specifier is named by its local / exported name: the first one of that name
in the item). -/
open Lean (Json)
namespace DL.Vms

def kindOfJson (s : String) : Except String SpecKind :=
  match s with
  | "named" => pure .named
  | "default" => pure .dflt
  | "ns" => pure .ns
  | k => throw s!"bad specifier kind {k}"

def itemOfJson (j : Json) : Except String Item := do
  let a ← j.getArr?
  match ← (a[0]!).getStr? with
  | "imp" => do
    let specs ← (← (a[2]!).getArr?).toList.mapM fun s => do
      let x ← s.getArr?
      pure ({ kind := ← kindOfJson (← (x[0]!).getStr?), name := ← (x[1]!).getNat?, inlineType := ← (x[2]!).getBool? } : ISpec)
    pure (.imp { typeOnly := ← (a[1]!).getBool?, specs := specs })
  | "exp" => do
    let specs ← (← (a[3]!).getArr?).toList.mapM fun s => do
      let x ← s.getArr?
      pure ({ orig := ← (x[0]!).getNat?, inlineType := ← (x[1]!).getBool? } : ESpec)
    pure (.exp { typeOnly := ← (a[1]!).getBool?, hasSrc := ← (a[2]!).getBool?, specs := specs })
  | t => throw s!"bad item {t}"

def specName (m : Module) (k i : Nat) : Option Nat :=
  match m.items[k]? with
  | some (.imp d) => d.specs[i]?.map (·.name)
  | some (.exp d) => d.specs[i]?.map (·.orig)
  | none => none

def specIdx (m : Module) (k name : Nat) : Option Nat :=
  match m.items[k]? with
  | some (.imp d) => d.specs.findIdx? (·.name == name)
  | some (.exp d) => d.specs.findIdx? (·.orig == name)
  | none => none

def diagJson (m : Module) (d : Diag) : Json :=
  match d.target with
  | .all => Json.arr #[d.item, "all"]
  | .spec i => Json.arr #[d.item, "spec", match specName m d.item i with | some n => (n : Json) | none => Json.null]

def runVms (j : Json) : Except String Json := do
  let used ← (← (← j.getObjVal? "used").getArr?).toList.mapM (·.getNat?)
  let items ← (← (← j.getObjVal? "items").getArr?).toList.mapM itemOfJson
  let m : Module := { used := used, items := items }
  let m' ← match j.getObjVal? "fix" with
    | .ok (.arr a) => do
      let k ← (a[0]!).getNat?
      match ← (a[1]!).getStr? with
      | "all" => pure (applyFix m ⟨k, .all⟩)
      | _ => do
        let name ← (a[2]!).getNat?
        match specIdx m k name with
        | some i => pure (applyFix m ⟨k, .spec i⟩)
        | none => throw "fix names no specifier"
    | _ => pure m
  pure (Json.mkObj [("diags", Json.arr ((diags m').map (diagJson m')).toArray), ("items", m'.items.length)])

end DL.Vms
