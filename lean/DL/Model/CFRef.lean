import DL.Model.CF

/-!
# Reference semantics for the statement language of M-CF

`compl s` = the set of ways an execution of `s` can complete (standard ECMAScript completion records), and
`reach s p` = "if `s` is entered, some execution reaches a statement that starts at position `p`", under:

* opaque conditions can go either way — except tests swc reports as `Known(true)` (`testTrue`), which are always true;
* every expression that is not a bare identifier or `this` (in particular every call) may throw; `throw` always throws;
* nested function bodies are not executed by evaluating the expression that creates them; every function body is an
  entry point of its own (`Stmt.entries`);
* `try/catch/finally` per ECMA-262 §14.15: the handler runs iff the block may throw, the finalizer runs after any
  completion and overrides it when it completes abruptly.

Both are structural, executable computations.  `Model/CFExec.lean` states the same semantics as a plain inductive
big-step relation (`Exec`, `Reaches`), and `Props/C10Ref.lean` proves the closed forms exact for it
(`compl_iff_exec` unconditionally, `reach_iff_reaches` on the fragment `inF`): what a reader has to audit is the
inductive relation; the closed forms are what the search oracles evaluate.
-/
namespace DL.CF

/-- a set of completion kinds -/
structure Compl where
  n : Bool := false          -- normal
  b : Bool := false          -- unlabelled break
  c : Bool := false          -- unlabelled continue
  r : Bool := false          -- return
  t : Bool := false          -- throw
  bl : List Id := []         -- labelled breaks
  cl : List Id := []         -- labelled continues
  deriving Repr, DecidableEq

def Compl.normal : Compl := { n := true }
def Compl.none_ : Compl := {}
def Compl.any (x : Compl) : Bool := x.n || x.b || x.c || x.r || x.t || !x.bl.isEmpty || !x.cl.isEmpty
def Compl.union (x y : Compl) : Compl :=
  { n := x.n || y.n, b := x.b || y.b, c := x.c || y.c, r := x.r || y.r, t := x.t || y.t, bl := x.bl ++ y.bl, cl := x.cl ++ y.cl }
/-- the abrupt part -/
def Compl.abrupt (x : Compl) : Compl := { x with n := false }
/-- sequential composition: `y` happens only after a normal completion of `x` -/
def Compl.seq (x y : Compl) : Compl := if x.n then x.abrupt.union y else x
/-- restrict to "happens only if `g`" -/
def Compl.guard (g : Bool) (x : Compl) : Compl := if g then x else {}

mutual
/-- can evaluating these kids throw (nested function bodies are not executed) -/
def Kids.mayThrow : Kids → Bool
  | .nil => false
  | .cons k r => k.mayThrow || r.mayThrow
def Kid.mayThrow : Kid → Bool
  | .expr .other _ => true
  | .expr _ kids => kids.mayThrow
  | .fnScope _ _ => false
  | .block _ _ => false        -- static blocks / `with` bodies: outside the fragment (see `InFragment`)
  | .stmt _ => false
end

def evalCompl (kids : Kids) : Compl := { n := true, t := kids.mayThrow }

/-- evaluating a loop test: a test that swc reports as `Known(true)` is a constant-like, side-effect free expression
(literal, `!0`, `[]`, …) and cannot throw -/
def testCompl (testTrue : Bool) (test : Kids) : Compl := if testTrue then { n := true } else evalCompl test

/-- completion of a loop given the completion `b` of one body execution and the labels `ls` that label this loop:
`break` exits normally; `continue` (unlabelled or to one of `ls`) and normal body completion go round again;
`exitByTest` = the loop can also end because its test becomes false -/
def loopCompl (ls : List Id) (exitByTest : Bool) (b : Compl) : Compl :=
  { n := exitByTest || b.b, r := b.r, t := b.t, bl := b.bl, cl := b.cl.filter (fun l => !ls.contains l) }

/-- does one body execution lead to another evaluation of the test / update (normal, `continue`, `continue L`) -/
def goesRound (ls : List Id) (b : Compl) : Bool := b.n || b.c || b.cl.any (fun l => ls.contains l)

/-- the completions of `try { block } catch { handler }` before the finalizer -/
def tryCatchCompl (b : Compl) (hasHandler : Bool) (h : Compl) : Compl :=
  if hasHandler then ({ b with t := false } : Compl).union (Compl.guard b.t h) else b

/-- …and after it: the finalizer runs after any completion and overrides it when it completes abruptly -/
def finallyCompl (r1 : Compl) (hasFin : Bool) (f : Compl) : Compl :=
  if hasFin then Compl.guard r1.any ((Compl.guard f.n r1).union f.abrupt) else r1

mutual
/-- `ls` = the labels that immediately label this statement -/
def Stmt.compl (ls : List Id) : Stmt → Compl
  | .simple _ _ kids => evalCompl kids
  | .block _ body => body.compl
  | .ifS _ test c none => (evalCompl test).seq ((c.compl []).union .normal)
  | .ifS _ test c (some a) => (evalCompl test).seq ((c.compl []).union (a.compl []))
  | .whileS _ test tt body =>
    let b := body.compl []
    let tc := testCompl tt test
    tc.seq (loopCompl ls (!tt) (b.union (Compl.guard (goesRound ls b) tc.abrupt)))
  | .doWhileS _ body test tt =>
    let b := body.compl []
    let viaTest : Compl := Compl.guard (goesRound ls b) (testCompl tt test)
    loopCompl ls (viaTest.n && !tt) (b.union viaTest.abrupt)
  | .forS _ init update test hasTest tt body =>
    let b := body.compl []
    let tc := testCompl tt test
    let again : Compl := Compl.guard (goesRound ls b) ((evalCompl update).seq tc).abrupt
    (evalCompl init).seq (tc.seq (loopCompl ls (hasTest && !tt) (b.union again)))
  | .forInOf _ left right body => ((evalCompl right).seq (evalCompl left)).seq (loopCompl ls true ((body.compl []).union (evalCompl left).abrupt))
  | .switchS _ disc cases =>
    let inner := cases.compl
    let c := ((evalCompl disc).seq { n := true, t := cases.testsMayThrow }).seq (inner.1.union (Compl.guard (!inner.2) .normal))
    -- an unlabelled `break` leaves the switch normally
    { c with n := c.n || c.b, b := false }
  | .tryS _ _ block hasHandler _ catchKids hasFin _ fin =>
    finallyCompl (tryCatchCompl block.compl hasHandler catchKids.catchCompl) hasFin fin.compl
  | .labeled _ l body =>
    let b := body.compl (l :: ls)
    { b with n := b.n || b.bl.contains l, bl := b.bl.filter (· != l), cl := b.cl.filter (· != l) }
  | .brk _ none => { b := true }
  | .brk _ (some l) => { bl := [l] }
  | .cont _ none => { c := true }
  | .cont _ (some l) => { cl := [l] }
  | .ret _ arg => (evalCompl arg).seq { r := true }
  | .throw _ arg => (evalCompl arg).seq { t := true }
def Stmts.compl : Stmts → Compl
  | .nil => .normal
  | .cons s r => (s.compl []).seq r.compl
/-- (union over all entry points of "run from case i to the end", is there a `default`) -/
def Cases.compl : Cases → Compl × Bool
  | .nil => ({}, false)
  | .cons _ isDefault _ body r =>
    let rest := r.compl
    -- entering here: this body, then fall through into the following bodies
    (( body.compl.seq r.fallCompl).union rest.1, isDefault || rest.2)
def Cases.testsMayThrow : Cases → Bool
  | .nil => false
  | .cons _ _ test _ r => test.mayThrow || r.testsMayThrow
/-- run all bodies from the first case on (fall-through chain); running off the end completes normally -/
def Cases.fallCompl : Cases → Compl
  | .nil => .normal
  | .cons _ _ _ body r => body.compl.seq r.fallCompl
/-- the catch clause: parameter patterns may evaluate defaults, then the body block -/
def Kids.catchCompl : Kids → Compl
  | .nil => .normal
  | .cons (.block _ body) r => body.compl.seq r.catchCompl
  | .cons k r => (Compl.seq { n := true, t := k.mayThrow } r.catchCompl)
end

/-! ## reachability (position-keyed, like the analyzer's metadata) -/
mutual
/-- given that `s` is entered: is a statement starting at `p` reached -/
def Stmt.reach : Stmt → Nat → Bool
  | .simple q _ kids, p => p == q || kids.flowReach p
  | .block q body, p => p == q || body.reach p
  | .ifS q test c none, p => p == q || ((evalCompl test).n && c.reach p)
  | .ifS q test c (some a), p => p == q || ((evalCompl test).n && (c.reach p || a.reach p))
  | .whileS q _ _ body, p => p == q || body.reach p
  | .doWhileS q body _ _, p => p == q || body.reach p
  | .forS q _ _ _ _ _ body, p => p == q || body.reach p
  | .forInOf q _ _ body, p => p == q || body.reach p
  | .switchS q _ cases, p => p == q || cases.reach p
  | .tryS q _ block hasHandler _ catchKids hasFin _ fin, p =>
    p == q || block.reach p ||
    (hasHandler && block.compl.t && catchKids.catchReach p) ||
    (hasFin && (tryCatchCompl block.compl hasHandler catchKids.catchCompl).any && fin.reach p)
  | .labeled q _ body, p => p == q || body.reach p
  | .brk q _, p => p == q
  | .cont q _, p => p == q
  | .ret q _, p => p == q
  | .throw q _, p => p == q
def Stmts.reach : Stmts → Nat → Bool
  | .nil, _ => false
  | .cons s r, p => s.reach p || ((s.compl []).n && r.reach p)
/-- every case can be entered directly; later statements by sequencing and fall-through -/
def Cases.reach : Cases → Nat → Bool
  | .nil, _ => false
  | .cons q _ _ body r, p => p == q || body.reach p || r.reach p
def Kids.catchReach : Kids → Nat → Bool
  | .nil, _ => false
  | .cons (.block q body) _, p => p == q || body.reach p
  | .cons _ r, p => r.catchReach p
/-- statements nested in kids that execute in the enclosing flow (class static blocks, `with` bodies);
over-approximated: each is taken to be entered -/
def Kids.flowReach : Kids → Nat → Bool
  | .nil, _ => false
  | .cons k r, p => k.flowReach p || r.flowReach p
def Kid.flowReach : Kid → Nat → Bool
  | .expr _ kids, p => kids.flowReach p
  | .fnScope _ _, _ => false
  | .block q body, p => p == q || body.reach p
  | .stmt s, p => s.reach p
end

end DL.CF
