import DL.Model.CF

/-!
# Reference semantics for the statement language of M-CF

`compl s` = the set of ways an execution of `s` can complete (standard ECMAScript completion records), and
`reach s p` = "if `s` is entered, some execution reaches a statement that starts at position `p`", under:

* opaque conditions can go either way — except tests swc reports as `Known(true)` (`testTrue`), which are always true;
* every expression that is not a bare identifier or `this` (in particular every call) may throw; `throw` always throws;
* nested function bodies are not executed by evaluating the expression that creates them; every function body is an
  entry point of its own (`Stmt.entries`);
* statements nested directly in an expression (`with` bodies, class static blocks: `Kid.stmt`, `Kid.block`) are executed
  where the expression is evaluated (`Kids.compl`, `Kids.flowReach`): an abrupt completion of one ends the evaluation of
  the expression and is a completion of the enclosing statement.  Exceptions, kept coarse on purpose: case tests, catch
  parameters and function parameters are only looked at through `Kids.mayThrow`;
* `try/catch/finally` per ECMA-262 §14.15: the handler runs iff the block may throw, the finalizer runs after any
  completion and overrides it when it completes abruptly.

Both are structural, executable computations and are *the definition* of the reference semantics used by the theorems
and by the search oracles.  `DL.Model.CFExec` gives an independent inductive big-step semantics (`Exec`, `Reaches`) and
`DL.Props.C10Ref` proves that the closed forms are exactly it (`compl_iff_exec`, `reach_iff_reaches`).
-/
namespace DL.CF

/-- a set of completion kinds -/
structure Compl where
  n : Bool := false          -- normal
  b : Bool := false          -- unlabelled break
  c : Bool := false          -- unlabelled continue
  r : Bool := false          -- return
  t : Bool := false          -- throw
  bl : List Id := []         -- labelled breaks
  cl : List Id := []         -- labelled continues
  deriving Repr, DecidableEq

def Compl.normal : Compl := { n := true }
def Compl.none_ : Compl := {}
def Compl.any (x : Compl) : Bool := x.n || x.b || x.c || x.r || x.t || !x.bl.isEmpty || !x.cl.isEmpty
def Compl.union (x y : Compl) : Compl :=
  { n := x.n || y.n, b := x.b || y.b, c := x.c || y.c, r := x.r || y.r, t := x.t || y.t, bl := x.bl ++ y.bl, cl := x.cl ++ y.cl }
/-- the abrupt part -/
def Compl.abrupt (x : Compl) : Compl := { x with n := false }
/-- sequential composition: `y` happens only after a normal completion of `x` -/
def Compl.seq (x y : Compl) : Compl := if x.n then x.abrupt.union y else x
/-- restrict to "happens only if `g`" -/
def Compl.guard (g : Bool) (x : Compl) : Compl := if g then x else {}

mutual
/-- can evaluating these kids throw (nested function bodies are not executed) -/
def Kids.mayThrow : Kids → Bool
  | .nil => false
  | .cons k r => k.mayThrow || r.mayThrow
def Kid.mayThrow : Kid → Bool
  | .expr .other _ => true
  | .expr _ kids => kids.mayThrow
  | .fnScope _ _ => false
  | .block _ _ => false        -- static blocks / `with` bodies: their throws are accounted for by `Kids.compl`, not here
  | .stmt _ => false
end

/-- what an expression node itself does after its sub-expressions: anything that is not a bare identifier or `this` may throw -/
def exprOwn : EKind → Compl
  | .other => { n := true, t := true }
  | _ => { n := true }

/-- completion of a loop given the completion `b` of one body execution and the labels `ls` that label this loop:
`break` exits normally; `continue` (unlabelled or to one of `ls`) and normal body completion go round again;
`exitByTest` = the loop can also end because its test becomes false -/
def loopCompl (ls : List Id) (exitByTest : Bool) (b : Compl) : Compl :=
  { n := exitByTest || b.b, r := b.r, t := b.t, bl := b.bl, cl := b.cl.filter (fun l => !ls.contains l) }

/-- …for reaching the test of a `do-while` / the update of a `for` (reachability carries no label context): any
`continue`, labelled or not, is taken to go round -/
def goesRoundAny (b : Compl) : Bool := b.n || b.c || !b.cl.isEmpty

/-- does one body execution lead to another evaluation of the test / update (normal, `continue`, `continue L`) -/
def goesRound (ls : List Id) (b : Compl) : Bool := b.n || b.c || b.cl.any (fun l => ls.contains l)

/-- the completions of `try { block } catch { handler }` before the finalizer -/
def tryCatchCompl (b : Compl) (hasHandler : Bool) (h : Compl) : Compl :=
  if hasHandler then ({ b with t := false } : Compl).union (Compl.guard b.t h) else b

/-- …and after it: the finalizer runs after any completion and overrides it when it completes abruptly -/
def finallyCompl (r1 : Compl) (hasFin : Bool) (f : Compl) : Compl :=
  if hasFin then Compl.guard r1.any ((Compl.guard f.n r1).union f.abrupt) else r1

/-- evaluating a loop test with completions `c`: a test that swc reports as `Known(true)` is a constant-like, side-effect
free expression (literal, `!0`, `[]`, …) and cannot throw -/
def testComplOf (testTrue : Bool) (c : Compl) : Compl := if testTrue then { n := true } else c

mutual
/-- evaluating an expression tree, in order: sub-expressions first; function scopes are values (their bodies are not
executed); statements nested directly in it (`with` bodies, class static blocks) execute in the enclosing flow, and an
abrupt completion of theirs ends the evaluation -/
def Kid.compl : Kid → Compl
  | .expr e ks => ks.compl.seq (exprOwn e)
  | .fnScope _ _ => .normal
  | .block _ body => body.compl
  | .stmt s => s.compl []
def Kids.compl : Kids → Compl
  | .nil => .normal
  | .cons k r => k.compl.seq r.compl
/-- `ls` = the labels that immediately label this statement -/
def Stmt.compl (ls : List Id) : Stmt → Compl
  | .simple _ _ kids => kids.compl
  | .block _ body => body.compl
  | .ifS _ test c none => (test.compl).seq ((c.compl []).union .normal)
  | .ifS _ test c (some a) => (test.compl).seq ((c.compl []).union (a.compl []))
  | .whileS _ test tt body =>
    let b := body.compl []
    let tc := testComplOf tt test.compl
    tc.seq ((loopCompl ls (!tt) b).union (Compl.guard (goesRound ls b) tc.abrupt))
  | .doWhileS _ body test tt =>
    let b := body.compl []
    let viaTest : Compl := Compl.guard (goesRound ls b) (testComplOf tt test.compl)
    (loopCompl ls (viaTest.n && !tt) b).union viaTest.abrupt
  | .forS _ init update test hasTest tt body =>
    let b := body.compl []
    let tc := testComplOf tt test.compl
    let again : Compl := Compl.guard (goesRound ls b) ((update.compl).seq tc).abrupt
    (init.compl).seq (tc.seq ((loopCompl ls (hasTest && !tt) b).union again))
  | .forInOf _ left right body =>
    ((right.compl).seq (left.compl)).seq ((loopCompl ls true (body.compl [])).union (left.compl).abrupt)
  | .switchS _ disc cases =>
    let inner := cases.compl
    let c := inner.1.union (Compl.guard (!inner.2) .normal)
    -- an unlabelled `break` out of the cases leaves the switch normally
    ((disc.compl).seq { n := true, t := cases.testsMayThrow }).seq { c with n := c.n || c.b, b := false }
  | .tryS _ _ block hasHandler _ catchKids hasFin _ fin =>
    finallyCompl (tryCatchCompl block.compl hasHandler catchKids.catchCompl) hasFin fin.compl
  | .labeled _ l body =>
    let b := body.compl (l :: ls)
    { b with n := b.n || b.bl.contains l, bl := b.bl.filter (· != l), cl := b.cl.filter (· != l) }
  | .brk _ none => { b := true }
  | .brk _ (some l) => { bl := [l] }
  | .cont _ none => { c := true }
  | .cont _ (some l) => { cl := [l] }
  | .ret _ arg => (arg.compl).seq { r := true }
  | .throw _ arg => (arg.compl).seq { t := true }
def Stmts.compl : Stmts → Compl
  | .nil => .normal
  | .cons s r => (s.compl []).seq r.compl
/-- (union over all entry points of "run from case i to the end", is there a `default`) -/
def Cases.compl : Cases → Compl × Bool
  | .nil => ({}, false)
  | .cons _ isDefault _ body r =>
    let rest := r.compl
    -- entering here: this body, then fall through into the following bodies
    (( body.compl.seq r.fallCompl).union rest.1, isDefault || rest.2)
def Cases.testsMayThrow : Cases → Bool
  | .nil => false
  | .cons _ _ test _ r => test.mayThrow || r.testsMayThrow
/-- run all bodies from the first case on (fall-through chain); running off the end completes normally -/
def Cases.fallCompl : Cases → Compl
  | .nil => .normal
  | .cons _ _ _ body r => body.compl.seq r.fallCompl
/-- the catch clause: parameter patterns may evaluate defaults, then the body block -/
def Kids.catchCompl : Kids → Compl
  | .nil => .normal
  | .cons (.block _ body) r => body.compl.seq r.catchCompl
  | .cons k r => (Compl.seq { n := true, t := k.mayThrow } r.catchCompl)
end

/-- evaluating expressions (kept as a name for `Kids.compl`) -/
def evalCompl (kids : Kids) : Compl := kids.compl
def testCompl (testTrue : Bool) (test : Kids) : Compl := testComplOf testTrue test.compl

/-! ## reachability (position-keyed, like the analyzer's metadata) -/
mutual
/-- given that `s` is entered: is a statement starting at `p` reached -/
def Stmt.reach : Stmt → Nat → Bool
  | .simple q _ kids, p => p == q || kids.flowReach p
  | .block q body, p => p == q || body.reach p
  | .ifS q test c none, p => p == q || test.flowReach p || ((test.compl).n && c.reach p)
  | .ifS q test c (some a), p => p == q || test.flowReach p || ((test.compl).n && (c.reach p || a.reach p))
  | .whileS q test tt body, p => p == q || test.flowReach p || ((testComplOf tt test.compl).n && body.reach p)
  | .doWhileS q body test _, p => p == q || body.reach p || (goesRoundAny (body.compl []) && test.flowReach p)
  | .forS q init update test _ tt body, p =>
    p == q || init.flowReach p ||
    ((init.compl).n && (test.flowReach p || ((testComplOf tt test.compl).n &&
      (body.reach p || (goesRoundAny (body.compl []) && update.flowReach p)))))
  | .forInOf q left right body, p =>
    p == q || right.flowReach p || ((right.compl).n && (left.flowReach p || ((left.compl).n && body.reach p)))
  | .switchS q disc cases, p => p == q || disc.flowReach p || ((disc.compl).n && cases.reach p)
  | .tryS q _ block hasHandler _ catchKids hasFin _ fin, p =>
    p == q || block.reach p ||
    (hasHandler && block.compl.t && catchKids.catchReach p) ||
    (hasFin && (tryCatchCompl block.compl hasHandler catchKids.catchCompl).any && fin.reach p)
  | .labeled q _ body, p => p == q || body.reach p
  | .brk q _, p => p == q
  | .cont q _, p => p == q
  | .ret q arg, p => p == q || arg.flowReach p
  | .throw q arg, p => p == q || arg.flowReach p
def Stmts.reach : Stmts → Nat → Bool
  | .nil, _ => false
  | .cons s r, p => s.reach p || ((s.compl []).n && r.reach p)
/-- every case can be entered directly; later statements by sequencing and fall-through -/
def Cases.reach : Cases → Nat → Bool
  | .nil, _ => false
  | .cons q _ test body r, p => p == q || test.flowReach p || body.reach p || r.reach p
def Kids.catchReach : Kids → Nat → Bool
  | .nil, _ => false
  | .cons (.block q body) _, p => p == q || body.reach p
  | .cons _ r, p => r.catchReach p
/-- statements nested in kids that execute in the enclosing flow (class static blocks, `with` bodies): in order, each
entered when what comes before it in the expression tree can complete normally -/
def Kids.flowReach : Kids → Nat → Bool
  | .nil, _ => false
  | .cons k r, p => k.flowReach p || (k.compl.n && r.flowReach p)
def Kid.flowReach : Kid → Nat → Bool
  | .expr _ kids, p => kids.flowReach p
  | .fnScope _ _, _ => false
  | .block q body, p => p == q || body.reach p
  | .stmt s, p => s.reach p
end

end DL.CF
