import DL.Model.Txt
/-!
# M-WS — `no-irregular-whitespace` (`src/rules/no_irregular_whitespace.rs`)

The rule looks at the text *between* tokens (white space and comments; from the start of the file to the first token,
between consecutive tokens, from the last token to the end of the file).  In each such gap it reports
(1) every maximal run of irregular white-space characters (the regular expression `[…]+`), then
(2) every U+2028 / U+2029 character, each with its byte range.

The file is given as its segments in order: `(true, text)` = a gap, `(false, text)` = a token (skipped).
-/
namespace DL.Ws
open DL.Txt

/-- the character class of `IRREGULAR_WHITESPACE` -/
def isIrregular (c : Char) : Bool :=
  [0x0c, 0x0b, 0x85, 0xfeff, 0xa0, 0x1680, 0x180e, 0x2000, 0x2001, 0x2002, 0x2003, 0x2004, 0x2005, 0x2006, 0x2007, 0x2008,
   0x2009, 0x200a, 0x200b, 0x202f, 0x205f, 0x3000].contains c.toNat

/-- the character class of `IRREGULAR_LINE_TERMINATORS` -/
def isLineTerm (c : Char) : Bool := c.toNat == 0x2028 || c.toNat == 0x2029

/-- a reported byte range -/
structure Rng where
  start : Nat
  stop : Nat
  deriving DecidableEq, Repr

/-- maximal runs of irregular white space in a text starting at byte offset `i`; `cur` = start of the run in progress -/
def runs (cur : Option Nat) (i : Nat) : List Char → List Rng
  | [] => match cur with
    | some s => [⟨s, i⟩]
    | none => []
  | c :: r =>
    if isIrregular c then runs (some (cur.getD i)) (i + utf8Len c) r
    else (match cur with
      | some s => [⟨s, i⟩]
      | none => []) ++ runs none (i + utf8Len c) r

/-- the irregular line terminators of a text starting at byte offset `i` -/
def lineTerms (i : Nat) : List Char → List Rng
  | [] => []
  | c :: r => (if isLineTerm c then [⟨i, i + utf8Len c⟩] else []) ++ lineTerms (i + utf8Len c) r

/-- what `check_range` reports for one gap -/
def gap (i : Nat) (t : List Char) : List Rng := runs none i t ++ lineTerms i t

/-- the whole file -/
def scan (i : Nat) : List (Bool × List Char) → List Rng
  | [] => []
  | (true, t) :: r => gap i t ++ scan (i + bytes t) r
  | (false, t) :: r => scan (i + bytes t) r

def noIrregularWhitespace (segs : List (Bool × List Char)) : List Rng := scan 0 segs

end DL.Ws
