import DL.Model.RegexSpec

/-!
# ECMA-262 (ES2022) §22.2.1 + Annex B.1.2 — the pattern grammar *without* the `u` flag

Parameters fixed here: `[~UnicodeMode]`; the parameter `[NamedCaptureGroups]` is the Boolean `nf` (§22.2.3.? *ParsePattern*:
the pattern is parsed with `[~N]`; if that parse contains a `GroupName` it is parsed again with `[+N]`).
The grammar is the one of the main body with the replacements of Annex B.1.2 ("Regular Expressions Patterns").
Without `u` a pattern is a sequence of **UTF-16 code units** (`SourceCharacter` here: any value `≤ 0xFFFF`);
the relations are over the code-unit text `encodeUtf16 pattern`.

Same conventions as `DL/Model/RegexSpec.lean` (`X i r attrs`: `i` input at the start of `X`, `r` what is left).
Reused unchanged from there: the lexical classes, `Hex4Digits`, `RegExpUnicodeEscapeSequence[+U]` (only inside
group names, where Annex B / ES2020 force Unicode-mode escapes), `DecimalEscape`, `Quantifier`, `GroupSpecifier`.

**Ordered choice.**  Annex B.1.2: "These changes introduce ambiguities that are broken by the ordering of grammar
productions and by contextual information.  When parsing using the following grammar, each alternative is considered
only if previous production alternatives do not match."  Where two alternatives of a production can match at the same
position, the later one therefore carries a side condition (marked `ordered choice:`) saying that the earlier ones do
not match there.  This matters for one early error: the CharacterValues of the ends of a class range (`[\1-\0]` is
`U+0001 – U+0000`, out of order; it must not be read as `U+0001 – "0"`).

Written from memory of ES2022; points I am not certain about are marked **(?)**.
-/
namespace DL.RxSpecB
open DL.RxSpec DL.Gen.Unicode

/-- a code unit -/
def SourceCharacter (x : Nat) : Prop := x ≤ 0xFFFF

def OctalDigit (x : Nat) : Prop := c '0' ≤ x ∧ x ≤ c '7'
def NonZeroOctalDigit (x : Nat) : Prop := c '1' ≤ x ∧ x ≤ c '7'
def ZeroToThree (x : Nat) : Prop := c '0' ≤ x ∧ x ≤ c '3'
def FourToSeven (x : Nat) : Prop := c '4' ≤ x ∧ x ≤ c '7'
def octVal (x : Nat) : Nat := x - c '0'

/-- B.1.2 / §12.8.4.1 `LegacyOctalEscapeSequence`, with its value
```
  0 [lookahead ∈ {8, 9}] | NonZeroOctalDigit [lookahead ∉ OctalDigit] | ZeroToThree OctalDigit [lookahead ∉ OctalDigit]
  | FourToSeven OctalDigit | ZeroToThree OctalDigit OctalDigit
``` -/
inductive LegacyOctalEscapeSequence : Str → Str → Nat → Prop
  | zero89 (r : Str) : (∃ d, r.head? = some d ∧ (d = c '8' ∨ d = c '9')) → LegacyOctalEscapeSequence (c '0' :: r) r 0
  | one (a : Nat) (r : Str) : NonZeroOctalDigit a → (∀ d, r.head? = some d → ¬OctalDigit d) →
      LegacyOctalEscapeSequence (a :: r) r (octVal a)
  | two03 (a b : Nat) (r : Str) : ZeroToThree a → OctalDigit b → (∀ d, r.head? = some d → ¬OctalDigit d) →
      LegacyOctalEscapeSequence (a :: b :: r) r (octVal a * 8 + octVal b)
  | two47 (a b : Nat) (r : Str) : FourToSeven a → OctalDigit b →
      LegacyOctalEscapeSequence (a :: b :: r) r (octVal a * 8 + octVal b)
  | three (a b d : Nat) (r : Str) : ZeroToThree a → OctalDigit b → OctalDigit d →
      LegacyOctalEscapeSequence (a :: b :: d :: r) r (octVal a * 64 + octVal b * 8 + octVal d)

/-- ordered choice, for `IdentityEscape`: at the text `x :: r` none of the earlier alternatives of `CharacterEscape`
matches — `x` is not a `ControlEscape` letter, not an octal digit (`0`, a `LegacyOctalEscapeSequence`), not the `x` of a
`HexEscapeSequence`, not the `u` of a `RegExpUnicodeEscapeSequence[~U]` (`c ControlLetter` is excluded by `x ≠ c`) -/
def EarlierEscapeFree (x : Nat) (r : Str) : Prop :=
  x ∉ [c 'f', c 'n', c 'r', c 't', c 'v'] ∧ ¬OctalDigit x ∧
  ¬(x = c 'x' ∧ ∃ a b r', r = a :: b :: r' ∧ HexDigit a ∧ HexDigit b) ∧
  ¬(x = c 'u' ∧ ∃ r' v, Hex4Digits r r' v)

/-- `CharacterEscape[~U, N]`, with its CharacterValue
```
  ControlEscape | c ControlLetter | 0 [lookahead ∉ DecimalDigit] | HexEscapeSequence
  | RegExpUnicodeEscapeSequence[~U]        :: u Hex4Digits
  | [~U] LegacyOctalEscapeSequence
  | IdentityEscape[~U, N]                  :: [~N] SourceCharacter but not c | [+N] SourceCharacter but not one of c k
``` -/
inductive CharacterEscape (nf : Bool) : Str → Str → Nat → Prop
  | f (r : Str) : CharacterEscape nf (c 'f' :: r) r 12
  | n (r : Str) : CharacterEscape nf (c 'n' :: r) r 10
  | r (r : Str) : CharacterEscape nf (c 'r' :: r) r 13
  | t (r : Str) : CharacterEscape nf (c 't' :: r) r 9
  | v (r : Str) : CharacterEscape nf (c 'v' :: r) r 11
  | controlLetter (l : Nat) (r : Str) : ControlLetter l → CharacterEscape nf (c 'c' :: l :: r) r (l % 32)
  | zero (r : Str) : (∀ d, r.head? = some d → ¬DecimalDigit d) → CharacterEscape nf (c '0' :: r) r 0
  | hex (a b : Nat) (r : Str) : HexDigit a → HexDigit b → CharacterEscape nf (c 'x' :: a :: b :: r) r (mvHex [a, b])
  | unicode (m r : Str) (v : Nat) : Hex4Digits m r v → CharacterEscape nf (c 'u' :: m) r v
  | legacyOctal (i r : Str) (v : Nat) : LegacyOctalEscapeSequence i r v → CharacterEscape nf i r v
  | identity (x : Nat) (r : Str) : SourceCharacter x → x ≠ c 'c' → (nf = true → x ≠ c 'k') →
      EarlierEscapeFree x r →          -- ordered choice: no earlier alternative of `CharacterEscape` matches here
      CharacterEscape nf (x :: r) r x

/-- `CharacterClassEscape[~U] :: d | D | s | S | w | W` (no `\p` without `u`) -/
def CharacterClassEscape (i r : Str) : Prop :=
  ∃ x, i = x :: r ∧ x ∈ [c 'd', c 'D', c 's', c 'S', c 'w', c 'W']

/-! ## group names (Annex B does not change them; ES2020: a name may contain `\u{…}` and surrogate pairs also
without the `u` flag) -/

/-- `UnicodeLeadSurrogate UnicodeTrailSurrogate`: two code units, with the code point they encode -/
def SurrogatePair (i r : Str) (v : Nat) : Prop :=
  ∃ l t, i = l :: t :: r ∧ isLead l ∧ isTrail t ∧ v = (l - 0xD800) * 0x400 + (t - 0xDC00) + 0x10000

/-- `RegExpIdentifierStart[~U] :: IdentifierStartChar | \ RegExpUnicodeEscapeSequence[+U]
  | UnicodeLeadSurrogate UnicodeTrailSurrogate` -/
inductive RegExpIdentifierStart : Str → Str → Nat → Prop
  | char (x : Nat) (r : Str) : IdentifierStartChar x → RegExpIdentifierStart (x :: r) r x
  | escape (m r : Str) (v : Nat) : RegExpUnicodeEscapeSequence m r v → IdentifierStartChar v →
      RegExpIdentifierStart (c '\\' :: m) r v
  | pair (i r : Str) (v : Nat) : SurrogatePair i r v → IdentifierStartChar v → RegExpIdentifierStart i r v

inductive RegExpIdentifierPart : Str → Str → Nat → Prop
  | char (x : Nat) (r : Str) : IdentifierPartChar x → RegExpIdentifierPart (x :: r) r x
  | escape (m r : Str) (v : Nat) : RegExpUnicodeEscapeSequence m r v → IdentifierPartChar v →
      RegExpIdentifierPart (c '\\' :: m) r v
  | pair (i r : Str) (v : Nat) : SurrogatePair i r v → IdentifierPartChar v → RegExpIdentifierPart i r v

inductive RegExpIdentifierName : Str → Str → Name → Prop
  | start (i r : Str) (x : Nat) : RegExpIdentifierStart i r x → RegExpIdentifierName i r [x]
  | part (i m r : Str) (n : Name) (x : Nat) : RegExpIdentifierName i m n → RegExpIdentifierPart m r x →
      RegExpIdentifierName i r (n ++ [x])

def GroupName (i r : Str) (n : Name) : Prop := ∃ m, i = c '<' :: m ∧ RegExpIdentifierName m (c '>' :: r) n

inductive GroupSpecifier : Str → Str → Option Name → Prop
  | empty (r : Str) : GroupSpecifier r r none
  | named (m r : Str) (n : Name) : GroupName m r n → GroupSpecifier (c '?' :: m) r (some n)

/-! ## atom escapes -/

/-- `AtomEscape[~U, N]`
```
  [~U] DecimalEscape but only if the CapturingGroupNumber of DecimalEscape is ≤ NcapturingParens
  | CharacterClassEscape[~U] | CharacterEscape[~U, ?N] | [+N] k GroupName
``` -/
inductive AtomEscape (nf : Bool) (N : Nat) : Str → Str → Attr → Prop
  | decimal (i r : Str) (v : Nat) : DecimalEscape i r v → v ≤ N → AtomEscape nf N i r Attr.nil
  | characterClass (i r : Str) : CharacterClassEscape i r → AtomEscape nf N i r Attr.nil
  | character (i r : Str) (v : Nat) : CharacterEscape nf i r v →
      (¬∃ r' v', DecimalEscape i r' v' ∧ v' ≤ N) →       -- ordered choice: no `DecimalEscape` (≤ NcapturingParens) here
      (¬∃ r', CharacterClassEscape i r') →               -- ordered choice: no `CharacterClassEscape` here
      AtomEscape nf N i r Attr.nil
  | named (m r : Str) (n : Name) : nf = true → GroupName m r n → AtomEscape nf N (c 'k' :: m) r ⟨[], [n]⟩

/-! ## character classes -/

/-- `ClassControlLetter :: DecimalDigit | _` -/
def ClassControlLetter (x : Nat) : Prop := DecimalDigit x ∨ x = c '_'

/-- `ClassEscape[~U, N] :: b | [~U] c ClassControlLetter | CharacterClassEscape | CharacterEscape[~U, ?N]` -/
inductive ClassEscape (nf : Bool) : Str → Str → Option Nat → Prop
  | b (r : Str) : ClassEscape nf (c 'b' :: r) r (some 8)
  | classControl (l : Nat) (r : Str) : ClassControlLetter l → ClassEscape nf (c 'c' :: l :: r) r (some (l % 32))
  | characterClass (i r : Str) : CharacterClassEscape i r → ClassEscape nf i r none
  | character (i r : Str) (v : Nat) : CharacterEscape nf i r v →
      i.head? ≠ some (c 'b') →                           -- ordered choice: not `b`
      (¬∃ r', CharacterClassEscape i r') →               -- ordered choice: no `CharacterClassEscape` here
      ClassEscape nf i r (some v)

/-- `ClassAtomNoDash[~U, N] :: SourceCharacter but not one of \ or ] or - | \ ClassEscape | \ [lookahead = c]`;
the last alternative matches the `\` alone (its CharacterValue is U+005C) -/
inductive ClassAtomNoDash (nf : Bool) : Str → Str → Option Nat → Prop
  | char (x : Nat) (r : Str) : SourceCharacter x → x ≠ c '\\' → x ≠ c ']' → x ≠ c '-' →
      ClassAtomNoDash nf (x :: r) r (some x)
  | escape (m r : Str) (v : Option Nat) : ClassEscape nf m r v → ClassAtomNoDash nf (c '\\' :: m) r v
  | backslashC (r : Str) :
      -- ordered choice: `\ ClassEscape` does not match (`c` is followed neither by a `ClassControlLetter` nor a letter)
      (∀ l, r.head? = some l → ¬ClassControlLetter l ∧ ¬ControlLetter l) →
      ClassAtomNoDash nf (c '\\' :: c 'c' :: r) (c 'c' :: r) (some (c '\\'))

inductive ClassAtom (nf : Bool) : Str → Str → Option Nat → Prop
  | dash (r : Str) : ClassAtom nf (c '-' :: r) r (some (c '-'))
  | noDash (i r : Str) (v : Option Nat) : ClassAtomNoDash nf i r v → ClassAtom nf i r v

/-- B.1.2.1: without `u` the only early error of a range is "both ends are characters and out of order" -/
def RangeOk (a b : Option Nat) : Prop := ∀ x y, a = some x → b = some y → x ≤ y

inductive CR (nf : Bool) : CRSym → Str → Str → Prop
  | empty (r : Str) : CR nf .ClassRanges r r
  | nonempty (i r : Str) : CR nf .NonemptyClassRanges i r → CR nf .ClassRanges i r
  | atom (i r : Str) (v : Option Nat) : ClassAtom nf i r v → CR nf .NonemptyClassRanges i r
  | atomMore (i m r : Str) (v : Option Nat) : ClassAtom nf i m v → CR nf .NonemptyClassRangesNoDash m r →
      CR nf .NonemptyClassRanges i r
  | range (i m₁ m₂ r : Str) (a b : Option Nat) : ClassAtom nf i (c '-' :: m₁) a → ClassAtom nf m₁ m₂ b →
      RangeOk a b → CR nf .ClassRanges m₂ r → CR nf .NonemptyClassRanges i r
  | ndAtom (i r : Str) (v : Option Nat) : ClassAtom nf i r v → CR nf .NonemptyClassRangesNoDash i r
  | ndAtomMore (i m r : Str) (v : Option Nat) : ClassAtomNoDash nf i m v → CR nf .NonemptyClassRangesNoDash m r →
      CR nf .NonemptyClassRangesNoDash i r
  | ndRange (i m₁ m₂ r : Str) (a b : Option Nat) : ClassAtomNoDash nf i (c '-' :: m₁) a → ClassAtom nf m₁ m₂ b →
      RangeOk a b → CR nf .ClassRanges m₂ r → CR nf .NonemptyClassRangesNoDash i r

inductive CharacterClass (nf : Bool) : Str → Str → Prop
  | pos (m r : Str) : m.head? ≠ some (c '^') → CR nf .ClassRanges m (c ']' :: r) → CharacterClass nf (c '[' :: m) r
  | neg (m r : Str) : CR nf .ClassRanges m (c ']' :: r) → CharacterClass nf (c '[' :: c '^' :: m) r

/-! ## the recursive productions (Annex B.1.2) -/

/-- `InvalidBracedQuantifier :: { DecimalDigits } | { DecimalDigits , } | { DecimalDigits , DecimalDigits }`
(the text of a braced quantifier; early error: it is a Syntax Error if any source text is matched by it) -/
def InvalidBracedQuantifier (i r : Str) : Prop :=
  ∃ m, i = c '{' :: m ∧ ((∃ ds, DigitRun DecimalDigit ds m (c '}' :: r)) ∨
    (∃ ds, DigitRun DecimalDigit ds m (c ',' :: c '}' :: r)) ∨
    (∃ ds₁ ds₂ m₂, DigitRun DecimalDigit ds₁ m (c ',' :: m₂) ∧ DigitRun DecimalDigit ds₂ m₂ (c '}' :: r)))

/-- `ExtendedPatternCharacter :: SourceCharacter but not one of ^ $ \ . * + ? ( ) [ |` -/
def ExtendedPatternCharacter (x : Nat) : Prop :=
  SourceCharacter x ∧ x ∉ [c '^', c '$', c '\\', c '.', c '*', c '+', c '?', c '(', c ')', c '[', c '|']

inductive Sym where
  | Disjunction | Alternative | Term | Assertion | QuantifiableAssertion | ExtendedAtom

/-- the text starts with one of the assertions `\b`, `\B` (the only texts that are an `Assertion` and also the
beginning of an `ExtendedAtom`) -/
def StartsWordBoundary (i : Str) : Prop := ∃ r, i = c '\\' :: c 'b' :: r ∨ i = c '\\' :: c 'B' :: r

/--
```
Disjunction :: Alternative | Alternative `|` Disjunction
Alternative :: [empty] | Alternative Term
Term[~U]    :: QuantifiableAssertion Quantifier | Assertion | ExtendedAtom Quantifier | ExtendedAtom
Assertion[~U] :: ^ | $ | \b | \B | QuantifiableAssertion | (?<= Disjunction ) | (?<! Disjunction )
QuantifiableAssertion :: (?= Disjunction ) | (?! Disjunction )
ExtendedAtom :: . | \ AtomEscape | \ [lookahead = c] | CharacterClass | ( GroupSpecifier Disjunction )
              | (?: Disjunction ) | InvalidBracedQuantifier | ExtendedPatternCharacter
```
`InvalidBracedQuantifier` is always an early error, so it has no constructor; **(?)** the standard's grammar is
ambiguous for a text like `{1}` (it is also `ExtendedPatternCharacter`s); engines report it, which is the reading
"the early error applies whenever `InvalidBracedQuantifier` could match here" — the side condition of
`extendedPatternCharacter`. -/
inductive Derives (nf : Bool) (qok : Nat → Nat → Prop) (N : Nat) : Sym → Str → Str → Attr → Prop
  | disjOne (i r : Str) (a : Attr) : Derives nf qok N .Alternative i r a → Derives nf qok N .Disjunction i r a
  | disjMore (i m r : Str) (a₁ a₂ : Attr) : Derives nf qok N .Alternative i (c '|' :: m) a₁ →
      Derives nf qok N .Disjunction m r a₂ → Derives nf qok N .Disjunction i r (a₁ ++ a₂)
  | altEmpty (r : Str) : Derives nf qok N .Alternative r r Attr.nil
  | altSnoc (i m r : Str) (a₁ a₂ : Attr) : Derives nf qok N .Alternative i m a₁ → Derives nf qok N .Term m r a₂ →
      Derives nf qok N .Alternative i r (a₁ ++ a₂)
  -- Term
  | termQAssertionQuantified (i m r : Str) (a : Attr) : Derives nf qok N .QuantifiableAssertion i m a →
      Quantifier qok m r → Derives nf qok N .Term i r a
  | termAssertion (i r : Str) (a : Attr) : Derives nf qok N .Assertion i r a → Derives nf qok N .Term i r a
  | termAtomQuantified (i m r : Str) (a : Attr) : Derives nf qok N .ExtendedAtom i m a → Quantifier qok m r →
      ¬StartsWordBoundary i →                            -- ordered choice: the `Assertion`s `\b`, `\B` come first
      Derives nf qok N .Term i r a
  | termAtom (i r : Str) (a : Attr) : Derives nf qok N .ExtendedAtom i r a →
      ¬StartsWordBoundary i →                            -- ordered choice: the `Assertion`s `\b`, `\B` come first
      Derives nf qok N .Term i r a
  -- Assertion
  | caret (r : Str) : Derives nf qok N .Assertion (c '^' :: r) r Attr.nil
  | dollar (r : Str) : Derives nf qok N .Assertion (c '$' :: r) r Attr.nil
  | wordBoundary (r : Str) : Derives nf qok N .Assertion (c '\\' :: c 'b' :: r) r Attr.nil
  | notWordBoundary (r : Str) : Derives nf qok N .Assertion (c '\\' :: c 'B' :: r) r Attr.nil
  | quantifiable (i r : Str) (a : Attr) : Derives nf qok N .QuantifiableAssertion i r a →
      Derives nf qok N .Assertion i r a
  | lookbehind (i m r : Str) (a : Attr) : lit ['(', '?', '<', '='] i m →
      Derives nf qok N .Disjunction m (c ')' :: r) a → Derives nf qok N .Assertion i r a
  | negativeLookbehind (i m r : Str) (a : Attr) : lit ['(', '?', '<', '!'] i m →
      Derives nf qok N .Disjunction m (c ')' :: r) a → Derives nf qok N .Assertion i r a
  -- QuantifiableAssertion
  | lookahead (i m r : Str) (a : Attr) : lit ['(', '?', '='] i m → Derives nf qok N .Disjunction m (c ')' :: r) a →
      Derives nf qok N .QuantifiableAssertion i r a
  | negativeLookahead (i m r : Str) (a : Attr) : lit ['(', '?', '!'] i m →
      Derives nf qok N .Disjunction m (c ')' :: r) a → Derives nf qok N .QuantifiableAssertion i r a
  -- ExtendedAtom
  | dot (r : Str) : Derives nf qok N .ExtendedAtom (c '.' :: r) r Attr.nil
  | atomEscape (m r : Str) (a : Attr) : AtomEscape nf N m r a → Derives nf qok N .ExtendedAtom (c '\\' :: m) r a
  | backslashC (r : Str) :
      -- ordered choice: `\ AtomEscape` does not match (`c` is not followed by a `ControlLetter`)
      (∀ l, r.head? = some l → ¬ControlLetter l) →
      Derives nf qok N .ExtendedAtom (c '\\' :: c 'c' :: r) (c 'c' :: r) Attr.nil
  | characterClass (i r : Str) : CharacterClass nf i r → Derives nf qok N .ExtendedAtom i r Attr.nil
  | group (m₁ m₂ r : Str) (name : Option Name) (a : Attr) : GroupSpecifier m₁ m₂ name →
      Derives nf qok N .Disjunction m₂ (c ')' :: r) a →
      Derives nf qok N .ExtendedAtom (c '(' :: m₁) r (⟨[name], []⟩ ++ a)
  | nonCapturing (i m r : Str) (a : Attr) : lit ['(', '?', ':'] i m →
      Derives nf qok N .Disjunction m (c ')' :: r) a → Derives nf qok N .ExtendedAtom i r a
  | extendedPatternCharacter (x : Nat) (r : Str) : ExtendedPatternCharacter x →
      (¬∃ r', InvalidBracedQuantifier (x :: r) r') → Derives nf qok N .ExtendedAtom (x :: r) r Attr.nil

/-- `Pattern[~U, N] :: Disjunction` on the whole code-unit text, with the early errors of the whole pattern -/
def ParsesWith (nf : Bool) (qok : Nat → Nat → Prop) (txt : Str) (a : Attr) : Prop :=
  Derives nf qok a.groups.length .Disjunction txt [] a ∧
  (groupNames a.groups).Nodup ∧ ∀ n ∈ a.refs, n ∈ groupNames a.groups

/-- *ParsePattern* without `u`: parse with `[~N]`; if the result contains a `GroupName`
(a named group — a `\k<…>` is no `GroupName` production under `[~N]`), parse again with `[+N]` -/
def ValidPatternWith (qok : Nat → Nat → Prop) (pattern : List Nat) : Prop :=
  ∃ a₀, ParsesWith false qok (DL.Rx.encodeUtf16 pattern) a₀ ∧
    (groupNames a₀.groups ≠ [] → ∃ a₁, ParsesWith true qok (DL.Rx.encodeUtf16 pattern) a₁)

def ValidPattern (pattern : List Nat) : Prop := ValidPatternWith (fun lo hi => lo ≤ hi) pattern

end DL.RxSpecB
