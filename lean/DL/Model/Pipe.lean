/-!
# M-PIPE — the diagnostic pipeline (`src/linter.rs:156-249`, `src/context.rs:236-397`)

State-passing transcription of `check_ignore_directive_usage`, `ban_unknown_rule_code`,
`ban_unused_ignore`, `collect_diagnostics` and `lint_inner`.

* `HashMap` iteration orders are explicit: the `codes` of a directive and the list of line
  directives are given *in iteration order* (the correspondence harness observes the real order).
* The `CodeStatus.used` flags, which the code keeps inside each directive's map, are kept here as a
  separate set of marks `(directive key, code)`; `check_used` adds a mark exactly when the directive
  has the code, and `status.used` is membership.  (Same observable behaviour; the directives
  themselves are then immutable, which is what the accounting proofs exploit.)
* `sort_by` is a stable sort: `List.mergeSort`.
* Every quirk of the code is kept (e.g. the file directive's `ban-unknown-rule-code` entry is
  marked used only when some unknown code was found; `diagnostic_line > 0`).
* History: the model first mirrored three defects of the pinned commit (range-less diagnostics
  dropped, `ban_unused_ignore` not gated, accounting diagnostics in hash order); they were
  repaired in /repo by `fix:` commits and the model follows the repaired code.
-/
namespace DL.Pipe

def cUnused : String := "ban-unused-ignore"
def cUnknown : String := "ban-unknown-rule-code"

inductive Payload
  | raw (id : Nat)              -- produced by a rule / the external linter: opaque
  | unused (code : String)      -- `Ignore for code "{code}" was not used.`
  | unknown (code : String)     -- `Unknown rule for code "{code}"`
  deriving DecidableEq, Repr

structure Diag where
  code : String
  /-- `(range.start, text_info.line_index(range.start))`; `none` = no range -/
  pos : Option (Nat × Nat)
  payload : Payload
  deriving DecidableEq, Repr

structure Dir where
  start : Nat
  line : Nat
  /-- keys of `HashMap<String, CodeStatus>` in iteration order; distinct -/
  codes : List String
  deriving DecidableEq, Repr

/-- `IgnoreDirective::has_code` -/
def Dir.hasCode (d : Dir) (c : String) : Bool := d.codes.contains c

/-- which directive: the file-level one, or the line-level one stored under line key `k` -/
abbrev DirKey := Option Nat

structure St where
  file : Option Dir
  /-- `HashMap<usize, LineIgnoreDirective>` in iteration order; keys distinct -/
  lines : List (Nat × Dir)
  /-- the `CodeStatus.used` flags that are set -/
  marks : List (DirKey × String) := []
  deriving DecidableEq, Repr

def lookupLine (k : Nat) : List (Nat × Dir) → Option Dir
  | [] => none
  | (k', d) :: r => if k' = k then some d else lookupLine k r

/-- does the file-level directive name code `c` -/
def fileNames (st : St) (c : String) : Bool :=
  match st.file with
  | some f => f.hasCode c
  | none => false

/-- does the line directive stored under key `k` name code `c` -/
def lineNamesAt (st : St) (k : Nat) (c : String) : Bool :=
  match lookupLine k st.lines with
  | some l => l.hasCode c
  | none => false

def St.mark (st : St) (k : DirKey) (c : String) : St := { st with marks := (k, c) :: st.marks }
def St.used (st : St) (k : DirKey) (c : String) : Bool := st.marks.contains (k, c)

/-- `if let Some(f) = self.file_ignore_directive.as_mut() { f.check_used(c) }` -/
def markFile (st : St) (c : String) : St := if fileNames st c then st.mark none c else st

/-- the line-directive half of one loop iteration of `check_ignore_directive_usage`; `true` = pushed to `filtered` -/
def stepLine (st : St) (d : Diag) : St × Bool :=
  match d.pos with
  | none => (st, true)                       -- `let Some(range) = .. else { filtered.push(..); continue }`
  | some (_, line) =>
    if line > 0 then
      if lineNamesAt st (line - 1) d.code then (st.mark (some (line - 1)) d.code, false)   -- `l.check_used(..)`
      else (st, true)
    else (st, true)

/-- one iteration of the loop in `check_ignore_directive_usage` -/
def stepUsage (st : St) (d : Diag) : St × Bool :=
  if fileNames st d.code then (st.mark none d.code, false) else stepLine st d

/-- `check_ignore_directive_usage` -/
def checkUsage (st : St) : List Diag → St × List Diag
  | [] => (st, [])
  | d :: ds =>
    let r := stepUsage st d
    let r' := checkUsage r.1 ds
    (r'.1, if r.2 then d :: r'.2 else r'.2)

def strLe (a b : String) : Bool := decide (a ≤ b)

/-- the diagnostics one directive contributes to an accounting rule: the selected codes, *sorted*
(`sort()` / `sort_by_key` on the collected `HashMap` entries) -/
def dirDiags (code : String) (mk : String → Payload) (p : String → Bool) (d : Dir) : List Diag :=
  ((d.codes.filter p).mergeSort strLe).map fun c => { code := code, pos := some (d.start, d.line), payload := mk c }

/-- file directive first, then the line directives in map iteration order; `p key code` selects -/
def allDirDiags (code : String) (mk : String → Payload) (p : DirKey → String → Bool) (st : St) : List Diag :=
  (match st.file with
    | some f => dirDiags code mk (p none) f
    | none => []) ++ st.lines.flatMap fun kd => dirDiags code mk (p (some kd.1)) kd.2

def unknownP (allRules : List String) : DirKey → String → Bool := fun _ c => !allRules.contains c
def unusedP (enabled : List String) (st : St) : DirKey → String → Bool :=
  fun k c => !st.used k c && enabled.contains c

/-- `ban_unknown_rule_code(all_rules)` -/
def banUnknown (allRules : List String) (checkUnknown : Bool) (st : St) : St × List Diag :=
  let diags := allDirDiags cUnknown .unknown (unknownP allRules) st
  let st' := if diags.isEmpty then st else markFile st cUnknown
  (st', if checkUnknown && !fileNames st' cUnknown then diags else [])

/-- `ban_unused_ignore(enabled_rules)` -/
def banUnused (enabled : List String) (st : St) : List Diag :=
  if fileNames st cUnused then [] else allDirDiags cUnused .unused (unusedP enabled st) st

/-- the comparator of the final `sort_by`: `Option<SourcePos>` (`None < Some`), then code -/
def diagLe (a b : Diag) : Bool :=
  match a.pos, b.pos with
  | none, none => decide (a.code ≤ b.code)
  | none, some _ => true
  | some _, none => false
  | some (x, _), some (y, _) => x < y || (x == y && decide (a.code ≤ b.code))

structure Cfg where
  /-- codes of `LinterContext.rules` -/
  configured : List String
  /-- `LinterOptions.all_rule_codes` -/
  allCodes : List String
  deriving Repr

def Cfg.checkUnknown (c : Cfg) : Bool := c.configured.contains cUnknown

/-- `collect_diagnostics` -/
def collect (cfg : Cfg) (extCodes : List String) (st : St) (raw : List Diag) : List Diag :=
  let r1 := checkUsage st raw
  let allRules := cfg.allCodes ++ extCodes
  let enabled := extCodes ++ cfg.configured
  let r2 := banUnknown allRules cfg.checkUnknown r1.1
  let unused := if enabled.contains cUnused then banUnused enabled r2.1 else []
  (r1.2 ++ r2.2 ++ unused).mergeSort diagLe

/-- `ignore_directive.ignore_all()` of the file-level directive, if any -/
def ignoreAll (st : St) : Bool :=
  match st.file with
  | some f => f.codes.isEmpty
  | none => false

/-- `lint_inner`: the rules' output `ruleDiags` and the external result are parameters. -/
def lintInner (cfg : Cfg) (st : St) (ruleDiags : List Diag)
    (ext : Option (List Diag × List String)) : List Diag :=
  if ignoreAll st then [] else
  match ext with
  | none => collect cfg [] st ruleDiags
  | some (extDiags, extCodes) => collect cfg extCodes st (ruleDiags ++ extDiags)

end DL.Pipe
