/-!
# M-PIPE — the diagnostic pipeline (`src/linter.rs:156-249`, `src/context.rs:236-397`)

State-passing transcription of `check_ignore_directive_usage`, `ban_unknown_rule_code`,
`ban_unused_ignore`, `collect_diagnostics` and `lint_inner`.

* `HashMap` iteration orders are explicit: the `codes` of a directive and the list of line
  directives are given *in iteration order* (the correspondence harness observes the real order).
* `sort_by` is a stable sort: `List.mergeSort`.
* Every quirk of the code is kept (e.g. the file directive's `ban-unknown-rule-code` entry is
  marked used only when some unknown code was found; `diagnostic_line > 0`).
* History: the model first mirrored three defects of the pinned commit (range-less diagnostics
  dropped, `ban_unused_ignore` not gated, accounting diagnostics in hash order); they were
  repaired in /repo by `fix:` commits and the model follows the repaired code.
-/
namespace DL.Pipe

def cUnused : String := "ban-unused-ignore"
def cUnknown : String := "ban-unknown-rule-code"

inductive Payload
  | raw (id : Nat)              -- produced by a rule / the external linter: opaque
  | unused (code : String)      -- `Ignore for code "{code}" was not used.`
  | unknown (code : String)     -- `Unknown rule for code "{code}"`
  deriving DecidableEq, Repr

structure Diag where
  code : String
  /-- `(range.start, text_info.line_index(range.start))`; `none` = no range -/
  pos : Option (Nat × Nat)
  payload : Payload
  deriving DecidableEq, Repr

structure Dir where
  start : Nat
  line : Nat
  /-- `HashMap<String, CodeStatus>` in iteration order; keys are distinct -/
  codes : List (String × Bool)
  deriving DecidableEq, Repr

def Dir.hasCode (d : Dir) (c : String) : Bool := d.codes.any (fun kv => kv.1 == c)

def markUsed (c : String) : List (String × Bool) → List (String × Bool)
  | [] => []
  | (k, u) :: r => if k == c then (k, true) :: markUsed c r else (k, u) :: markUsed c r

/-- `IgnoreDirective::check_used` -/
def Dir.checkUsed (d : Dir) (c : String) : Dir × Bool :=
  if d.hasCode c then ({ d with codes := markUsed c d.codes }, true) else (d, false)

structure St where
  file : Option Dir
  /-- `HashMap<usize, LineIgnoreDirective>` in iteration order; keys distinct -/
  lines : List (Nat × Dir)
  deriving DecidableEq, Repr

def lookupLine (k : Nat) : List (Nat × Dir) → Option Dir
  | [] => none
  | (k', d) :: r => if k' = k then some d else lookupLine k r

def updateLine (k : Nat) (d : Dir) : List (Nat × Dir) → List (Nat × Dir)
  | [] => []
  | (k', d') :: r => if k' = k then (k', d) :: r else (k', d') :: updateLine k d r

/-- one iteration of the loop in `check_ignore_directive_usage`; `true` = pushed to `filtered` -/
def stepUsage (st : St) (d : Diag) : St × Bool :=
  let fileHit : Option Dir :=
    match st.file with
    | some f => if f.hasCode d.code then some (f.checkUsed d.code).1 else none
    | none => none
  match fileHit with
  | some f' => ({ st with file := some f' }, false)
  | none =>
    match d.pos with
    | none => (st, true)                       -- `let Some(range) = .. else { filtered.push(..); continue }`
    | some (_, line) =>
      if line > 0 then
        match lookupLine (line - 1) st.lines with
        | some l =>
          if l.hasCode d.code then
            ({ st with lines := updateLine (line - 1) (l.checkUsed d.code).1 st.lines }, false)
          else (st, true)
        | none => (st, true)
      else (st, true)

/-- `check_ignore_directive_usage` -/
def checkUsage (st : St) : List Diag → St × List Diag
  | [] => (st, [])
  | d :: ds =>
    let r := stepUsage st d
    let r' := checkUsage r.1 ds
    (r'.1, if r.2 then d :: r'.2 else r'.2)

def kvLe (a b : String × Bool) : Bool := decide (a.1 ≤ b.1)

/-- the diagnostics one directive contributes to an accounting rule: the selected codes, *sorted*
(`sort()` / `sort_by_key` on the collected `HashMap` entries) -/
def dirDiags (code : String) (mk : String → Payload) (d : Dir) (p : String × Bool → Bool) : List Diag :=
  ((d.codes.filter p).mergeSort kvLe).map fun kv => { code := code, pos := some (d.start, d.line), payload := mk kv.1 }

/-- `ban_unknown_rule_code(all_rules)` -/
def banUnknown (allRules : List String) (checkUnknown : Bool) (st : St) : St × List Diag :=
  let p : String × Bool → Bool := fun kv => !allRules.contains kv.1
  let fileD := match st.file with
    | some f => dirDiags cUnknown .unknown f p
    | none => []
  let lineD := st.lines.flatMap fun kd => dirDiags cUnknown .unknown kd.2 p
  let diags := fileD ++ lineD
  let st' : St :=
    if !diags.isEmpty then
      match st.file with
      | some f => { st with file := some (f.checkUsed cUnknown).1 }
      | none => st
    else st
  let fileSwitch := match st'.file with
    | some f => f.hasCode cUnknown
    | none => false
  (st', if checkUnknown && !fileSwitch then diags else [])

/-- `ban_unused_ignore(enabled_rules)` -/
def banUnused (enabled : List String) (st : St) : List Diag :=
  let off := match st.file with
    | some f => f.hasCode cUnused
    | none => false
  if off then [] else
  let p : String × Bool → Bool := fun kv => !kv.2 && enabled.contains kv.1
  let fileD := match st.file with
    | some f => dirDiags cUnused .unused f p
    | none => []
  let lineD := st.lines.flatMap fun kd => dirDiags cUnused .unused kd.2 p
  fileD ++ lineD

/-- the comparator of the final `sort_by`: `Option<SourcePos>` (`None < Some`), then code -/
def diagLe (a b : Diag) : Bool :=
  match a.pos, b.pos with
  | none, none => decide (a.code ≤ b.code)
  | none, some _ => true
  | some _, none => false
  | some (x, _), some (y, _) => x < y || (x == y && decide (a.code ≤ b.code))

structure Cfg where
  /-- codes of `LinterContext.rules` -/
  configured : List String
  /-- `LinterOptions.all_rule_codes` -/
  allCodes : List String
  deriving Repr

def Cfg.checkUnknown (c : Cfg) : Bool := c.configured.contains cUnknown

/-- `collect_diagnostics` -/
def collect (cfg : Cfg) (extCodes : List String) (st : St) (raw : List Diag) : List Diag :=
  let r1 := checkUsage st raw
  let allRules := cfg.allCodes ++ extCodes
  let enabled := extCodes ++ cfg.configured
  let r2 := banUnknown allRules cfg.checkUnknown r1.1
  let unused := if enabled.contains cUnused then banUnused enabled r2.1 else []
  (r1.2 ++ r2.2 ++ unused).mergeSort diagLe

/-- the directive bookkeeping state after the three passes (used by the accounting theorems) -/
def finalState (cfg : Cfg) (extCodes : List String) (st : St) (raw : List Diag) : St :=
  (banUnknown (cfg.allCodes ++ extCodes) cfg.checkUnknown (checkUsage st raw).1).1

/-- `lint_inner`: the rules' output `ruleDiags` and the external result are parameters. -/
def lintInner (cfg : Cfg) (st : St) (ruleDiags : List Diag)
    (ext : Option (List Diag × List String)) : List Diag :=
  let ignoreAll := match st.file with
    | some f => f.codes.isEmpty
    | none => false
  if ignoreAll then [] else
  match ext with
  | none => collect cfg [] st ruleDiags
  | some (extDiags, extCodes) => collect cfg extCodes st (ruleDiags ++ extDiags)

end DL.Pipe
