/-!
# M-DIR — the ignore-directive comment parser (`src/ignore_directives.rs:125-174`)

A literal transcription of `parse_ignore_comment`, including tiny leftmost-match
implementations of the two fixed regexes `\s*--.*` and `,\s*|\s` (structurally recursive, so that they also
evaluate inside the kernel), plus
`parse_file_ignore_directives` / `parse_line_ignore_directives` over an abstract
comment list (comment attachment is swc's and is a parameter).

Text is `List Char`.  White space is Unicode `White_Space`, which is what Rust's
`char::is_whitespace` (`trim`, `split_whitespace`) and the regex crate's `\s` use.
-/
open Lean in
/-- `chars! "abc"` = `['a', 'b', 'c']` (string literals do not reduce in the kernel; char lists do) -/
macro "chars!" s:str : term => do
  let elems := s.getString.toList.toArray.map fun c => (Syntax.mkCharLit c : TSyntax `term)
  `([$elems,*])

namespace DL.Dir

/-- Unicode `White_Space` (25 code points). -/
def isWs (c : Char) : Bool :=
  let n := c.toNat
  (0x9 ≤ n && n ≤ 0xD) || n == 0x20 || n == 0x85 || n == 0xA0 || n == 0x1680 ||
  (0x2000 ≤ n && n ≤ 0x200A) || n == 0x2028 || n == 0x2029 || n == 0x202F ||
  n == 0x205F || n == 0x3000

def trimStart (t : List Char) : List Char := t.dropWhile isWs
/-- `str::trim_end`: drop the maximal white-space suffix (structural, so that it evaluates in the kernel) -/
def trimEnd : List Char → List Char
  | [] => []
  | c :: t =>
    match trimEnd t with
    | [] => if isWs c then [] else [c]
    | r => c :: r
/-- `str::trim` -/
def trim (t : List Char) : List Char := trimEnd (trimStart t)

/-- `t.split_whitespace().next()` -/
def firstWord (t : List Char) : Option (List Char) :=
  match t.dropWhile isWs with
  | [] => none
  | r => some (r.takeWhile (fun c => !isWs c))

/-- does the regex `\s*--` match anchored at the head of `t`?  (`\s*` is greedy, but `-` is not white space, so
backtracking cannot help.) -/
def startsReason : List Char → Bool
  | [] => false
  | c :: t => if isWs c then startsReason t else (c == '-' && t.head? == some '-')

/-- `IGNORE_COMMENT_REASON_RE.replace_all(text, "")` for the regex `\s*--.*`: the leftmost match starts at the
first position where `\s*--` matches and `.*` then runs to the end of the text.
**Domain restriction:** `.` does not match `\n`; the text of a *line* comment never contains a line terminator
(swc's lexer ends the comment there), so on every reachable input the match extends to the end of the text and
nothing is left to scan.  The model is stated for that domain. -/
def stripReason : List Char → List Char
  | [] => []
  | c :: t => if startsReason (c :: t) then [] else c :: stripReason t

/-- `IGNORE_COMMENT_CODE_RE.replace_all(text, ",")` for the regex `,\s*|\s`; `afterComma` = we are inside the
`\s*` that follows a matched comma. -/
def replaceSepsAux : Bool → List Char → List Char
  | _, [] => []
  | afterComma, c :: t =>
    if c = ',' then ',' :: replaceSepsAux true t
    else if isWs c then (if afterComma then replaceSepsAux true t else ',' :: replaceSepsAux false t)
    else c :: replaceSepsAux false t

def replaceSeps (t : List Char) : List Char := replaceSepsAux false t

/-- `str::split(',')` -/
def splitComma : List Char → List (List Char)
  | [] => [[]]
  | c :: t =>
    match splitComma t with
    | [] => [[]]            -- unreachable: the result is never empty
    | w :: ws => if c = ',' then [] :: w :: ws else (c :: w) :: ws

inductive Kind | line | block
  deriving DecidableEq, Repr

/-- `parse_ignore_comment`: `none` = not a directive; `some codes` = the code list in textual order
(the implementation then collects it into a `HashMap`, i.e. forgets order and multiplicity). -/
def parseIgnore (word : List Char) (kind : Kind) (text : List Char) : Option (List (List Char)) :=
  if kind != .line then none else
  let t := trim text
  match firstWord t with
  | none => none
  | some prefix_ =>
    if prefix_ = word then
      match word.isPrefixOf? t with
      | none => none       -- `strip_prefix(..).unwrap()` – would be a panic; shown unreachable below
      | some rest =>
        let noReason := stripReason rest
        let commas := replaceSeps noReason
        some ((splitComma commas).filterMap fun code => if code.isEmpty then none else some (trim code))
    else none

/-- would `strip_prefix(..).unwrap()` panic? (model-level panic flag used by C01) -/
def parseIgnorePanics (word : List Char) (kind : Kind) (text : List Char) : Bool :=
  if kind != .line then false else
  match firstWord (trim text) with
  | none => false
  | some p => p = word && (word.isPrefixOf? (trim text)).isNone

structure Comment where
  kind : Kind
  text : List Char
  start : Nat
  line : Nat        -- `text_info.line_index(comment.start)`; supplied by `SourceTextInfo`
  deriving Repr

/-- `parse_file_ignore_directives` over the initial comments swc attaches. -/
def fileDirective (word : List Char) (initial : List Comment) : Option (Comment × List (List Char)) :=
  initial.findSome? fun c => (parseIgnore word c.kind c.text).map fun codes => (c, codes)

/-- `parse_line_ignore_directives`: `collect()` into a `HashMap<usize, _>` – a later comment on the same
line replaces an earlier one.  The result is an association list with unique keys. -/
def insertLine (m : List (Nat × (Comment × List (List Char)))) (k : Nat) (v : Comment × List (List Char)) :
    List (Nat × (Comment × List (List Char))) :=
  match m with
  | [] => [(k, v)]
  | (k', v') :: m' => if k' = k then (k, v) :: m' else (k', v') :: insertLine m' k v

def lineDirectives (word : List Char) (all : List Comment) : List (Nat × (Comment × List (List Char))) :=
  all.foldl (fun m c =>
    match parseIgnore word c.kind c.text with
    | none => m
    | some codes => insertLine m c.line (c, codes)) []

end DL.Dir
