import DL.Model.CFRef

/-!
# The three rule layers over the analyzer's metadata, and program-level reachability

* `flagged` — `no-unreachable` (`src/rules/no_unreachable.rs:56-84`): every statement (anywhere) whose metadata says
  `unreachable`, except blocks, function declarations, type declarations and `var` without initialiser;
* `getterReported` — `getter-return`: a getter is reported iff the metadata of its body block `continues_execution`;
* `caseReported` — `no-fallthrough`: a non-last, non-empty case without fall-through comment is reported iff none of
  its statements' metadata `stops_execution`.
* `Program.reachable` — position `p` is reached from the program start, or from the start of any function body.
-/
namespace DL.CF

/-- entering a function: its body block(s) among the kids -/
def Kids.entryReach : Kids → Nat → Bool
  | .nil, _ => false
  | .cons (.block q body) r, p => p == q || body.reach p || r.entryReach p
  | .cons _ r, p => r.entryReach p

mutual
/-- some function nested at any depth inside reaches `p` when entered -/
def Stmt.inner : Stmt → Nat → Bool
  | .simple _ _ kids, p => kids.inner p
  | .block _ body, p => body.inner p
  | .ifS _ test c none, p => test.inner p || c.inner p
  | .ifS _ test c (some a), p => test.inner p || c.inner p || a.inner p
  | .whileS _ test _ body, p => test.inner p || body.inner p
  | .doWhileS _ body test _, p => test.inner p || body.inner p
  | .forS _ i u t _ _ body, p => i.inner p || u.inner p || t.inner p || body.inner p
  | .forInOf _ l r body, p => l.inner p || r.inner p || body.inner p
  | .switchS _ d cases, p => d.inner p || cases.inner p
  | .tryS _ _ block _ _ ck _ _ fin, p => block.inner p || ck.inner p || fin.inner p
  | .labeled _ _ body, p => body.inner p
  | .brk .., _ => false
  | .cont .., _ => false
  | .ret _ arg, p => arg.inner p
  | .throw _ arg, p => arg.inner p
def Stmts.inner : Stmts → Nat → Bool
  | .nil, _ => false
  | .cons s r, p => s.inner p || r.inner p
def Kid.inner : Kid → Nat → Bool
  | .expr _ kids, p => kids.inner p
  | .fnScope _ kids, p => kids.entryReach p || kids.flowReach p || kids.inner p
  | .block _ body, p => body.inner p
  | .stmt s, p => s.inner p
def Kids.inner : Kids → Nat → Bool
  | .nil, _ => false
  | .cons k r, p => k.inner p || r.inner p
def Cases.inner : Cases → Nat → Bool
  | .nil, _ => false
  | .cons _ _ test body r, p => test.inner p || body.inner p || r.inner p
end

/-- top-level flow of a program: items in order -/
def itemsReach : List Item → Nat → Bool
  | [], _ => false
  | .stmt s :: r, p => s.reach p || ((s.compl []).n && itemsReach r p)
  | .decl kids :: r, p => kids.flowReach p || (kids.compl.n && itemsReach r p)

def itemsInner : List Item → Nat → Bool
  | [], _ => false
  | .stmt s :: r, p => s.inner p || itemsInner r p
  | .decl kids :: r, p => kids.inner p || itemsInner r p

/-- a statement starting at `p` is reached by some execution of the module/script or of one of its functions -/
def Program.reachable (prog : Program) (p : Nat) : Bool := itemsReach prog.items p || itemsInner prog.items p

/-! ## no-unreachable -/
def exempt : Stmt → Bool
  | .block .. => true
  | .simple _ (.fnDecl _) _ => true
  | .simple _ .tsDecl _ => true
  | .simple _ .varNoInit _ => true
  | _ => false

def metaUnreach (info : Info) (p : Nat) : Bool :=
  match info p with
  | some m => m.unreachable
  | none => false

def metaStops (info : Info) (p : Nat) : Bool :=
  match info p with
  | some m => m.stops
  | none => false

def flagHere (info : Info) (s : Stmt) : List Nat :=
  if !exempt s && metaUnreach info s.pos then [s.pos] else []

mutual
def Stmt.flagged (info : Info) : Stmt → List Nat
  | .simple p t kids => flagHere info (.simple p t .nil) ++ kids.flagged info
  | .block _ body => body.flagged info
  | .ifS p test c none => flagHere info (.cont p none) ++ test.flagged info ++ c.flagged info
  | .ifS p test c (some a) => flagHere info (.cont p none) ++ test.flagged info ++ c.flagged info ++ a.flagged info
  | .whileS p test _ body => flagHere info (.cont p none) ++ test.flagged info ++ body.flagged info
  | .doWhileS p body test _ => flagHere info (.cont p none) ++ test.flagged info ++ body.flagged info
  | .forS p i u t _ _ body => flagHere info (.cont p none) ++ i.flagged info ++ u.flagged info ++ t.flagged info ++ body.flagged info
  | .forInOf p l r body => flagHere info (.cont p none) ++ l.flagged info ++ r.flagged info ++ body.flagged info
  | .switchS p d cases => flagHere info (.cont p none) ++ d.flagged info ++ cases.flagged info
  | .tryS p _ block _ _ ck _ _ fin => flagHere info (.cont p none) ++ block.flagged info ++ ck.flagged info ++ fin.flagged info
  | .labeled p _ body => flagHere info (.cont p none) ++ body.flagged info
  | .brk p _ => flagHere info (.cont p none)
  | .cont p _ => flagHere info (.cont p none)
  | .ret p arg => flagHere info (.cont p none) ++ arg.flagged info
  | .throw p arg => flagHere info (.cont p none) ++ arg.flagged info
def Stmts.flagged (info : Info) : Stmts → List Nat
  | .nil => []
  | .cons s r => s.flagged info ++ r.flagged info
def Kid.flagged (info : Info) : Kid → List Nat
  | .expr _ kids => kids.flagged info
  | .fnScope _ kids => kids.flagged info
  | .block _ body => body.flagged info
  | .stmt s => s.flagged info
def Kids.flagged (info : Info) : Kids → List Nat
  | .nil => []
  | .cons k r => k.flagged info ++ r.flagged info
def Cases.flagged (info : Info) : Cases → List Nat
  | .nil => []
  | .cons _ _ test body r => test.flagged info ++ body.flagged info ++ r.flagged info
end

def Program.flagged (prog : Program) (info : Info) : List Nat :=
  prog.items.flatMap fun
    | .stmt s => s.flagged info
    | .decl kids => kids.flagged info

/-! ## getter-return / no-fallthrough (the parts that read the metadata) -/
structure Getter where
  at_ : Nat          -- start of the reported range
  bodyP : Nat        -- start of the body block
  body : Stmts

/-- `check_getter`: `meta(body.start).unwrap().continues_execution()` -/
def getterReported (info : Info) (g : Getter) : Bool :=
  match info g.bodyP with
  | some m => m.continues
  | none => true    -- the code would `unwrap()` a `None` here; never observed (the body block is always visited)

structure SwCase where
  p : Nat
  body : Stmts
  empty : Bool       -- no statements, or a single empty block
  ftComment : Bool   -- a fall-through comment is present (leading comments of the next case / trailing of the last stmt)

/-- `Stmt::Decl(_) | Stmt::Expr(_)`: their metadata is not consulted by `no-fallthrough` -/
def isDeclOrExpr (s : Stmt) : Bool := s.isDeclOrExpr

def stopHere (info : Info) (ls : List Id) (s : Stmt) : List Nat :=
  if !isDeclOrExpr s && metaStops info s.pos && (s.compl ls).n then [s.pos] else []

def stmtsStop (info : Info) : Stmts → Bool
  | .nil => false
  | .cons s r => (!isDeclOrExpr s && metaStops info s.pos) || stmtsStop info r

/-- is case `c` (followed by another case) reported by `no-fallthrough` -/
def caseReported (info : Info) (c : SwCase) : Bool := !c.empty && !c.ftComment && !stmtsStop info c.body

/-! ## the statement-level claim: "stops" ⇒ no normal completion -/
mutual
/-- positions of statements whose metadata says `stops_execution` although the reference semantics has a normal
completion (`ls` = labels immediately labelling the statement) -/
def Stmt.stopViol (info : Info) (ls : List Id) : Stmt → List Nat
  | .simple p t kids => stopHere info ls (.simple p t kids) ++ kids.stopViol info
  | .block p body => stopHere info ls (.block p body) ++ body.stopViol info
  | .ifS p test c none => stopHere info ls (.ifS p test c none) ++ test.stopViol info ++ c.stopViol info []
  | .ifS p test c (some a) => stopHere info ls (.ifS p test c (some a)) ++ test.stopViol info ++ c.stopViol info [] ++ a.stopViol info []
  -- the key of a loop *body* is re-used for the end of the loop itself, so it is not a claim about the body statement
  | .whileS p test tt body => stopHere info ls (.whileS p test tt body) ++ test.stopViol info ++ (body.stopViol info []).filter (· != body.pos)
  | .doWhileS p body test tt => stopHere info ls (.doWhileS p body test tt) ++ test.stopViol info ++ (body.stopViol info []).filter (· != body.pos)
  | .forS p i u t h tt body => stopHere info ls (.forS p i u t h tt body) ++ i.stopViol info ++ u.stopViol info ++ t.stopViol info ++ (body.stopViol info []).filter (· != body.pos)
  | .forInOf p l r body => stopHere info ls (.forInOf p l r body) ++ l.stopViol info ++ r.stopViol info ++ (body.stopViol info []).filter (· != body.pos)
  | .switchS p d cases => stopHere info ls (.switchS p d cases) ++ d.stopViol info ++ cases.stopViol info
  | .tryS p bp block hh cp ck hf fp fin => stopHere info ls (.tryS p bp block hh cp ck hf fp fin) ++ block.stopViol info ++ ck.stopViol info ++ fin.stopViol info
  | .labeled p l body => stopHere info ls (.labeled p l body) ++ body.stopViol info (l :: ls)
  | .brk _ _ => []
  | .cont _ _ => []
  | .ret _ arg => arg.stopViol info
  | .throw _ arg => arg.stopViol info
def Stmts.stopViol (info : Info) : Stmts → List Nat
  | .nil => []
  | .cons s r => s.stopViol info [] ++ r.stopViol info
def Kid.stopViol (info : Info) : Kid → List Nat
  | .expr _ kids => kids.stopViol info
  | .fnScope _ kids => kids.stopViol info
  | .block _ body => body.stopViol info
  | .stmt s => s.stopViol info []
def Kids.stopViol (info : Info) : Kids → List Nat
  | .nil => []
  | .cons k r => k.stopViol info ++ r.stopViol info
def Cases.stopViol (info : Info) : Cases → List Nat
  | .nil => []
  | .cons _ _ test body r => test.stopViol info ++ body.stopViol info ++ r.stopViol info
end

def Program.stopViol (prog : Program) (info : Info) : List Nat :=
  prog.items.flatMap fun
    | .stmt s => s.stopViol info []
    | .decl kids => kids.stopViol info

end DL.CF
