import DL.Gen.UnicodeTables

/-!
# M-RX — the ECMAScript regular-expression validator (`src/js_regex/validator.rs`, `reader.rs`, `mod.rs`,
`unicode.rs`) and the mode logic of `no-invalid-regexp` (`src/rules/no_invalid_regexp.rs:89-108`)

A state-passing transcription, one Lean `def` per Rust `fn` (camelCase of the Rust name, Rust line range in the
doc comment).

* `St` = the fields of `EcmaRegexValidator` (+ its `Reader`).  The rule creates ONE validator per file
  (`NoInvalidRegexpVisitor::new`) and reuses it, so every function returns the state the Rust struct holds afterwards
  — also on `Err` (the `?` early exits leave the struct as it is at that point).
* `M α = St → Res α`; `Res` is `ok a st | err msg st | panic why st | outOfFuel st`.
  `err` is Rust's `Err(..)` propagated by `?`; `panic` is a failing `.unwrap()` / arithmetic overflow (the harness
  and the repository's own test profile build with `overflow-checks`; `St.overflowChecks := false` gives the wrapping
  behaviour of a plain `--release` build); `outOfFuel` is an artefact of the model only.
* Recursion (disjunction → alternative → term → atom → group → disjunction) and every `while`/`loop`/`for` is
  structural recursion on an explicit fuel argument: a callee / the next iteration gets `n` when the caller holds
  `n+1`, so fuel bounds the *depth*; `defaultFuel` is far more than any pattern needs.
* Specialised constants: `ecma_version = Es2022` (`no_invalid_regexp.rs:63`); every `self.ecma_version >= EsXXXX`
  test is therefore `true` and is kept as a comment at the place where it occurs.  `strict` starts `false`
  (`validator.rs:145`) and is overwritten with `u_flag` by `validate_pattern` (`validator.rs:195`).
* Code points (`UnicodeChar { value: u32 }`) are `Nat`; `i64` values are `Int`; Rust `String`s are lists of Unicode
  scalar values (`List Nat`); `HashSet<String>` is a duplicate-free `List` (only membership / emptiness / difference
  emptiness are observed, except for the *text* of one error message, see `consumePattern`).
-/
namespace DL.Rx
open DL.Gen.Unicode

/-! ## state -/

/-- `reader.rs:8-14` -/
structure Reader where
  unicode : Bool := false
  /-- `src: String` as its list of Unicode scalar values (`chars()`) -/
  src : List Nat := []
  index : Nat := 0
  end_ : Nat := 0
  /-- `cps: VecDeque<UnicodeChar>` (look-ahead, at most 4 entries) -/
  cps : List Nat := []
  deriving Repr, DecidableEq, Inhabited

/-- `validator.rs:109-125`; `ecma_version` is the constant `Es2022` -/
structure St where
  reader : Reader := {}
  strict : Bool := false
  uFlag : Bool := false
  nFlag : Bool := false
  lastIntValue : Int := 0
  lastMinValue : Int := 0
  lastMaxValue : Int := 0
  lastStrValue : List Nat := []
  lastKeyValue : List Nat := []
  lastValValue : List Nat := []
  lastAssertionIsQuantifiable : Bool := false
  numCapturingParens : Nat := 0
  groupNames : List (List Nat) := []
  backreferenceNames : List (List Nat) := []
  /-- NOT a field of the Rust struct: the build profile (`overflow-checks`).  `true` = arithmetic overflow panics
  (debug / test profile, the harness), `false` = two's-complement wrapping (plain release profile). -/
  overflowChecks : Bool := true
  deriving Repr, DecidableEq, Inhabited

/-- `EcmaRegexValidator::new(EcmaVersion::Es2022)` (`validator.rs:142-160`, `reader.rs:17-25`) -/
def St.new : St := {}

inductive Res (α : Type) where
  | ok (a : α) (s : St)
  | err (msg : String) (s : St)
  | panic (why : String) (s : St)
  | outOfFuel (s : St)
  deriving Repr

def Res.state {α : Type} : Res α → St
  | .ok _ s | .err _ s | .panic _ s | .outOfFuel s => s

def M (α : Type) : Type := St → Res α

@[inline] protected def M.pure {α : Type} (a : α) : M α := fun s => .ok a s
@[inline] protected def M.bind {α β : Type} (x : M α) (f : α → M β) : M β := fun s =>
  match x s with
  | .ok a s' => f a s'
  | .err m s' => .err m s'
  | .panic m s' => .panic m s'
  | .outOfFuel s' => .outOfFuel s'

instance : Monad M where
  pure := M.pure
  bind := M.bind

def getSt : M St := fun s => .ok s s
def modSt (f : St → St) : M Unit := fun s => .ok () (f s)
/-- `return Err(msg)` / `Err(msg)?` -/
def fail {α : Type} (msg : String) : M α := fun s => .err msg s
/-- a Rust panic (`unwrap()` on `None`, arithmetic overflow with `overflow-checks`) -/
def rustPanic {α : Type} (why : String) : M α := fun s => .panic why s
def outOfFuel {α : Type} : M α := fun s => .outOfFuel s
/-- `opt.unwrap()` -/
def unwrap {α : Type} (o : Option α) (why : String) : M α :=
  match o with
  | some a => pure a
  | none => rustPanic why

/-- Rust's short-circuit `a || b` on `bool`-valued calls (`?` already applied); written `a <or> b` (core's `<||>` is
the same thing behind a `ToBool` class and `macro_inline`; this one unfolds to a plain `if`) -/
def orM (a b : M Bool) : M Bool := do if (← a) then pure true else b
/-- Rust's short-circuit `a && b` -/
def andM (a b : M Bool) : M Bool := do if (← a) then b else pure false
infixr:30 " <or> " => orM
infixr:35 " <and> " => andM

def setInt (v : Int) : M Unit := modSt fun s => { s with lastIntValue := v }
def setStr (v : List Nat) : M Unit := modSt fun s => { s with lastStrValue := v }

/-- `c as u32` for a `char` literal of the source -/
abbrev ch (c : Char) : Nat := c.toNat

def i64Max : Int := 9223372036854775807
def i64Min : Int := -9223372036854775808
def wrapI64 (v : Int) : Int := (v + 9223372036854775808) % 18446744073709551616 - 9223372036854775808

/-- the result of an `i64` `*`/`+` expression whose mathematical value is `v` (all operands of the expressions this
is used for are in range themselves; two's-complement wrapping is a ring homomorphism, so wrapping once at the end
equals wrapping at every step) -/
def checkedI64 (v : Int) (site : String) : M Int := do
  if i64Min ≤ v ∧ v ≤ i64Max then pure v
  else if (← getSt).overflowChecks then rustPanic s!"{site}: arithmetic overflow"
  else pure (wrapI64 v)

/-- `v.saturating_mul(m).saturating_add(d)` for the non-negative operands it is used with -/
def satMulAdd (m v d : Int) : Int := if m * v + d ≤ i64Max then m * v + d else i64Max

/-- `x as u32` for `x : i64` -/
def i64AsU32 (v : Int) : Nat := (v % 4294967296).toNat

/-! ## `UnicodeChar` (`mod.rs:11-92`) -/

/-- `mod.rs:38-41` — literally `(v ^ 0xD800).wrapping_sub(0x800) < 0x110000 - 0x800` on `u32` -/
def isScalar (v : Nat) : Bool := ((v ^^^ 0xD800) + 4294967296 - 0x800) % 4294967296 < 0x110000 - 0x800

/-- `char::to_digit(radix)` for `radix ≤ 36` (the code uses 8, 10, 16) -/
def charToDigit (c radix : Nat) : Option Nat :=
  let d : Option Nat :=
    if 0x30 ≤ c ∧ c ≤ 0x39 then some (c - 0x30)
    else if 0x61 ≤ c ∧ c ≤ 0x7a then some (c - 0x61 + 10)
    else if 0x41 ≤ c ∧ c ≤ 0x5a then some (c - 0x41 + 10)
    else none
  match d with
  | some d => if d < radix then some d else none
  | none => none

/-- `mod.rs:42-48` `delegate_if_char!`: the `char` method if the value is a scalar, else `Default::default()` -/
def toDigit (v radix : Nat) : Option Nat := if isScalar v then charToDigit v radix else none
def isDigit (v radix : Nat) : Bool := if isScalar v then (charToDigit v radix).isSome else false
def isAsciiDigit (v : Nat) : Bool := if isScalar v then decide (0x30 ≤ v ∧ v ≤ 0x39) else false
def isAsciiAlphabetic (v : Nat) : Bool :=
  if isScalar v then decide ((0x41 ≤ v ∧ v ≤ 0x5a) ∨ (0x61 ≤ v ∧ v ≤ 0x7a)) else false
def isAsciiHexdigit (v : Nat) : Bool :=
  if isScalar v then decide ((0x30 ≤ v ∧ v ≤ 0x39) ∨ (0x41 ≤ v ∧ v ≤ 0x46) ∨ (0x61 ≤ v ∧ v ≤ 0x66)) else false
/-- `mod.rs:49-51` `to_char` = `char::from_u32` -/
def toChar (v : Nat) : Option Nat := if v < 0xD800 ∨ (0xE000 ≤ v ∧ v < 0x110000) then some v else none

/-! ## `Reader` (`reader.rs`) -/

/-- `str::encode_utf16` -/
def encodeUtf16 : List Nat → List Nat
  | [] => []
  | c :: r =>
    if c < 0x10000 then c :: encodeUtf16 r
    else (0xD800 + (c - 0x10000) / 0x400) :: (0xDC00 + (c - 0x10000) % 0x400) :: encodeUtf16 r

/-- `reader.rs:36-38` (and `code_point_value_with_offset`, `reader.rs:40-42`: the same value as `u32`) -/
def codePointWithOffset (offset : Nat) : M (Option Nat) := do
  return (← getSt).reader.cps[offset]?

/-- `reader.rs:124-133` -/
def readerAt (i : Nat) : M (Option Nat) := do
  let r := (← getSt).reader
  if i ≥ r.end_ then pure none
  else if r.unicode then
    match r.src[i]? with
    | some c => pure (some c)
    | none => rustPanic "reader.rs:128 src.chars().nth(i).unwrap()"
  else
    match (encodeUtf16 r.src)[i]? with
    | some c => pure (some c)
    | none => rustPanic "reader.rs:131 src.encode_utf16().nth(i).unwrap()"

def pushBack (c : Nat) : M Unit :=
  modSt fun s => { s with reader := { s.reader with cps := s.reader.cps ++ [c] } }

/-- the `for i in 0..4` of `rewind` (`reader.rs:60-67`); first argument = iterations left -/
def rewindLoop (index : Nat) : Nat → Nat → M Unit
  | 0, _ => pure ()
  | k + 1, i => do
    match ← readerAt (index + i) with
    | some c => do pushBack c; rewindLoop index k (i + 1)
    | none => pure ()

/-- `reader.rs:57-68` -/
def rewind (index : Nat) : M Unit := do
  modSt fun s => { s with reader := { s.reader with index := index, cps := [] } }
  rewindLoop index 4 0

/-- `reader.rs:44-55` -/
def reset (source : List Nat) (start end_ : Nat) (uFlag : Bool) : M Unit := do
  modSt fun s => { s with reader := { s.reader with unicode := uFlag, src := source, end_ := end_ } }
  rewind start

/-- `reader.rs:70-78` -/
def advance : M Unit := do
  match (← getSt).reader.cps with
  | [] => pure ()
  | _ :: rest => do
    modSt fun s => { s with reader := { s.reader with index := s.reader.index + 1, cps := rest } }
    let r := (← getSt).reader
    match ← readerAt (r.index + r.cps.length) with
    | some c => pushBack c
    | none => pure ()

/-- `reader.rs:80-88` -/
def eat (cp : Char) : M Bool := do
  match (← getSt).reader.cps with
  | c :: _ => if c == ch cp then do advance; pure true else pure false
  | [] => pure false

/-- `reader.rs:90-103` -/
def eat2 (cp1 cp2 : Char) : M Bool := do
  match (← getSt).reader.cps with
  | c1 :: c2 :: _ => if c1 == ch cp1 && c2 == ch cp2 then do advance; advance; pure true else pure false
  | _ => pure false

/-- `reader.rs:105-122` -/
def eat3 (cp1 cp2 cp3 : Char) : M Bool := do
  match (← getSt).reader.cps with
  | c1 :: c2 :: c3 :: _ =>
    if c1 == ch cp1 && c2 == ch cp2 && c3 == ch cp3 then do advance; advance; advance; pure true else pure false
  | _ => pure false

def index : M Nat := do return (← getSt).reader.index

/-! ## `unicode.rs` -/

def strOf (l : List Char) : List Nat := l.map Char.toNat
def setContains (set : List (List Char)) (s : List Nat) : Bool := set.any fun e => strOf e == s

/-- `unicode.rs:551-570`, `version = Es2022` -/
def isValidUnicodeProperty (name value : List Nat) : Bool :=
  if setContains gcNamePattern name
      && /- version >= Es2018 -/ true
      && setContains gcValuePatterns2018 value then true
  else if setContains scNamePattern name then
    (/- version >= Es2018 -/ true && setContains scValuePatterns2018 value)
      || (/- version >= Es2019 -/ true && setContains scValuePatterns2019 value)
      || (/- version >= Es2020 -/ true && setContains scValuePatterns2020 value)
      || (/- version >= Es2021 -/ true && setContains scValuePatterns2021 value)
      || (/- version >= Es2022 -/ true && setContains scValuePatterns2022 value)
  else false

/-- `is_valid_lone_unicode_property`, `version = Es2022` (since repair 3c1912b every set is consulted) -/
def isValidLoneUnicodeProperty (value : List Nat) : Bool :=
  (/- version >= Es2018 -/ true && setContains binPropertyPatterns2018 value)
    || (/- version >= Es2019 -/ true && setContains binPropertyPatterns2019 value)
    || (/- version >= Es2020 -/ true && setContains binPropertyPatterns2020 value)
    || (/- version >= Es2021 -/ true && setContains binPropertyPatterns2021 value)
    || (/- version >= Es2022 -/ true && setContains binPropertyPatterns2022 value)

/-- the `while l < r` of `is_in_range` (`unicode.rs:593-604`) -/
def isInRangeLoop (cp : Nat) (ranges : Array Nat) : Nat → Nat → Nat → M Bool
  | 0, _, _ => outOfFuel
  | n + 1, l, r => do
    if l < r then
      let i := (l + r) / 2
      let min ← unwrap (ranges[2 * i]?) "unicode.rs:595 ranges[2 * i]"
      let max ← unwrap (ranges[2 * i + 1]?) "unicode.rs:596 ranges[2 * i + 1]"
      if cp < min then isInRangeLoop cp ranges n l i
      else if cp > max then isInRangeLoop cp ranges n (i + 1) r
      else pure true
    else pure false

/-- `unicode.rs:590-606` (binary search; `ranges.len() + 1` iterations always suffice) -/
def isInRange (cp : Nat) (ranges : Array Nat) : M Bool :=
  isInRangeLoop cp ranges (ranges.size + 1) 0 (ranges.size / 2)

/-- `unicode.rs:582-584` -/
def isLargeIdStart (cp : Nat) : M Bool := isInRange cp largeIdStartRanges
/-- `unicode.rs:586-588` -/
def isLargeIdContinue (cp : Nat) : M Bool := isInRange cp largeIdContinueRanges

/-! ## free functions of `validator.rs` -/

/-- `validator.rs:9-24` -/
def isSyntaxCharacter (cp : Nat) : Bool :=
  cp == ch '^' || cp == ch '$' || cp == ch '\\' || cp == ch '.' || cp == ch '*' || cp == ch '+' || cp == ch '?'
    || cp == ch '(' || cp == ch ')' || cp == ch '[' || cp == ch ']' || cp == ch '{' || cp == ch '}' || cp == ch '|'

/-- `validator.rs:26-28` -/
def isUnicodePropertyNameCharacter (cp : Nat) : Bool := isAsciiAlphabetic cp || cp == ch '_'
/-- `validator.rs:30-32` -/
def isUnicodePropertyValueCharacter (cp : Nat) : Bool := isUnicodePropertyNameCharacter cp || isAsciiDigit cp

/-- `validator.rs:46-58` -/
def isIdStart (cp : Nat) : M Bool :=
  if cp < 0x41 then pure false
  else if cp < 0x5b then pure true
  else if cp < 0x61 then pure false
  else if cp < 0x7b then pure true
  else isLargeIdStart cp

/-- `validator.rs:60-76` -/
def isIdContinue (cp : Nat) : M Bool :=
  if cp < 0x30 then pure false
  else if cp < 0x3a then pure true
  else if cp < 0x41 then pure false
  else if cp < 0x5b || cp == 0x5f then pure true
  else if cp < 0x61 then pure false
  else if cp < 0x7b then pure true
  else isLargeIdStart cp <or> isLargeIdContinue cp

/-- `validator.rs:34-36` -/
def isRegexpIdentifierStart (cp : Nat) : M Bool :=
  isIdStart cp <or> pure (cp == ch '$') <or> pure (cp == ch '_')

/-- `validator.rs:38-44` -/
def isRegexpIdentifierPart (cp : Nat) : M Bool :=
  isIdContinue cp <or> pure (cp == ch '$') <or> pure (cp == ch '_') <or> pure (cp == 0x200c) <or> pure (cp == 0x200d)

/-- `validator.rs:78-80` -/
def isValidUnicode (cp : Int) : Bool := cp ≤ 0x10ffff
/-- `validator.rs:82-84` -/
def isLeadSurrogate (cp : Int) : Bool := 0xd800 ≤ cp && cp ≤ 0xdbff
/-- `validator.rs:86-88` -/
def isTrailSurrogate (cp : Int) : Bool := 0xdc00 ≤ cp && cp ≤ 0xdfff
/-- `validator.rs:90-92` -/
def combineSurrogatePair (lead trail : Int) : Int := (lead - 0xd800) * 0x400 + (trail - 0xdc00) + 0x10000

/-! ## `EcmaRegexValidator`: flags -/

/-- the `for flag in flags.chars()` of `validate_flags` (`validator.rs:166-185`); second argument =
`existing_flags` -/
def validateFlagsLoop : List Nat → List Nat → Except String Unit
  | [], _ => .ok ()
  | flag :: rest, existing =>
    if existing.contains flag then .error s!"Duplicated flag {Char.ofNat flag}"
    else
      if flag == ch 'g' || flag == ch 'i' || flag == ch 'm'
          || (flag == ch 'u' && /- ecma_version >= Es2015 -/ true)
          || (flag == ch 'y' && /- ecma_version >= Es2015 -/ true)
          || (flag == ch 's' && /- ecma_version >= Es2018 -/ true)
          || (flag == ch 'd' && /- ecma_version >= Es2022 -/ true)
          || (flag == ch 'v' && /- ecma_version >= Es2022 -/ true)
      then validateFlagsLoop rest (flag :: existing)
      else .error s!"Invalid flag {Char.ofNat flag}"

/-- `validator.rs:163-187` (`&self`: no state change) -/
def validateFlags (flags : List Nat) : Except String Unit := validateFlagsLoop flags []

/-! ## `EcmaRegexValidator`: the `eat_*` leaves -/

/-- the `for _ in 0..length` of `eat_fixed_hex_digits` (`validator.rs:1550-1559`); first argument = iterations left -/
def eatFixedHexDigitsLoop (start : Nat) : Nat → M Bool
  | 0 => pure true
  | k + 1 => do
    let cp ← codePointWithOffset 0
    match cp with
    | none => do rewind start; pure false
    | some c =>
      if !isAsciiHexdigit c then do rewind start; pure false
      else do
        let d ← unwrap (toDigit c 16) "validator.rs:1557 to_digit(16).unwrap()"
        let v ← checkedI64 (16 * (← getSt).lastIntValue + d) "validator.rs:1556"
        setInt v
        advance
        eatFixedHexDigitsLoop start k

/-- `validator.rs:1547-1561` -/
def eatFixedHexDigits (length : Nat) : M Bool := do
  let start ← index
  setInt 0
  eatFixedHexDigitsLoop start length

/-- `validator.rs:1528-1538` -/
def eatOctalDigit : M Bool := do
  match ← codePointWithOffset 0 with
  | some cp =>
    if isDigit cp 8 then do
      advance
      let d ← unwrap (toDigit cp 8) "validator.rs:1532 to_digit(8).unwrap()"
      setInt d
      pure true
    else do setInt 0; pure false
  | none => do setInt 0; pure false

/-- `validator.rs:1502-1519` -/
def eatLegacyOctalEscapeSequence : M Bool := do
  if ← eatOctalDigit then
    let n1 := (← getSt).lastIntValue
    if ← eatOctalDigit then
      let n2 := (← getSt).lastIntValue
      if ← (pure (decide (n1 ≤ 3)) <and> eatOctalDigit) then
        setInt ((← getSt).lastIntValue + (n1 * 64 + n2 * 8))
      else
        setInt (n1 * 8 + n2)
    else
      setInt n1
    pure true
  else pure false

/-- the `while let Some(cp)` of `eat_hex_digits` (`validator.rs:1475-1482`) -/
def eatHexDigitsLoop : Nat → M Unit
  | 0 => outOfFuel
  | n + 1 => do
    match ← codePointWithOffset 0 with
    | some cp =>
      if !isAsciiHexdigit cp then pure ()
      else do
        let d ← unwrap (toDigit cp 16) "validator.rs:1480 to_digit(16).unwrap()"
        setInt (satMulAdd 16 (← getSt).lastIntValue d)     -- saturating (fix e995e57)
        advance
        eatHexDigitsLoop n
    | none => pure ()

/-- `validator.rs:1472-1484` -/
def eatHexDigits (fuel : Nat) : M Bool := do
  let start ← index
  setInt 0
  eatHexDigitsLoop fuel
  return (← index) != start

/-- the `while let Some(cp)` of `eat_decimal_digits` (`validator.rs:1446-1457`) -/
def eatDecimalDigitsLoop : Nat → M Unit
  | 0 => outOfFuel
  | n + 1 => do
    match ← codePointWithOffset 0 with
    | some cp =>
      if !isAsciiDigit cp then pure ()
      else do
        let cp0 ← unwrap (← codePointWithOffset 0) "validator.rs:1453 code_point_with_offset(0).unwrap()"
        let d ← unwrap (toDigit cp0 10) "validator.rs:1455 to_digit(10).unwrap()"
        setInt (satMulAdd 10 (← getSt).lastIntValue d)     -- saturating (fix e995e57)
        advance
        eatDecimalDigitsLoop n
    | none => pure ()

/-- `validator.rs:1442-1460` -/
def eatDecimalDigits (fuel : Nat) : M Bool := do
  let start ← index
  setInt 0
  eatDecimalDigitsLoop fuel
  return (← index) != start

/-- `validator.rs:1418-1430` -/
def eatHexEscapeSequence : M Bool := do
  let start ← index
  if ← eat 'x' then
    if ← eatFixedHexDigits 2 then pure true
    else
      let s ← getSt
      if s.uFlag || s.strict then fail "Invalid escape"
      else do rewind start; pure false
  else pure false

/-- the `while let Some(cp)` of `eat_unicode_property_name` / `_value` (`validator.rs:1369-1375`, `1388-1394`) -/
def eatPropertyCharsLoop (p : Nat → Bool) (site : String) : Nat → M Unit
  | 0 => outOfFuel
  | n + 1 => do
    match ← codePointWithOffset 0 with
    | some cp =>
      if !p cp then pure ()
      else do
        let c ← unwrap (toChar cp) site
        modSt fun s => { s with lastStrValue := s.lastStrValue ++ [c] }
        advance
        eatPropertyCharsLoop p site n
    | none => pure ()

/-- `validator.rs:1367-1377` -/
def eatUnicodePropertyName (fuel : Nat) : M Bool := do
  setStr []
  eatPropertyCharsLoop isUnicodePropertyNameCharacter "validator.rs:1373 to_char().unwrap()" fuel
  return !(← getSt).lastStrValue.isEmpty

/-- `validator.rs:1386-1396` -/
def eatUnicodePropertyValue (fuel : Nat) : M Bool := do
  setStr []
  eatPropertyCharsLoop isUnicodePropertyValueCharacter "validator.rs:1392 to_char().unwrap()" fuel
  return !(← getSt).lastStrValue.isEmpty

/-- `validator.rs:1405-1407` -/
def eatLoneUnicodePropertyNameOrValue (fuel : Nat) : M Bool := eatUnicodePropertyValue fuel

/-- `"General_Category"` -/
def generalCategory : List Nat := strOf (chars! "General_Category")

/-- `validator.rs:1318-1358` -/
def eatUnicodePropertyValueExpression (fuel : Nat) : M Bool := do
  let start ← index
  -- UnicodePropertyName `=` UnicodePropertyValue
  let cont ← (do
    if ← (eatUnicodePropertyName fuel <and> eat '=') then
      modSt fun s => { s with lastKeyValue := s.lastStrValue }
      if ← eatUnicodePropertyValue fuel then
        modSt fun s => { s with lastValValue := s.lastStrValue }
        let s ← getSt
        if isValidUnicodeProperty s.lastKeyValue s.lastValValue then pure (some true)
        else fail "Invalid property name"
      else pure none
    else pure none : M (Option Bool))
  match cont with
  | some b => pure b
  | none => do
    rewind start
    -- LoneUnicodePropertyNameOrValue
    if ← eatLoneUnicodePropertyNameOrValue fuel then
      let nameOrValue := (← getSt).lastStrValue
      if isValidUnicodeProperty generalCategory nameOrValue then
        modSt fun s => { s with lastKeyValue := generalCategory, lastValValue := nameOrValue }
        pure true
      else if isValidLoneUnicodeProperty nameOrValue then
        modSt fun s => { s with lastKeyValue := nameOrValue, lastValValue := [] }
        pure true
      else fail "Invalid property name"
    else pure false

/-- the inner `while let Some(cp)` of `eat_decimal_escape` (`validator.rs:1295-1302`) -/
def eatDecimalEscapeLoop : Nat → M Unit
  | 0 => outOfFuel
  | n + 1 => do
    match ← codePointWithOffset 0 with
    | some cp =>
      if !isAsciiDigit cp then pure ()
      else do
        let d ← unwrap (toDigit cp 10) "validator.rs:1300 to_digit(10).unwrap()"
        setInt (satMulAdd 10 (← getSt).lastIntValue d)     -- saturating (fix e995e57)
        advance
        eatDecimalEscapeLoop n
    | none => pure ()

/-- `validator.rs:1288-1307` -/
def eatDecimalEscape (fuel : Nat) : M Bool := do
  setInt 0
  match ← codePointWithOffset 0 with
  | some cp =>
    if isAsciiDigit cp && cp != ch '0' then do     -- `NonZeroDigit` (fix 22e4b8a)
      let d ← unwrap (toDigit cp 10) "validator.rs:1293 to_digit(10).unwrap()"
      let v ← checkedI64 (10 * (← getSt).lastIntValue + d) "validator.rs:1292-1293"
      setInt v
      advance
      eatDecimalEscapeLoop fuel
      pure true
    else pure false
  | none => pure false

/-- `validator.rs:1269-1279` -/
def isValidIdentityEscape (cp : Nat) : M Bool := do
  let s ← getSt
  if s.uFlag then pure (isSyntaxCharacter cp || cp == ch '/')
  else if s.strict then do pure (!(← isIdContinue cp))
  else if s.nFlag then pure (!(cp == ch 'c' || cp == ch 'k'))
  else pure (cp != ch 'c')

/-- `validator.rs:1259-1268` -/
def eatIdentityEscape : M Bool := do
  match ← codePointWithOffset 0 with
  | some cp =>
    if ← isValidIdentityEscape cp then do
      setInt cp
      advance
      pure true
    else pure false
  | none => pure false

/-- `validator.rs:1231-1244` -/
def eatRegexpUnicodeCodepointEscape (fuel : Nat) : M Bool := do
  let start ← index
  if ← (eat '{' <and> eatHexDigits fuel <and> eat '}' <and> (do pure (isValidUnicode (← getSt).lastIntValue))) then
    pure true
  else do
    rewind start
    pure false

/-- `validator.rs:1202-1223` -/
def eatRegexpUnicodeSurrogatePairEscape : M Bool := do
  let start ← index
  if ← eatFixedHexDigits 4 then
    let lead := (← getSt).lastIntValue
    let hit ← (do
      if ← (pure (isLeadSurrogate lead) <and> eat '\\' <and> eat 'u' <and> eatFixedHexDigits 4) then
        let trail := (← getSt).lastIntValue
        if isTrailSurrogate trail then do
          setInt (combineSurrogatePair lead trail)
          pure true
        else pure false
      else pure false : M Bool)
    if hit then pure true
    else do
      rewind start
      pure false
  else pure false

/-- `validator.rs:1173-1194` -/
def eatRegexpUnicodeEscapeSequence (fuel : Nat) (forceUFlag : Bool) : M Bool := do
  let start ← index
  let uFlag := forceUFlag || (← getSt).uFlag
  if ← eat 'u' then
    if ← ((pure uFlag <and> eatRegexpUnicodeSurrogatePairEscape)
          <or> eatFixedHexDigits 4
          <or> (pure uFlag <and> eatRegexpUnicodeCodepointEscape fuel)) then
      pure true
    else if (← getSt).strict || uFlag then fail "Invalid unicode escape"
    else do
      rewind start
      pure false
  else pure false

/-- `validator.rs:1149-1158` -/
def eatControlLetter : M Bool := do
  match ← codePointWithOffset 0 with
  | some cp =>
    if isAsciiAlphabetic cp then do
      advance
      setInt ((cp : Int) % 0x20)
      pure true
    else pure false
  | none => pure false

/-- `validator.rs:1117-1139` -/
def eatControlEscape : M Bool := do
  if ← eat 'f' then do setInt 0x0c; pure true
  else if ← eat 'n' then do setInt 0x0a; pure true
  else if ← eat 'r' then do setInt 0x0d; pure true
  else if ← eat 't' then do setInt 0x09; pure true
  else if ← eat 'v' then do setInt 0x0b; pure true
  else pure false

/-- `validator.rs:1096-1107` -/
def eatZero : M Bool := do
  if (← codePointWithOffset 0) != some (ch '0') then pure false
  else
    let blocked := match ← codePointWithOffset 1 with
      | some cp => isAsciiDigit cp
      | none => false
    if blocked then pure false
    else do
      setInt 0
      advance
      pure true

/-- `validator.rs:1079-1088` -/
def eatCControlLetter : M Bool := do
  let start ← index
  if ← eat 'c' then
    if ← eatControlLetter then pure true
    else do
      rewind start
      pure false
  else pure false

/-- `validator.rs:1037-1071` -/
def eatRegexpIdentifierPart (fuel : Nat) : M Bool := do
  let start ← index
  let forceUFlag := !(← getSt).uFlag && /- ecma_version >= Es2020 -/ true
  let cp0 ← codePointWithOffset 0
  advance
  let cp1 ← codePointWithOffset 0
  let cp : Option Nat ← (do
    if ← (pure (cp0 == some (ch '\\')) <and> eatRegexpUnicodeEscapeSequence fuel forceUFlag) then
      -- TODO (source): convert unicode code point to char
      pure (some (i64AsU32 (← getSt).lastIntValue))
    else
      -- `if let (true, Some(lead), Some(trail)) = (force_u_flag, cp, cp1)` (fix fe30608: no `unwrap` of a `None`)
      match forceUFlag, cp0, cp1 with
      | true, some c, some c1 =>
        if isLeadSurrogate c && isTrailSurrogate c1 then do
          advance
          pure (some (i64AsU32 (combineSurrogatePair c c1)))
        else pure cp0
      | _, _, _ => pure cp0
    : M (Option Nat))
  let hit ← (match cp with
    | some c => do
      if ← isRegexpIdentifierPart c then do
        setInt c
        pure true
      else pure false
    | none => pure false : M Bool)
  if hit then pure true
  else do
    if (← index) != start then rewind start
    pure false

/-- `validator.rs:990-1021` -/
def eatRegexpIdentifierStart (fuel : Nat) : M Bool := do
  let start ← index
  let forceUFlag := !(← getSt).uFlag && /- ecma_version >= Es2020 -/ true
  let hit ← (do
    match ← codePointWithOffset 0 with
    | some cp0 => do
      advance
      let cp1 ← codePointWithOffset 0
      let cp : Nat ← (do
        if ← (pure (cp0 == ch '\\') <and> eatRegexpUnicodeEscapeSequence fuel forceUFlag) then
          pure (i64AsU32 (← getSt).lastIntValue)
        else if forceUFlag && isLeadSurrogate cp0 then
          match cp1 with
          | some c1 =>
            if isTrailSurrogate c1 then do
              advance
              pure (i64AsU32 (combineSurrogatePair cp0 c1))
            else pure cp0
          | none => pure cp0
        else pure cp0 : M Nat)
      if ← isRegexpIdentifierStart cp then do
        setInt cp
        pure true
      else pure false
    | none => pure false : M Bool)
  if hit then pure true
  else do
    if (← index) != start then rewind start
    pure false

/-- the `while self.eat_regexp_identifier_part()?` of `eat_regexp_identifier_name` (`validator.rs:967-971`) -/
def eatRegexpIdentifierNameLoop : Nat → M Unit
  | 0 => outOfFuel
  | n + 1 => do
    if ← eatRegexpIdentifierPart n then
      let c ← unwrap (toChar (i64AsU32 (← getSt).lastIntValue)) "validator.rs:970 char::from_u32(..).unwrap()"
      modSt fun s => { s with lastStrValue := s.lastStrValue ++ [c] }
      eatRegexpIdentifierNameLoop n
    else pure ()

/-- `validator.rs:962-976` -/
def eatRegexpIdentifierName (fuel : Nat) : M Bool := do
  if ← eatRegexpIdentifierStart fuel then
    let c ← unwrap (toChar (i64AsU32 (← getSt).lastIntValue)) "validator.rs:964-965 char::from_u32(..).unwrap()"
    setStr [c]
    eatRegexpIdentifierNameLoop fuel
    pure true
  else pure false

/-- `validator.rs:941-951` -/
def eatGroupName (fuel : Nat) : M Bool := do
  if ← eat '<' then
    if ← (eatRegexpIdentifierName fuel <and> eat '>') then pure true
    else fail "Invalid capture group name"
  else pure false

/-! ## `EcmaRegexValidator`: escapes, classes -/

/-- `validator.rs:768-778` -/
def consumeKGroupName (fuel : Nat) : M Bool := do
  if ← eat 'k' then
    if ← eatGroupName fuel then
      let groupName := (← getSt).lastStrValue
      modSt fun s => { s with backreferenceNames :=
        if s.backreferenceNames.contains groupName then s.backreferenceNames else s.backreferenceNames ++ [groupName] }
      pure true
    else fail "Invalid named reference"
  else pure false

/-- `validator.rs:749-761` -/
def consumeCharacterEscape (fuel : Nat) : M Bool :=
  eatControlEscape
    <or> eatCControlLetter
    <or> eatZero
    <or> eatHexEscapeSequence
    <or> eatRegexpUnicodeEscapeSequence fuel false
    <or> ((do pure (!(← getSt).strict)) <and> (do pure (!(← getSt).uFlag)) <and> eatLegacyOctalEscapeSequence)
    <or> eatIdentityEscape

/-- `validator.rs:709-735` -/
def consumeCharacterClassEscape (fuel : Nat) : M Bool := do
  if ← (eat 'd' <or> eat 'D' <or> eat 's' <or> eat 'S' <or> eat 'w' <or> eat 'W') then
    setInt (-1)
    pure true
  else if ← ((do pure (← getSt).uFlag) <and> /- ecma_version >= Es2018 -/ pure true <and> (eat 'p' <or> eat 'P')) then
    setInt (-1)
    if ← (eat '{' <and> eatUnicodePropertyValueExpression fuel <and> eat '}') then pure true
    else fail "Invalid property name"
  else pure false

/-- `validator.rs:681-692` -/
def consumeBackreference (fuel : Nat) : M Bool := do
  let start ← index
  if ← eatDecimalEscape fuel then
    let s ← getSt
    if s.lastIntValue ≤ (s.numCapturingParens : Int) then pure true
    else if s.strict || s.uFlag then fail "Invalid escape"
    else do
      rewind start
      pure false
  else pure false

/-- `validator.rs:660-672` -/
def consumeAtomEscape (fuel : Nat) : M Bool := do
  if ← (consumeBackreference fuel
        <or> consumeCharacterClassEscape fuel
        <or> consumeCharacterEscape fuel
        <or> ((do pure (← getSt).nFlag) <and> consumeKGroupName fuel)) then
    pure true
  else
    let s ← getSt
    if s.strict || s.uFlag then fail "Invalid escape"
    else pure false

/-- `validator.rs:901-932` -/
def consumeClassEscape (fuel : Nat) : M Bool := do
  if ← eat 'b' then
    setInt 0x08 -- backspace
    pure true
  -- [+U] `-`
  else if ← ((do pure (← getSt).uFlag) <and> eat '-') then
    setInt (ch '-')
    pure true
  else
    -- [annexB][~U] `c` ClassControlLetter
    let s ← getSt
    let hit ← (do
      if !s.strict && !s.uFlag && (← codePointWithOffset 0) == some (ch 'c') then
        match ← codePointWithOffset 1 with
        | some cp =>
          if isAsciiDigit cp || cp == ch '_' then do
            advance
            advance
            setInt ((cp : Int) % 0x20)
            pure true
          else pure false
        | none => pure false
      else pure false : M Bool)
    if hit then pure true
    else consumeCharacterClassEscape fuel <or> consumeCharacterEscape fuel

/-- `validator.rs:858-885` -/
def consumeClassAtom (fuel : Nat) : M Bool := do
  let start ← index
  let hit ← (do
    match ← codePointWithOffset 0 with
    | some cp =>
      if cp != ch '\\' && cp != ch ']' then do
        advance
        setInt cp
        pure true
      else pure false
    | none => pure false : M Bool)
  if hit then pure true
  else if ← eat '\\' then
    if ← consumeClassEscape fuel then pure true
    else if !(← getSt).strict && (← codePointWithOffset 0) == some (ch 'c') then
      setInt (ch '\\')
      pure true
    else
      let s ← getSt
      if s.strict || s.uFlag then fail "Invalid escape"
      else do
        rewind start
        pure false
  else pure false

/-- `validator.rs:812-844`; one call = one iteration of the `loop`, `continue` = the recursive call -/
def consumeClassRanges : Nat → M Unit
  | 0 => outOfFuel
  | n + 1 => do
    -- Consume the first ClassAtom
    if !(← consumeClassAtom n) then pure () -- break
    else
      let min := (← getSt).lastIntValue
      -- Consume `-`
      if !(← eat '-') then consumeClassRanges n -- continue
      else
        -- Consume the second ClassAtom
        if !(← consumeClassAtom n) then pure () -- break
        else
          let max := (← getSt).lastIntValue
          -- Validate
          if min == -1 || max == -1 then
            if (← getSt).strict then fail "Invalid character class"
            else consumeClassRanges n -- continue
          else if min > max then fail "Range out of order in character class"
          else consumeClassRanges n

/-- `validator.rs:787-796` -/
def consumeCharacterClass (fuel : Nat) : M Bool := do
  if !(← eat '[') then pure false
  else do
    let _ ← eat '^'                                  -- (fix feb5d01)
    consumeClassRanges fuel
    if !(← eat ']') then fail "Unterminated character class"
    else pure true

/-! ## `EcmaRegexValidator`: quantifiers, atoms -/

/-- `validator.rs:409-437` -/
def eatBracedQuantifier (fuel : Nat) (noError : Bool) : M Bool := do
  let start ← index
  if ← eat '{' then
    modSt fun s => { s with lastMinValue := 0, lastMaxValue := i64Max }
    let done ← (do
      if ← eatDecimalDigits fuel then
        modSt fun s => { s with lastMinValue := s.lastIntValue, lastMaxValue := s.lastIntValue }
        if ← eat ',' then
          if ← eatDecimalDigits fuel then modSt fun s => { s with lastMaxValue := s.lastIntValue }
          else modSt fun s => { s with lastMaxValue := i64Max }
        if ← eat '}' then
          let s ← getSt
          if !noError && s.lastMaxValue < s.lastMinValue then fail "numbers out of order in {} quantifier"
          else pure true
        else pure false
      else pure false : M Bool)
    if done then pure true
    else
      let s ← getSt
      if !noError && (s.uFlag || s.strict) then fail "Incomplete quantifier"
      else do
        rewind start
        pure false
  else pure false

/-- `validator.rs:386-398` -/
def consumeQuantifier (fuel : Nat) (noConsume : Bool) : M Bool := do
  -- QuantifierPrefix
  if ← (eat '*' <or> eat '+' <or> eat '?' <or> eatBracedQuantifier fuel noConsume) then
    let _ ← eat '?'
    pure true
  else pure false

/-- `validator.rs:313-316` -/
def consumeOptionalQuantifier (fuel : Nat) : M Bool := do
  let _ ← consumeQuantifier fuel false
  pure true

/-- `validator.rs:466-475` -/
def consumeReverseSolidusAtomEscape (fuel : Nat) : M Bool := do
  let start ← index
  if ← eat '\\' then
    if ← consumeAtomEscape fuel then pure true
    else do
      rewind start
      pure false
  else pure false

/-- `validator.rs:549-559` -/
def consumeReverseSolidusFollowedByC : M Bool := do
  if (← codePointWithOffset 0) == some (ch '\\') && (← codePointWithOffset 1) == some (ch 'c') then
    setInt (ch '\\')
    advance
    pure true
  else pure false

/-- `validator.rs:570-576` -/
def consumeInvalidBracedQuantifier (fuel : Nat) : M Bool := do
  if ← eatBracedQuantifier fuel true then fail "Nothing to repeat"
  else pure false

/-- `validator.rs:585-593` -/
def consumePatternCharacter : M Bool := do
  match ← codePointWithOffset 0 with
  | some cp =>
    if !isSyntaxCharacter cp then do
      advance
      pure true
    else pure false
  | none => pure false

/-- `validator.rs:602-621` -/
def consumeExtendedPatternCharacter : M Bool := do
  match ← codePointWithOffset 0 with
  | some cp =>
    if cp != ch '^' && cp != ch '$' && cp != ch '\\' && cp != ch '.' && cp != ch '*' && cp != ch '+'
        && cp != ch '?' && cp != ch '(' && cp != ch ')' && cp != ch '[' && cp != ch '|' then do
      advance
      pure true
    else pure false
  | none => pure false

/-- `validator.rs:631-646` -/
def consumeGroupSpecifier (fuel : Nat) : M Bool := do
  if ← eat '?' then
    if ← eatGroupName fuel then
      let s ← getSt
      if !s.groupNames.contains s.lastStrValue then
        modSt fun s => { s with groupNames := s.groupNames ++ [s.lastStrValue] }
        pure true
      else fail "Duplicate capture group name"
    else fail "Invalid group"
  else pure false

/-! ## the recursive productions -/

mutual

/-- `validator.rs:253-266` -/
def consumeDisjunction : Nat → M Unit
  | 0 => outOfFuel
  | n + 1 => do
    consumeAlternative n
    consumeDisjunctionLoop n
    if ← consumeQuantifier n true then fail "Nothing to repeat"
    else if ← eat '{' then fail "Lone quantifier brackets"
    else pure ()

/-- the `while self.eat('|')` of `consume_disjunction` (`validator.rs:255-257`) -/
def consumeDisjunctionLoop : Nat → M Unit
  | 0 => outOfFuel
  | n + 1 => do
    if ← eat '|' then
      consumeAlternative n
      consumeDisjunctionLoop n
    else pure ()

/-- `validator.rs:274-279`; the `while` is the recursive call -/
def consumeAlternative : Nat → M Unit
  | 0 => outOfFuel
  | n + 1 => do
    if ← ((do pure (← codePointWithOffset 0).isSome) <and> consumeTerm n) then consumeAlternative n
    else pure ()

/-- `validator.rs:296-311` -/
def consumeTerm : Nat → M Bool
  | 0 => outOfFuel
  | n + 1 => do
    let s ← getSt
    if s.uFlag || s.strict then
      consumeAssertion n <or> (consumeAtom n <and> consumeOptionalQuantifier n)
    else
      (consumeAssertion n
          <and> ((do pure (!(← getSt).lastAssertionIsQuantifiable)) <or> consumeOptionalQuantifier n))
        <or> (consumeExtendedAtom n <and> consumeOptionalQuantifier n)

/-- `validator.rs:339-370` -/
def consumeAssertion : Nat → M Bool
  | 0 => outOfFuel
  | n + 1 => do
    let start ← index
    modSt fun s => { s with lastAssertionIsQuantifiable := false }
    if ← (eat '^' <or> eat '$' <or> eat2 '\\' 'B' <or> eat2 '\\' 'b') then pure true
    -- Lookahead / Lookbehind
    else if ← eat2 '(' '?' then
      let lookbehind ← (/- ecma_version >= Es2018 -/ pure true <and> eat '<')
      let flag ← (eat '=' <or> eat '!')
      if flag then
        consumeDisjunction n
        if !(← eat ')') then fail "Unterminated group"
        else do
          modSt fun s => { s with lastAssertionIsQuantifiable := !lookbehind && !s.strict }
          pure true
      else do
        rewind start
        pure false
    else pure false

/-- `validator.rs:450-459` -/
def consumeAtom : Nat → M Bool
  | 0 => outOfFuel
  | n + 1 =>
    consumePatternCharacter
      <or> eat '.'
      <or> consumeReverseSolidusAtomEscape n
      <or> consumeCharacterClass n
      <or> consumeUncapturingGroup n
      <or> consumeCapturingGroup n

/-- `validator.rs:531-542` -/
def consumeExtendedAtom : Nat → M Bool
  | 0 => outOfFuel
  | n + 1 =>
    eat '.'
      <or> consumeReverseSolidusAtomEscape n
      <or> consumeReverseSolidusFollowedByC
      <or> consumeCharacterClass n
      <or> consumeUncapturingGroup n
      <or> consumeCapturingGroup n
      <or> consumeInvalidBracedQuantifier n
      <or> consumeExtendedPatternCharacter

/-- `validator.rs:482-493` -/
def consumeUncapturingGroup : Nat → M Bool
  | 0 => outOfFuel
  | n + 1 => do
    if ← eat3 '(' '?' ':' then
      consumeDisjunction n
      if !(← eat ')') then fail "Unterminated group"
      else pure true
    else pure false

/-- `validator.rs:500-516` -/
def consumeCapturingGroup : Nat → M Bool
  | 0 => outOfFuel
  | n + 1 => do
    if !(← eat '(') then pure false
    else do
      -- `if self.ecma_version >= Es2018 { self.consume_group_specifier()?; }`
      -- (`else if self.code_point_value_with_offset(0) == Some('?') { return Err("Invalid group") }` is dead for Es2022)
      let _ ← consumeGroupSpecifier n
      consumeDisjunction n
      if !(← eat ')') then fail "Unterminated group"
      else pure true

end

/-! ## patterns -/

/-- the `while let Some(cp)` of `count_capturing_parens` (`validator.rs:1569-1591`) -/
def countCapturingParensLoop : Nat → Bool → Bool → Nat → M Nat
  | 0, _, _, _ => outOfFuel
  | n + 1, inClass, escaped, count => do
    match ← codePointWithOffset 0 with
    | none => pure count
    | some cp =>
      if escaped then do
        advance
        countCapturingParensLoop n inClass false count
      else if cp == ch '\\' then do
        advance
        countCapturingParensLoop n inClass true count
      else if cp == ch '[' then do
        advance
        countCapturingParensLoop n true escaped count
      else if cp == ch ']' then do
        advance
        countCapturingParensLoop n false escaped count
      else
        let c1 ← codePointWithOffset 1
        let c2 ← codePointWithOffset 2
        let c3 ← codePointWithOffset 3
        if cp == ch '(' && !inClass
            && (c1 != some (ch '?') || (c2 == some (ch '<') && c3 != some (ch '=') && c3 != some (ch '!'))) then do
          advance
          countCapturingParensLoop n inClass escaped (count + 1)
        else do
          advance
          countCapturingParensLoop n inClass escaped count

/-- `validator.rs:1563-1595` -/
def countCapturingParens (fuel : Nat) : M Nat := do
  let start ← index
  let count ← countCapturingParensLoop fuel false false 0
  rewind start
  pure count

/-- `validator.rs:219-245` -/
def consumePattern (fuel : Nat) : M Unit := do
  let count ← countCapturingParens fuel
  modSt fun s => { s with numCapturingParens := count, groupNames := [], backreferenceNames := [] }
  consumeDisjunction fuel
  match ← codePointWithOffset 0 with
  | some cp =>
    if cp == ch ')' then fail "Unmatched ')'"
    else if cp == ch '\\' then fail "\\ at end of pattern"
    else if cp == ch ']' || cp == ch '}' then fail "Lone quantifier brackets"
    else fail s!"Unexpected character {cp}"
  | none =>
    let s ← getSt
    -- `backreference_names.difference(&group_names).next()`: which element a `HashSet` yields first is unspecified;
    -- only the *text* of the message depends on it (the model names the first in insertion order)
    match s.backreferenceNames.find? (fun name => !s.groupNames.contains name) with
    | some name => fail s!"Invalid named capture referenced: {String.ofList (name.map Char.ofNat)}"
    | none => pure ()

/-- `validator.rs:190-212` -/
def validatePattern (fuel : Nat) (source : List Nat) (uFlag : Bool) : M Unit := do
  modSt fun s => { s with
    strict := uFlag, -- TODO (source): allow toggling strict independently of u flag
    uFlag := uFlag && /- ecma_version >= Es2015 -/ true,
    nFlag := uFlag && /- ecma_version >= Es2018 -/ true }
  -- `self.reset(source, 0, source.chars().count(), u_flag)`: `end` is the number of *scalar values* also when the
  -- reader then indexes UTF-16 code units (`u_flag = false`)
  -- (fix d08fa84) code points with the u flag, UTF-16 code units without it
  reset source 0 (if uFlag then source.length else (encodeUtf16 source).length) uFlag
  consumePattern fuel
  let s ← getSt
  if !s.nFlag && /- ecma_version >= Es2018 -/ true && !s.groupNames.isEmpty then
    modSt fun s => { s with nFlag := true }
    rewind 0
    consumePattern fuel

/-! ## the rule (`src/rules/no_invalid_regexp.rs`) -/

/-- `no_invalid_regexp.rs:102-104` -/
def checkForInvalidFlags (flags : List Nat) : Bool :=
  match validateFlags flags with
  | .ok _ => false
  | .error _ => true

/-- `no_invalid_regexp.rs:106-108`: `.is_err()` -/
def checkForInvalidPattern (fuel : Nat) (source : List Nat) (uFlag : Bool) : M Bool := fun s =>
  match validatePattern fuel source uFlag s with
  | .ok _ s' => .ok false s'
  | .err _ s' => .ok true s'
  | .panic m s' => .panic m s'
  | .outOfFuel s' => .outOfFuel s'

/-- `no_invalid_regexp.rs:89-100`: `true` = a diagnostic is added -/
def checkRegex (fuel : Nat) (pattern flags : List Nat) : M Bool :=
  -- (fix 871be28) the mode is determined by the presence of the `u` flag alone
  pure (checkForInvalidFlags flags) <or> checkForInvalidPattern fuel pattern (flags.contains (ch 'u'))

/-- generous: the recursion depth needed is below `10 * (number of code units) + 20` -/
def defaultFuel (pattern : List Nat) : Nat := 50 * ((encodeUtf16 pattern).length + 10)

structure SeqResult where
  reported : List Bool
  panic : Bool
  fuel : Bool
  /-- the panic site, for the log -/
  why : Option String
  final : St
  deriving Repr

/-- all regexes of one file in source order with one validator.  A panic unwinds out of `lint_file`: the file gets no
diagnostics at all, so `reported` is all `false` then (same convention for fuel exhaustion). -/
def runSeqAux : List (List Nat × List Nat) → St → SeqResult
  | [], s => { reported := [], panic := false, fuel := false, why := none, final := s }
  | (p, f) :: rest, s =>
    match checkRegex (defaultFuel p) p f s with
    | .ok b s' =>
      let r := runSeqAux rest s'
      { r with reported := b :: r.reported }
    | .err m s' => -- unreachable: `checkRegex` turns every `Err` into a Boolean
      { reported := [], panic := true, fuel := false, why := some s!"err escaped: {m}", final := s' }
    | .panic m s' => { reported := [], panic := true, fuel := false, why := some m, final := s' }
    | .outOfFuel s' => { reported := [], panic := false, fuel := true, why := none, final := s' }

def runSeq (seq : List (List Nat × List Nat)) (s : St) : SeqResult :=
  let r := runSeqAux seq s
  if r.panic || r.fuel then { r with reported := seq.map fun _ => false } else r

/-- `&str` → its scalar values -/
def ofString (s : String) : List Nat := s.toList.map Char.toNat

end DL.Rx
