/-!
# M-RX — the ECMAScript regular-expression validator (`src/js_regex/validator.rs`, `reader.rs`) and the mode logic of
`no-invalid-regexp` (`src/rules/no_invalid_regexp.rs:94-109`)

(stub: filled in by the transcription; see DESIGN.md §4 M-RX)
-/
namespace DL.Rx

end DL.Rx
