import Lean.Data.Json
import DL.Model.Scope

/-! JSON front end of M-SCOPE for the `dlmodel` driver. -/
open Lean (Json)
namespace DL.Scope

partial def itemOfJson (j : Json) : Except String Item := do
  let a ← j.getArr?
  let tag ← (a[0]!).getStr?
  match tag with
  | "ref" => pure (.ref (← (a[1]!).getNat?))
  | "key" => pure (.key (← (a[1]!).getNat?))
  | "decl" => pure (.decl (← (a[1]!).getNat?))
  | "block" => do
    let b ← (← (a[2]!).getArr?).toList.mapM itemOfJson
    pure (.block (← (a[1]!).getNat?) (b.foldr Items.cons .nil))
  | "func" => do
    let ps ← (← (a[2]!).getArr?).toList.mapM (·.getNat?)
    let b ← (← (a[3]!).getArr?).toList.mapM itemOfJson
    pure (.func (← (a[1]!).getNat?) ps (b.foldr Items.cons .nil))
  | t => throw s!"bad item {t}"

/-- canonical form of the resolver's output: [name, index of the first occurrence of the same binding or null,
is declared] -/
def canon (l : List Entry) : List Json :=
  let rec firstIdx (k : Nat) : List Entry → Entry → Nat
    | [], _ => k
    | f :: r, e => if f.name == e.name && f.bind == e.bind then k else firstIdx (k + 1) r e
  l.map fun e =>
    match e.bind with
    | none => Json.arr #[e.name, Json.null, false]
    | some _ => Json.arr #[e.name, firstIdx 0 l e, true]

def runScope (j : Json) : Except String Json := do
  let items ← (← (← j.getObjVal? "prog").getArr?).toList.mapM itemOfJson
  let p := items.foldr Items.cons .nil
  let g ← (← j.getObjVal? "g").getNat?
  let renamed ← match j.getObjVal? "ren" with
    | .ok (.arr a) => do
      let t ← (a[0]!).getNat?
      let x ← (a[1]!).getNat?
      let y ← (a[2]!).getNat?
      pure (Json.arr (canon (Program.res (Program.ren t x y p))).toArray)
    | _ => pure Json.null
  pure (Json.mkObj [("entries", Json.arr (canon (Program.res p)).toArray),
    ("reports", Json.arr ((globalReports g p).map (fun (n : Nat) => (n : Json))).toArray),
    ("renamed", renamed)])

end DL.Scope
