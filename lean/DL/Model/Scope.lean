/-!
# M-SCOPE — lexical scoping, the resolver's contract and two model rules

What the global-name rules (C14) and the binding-tracking rules (C20) consume is the result of two analyses computed
once per file (`src/context.rs`): the swc resolver, which gives every identifier a syntax context such that a reference
and its declaration carry the same one (and references without declaration the *unresolved* one), and deno_ast's scope
analysis (`ctx.scope().var(id)`).  This file models that contract on a core language of nested scopes:

* `ref x`            an identifier reference
* `key x`            the same spelling in a position that is not a reference (property key, member name)
* `decl x`           a lexical declaration of `x` in the enclosing scope (`let`/`const`/`class`/function declaration)
* `block id body`    a block scope
* `func id ps body`  a function scope with parameters `ps`

`var` hoisting is **not** modelled (it is exercised on the implementation by the C14 generator only).  Scope ids play
the role of syntax contexts: a binding is a pair (name, id of the declaring scope).

`res` is the resolver: the list, in source order, of every declaration / parameter / reference occurrence with the
binding it denotes (`none` = unresolved = global).  The correspondence check renders model programs to JavaScript,
runs the real parser + resolver + scope analysis and compares the partition of occurrences into bindings.
-/
namespace DL.Scope

mutual
inductive Item where
  | ref (x : Nat)
  | key (x : Nat)
  | decl (x : Nat)
  | block (id : Nat) (body : Items)
  | func (id : Nat) (ps : List Nat) (body : Items)
inductive Items where
  | nil
  | cons (i : Item) (r : Items)
end

/-- names declared lexically directly in a scope body -/
def Items.lets : Items → List Nat
  | .nil => []
  | .cons (.decl x) r => x :: r.lets
  | .cons _ r => r.lets

/-- environment: the enclosing scopes, innermost first, each with its id and the names it declares -/
abbrev Env := List (Nat × List Nat)

def lookup : Env → Nat → Option Nat
  | [], _ => none
  | (id, fr) :: rest, x => if x ∈ fr then some id else lookup rest x

/-- kind of an occurrence -/
inductive Occ where
  | decl | ref
  deriving DecidableEq, Repr

/-- one resolved occurrence: kind, spelling, binding scope (`none` = unresolved) -/
structure Entry where
  kind : Occ
  name : Nat
  bind : Option Nat
  deriving DecidableEq, Repr

mutual
def Item.res (env : Env) : Item → List Entry
  | .ref x => [⟨.ref, x, lookup env x⟩]
  | .key _ => []
  | .decl x => [⟨.decl, x, lookup env x⟩]
  | .block id b => b.res ((id, b.lets) :: env)
  | .func id ps b =>
      ps.map (fun p => ⟨.decl, p, lookup ((id, ps ++ b.lets) :: env) p⟩) ++ b.res ((id, ps ++ b.lets) :: env)
def Items.res (env : Env) : Items → List Entry
  | .nil => []
  | .cons i r => i.res env ++ r.res env
end

/-- a program is the body of the outermost (module) scope, id 0 -/
def Program.res (p : Items) : List Entry := p.res [(0, p.lets)]

/-! ### one-hole contexts: a stack of enclosing scopes, each with the statements before and after the hole -/
def Items.append : Items → Items → Items
  | .nil, b => b
  | .cons i r, b => .cons i (r.append b)

inductive Layer where
  | block (id : Nat) (pre post : Items)
  | func (id : Nat) (ps : List Nat) (pre post : Items)

def Layer.wrap : Layer → Item → Item
  | .block id pre post, inner => .block id (pre.append (.cons inner post))
  | .func id ps pre post, inner => .func id ps (pre.append (.cons inner post))

/-- the names an enclosing scope declares: its parameters and the lexical declarations before and after the hole -/
def Layer.declared : Layer → List Nat
  | .block _ pre post => pre.lets ++ post.lets
  | .func _ ps pre post => ps ++ (pre.lets ++ post.lets)

def Layer.id : Layer → Nat
  | .block id _ _ => id
  | .func id _ _ _ => id

/-- plug an item into a context given outermost scope first -/
def plug : List Layer → Item → Item
  | [], i => i
  | l :: ls, i => l.wrap (plug ls i)

def envOf : List Layer → Env → Env
  | [], e => e
  | l :: ls, e => envOf ls ((l.id, l.declared) :: e)

/-! ### the model of a global-name rule (C14): report references to `g` that the resolver left unresolved -/
def isGlobalRef (g : Nat) (e : Entry) : Bool := e.kind == .ref && e.name == g && e.bind == none

/-- positions (indices into the occurrence list) reported by the rule -/
def reportIdx (g : Nat) : Nat → List Entry → List Nat
  | _, [] => []
  | k, e :: r => if isGlobalRef g e then k :: reportIdx g (k + 1) r else reportIdx g (k + 1) r

def globalReports (g : Nat) (p : Items) : List Nat := reportIdx g 0 (Program.res p)

/-! ### consistent renaming of one binding (C20) -/
def sw (x y z : Nat) : Nat := if z = x then y else z

/-- is the renaming active inside a scope `id` declaring `fr`?  yes if this is the target scope, or if it was active
outside and the scope does not shadow `x` -/
def act' (t x : Nat) (active : Bool) (id : Nat) (fr : List Nat) : Bool :=
  (id == t && decide (x ∈ fr)) || (active && !decide (x ∈ fr))

mutual
-- rename the binding (`x`, scope `t`) to `y`: `active` = we are inside its scope and it is not shadowed
def Item.ren (t x y : Nat) (active : Bool) : Item → Item
  | .ref z => .ref (if active then sw x y z else z)
  | .key z => .key z
  | .decl z => .decl (if active then sw x y z else z)
  | .block id b =>
      .block id (b.ren t x y (act' t x active id b.lets))
  | .func id ps b =>
      .func id (if act' t x active id (ps ++ b.lets) then ps.map (sw x y) else ps)
        (b.ren t x y (act' t x active id (ps ++ b.lets)))
def Items.ren (t x y : Nat) (active : Bool) : Items → Items
  | .nil => .nil
  | .cons i r => .cons (i.ren t x y active) (r.ren t x y active)
end

def Program.ren (t x y : Nat) (p : Items) : Items := p.ren t x y (0 == t && decide (x ∈ p.lets))

-- every spelling that occurs as declaration, parameter or reference
mutual
def Item.names : Item → List Nat
  | .ref x => [x]
  | .key _ => []
  | .decl x => [x]
  | .block _ b => b.names
  | .func _ ps b => ps ++ b.names
def Items.names : Items → List Nat
  | .nil => []
  | .cons i r => i.names ++ r.names
end

/-- the renaming seen on the resolver's output -/
def swE (t x y : Nat) (e : Entry) : Entry :=
  if e.name = x ∧ e.bind = some t then { e with name := y } else e

/-! ### a binding-keyed rule (the shape of no-unused-vars) and its name-keyed mutant -/
/-- declarations whose binding (spelling **and** scope) is never referenced; reported by position -/
def unusedIdx (all : List Entry) : Nat → List Entry → List Nat
  | _, [] => []
  | k, e :: r =>
    if e.kind == .decl && !(all.any fun f => f.kind == .ref && f.name == e.name && f.bind == e.bind)
    then k :: unusedIdx all (k + 1) r else unusedIdx all (k + 1) r
def unused (l : List Entry) : List Nat := unusedIdx l 0 l

/-- the mutant: keyed on the spelling alone -/
def unusedByNameIdx (all : List Entry) : Nat → List Entry → List Nat
  | _, [] => []
  | k, e :: r =>
    if e.kind == .decl && !(all.any fun f => f.kind == .ref && f.name == e.name)
    then k :: unusedByNameIdx all (k + 1) r else unusedByNameIdx all (k + 1) r
def unusedByName (l : List Entry) : List Nat := unusedByNameIdx l 0 l

end DL.Scope
