/-!
# M-TXT — text-scanning rules: `prefer-ascii` (`src/rules/prefer_ascii.rs`)

The rule walks `text.char_indices().peekable()` and reports every character that is not ASCII **and has a successor**
(`if let Some(&(pi, _)) = src_chars.peek()`: the last character of the file is never reported — a quirk of the code that
the model keeps) with the byte range `[i, pi)`: from the character's byte offset to the next character's.

Text is `List Char`; byte offsets are computed with `utf8Len` (the UTF-8 width of a scalar value).
-/
namespace DL.Txt

def utf8Len (c : Char) : Nat :=
  if c.val < 0x80 then 1 else if c.val < 0x800 then 2 else if c.val < 0x10000 then 3 else 4

def bytes (t : List Char) : Nat := (t.map utf8Len).sum

/-- one finding: the character, start and end byte offsets -/
structure Hit where
  c : Char
  start : Nat
  stop : Nat
  deriving DecidableEq, Repr

/-- `scan i t`: findings of the text `t` that starts at byte offset `i` -/
def scan : Nat → List Char → List Hit
  | _, [] => []
  | _, [_] => []
  | i, c :: d :: r =>
    (if utf8Len c > 1 then [⟨c, i, i + utf8Len c⟩] else []) ++ scan (i + utf8Len c) (d :: r)

def preferAscii (t : List Char) : List Hit := scan 0 t

/-- the same without the last-character quirk (every non-ASCII character) -/
def scanAll : Nat → List Char → List Hit
  | _, [] => []
  | i, c :: r => (if utf8Len c > 1 then [⟨c, i, i + utf8Len c⟩] else []) ++ scanAll (i + utf8Len c) r

/-- byte offsets that are character boundaries of `t` (starting at offset `i`), including the end -/
def boundaries : Nat → List Char → List Nat
  | i, [] => [i]
  | i, c :: r => i :: boundaries (i + utf8Len c) r

end DL.Txt
