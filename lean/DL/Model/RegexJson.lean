import Lean.Data.Json
import DL.Model.Regex

/-! driver glue for M-RX: `runRx` answers one `{"m":"rx", ...}` request -/
open Lean (Json)
namespace DL.Rx

def runRx (_j : Json) : Except String Json := throw "rx model not implemented yet"

end DL.Rx
