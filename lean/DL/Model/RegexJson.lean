import Lean.Data.Json
import DL.Model.Regex

/-! driver glue for M-RX: `runRx` answers one `{"m":"rx","seq":[{"p":<pattern>,"f":<flags>},...]}` request = the
regexes of one file in source order, all checked by ONE validator starting from `EcmaRegexValidator::new`.
Answer: `{"reported":[..],"panic":b,"fuel":b}`.  Optional request keys: `"oc": false` selects wrapping arithmetic
(plain release profile) instead of `overflow-checks`; `"dbg": true` adds `"why"` (panic site) to the answer. -/
open Lean (Json)
namespace DL.Rx

def runRx (j : Json) : Except String Json := do
  let seq ← (← j.getObjVal? "seq").getArr?
  let items ← seq.toList.mapM fun it => do
    let p ← (← it.getObjVal? "p").getStr?
    let f ← (← it.getObjVal? "f").getStr?
    pure (ofString p, ofString f)
  let oc := match j.getObjVal? "oc" with
    | .ok (.bool b) => b
    | _ => true
  let dbg := match j.getObjVal? "dbg" with
    | .ok (.bool b) => b
    | _ => false
  let r := runSeq items { St.new with overflowChecks := oc }
  let base : List (String × Json) :=
    [("reported", Json.arr (r.reported.map Json.bool).toArray), ("panic", Json.bool r.panic), ("fuel", Json.bool r.fuel)]
  let extra : List (String × Json) :=
    if dbg then [("why", match r.why with | some w => Json.str w | none => Json.null)] else []
  pure (Json.mkObj (base ++ extra))

end DL.Rx
