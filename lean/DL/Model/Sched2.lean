import DL.Model.Sched

/-!
# M-SCHED, second half — files that cannot be read or parsed (`examples/dlint/main.rs`, since repair 07a5560)

A worker either finishes with the critical section of `Sched.step`, or — when `read_to_string` / `lint_file` fails —
with `failures.lock().insert(path, err)` (a second `BTreeMap` keyed by path).  After the parallel phase:
`failures.pop_first()` — the failure with the smallest path, if any — ends the run with that error (nothing else is
printed, exit status 1); otherwise the report of `Sched` is printed.
-/
namespace DL.Sched

inductive Outcome where
  | ok (r : FileResult)
  | fail (path : String) (err : String)
  deriving DecidableEq, Repr

def Outcome.path : Outcome → String
  | .ok r => r.path
  | .fail p _ => p

/-- `BTreeMap::insert` on the map of failures -/
def errInsert (k : String) (v : String) : List (String × String) → List (String × String)
  | [] => [(k, v)]
  | (k', v') :: r =>
    if k < k' then (k, v) :: (k', v') :: r
    else if k = k' then (k, v) :: r
    else (k', v') :: errInsert k v r

structure St2 where
  good : St
  failures : List (String × String)
  deriving Repr

def step2 (s : St2) : Outcome → St2
  | .ok r => { s with good := step s.good r }
  | .fail p e => { s with failures := errInsert p e s.failures }

def run2 (schedule : List Outcome) : St2 := schedule.foldl step2 { good := { map := [], count := 0 }, failures := [] }

/-- what the process prints and its exit status -/
def finish (s : St2) : List String × Nat :=
  match s.failures with
  | (_, e) :: _ => ([s!"Error: {e}"], 1)
  | [] => (report s.good, exitStatus s.good)

end DL.Sched
