/-!
# M-IMP — where `no-node-globals` / `no-process-global` put the import they offer, and what the file looks like after

`src/rules/no_node_globals.rs`, `src/rules/no_process_global.rs` (`fix_change`, `program_code_start`, `ends_line`,
`import_decl`) together with the line-directive filter of `context.rs` (`check_ignore_directive_usage`), as far as one
of these two rules is concerned.

A file is its list of lines.  Of a line the model keeps

* `dir`    — a `// deno-lint-ignore … <this rule> …` comment starts on this line (it covers diagnostics that start on
             the next line),
* `anyDir` — *some* line directive starts on this line (`line_ignore_directives().get(&line)` is `Some`),
* `items`  — in source order: the unresolved references to a global whose fix adds an import (`ref name`), and the
             ends of the top-level import declarations (`imp endsLine`; `endsLine` = only white space follows it on its
             line: the rule's `ends_line`).

`first` is the line of the first token after the shebang.  Everything else of the text is irrelevant to the two rules.

The rule reports every `ref`; the offered fix inserts one import statement

* after the most recent top-level import seen before the reference (traversal = source order): on a line of its own
  (`"\n" ++ stmt`) when that import ends its line, on the same line (`" " ++ stmt`) otherwise;
* without such an import: `stmt ++ "\n"` at the first token, or at the start of the line directive on the line above it.

After the fix the imported name is bound at module level: no reference to it is unresolved any more.
-/
namespace DL.Imp

/-- a global's name; the driver numbers the names (kernel evaluation of examples needs no strings) -/
abbrev Name := Nat

inductive Item where
  | ref (n : Name)
  | imp (endsLine : Bool)
  deriving DecidableEq, Repr

structure Line where
  dir : Bool
  anyDir : Bool
  items : List Item
  deriving DecidableEq, Repr

abbrev File := List Line

def Item.refName? : Item → Option Name
  | .ref n => some n
  | .imp _ => none

def Line.refs (l : Line) : List Name := l.items.filterMap Item.refName?

/-- the raw diagnostics of the rule, in source order: (line, name) -/
def rawFrom : Nat → File → List (Nat × Name)
  | _, [] => []
  | i, l :: ls => l.refs.map (fun n => (i, n)) ++ rawFrom (i + 1) ls

def raw (f : File) : List (Nat × Name) := rawFrom 0 f

def dirAt (f : File) (i : Nat) : Bool := match f[i]? with | some l => l.dir | none => false
def anyDirAt (f : File) (i : Nat) : Bool := match f[i]? with | some l => l.anyDir | none => false

/-- `check_ignore_directive_usage` for a diagnostic of this rule starting on line `l`:
`diagnostic_line > 0 && line_ignore_directives.get(diagnostic_line - 1)` names the code -/
def suppressed (f : File) (l : Nat) : Bool := l > 0 && dirAt f (l - 1)

/-- what the linter returns for this rule -/
def kept (f : File) : List (Nat × Name) := (raw f).filter fun d => !suppressed f d.1

/-- where the offered import goes -/
inductive Where where
  | newLineAt (k : Nat)   -- a fresh line with index `k`; the lines `≥ k` move down by one
  | sameLine              -- appended to the line of the last import: no line moves
  deriving DecidableEq, Repr

/-- `program_code_start`: the first token's line, or the line above it when a line directive starts there -/
def codeStart (f : File) (first : Nat) : Nat :=
  if first > 0 && anyDirAt f (first - 1) then first - 1 else first

/-- `most_recent_import_range` as the traversal goes along: (line, endsLine) of the last top-level import seen -/
abbrev Recent := Option (Nat × Bool)

def whereOf (f : File) (first : Nat) : Recent → Where
  | some (l, true) => .newLineAt (l + 1)
  | some (_, false) => .sameLine
  | none => .newLineAt (codeStart f first)

/-- the fix positions of all raw diagnostics, in the order of `raw` (the traversal state threaded through) -/
def wheresItems (f : File) (first i : Nat) : Recent → List Item → List Where × Recent
  | r, [] => ([], r)
  | r, .ref _ :: is => let (ws, r') := wheresItems f first i r is; (whereOf f first r :: ws, r')
  | _, .imp e :: is => wheresItems f first i (some (i, e)) is

def wheresFrom (f : File) (first : Nat) : Nat → Recent → File → List Where
  | _, _, [] => []
  | i, r, l :: ls => let (ws, r') := wheresItems f first i r l.items; ws ++ wheresFrom f first (i + 1) r' ls

def wheres (f : File) (first : Nat) : List Where := wheresFrom f first 0 none f

/-- after the fix for `g`, `g` is bound by an import: its references are no longer reported -/
def dropName (f : File) (g : Name) : File :=
  f.map fun l => { l with items := l.items.filter fun it => it != .ref g }

/-- the line the new import stands on when it gets a line of its own: no directive, no reference, one import that ends
its line -/
def newLine : Line := ⟨false, false, [.imp true]⟩

def insertLine (f : File) (k : Nat) : File := f.take k ++ newLine :: f.drop k

/-- the file after the fix for `g` placed at `w`.  (In case `sameLine` the new statement is one more `imp` item on that
line; it is left out: `kept` does not look at `imp` items, and the next round starts from the abstraction of the really
fixed file.) -/
def applyFix (f : File) (g : Name) : Where → File
  | .newLineAt k => insertLine (dropName f g) k
  | .sameLine => dropName f g

/-- a diagnostic that stood on line `l` stands on … after a fresh line `k` was inserted -/
def shiftLine (k l : Nat) : Nat := if k ≤ l then l + 1 else l

def shiftBy : Where → Nat × Name → Nat × Name
  | .newLineAt k, (l, n) => (shiftLine k l, n)
  | .sameLine, d => d

/-! ## what real files satisfy -/

def Line.hasImpEndingLine (l : Line) : Bool := l.items.any fun it => it == .imp true

/-- well-formedness of the abstraction of a real file:
* a directive naming the rule is a line directive;
* nothing stands before the first token: no items on earlier lines (`first` inside the file, or the file has no token
  and no items at all);
* an import that ends its line leaves no room for a line comment on that line: a line comment runs to the end of its
  line, so it can neither follow the import (then the import would not end the line) nor precede its end. -/
structure WF (f : File) (first : Nat) : Prop where
  dir_any : ∀ l ∈ f, l.dir = true → l.anyDir = true
  before_first : ∀ i l, f[i]? = some l → i < first → l.items = []
  imp_no_dir : ∀ l ∈ f, l.hasImpEndingLine = true → l.anyDir = false

end DL.Imp
