/-!
# M-CF — the control-flow analyzer (`src/control_flow/mod.rs`)

A state-passing transcription of `Analyzer`: every `visit_*` override, `with_child_scope`, `mark_as_end`, the
position-keyed metadata map (`BTreeMap<SourcePos, Metadata>`, `entry().or_default()`), inheritance of a forced end
into child scopes, `found_break` holding one target, `found_continue`, `may_throw`, hoisted ids.

The syntax is what the analyzer's traversal *sees*: statements with their real start positions; everything the
default swc traversal reaches inside expressions, declarations, classes … is a tree of `Kid`s (expressions with their
kind, function-like scopes, block statements, plain statements).  `cast_to_bool` results are input flags
(`testTrue`), supplied by swc and trusted.
-/
namespace DL.CF

abbrev Id := String

inductive EKind
  | ident (id : Id)
  | this
  | other
  deriving DecidableEq, Repr

/-- what `visit_stmt` looks at when the scope has already ended -/
inductive Tag
  | empty               -- `Stmt::Empty`
  | fnDecl (id : Id)    -- `Stmt::Decl(Decl::Fn)`
  | varNoInit           -- `var` declaration without initialisers
  | tsDecl              -- interface / type alias / module declarations (exempt in the no-unreachable rule only)
  | decl                -- any other `Stmt::Decl` (class, let/const, var with initialiser, enum, using)
  | exprStmt            -- `Stmt::Expr`
  | other               -- debugger, with
  deriving DecidableEq, Repr

mutual
inductive Stmt where
  | simple (p : Nat) (tag : Tag) (kids : Kids)
  | block (p : Nat) (body : Stmts)
  | ifS (p : Nat) (test : Kids) (cons : Stmt) (alt : Option Stmt)
  | whileS (p : Nat) (test : Kids) (testTrue : Bool) (body : Stmt)
  | doWhileS (p : Nat) (body : Stmt) (test : Kids) (testTrue : Bool)
  | forS (p : Nat) (init update test : Kids) (hasTest testTrue : Bool) (body : Stmt)
  | forInOf (p : Nat) (left right : Kids) (body : Stmt)
  | switchS (p : Nat) (disc : Kids) (cases : Cases)
  | tryS (p : Nat) (blockP : Nat) (block : Stmts) (hasHandler : Bool) (catchP : Nat) (catchKids : Kids)
      (hasFin : Bool) (finP : Nat) (fin : Stmts)
  | labeled (p : Nat) (label : Id) (body : Stmt)
  | brk (p : Nat) (label : Option Id)
  | cont (p : Nat) (label : Option Id)
  | ret (p : Nat) (arg : Kids)
  | throw (p : Nat) (arg : Kids)
inductive Stmts where
  | nil
  | cons (s : Stmt) (r : Stmts)
inductive Kid where
  | expr (k : EKind) (kids : Kids)
  | fnScope (p : Nat) (kids : Kids)    -- Function / ArrowExpr / Constructor / GetterProp / SetterProp
  | block (p : Nat) (body : Stmts)     -- a `BlockStmt` reached by the default traversal (`visit_block_stmt`)
  | stmt (s : Stmt)                    -- a `Stmt` reached by the default traversal (`visit_stmt`)
inductive Kids where
  | nil
  | cons (k : Kid) (r : Kids)
inductive Cases where
  | nil
  | cons (p : Nat) (isDefault : Bool) (test : Kids) (body : Stmts) (r : Cases)
end

def Stmt.pos : Stmt → Nat
  | .simple p .. | .block p .. | .ifS p .. | .whileS p .. | .doWhileS p .. | .forS p .. | .forInOf p ..
  | .switchS p .. | .tryS p .. | .labeled p .. | .brk p .. | .cont p .. | .ret p .. | .throw p .. => p

def Stmt.isBreakOrContinue : Stmt → Bool
  | .brk .. | .cont .. => true
  | _ => false

def Stmt.tag : Stmt → Tag
  | .simple _ t _ => t
  | _ => .other

/-- `Stmt::Expr(_) | Stmt::Decl(_)`: statements that never record an end of their own; the metadata under their
position belongs to a function / arrow / class they start with (keys are start positions) -/
def Stmt.isDeclOrExpr : Stmt → Bool
  | .simple _ (.fnDecl _) _ | .simple _ .varNoInit _ | .simple _ .tsDecl _ | .simple _ .decl _ | .simple _ .exprStmt _ => true
  | _ => false

inductive End
  | forced (ret throw_ inf : Bool)
  | brk
  | cont
  deriving DecidableEq, Repr

def End.isForced : End → Bool
  | .forced .. => true
  | _ => false

def End.mergeForced : End → End → Option End
  | .forced r1 t1 i1, .forced r2 t2 i2 => some (.forced (r1 || r2) (t1 || t2) (i1 || i2))
  | _, _ => none

def forcedRet : End := .forced true false false
def forcedThrow : End := .forced false true false
def forcedInf : End := .forced false false true

structure Meta where
  unreachable : Bool := false
  end_ : Option End := none
  deriving DecidableEq, Repr

/-- `Metadata::stops_execution` -/
def Meta.stops (m : Meta) : Bool :=
  match m.end_ with
  | some (.forced ..) | some .brk => true
  | _ => false

/-- `Metadata::continues_execution` -/
def Meta.continues (m : Meta) : Bool :=
  match m.end_ with
  | none | some .cont => true
  | _ => false

def stopsEnd : Option End → Bool
  | some (.forced ..) | some .brk => true
  | _ => false

def isForcedEnd : Option End → Bool
  | some (.forced ..) => true
  | _ => false

/-- `BTreeMap<SourcePos, Metadata>`: absent = `none` -/
abbrev Info := Nat → Option Meta

def Info.empty : Info := fun _ => none
/-- `info.entry(p).or_default().end = e` -/
def Info.setEnd (i : Info) (p : Nat) (e : Option End) : Info :=
  fun q => if q = p then some { (i q).getD {} with end_ := e } else i q
/-- `info.entry(p).or_default().unreachable = u` -/
def Info.setUnreach (i : Info) (p : Nat) (u : Bool) : Info :=
  fun q => if q = p then some { (i q).getD {} with unreachable := u } else i q
/-- `get_end_reason` -/
def Info.endAt (i : Info) (p : Nat) : Option End := (i p).bind (·.end_)

inductive BlockKind
  | program | function | case | ifK | loop | label (l : Id) | catch_ | finally_
  deriving DecidableEq, Repr

structure Sc where
  end_ : Option End := none
  mayThrow : Bool := false
  foundBreak : Option (Option Id) := none
  foundContinue : Bool := false
  hoist : List Id := []
  deriving Repr

structure A where
  sc : Sc
  info : Info

def A.setEnd (a : A) (e : Option End) : A := { a with sc := { a.sc with end_ := e } }

/-- `mark_as_end` -/
def markAsEnd (p : Nat) (e : End) (a : A) : A :=
  match a.sc.end_ with
  | none | some .cont => { sc := { a.sc with end_ := some e }, info := a.info.setEnd p (some e) }
  | some .brk => { a with info := a.info.setEnd p (some e) }
  | some (.forced r t i) => { a with info := a.info.setEnd p (((End.forced r t i).mergeForced e).orElse fun _ => a.sc.end_) }

/-- the end a child scope starts with: a forced end of the parent is inherited, except by functions -/
def childEnd (kind : BlockKind) (prev : Option End) : Option End :=
  match kind with
  | .function => none
  | _ => if isForcedEnd prev then prev else none

/-- how `found_break` of the child is merged into the parent -/
def mergeFb (kind : BlockKind) (afb cfb : Option (Option Id)) : Option (Option Id) :=
  match kind with
  | .case | .function | .loop => afb
  | _ =>
    if cfb == some none then some none
    else if afb.isNone then cfb else afb

/-- the parent's scope after the child has been visited (before looking at the child's end) -/
def mergeSc (kind : BlockKind) (a c : Sc) : Sc :=
  { end_ := a.end_, hoist := a.hoist ++ c.hoist, mayThrow := a.mayThrow || c.mayThrow,
    foundContinue := a.foundContinue || c.foundContinue, foundBreak := mergeFb kind a.foundBreak c.foundBreak }

/-- what the child's end `ce` does to the parent -/
def childExit (kind : BlockKind) (p : Nat) (prev : Option End) (a1 : A) (ce : Option End) : A :=
  match ce with
  | none => a1
  | some e =>
    match kind with
    | .program => a1
    | .function =>
      (match e with
        | .brk => a1
        | _ => markAsEnd p e a1).setEnd prev
    | .case => a1
    | .ifK => a1
    | .loop =>
      (match e with
        | .forced .. => (markAsEnd p e a1).setEnd (some e)
        | _ => (markAsEnd p e a1).setEnd prev)
    | .label l =>
      if a1.sc.foundBreak = some (some l) then ({ a1 with sc := { a1.sc with foundBreak := none } } : A) else a1
    | .catch_ => markAsEnd p e a1
    | .finally_ => markAsEnd p e a1

/-- `with_child_scope`; also returns the child's final scope (closures in the code read it before returning) -/
def withChildR (kind : BlockKind) (p : Nat) (op : A → A) (a : A) : A × Sc :=
  let c := op { sc := { end_ := childEnd kind a.sc.end_ }, info := a.info }
  (childExit kind p a.sc.end_ { sc := mergeSc kind a.sc c.sc, info := c.info } c.sc.end_, c.sc)

def withChild (kind : BlockKind) (p : Nat) (op : A → A) (a : A) : A := (withChildR kind p op a).1

/-- the `unreachable` flag computed by `visit_stmt` -/
def unreachableFlag (sc : Sc) (t : Tag) : Bool :=
  if stopsEnd sc.end_ then
    match t with
    | .empty => false
    | .fnDecl id => !sc.hoist.contains id
    | .varNoInit => false
    | _ => true
  else false

/-- the effect of `visit_expr` after its children -/
def exprEffect (k : EKind) (a : A) : A :=
  match a.sc.end_ with
  | none | some .cont =>
    (match k with
      | .ident id => { a with sc := { a.sc with hoist := id :: a.sc.hoist } }
      | .this => a
      | .other => { a with sc := { a.sc with mayThrow := true } })
  | _ => a

/-- a `throw` statement makes the enclosing `try` block able to throw (when the scope has not ended yet) -/
def throwEffect (a : A) : A :=
  match a.sc.end_ with
  | none | some .cont => { a with sc := { a.sc with mayThrow := true } }
  | _ => a

/-- `get_stmt_end_reason`: the end recorded under a statement's position, unless the statement is an expression or
declaration statement (`de`) -/
def stmtEnd (de : Bool) (info : Info) (bp : Nat) : Option End := if de then none else info.endAt bp

/-- the tail of `visit_while_stmt`'s closure, after the body has been visited (`de` = the body is an expression or
declaration statement) -/
def whileTail (testTrue de : Bool) (bp : Nat) (a : A) : A :=
  let er := stmtEnd de a.info bp
  let retOrThrow := isForcedEnd er
  let hasBreak := a.sc.foundBreak == some none
  if testTrue && retOrThrow && !hasBreak then
    match er with
    | some e => (markAsEnd bp e a).setEnd er
    | none => a                               -- `end_reason.unwrap()`: unreachable (retOrThrow ⇒ some)
  else if testTrue && !hasBreak then (markAsEnd bp forcedInf a).setEnd (some forcedInf)
  else (markAsEnd bp .cont a).setEnd (some .cont)

def doWhileTail (testTrue de : Bool) (bp : Nat) (a : A) : A :=
  let er := stmtEnd de a.info bp
  let retOrThrow := isForcedEnd er
  let infinite := testTrue && a.sc.foundBreak.isNone
  let hasBreak := a.sc.foundBreak == some none
  let hasContinue := a.sc.foundContinue
  if retOrThrow && !hasBreak && !hasContinue then
    match er with
    | some e => (markAsEnd bp e a).setEnd er
    | none => a
  else if infinite then (markAsEnd bp forcedInf a).setEnd (some forcedInf)
  else (markAsEnd bp .cont a).setEnd (some .cont)

/-- after the loop scope of a `do-while`: a forced end of the body is also recorded for the statement itself -/
def doWhileAfter (p bp : Nat) (a : A) : A :=
  match a.info.endAt bp with
  | some (.forced r t i) => markAsEnd p (.forced r t i) a
  | _ => a

/-- `for`: is the loop entered unconditionally and never left by an unlabelled `break` -/
def forEnters (hasTest testTrue : Bool) (a : A) : Bool := !(a.sc.foundBreak == some none) && (!hasTest || testTrue)

/-- the end such a `for` loop gets: the body's forced end, else "infinite loop" -/
def forEnd (de : Bool) (bp : Nat) (a : A) : End :=
  match stmtEnd de a.info bp with
  | some (.forced r t i) => .forced r t i
  | _ => forcedInf

/-- the tail of `visit_for_stmt`'s closure.  (In the code: `if !has_break { .. mark_as_end(n.start(), end); forced_end = Some(end) }`
then `if forced_end.is_none() || has_break { mark_as_end(body, Continue); end = Continue }` — the second block runs exactly
when the first did not.) -/
def forTail (p bp : Nat) (de hasTest testTrue : Bool) (a : A) : A :=
  if forEnters hasTest testTrue a then markAsEnd p (forEnd de bp a) a
  else (markAsEnd bp .cont a).setEnd (some .cont)

def forInOfTail (bp : Nat) (a : A) : A := (markAsEnd bp .cont a).setEnd (some .cont)

/-- the three-way decision at the end of `visit_if_stmt` with an `else` -/
def ifJoin (p : Nat) (cr ar : Option End) (a : A) : A :=
  match cr, ar with
  | some (.forced r1 t1 i1), some (.forced r2 t2 i2) => markAsEnd p (.forced (r1 || r2) (t1 || t2) (i1 || i2)) a
  | some .brk, some .brk => markAsEnd p .brk a
  | some (.forced ..), some .brk => markAsEnd p .brk a
  | some .brk, some (.forced ..) => markAsEnd p .brk a
  | _, _ => markAsEnd p .cont a

/-- the end a `switch` gets from its cases -/
def switchEnd (info : Info) : Cases → Bool × Option End
  | .nil => (false, some (.forced false false false))
  | .cons p isDefault _ _ r =>
    let (hd, acc) := switchEnd info r
    -- `try_fold` goes left to right; merging is commutative and associative and `None` is absorbing
    let acc' := match info.endAt p with
      | none => acc
      | some e => acc.bind fun x => x.mergeForced e
    (hd || isDefault, acc')

/-- `try`/`catch` merge after the handler has been visited -/
def tryCatchJoin (tryEnd : Option End) (tryMayThrow : Bool) (a : A) : A :=
  if tryMayThrow then
    match tryEnd, a.sc.end_ with
    | some (.forced false true false), _ => a
    | some (.forced r1 t1 i1), some (.forced r2 t2 i2) => a.setEnd (some (.forced (r1 || r2) (t1 || t2) (i1 || i2)))
    | _, some (.forced ..) => a.setEnd tryEnd
    | none, some .brk => a.setEnd tryEnd
    | some .cont, some .brk => a.setEnd tryEnd
    | _, _ => a
  else a.setEnd tryEnd

def finallyJoin (tryCatchEnd : Option End) (a : A) : A :=
  match tryCatchEnd, a.sc.end_ with
  | some (.forced r t i), some .brk => a.setEnd (some (.forced r t i))
  | some x, none => a.setEnd (some x)
  | some x, some .cont => a.setEnd (some x)
  | _, _ => a

/-- the tail of `visit_block_stmt`, after the statements have been visited -/
def blockTail (p : Nat) (a : A) : A := markAsEnd p (a.sc.end_.getD .cont) a

/-- the tail of `visit_stmt_or_block`: break/continue **may** make execution end -/
def sobTail (s : Stmt) (a : A) : A := if s.isBreakOrContinue then markAsEnd s.pos .brk a else a

/-- the tail of `visit_switch_case`, given the child's final scope -/
def caseTail (p : Nat) (prev : Option End) (r : A × Sc) : A :=
  let caseEnd : Option End :=
    if r.2.foundBreak.isSome then some .brk
    else if isForcedEnd r.2.end_ then r.2.end_ else none
  (markAsEnd p (caseEnd.getD .cont) r.1).setEnd prev

mutual
/-- `visit_stmt` (records `unreachable`, then dispatches) -/
def visitStmt : Stmt → A → A
  | .simple p t kids, a => visitKids kids { a with info := a.info.setUnreach p (unreachableFlag a.sc t) }
  | .block p body, a =>
    let a := { a with info := a.info.setUnreach p (unreachableFlag a.sc .other) }
    blockTail p (visitStmts body a)
  | .ifS p test c alt, a =>
    let a := { a with info := a.info.setUnreach p (unreachableFlag a.sc .other) }
    let a := visitKids test a
    let prev := a.sc.end_
    let a := withChild .ifK c.pos (fun x => sobTail c (visitStmt c x)) a
    let cr := stmtEnd c.isDeclOrExpr a.info c.pos
    match alt with
    | some al =>
      let a := withChild .ifK al.pos (fun x => sobTail al (visitStmt al x)) a
      let ar := stmtEnd al.isDeclOrExpr a.info al.pos
      ifJoin p cr ar a
    | none => (markAsEnd p .cont a).setEnd prev
  | .whileS p test tt body, a =>
    let a := { a with info := a.info.setUnreach p (unreachableFlag a.sc .other) }
    let a := withChild .loop body.pos (fun x => whileTail tt body.isDeclOrExpr body.pos (visitStmt body x)) a
    visitKids test a
  | .doWhileS p body test tt, a =>
    let a := { a with info := a.info.setUnreach p (unreachableFlag a.sc .other) }
    let a := withChild .loop body.pos (fun x => doWhileTail tt body.isDeclOrExpr body.pos (visitStmt body x)) a
    visitKids test (doWhileAfter p body.pos a)
  | .forS p init update test hasTest tt body, a =>
    let a := { a with info := a.info.setUnreach p (unreachableFlag a.sc .other) }
    let a := visitKids init a
    let a := visitKids update a
    let a := visitKids test a
    withChild .loop body.pos (fun x => forTail p body.pos body.isDeclOrExpr hasTest tt (visitStmt body x)) a
  | .forInOf p left right body, a =>
    let a := { a with info := a.info.setUnreach p (unreachableFlag a.sc .other) }
    let a := visitKids left a
    let a := visitKids right a
    withChild .loop body.pos (fun x => forInOfTail body.pos (visitStmt body x)) a
  | .switchS p disc cases, a =>
    let a := { a with info := a.info.setUnreach p (unreachableFlag a.sc .other) }
    let prev := a.sc.end_
    let a := visitKids disc a
    let a := visitCases cases a
    let (hasDefault, forcedEnd) := switchEnd a.info cases
    let e : End := match forcedEnd with
      | some e => if hasDefault then e else .cont
      | none => .cont
    let a := markAsEnd p e a
    if e.isForced then a else a.setEnd prev
  | .tryS p blockP block hasHandler catchP catchKids hasFin finP fin, a =>
    let a := { a with info := a.info.setUnreach p (unreachableFlag a.sc .other) }
    let oldThrow := a.sc.mayThrow
    let prev := a.sc.end_
    let a := { a with sc := { a.sc with mayThrow := false } }
    let a := blockTail blockP (visitStmts block a)
    let tryEnd := a.sc.end_
    let tryMayThrow := a.sc.mayThrow
    let a :=
      if hasHandler then
        let a := if tryMayThrow then a.setEnd prev else a
        let a := { a with sc := { a.sc with mayThrow := false } }
        let a := withChild .catch_ catchP (visitKids catchKids) a
        tryCatchJoin tryEnd tryMayThrow a
      else a
    let a :=
      if hasFin then
        let tce := a.sc.end_
        let a := a.setEnd prev
        let a := withChild .finally_ finP (fun x => blockTail finP (visitStmts fin x)) a
        finallyJoin tce a
      else a
    let a := match a.sc.end_ with
      | some e => markAsEnd p e a
      | none => a
    { a with sc := { a.sc with mayThrow := a.sc.mayThrow || oldThrow } }
  | .labeled p l body, a =>
    let a := { a with info := a.info.setUnreach p (unreachableFlag a.sc .other) }
    withChild (.label l) p (fun x => sobTail body (visitStmt body x)) a
  | .brk p l, a =>
    -- an unlabelled break found earlier is kept when a labelled one follows
    let fb := if l.isSome && a.sc.foundBreak == some none then a.sc.foundBreak else some l
    { sc := { a.sc with foundBreak := fb }, info := a.info.setUnreach p (unreachableFlag a.sc .other) }
  | .cont p _, a =>
    { sc := { a.sc with foundContinue := true }, info := a.info.setUnreach p (unreachableFlag a.sc .other) }
  | .ret p arg, a =>
    let a := visitKids arg { a with info := a.info.setUnreach p (unreachableFlag a.sc .other) }
    markAsEnd p forcedRet a
  | .throw p arg, a =>
    let a := visitKids arg { a with info := a.info.setUnreach p (unreachableFlag a.sc .other) }
    markAsEnd p forcedThrow (throwEffect a)
/-- `visit_stmts` (each statement through `visit_stmt_or_block`) -/
def visitStmts : Stmts → A → A
  | .nil, a => a
  | .cons s r, a => visitStmts r (sobTail s (visitStmt s a))
def visitKid : Kid → A → A
  | .expr k kids, a => exprEffect k (visitKids kids a)
  | .fnScope p kids, a => withChild .function p (visitKids kids) a
  | .block p body, a => blockTail p (visitStmts body a)
  | .stmt s, a => visitStmt s a
def visitKids : Kids → A → A
  | .nil, a => a
  | .cons k r, a => visitKids r (visitKid k a)
/-- `visit_switch_case` for every case, in order -/
def visitCases : Cases → A → A
  | .nil, a => a
  | .cons p _ test body r, a =>
    -- `prev_end` is read before the test is visited; visiting expressions never changes the scope's end
    visitCases r (caseTail p a.sc.end_ (withChildR .case p (visitStmts body) (visitKids test a)))
end

/-- `visit_stmt_or_block` -/
def visitStmtOrBlock (s : Stmt) (a : A) : A := sobTail s (visitStmt s a)
/-- `visit_block_stmt` -/
def visitBlock (p : Nat) (body : Stmts) (a : A) : A := blockTail p (visitStmts body a)

/-- a program: module items are visited with plain `visit_stmt`; a script body goes through `visit_stmts` -/
inductive Item
  | stmt (s : Stmt)
  | decl (kids : Kids)       -- a `ModuleDecl` (import/export …): default traversal

structure Program where
  isModule : Bool
  items : List Item

def analyze (prog : Program) : Info :=
  let a0 : A := { sc := {}, info := Info.empty }
  (prog.items.foldl (fun a it =>
    match it with
    | .stmt s => if prog.isModule then visitStmt s a else visitStmtOrBlock s a
    | .decl kids => visitKids kids a) a0).info

end DL.CF
