/-!
# M-SEL — rule selection (`src/rules.rs:170-248`, `src/linter.rs:49-54`)
A rule is abstracted to `(code, tags, priority)`; `Gen/RuleTable.lean` is the dump of the real registry.
-/
namespace DL.Sel

structure Rule where
  code : String
  tags : List String
  priority : Nat
  deriving DecidableEq, Repr

/-- the closure passed to `filter` in `filtered_rules` -/
def passes (tags excl incl : Option (List String)) (r : Rule) : Bool :=
  let p0 := match tags with
    | some ts => r.tags.any fun t => ts.contains t
    | none => true
  let p1 := match incl with
    | some is => if is.contains r.code then p0 || true else p0
    | none => p0
  match excl with
  | some xs => if xs.contains r.code then p1 && false else p1
  | none => p1

def codeLe (a b : Rule) : Bool := decide (a.code ≤ b.code)

/-- `filtered_rules` (`sort_by_key(code)` is a stable sort) -/
def filtered (all : List Rule) (tags excl incl : Option (List String)) : List Rule :=
  (all.filter (passes tags excl incl)).mergeSort codeLe

/-- `recommended_rules` -/
def recommended (all : List Rule) : List Rule := all.filter fun r => r.tags.contains "recommended"

/-- comparator of `sort_rules_by_priority` -/
def prioLe (a b : Rule) : Bool :=
  a.priority < b.priority || (a.priority == b.priority && decide (a.code ≤ b.code))

def sortByPriority (rs : List Rule) : List Rule := rs.mergeSort prioLe

end DL.Sel
