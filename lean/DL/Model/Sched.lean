/-!
# M-SCHED — dlint's collection of per-file results (`examples/dlint/main.rs:118-175`)

Workers run in any order (rayon); each finishes with one critical section: `error_counts.fetch_add(n)` and
`file_diagnostics.lock().insert(path, diags)` (a `BTreeMap` keyed by path).  A *schedule* is the order in which the
workers' critical sections happen: any permutation of the file list.  Afterwards the map is printed in key order, then
the count, and the exit status is 1 iff the count is non-zero.
-/
namespace DL.Sched

structure FileResult where
  path : String
  lint : List String        -- rendered lint diagnostics of the file, in the linter's order
  parse : List String       -- rendered recoverable parse diagnostics
  deriving DecidableEq, Repr

structure St where
  map : List (String × FileResult)    -- `BTreeMap<path, _>`: kept sorted by key, keys distinct
  count : Nat
  deriving Repr

/-- `BTreeMap::insert` -/
def mapInsert (k : String) (v : FileResult) : List (String × FileResult) → List (String × FileResult)
  | [] => [(k, v)]
  | (k', v') :: r =>
    if k < k' then (k, v) :: (k', v') :: r
    else if k = k' then (k, v) :: r
    else (k', v') :: mapInsert k v r

/-- one worker's critical section -/
def step (s : St) (f : FileResult) : St :=
  { map := mapInsert f.path f s.map, count := s.count + (f.lint.length + f.parse.length) }

def run (schedule : List FileResult) : St := schedule.foldl step { map := [], count := 0 }

/-- what is printed after the parallel phase: every file's parse and lint diagnostics in key order, then the count -/
def report (s : St) : List String :=
  s.map.flatMap (fun kv => kv.2.parse ++ kv.2.lint) ++
    (if s.count > 0 then [s!"Found {s.count} problem{if s.count == 1 then "" else "s"}"] else [])

def exitStatus (s : St) : Nat := if s.count > 0 then 1 else 0

end DL.Sched
