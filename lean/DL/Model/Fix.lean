/-!
# M-FIX — applying the text changes of a quick fix (`LintFix.changes`, `diagnostic.rs:17-27`)

`applyFix` is what every consumer of `LintFixChange` does (deno's `--fix`, the LSP, and this repository's own
correspondence harness): splice the replacement texts into the source at their byte ranges.
-/
namespace DL.Fix

structure Change (α : Type) where
  start : Nat
  stop : Nat
  newText : List α

/-- left-to-right splice of changes sorted by start -/
def applyFrom {α : Type} (text : List α) (cursor : Nat) : List (Change α) → List α
  | [] => text.drop cursor
  | c :: r => (text.drop cursor).take (c.start - cursor) ++ c.newText ++ applyFrom text c.stop r

def applyFix {α : Type} (text : List α) (changes : List (Change α)) : List α := applyFrom text 0 changes

/-- a single replacement -/
def applyOne {α : Type} (c : Change α) (t : List α) : List α := t.take c.start ++ c.newText ++ t.drop c.stop

/-- sorted, non-overlapping, in bounds (relative to a cursor) -/
def WF {α : Type} (len : Nat) : Nat → List (Change α) → Prop
  | cursor, [] => cursor ≤ len
  | cursor, c :: r => cursor ≤ c.start ∧ c.start ≤ c.stop ∧ c.stop ≤ len ∧ WF len c.stop r

end DL.Fix
