import Lean.Data.Json
import DL.Model.ImportFix
import DL.Lemmas.ImpWheres

/-! JSON front end of M-IMP for `dlmodel` (not part of any theorem). -/
open Lean (Json)

namespace DL.Imp

def itemOfJson (j : Json) : Except String Item := do
  let a ← j.getArr?
  match ← (a[0]!).getStr? with
  | "r" => pure (.ref (← (a[1]!).getNat?))
  | "i" => pure (.imp (← (a[1]!).getBool?))
  | s => throw s!"item kind {s}"

def lineOfJson (j : Json) : Except String Line := do
  let a ← j.getArr?
  let items ← (← (a[2]!).getArr?).toList.mapM itemOfJson
  pure ⟨← (a[0]!).getBool?, ← (a[1]!).getBool?, items⟩

def pairsJson (l : List (Nat × Name)) : Json := Json.arr (l.map (fun d => Json.arr #[(d.1 : Json), (d.2 : Json)])).toArray

def whereJson : Where → Json
  | .newLineAt k => Json.arr #["n", (k : Json)]
  | .sameLine => Json.arr #["s"]

/-- reports, the place of every offered import, and — for every report that is kept — the reports after its fix -/
def runImp (j : Json) : Except String Json := do
  let first ← (← j.getObjVal? "first").getNat?
  let f ← (← (← j.getObjVal? "lines").getArr?).toList.mapM lineOfJson
  let r := raw f
  let ws := wheres f first
  let k := kept f
  let after := (r.zip ws).map fun (d, w) =>
    if k.contains d then pairsJson (kept (applyFix f d.2 w)) else Json.null
  -- `wf`: the hypothesis `WF` of `wheres_safe` / `real_fix_strictly_fewer`, decided on this abstraction of a real file
  -- (`WF_of_wfB`): the implementation side always answers `true`, so a real file outside the theorems' domain is a mismatch
  pure (Json.mkObj [("wf", Json.bool (wfB f first)), ("raw", pairsJson r), ("kept", pairsJson k), ("wheres", Json.arr (ws.map whereJson).toArray),
    ("after", Json.arr after.toArray)])

end DL.Imp
