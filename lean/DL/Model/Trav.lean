/-!
# M-TRAV — the two traversal engines rules are written against

* `Handler`/`Traverse` (`src/handler.rs:535-734`, `src/context.rs:202-212,513-535`): depth-first traversal that calls a
  handler on every node and skips the children when the handler requested it through the one-shot stop flag
  (`stop_traverse` / `should_stop_traverse`, which resets the flag); `assert_traverse_init` panics when the flag is
  still set on entering a node.
* swc `Visit` (`impl Visit for XVisitor` in src/rules): default methods recurse into all children; an override runs the
  rule's code and recurses only if it says so.  A visitor is abstracted to its *override table*.
Trees are rose trees with a node kind and a unique id.
-/
namespace DL.Trav

mutual
inductive Node where
  | mk (kind : Nat) (id : Nat) (children : Nodes)
inductive Nodes where
  | nil
  | cons (n : Node) (r : Nodes)
end

def Node.kind : Node → Nat | .mk k _ _ => k
def Node.id : Node → Nat | .mk _ i _ => i
def Node.children : Node → Nodes | .mk _ _ c => c

mutual
/-- all node ids, pre-order -/
def Node.preorder : Node → List Nat
  | .mk _ i cs => i :: cs.preorder
def Nodes.preorder : Nodes → List Nat
  | .nil => []
  | .cons n r => n.preorder ++ r.preorder
end

/-! ## swc `Visit` with an override table -/
/-- what an override of `visit_<kind>` does with the children of the node -/
inductive Override
  | recurse        -- default method, or an override that always calls `visit_children_with`
  | skip           -- an override that never recurses
  deriving DecidableEq, Repr

abbrev Table := Nat → Override

mutual
/-- ids of the nodes on which the visitor's code for their kind runs -/
def Node.visited (t : Table) : Node → List Nat
  | .mk k i cs => i :: (match t k with
      | .recurse => cs.visited t
      | .skip => [])
def Nodes.visited (t : Table) : Nodes → List Nat
  | .nil => []
  | .cons n r => n.visited t ++ r.visited t
end

/-- a rule: what it reports when its code runs on a node (a function of that node, i.e. of its whole subtree) -/
abbrev Rule (D : Type) := Node → List D

mutual
def Node.diags {D : Type} (t : Table) (rule : Rule D) : Node → List D
  | .mk k i cs => rule (.mk k i cs) ++ (match t k with
      | .recurse => cs.diags t rule
      | .skip => [])
def Nodes.diags {D : Type} (t : Table) (rule : Rule D) : Nodes → List D
  | .nil => []
  | .cons n r => n.diags t rule ++ r.diags t rule
end

/-- one-hole contexts -/
inductive Ctx where
  | hole
  | node (kind : Nat) (id : Nat) (left : Nodes) (inner : Ctx) (right : Nodes)

def Nodes.append : Nodes → Nodes → Nodes
  | .nil, r => r
  | .cons n l, r => .cons n (l.append r)

def Ctx.plug : Ctx → Node → Node
  | .hole, e => e
  | .node k i l c r, e => .mk k i (l.append (.cons (c.plug e) r))

/-- kinds on the path from the root of the context to the hole -/
def Ctx.pathKinds : Ctx → List Nat
  | .hole => []
  | .node k _ _ c _ => k :: c.pathKinds

/-! ## `Handler` / `Traverse` with the one-shot stop flag -/
structure Handler where
  /-- does `on_enter_node` / the kind-specific handler call `ctx.stop_traverse()` on this node -/
  stopOnEnter : Nat → Nat → Bool
  /-- does `on_exit_node` call it -/
  stopOnExit : Nat → Nat → Bool

structure TSt where
  flag : Bool := false        -- `TraverseFlow.stop_traverse`
  panicked : Bool := false    -- `assert!(!self.stop_traverse)` failed
  handled : List Nat := []    -- ids on which the handlers ran, in order

mutual
/-- `Traverse::traverse` -/
def Node.traverse (h : Handler) : Node → TSt → TSt
  | .mk k i cs, s =>
    if s.panicked then s else
    if s.flag then { s with panicked := true } else            -- `ctx.assert_traverse_init()`
    let s1 : TSt := { s with handled := s.handled ++ [i], flag := h.stopOnEnter k i }
    -- `if !ctx.should_stop_traverse() { children }` — reading the flag resets it
    let s2 : TSt := if s1.flag then { s1 with flag := false } else cs.traverse h { s1 with flag := false }
    if s2.panicked then s2 else { s2 with flag := s2.flag || h.stopOnExit k i }   -- `on_exit_node`
def Nodes.traverse (h : Handler) : Nodes → TSt → TSt
  | .nil, s => s
  | .cons n r, s => r.traverse h (n.traverse h s)
end

end DL.Trav
