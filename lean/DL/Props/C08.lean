import DL.Model.Trav
import DL.Gen.VisitTable
import DL.Gen.StopCalls

/-!
# C08 — syntactic rules report every occurrence exactly once, at any nesting (the traversal mechanism)

For **all** trees, contexts (any depth) and override tables.
-/
namespace DL.Props.C08
open DL.Trav

/-! ## swc `Visit` -/
mutual
/-- with no skipping override every node is visited exactly once, in pre-order -/
theorem visited_all (t : Table) (ht : ∀ k, t k = .recurse) : ∀ n : Node, n.visited t = n.preorder
  | .mk k i cs => by simp [Node.visited, Node.preorder, ht k, visiteds_all t ht cs]
theorem visiteds_all (t : Table) (ht : ∀ k, t k = .recurse) : ∀ ns : Nodes, ns.visited t = ns.preorder
  | .nil => rfl
  | .cons n r => by simp [Nodes.visited, Nodes.preorder, visited_all t ht n, visiteds_all t ht r]
end

theorem diags_append (D : Type) (t : Table) (rule : Rule D) : ∀ (l r : Nodes),
    (l.append r).diags t rule = l.diags t rule ++ r.diags t rule
  | .nil, r => rfl
  | .cons n l, r => by simp [Nodes.append, Nodes.diags, diags_append D t rule l r, List.append_assoc]

/-- **embedding invariance**: if no kind on the path from the root to the hole has a skipping override, and the rule's
verdict on the context nodes does not depend on what sits in the hole (the context is syntactically neutral for the
rule), then embedding a construct `e` neither hides its diagnostics nor creates new ones: the diagnostics of
`ctx[e]` are those of `ctx[neutral]` with the diagnostics of `e` in place of those of `neutral` -/
theorem embedding_invariance {D : Type} (t : Table) (rule : Rule D) (e neutral : Node) :
    ∀ (c : Ctx), (∀ k ∈ c.pathKinds, t k = .recurse) →
      (∀ c' : Ctx, rule (c'.plug e) = rule (c'.plug neutral) ∨ c' = .hole) →
      ∃ pre post, (c.plug e).diags t rule = pre ++ e.diags t rule ++ post ∧
                  (c.plug neutral).diags t rule = pre ++ neutral.diags t rule ++ post
  | .hole, _, _ => ⟨[], [], by simp [Ctx.plug], by simp [Ctx.plug]⟩
  | .node k i l c r, hp, hn => by
    have hk : t k = .recurse := hp k (by simp [Ctx.pathKinds])
    obtain ⟨pre, post, h1, h2⟩ := embedding_invariance t rule e neutral c
      (fun k' hk' => hp k' (by simp [Ctx.pathKinds, hk'])) hn
    have hr : rule ((Ctx.node k i l c r).plug e) = rule ((Ctx.node k i l c r).plug neutral) := by
      rcases hn (.node k i l c r) with h | h
      · exact h
      · cases h
    refine ⟨rule ((Ctx.node k i l c r).plug neutral) ++ l.diags t rule ++ pre, post ++ r.diags t rule, ?_, ?_⟩
    · rw [← hr]
      simp only [Ctx.plug, Node.diags, hk, diags_append, Nodes.diags, h1, List.append_assoc]
    · simp only [Ctx.plug, Node.diags, hk, diags_append, Nodes.diags, h2, List.append_assoc]

/-- conversely a skipping override on the path hides everything below it -/
theorem skipped_hides {D : Type} (t : Table) (rule : Rule D) (k i : Nat) (cs : Nodes) (h : t k = .skip) :
    (Node.mk k i cs).diags t rule = rule (.mk k i cs) := by
  simp [Node.diags, h]

/-! ## `Handler` / `Traverse` -/
mutual
/-- a handler that requests a stop only while entering a node (never in `on_exit_node`) can never trip
`assert_traverse_init`, and leaves the flag clear — for every tree -/
theorem traverse_ok (h : Handler) (hx : ∀ k i, h.stopOnExit k i = false) :
    ∀ (n : Node) (s : TSt), s.flag = false → s.panicked = false →
      (n.traverse h s).flag = false ∧ (n.traverse h s).panicked = false
  | .mk k i cs, s, hf, hp => by
    simp only [Node.traverse, hp, hf, Bool.false_eq_true, if_false]
    by_cases he : h.stopOnEnter k i = true
    · simp [he, hx, hp]
    · simp only [he, Bool.false_eq_true, if_false]
      have := traverses_ok h hx cs { s with handled := s.handled ++ [i], flag := false } rfl hp
      rw [hp] at this
      simp [this.1, this.2, hx]
theorem traverses_ok (h : Handler) (hx : ∀ k i, h.stopOnExit k i = false) :
    ∀ (ns : Nodes) (s : TSt), s.flag = false → s.panicked = false →
      (ns.traverse h s).flag = false ∧ (ns.traverse h s).panicked = false
  | .nil, s, hf, hp => ⟨hf, hp⟩
  | .cons n r, s, hf, hp => by
    have h1 := traverse_ok h hx n s hf hp
    exact traverses_ok h hx r (n.traverse h s) h1.1 h1.2
end

/-- …hence any sequence of rules sharing one `Context` (one flag) never panics on the flag -/
theorem rules_sequence_ok (hs : List Handler) (hx : ∀ h ∈ hs, ∀ k i, h.stopOnExit k i = false) (n : Node) :
    let final := hs.foldl (fun s h => n.traverse h s) {}
    final.flag = false ∧ final.panicked = false := by
  suffices ∀ (s : TSt), s.flag = false → s.panicked = false →
      (hs.foldl (fun s h => n.traverse h s) s).flag = false ∧ (hs.foldl (fun s h => n.traverse h s) s).panicked = false from
    this {} rfl rfl
  induction hs with
  | nil => intro s hf hp; exact ⟨hf, hp⟩
  | cons h r ih =>
    intro s hf hp
    have h1 := traverse_ok h (hx h (by simp)) n s hf hp
    exact ih (fun h' hh => hx h' (by simp [hh])) _ h1.1 h1.2

/-- a handler that requests a stop in `on_exit_node` does trip the assertion on the next node (why the premise matters) -/
example : ((Nodes.cons (.mk 0 0 .nil) (.cons (.mk 0 1 .nil) .nil)).traverse
    { stopOnEnter := fun _ _ => false, stopOnExit := fun _ _ => true } {}).panicked = true := by decide

/-! ## the real visitors (tables regenerated from /repo by syn on every run) -/
open DL.Gen

/-- no rule calls `stop_traverse` from `on_exit_node` (or `on_enter_node`): every call site is a kind-specific handler -/
theorem stop_calls_only_in_kind_handlers :
    ∀ c ∈ stopTraverseCalls, c.2 ≠ "on_exit_node" ∧ c.2 ≠ "on_enter_node" := by decide

/-- the reviewed list of overrides that do not recurse on every path (leaf-like nodes, visitors that drive their own
traversal such as the control-flow analyzer and the scope-tracking rules).  Every other override always recurses.  A
change to any visitor that makes a path skip its children changes the regenerated table and breaks this `decide`. -/
def reviewedNotAlways : List (String × String × String × String) := [
  ("src/control_flow/mod.rs", "Analyzer", "visit_break_stmt", "never"),
  ("src/control_flow/mod.rs", "Analyzer", "visit_continue_stmt", "never"),
  ("src/control_flow/mod.rs", "Analyzer", "visit_stmts", "sometimes"),
  ("src/control_flow/mod.rs", "Analyzer", "visit_member_expr", "sometimes"),
  ("src/control_flow/mod.rs", "Analyzer", "visit_switch_case", "sometimes"),
  ("src/control_flow/mod.rs", "Analyzer", "visit_if_stmt", "sometimes"),
  ("src/control_flow/mod.rs", "Analyzer", "visit_for_stmt", "sometimes"),
  ("src/control_flow/mod.rs", "Analyzer", "visit_for_of_stmt", "sometimes"),
  ("src/control_flow/mod.rs", "Analyzer", "visit_for_in_stmt", "sometimes"),
  ("src/control_flow/mod.rs", "Analyzer", "visit_while_stmt", "sometimes"),
  ("src/control_flow/mod.rs", "Analyzer", "visit_do_while_stmt", "sometimes"),
  ("src/control_flow/mod.rs", "Analyzer", "visit_try_stmt", "sometimes"),
  ("src/control_flow/mod.rs", "Analyzer", "visit_labeled_stmt", "sometimes"),
  ("src/rules/no_fallthrough.rs", "NoFallthroughVisitor", "visit_switch_cases", "sometimes"),
  ("src/rules/no_import_assign.rs", "NoImportAssignVisitor", "visit_pat", "sometimes"),
  ("src/rules/no_import_assign.rs", "NoImportAssignVisitor", "visit_rest_pat", "sometimes"),
  ("src/rules/no_import_assign.rs", "NoImportAssignVisitor", "visit_assign_expr", "sometimes"),
  ("src/rules/no_import_assign.rs", "NoImportAssignVisitor", "visit_update_expr", "never"),
  ("src/rules/no_import_assign.rs", "NoImportAssignVisitor", "visit_unary_expr", "sometimes"),
  ("src/rules/no_inferrable_types.rs", "NoInferrableTypesVisitor", "visit_class_prop", "sometimes"),
  ("src/rules/no_inferrable_types.rs", "NoInferrableTypesVisitor", "visit_private_prop", "sometimes"),
  ("src/rules/no_invalid_regexp.rs", "NoInvalidRegexpVisitor", "visit_regex", "never"),
  ("src/rules/no_redeclare.rs", "NoRedeclareVisitor", "visit_fn_decl", "sometimes"),
  ("src/rules/no_redeclare.rs", "NoRedeclareVisitor", "visit_class_prop", "sometimes"),
  ("src/rules/no_undef.rs", "NoUndefVisitor", "visit_member_expr", "sometimes"),
  ("src/rules/no_undef.rs", "NoUndefVisitor", "visit_unary_expr", "sometimes"),
  ("src/rules/no_undef.rs", "NoUndefVisitor", "visit_class_prop", "sometimes"),
  ("src/rules/no_undef.rs", "NoUndefVisitor", "visit_pat", "sometimes"),
  ("src/rules/no_undef.rs", "NoUndefVisitor", "visit_simple_assign_target", "sometimes"),
  ("src/rules/no_undef.rs", "NoUndefVisitor", "visit_assign_pat_prop", "sometimes"),
  ("src/rules/no_undef.rs", "NoUndefVisitor", "visit_call_expr", "sometimes"),
  ("src/rules/no_unused_vars.rs", "Collector", "visit_class_prop", "sometimes"),
  ("src/rules/no_unused_vars.rs", "Collector", "visit_ts_property_signature", "sometimes"),
  ("src/rules/no_unused_vars.rs", "Collector", "visit_ts_type_ref", "sometimes"),
  ("src/rules/no_unused_vars.rs", "Collector", "visit_prop", "sometimes"),
  ("src/rules/no_unused_vars.rs", "Collector", "visit_prop_name", "sometimes"),
  ("src/rules/no_unused_vars.rs", "Collector", "visit_expr", "sometimes"),
  ("src/rules/no_unused_vars.rs", "Collector", "visit_jsx_element_name", "sometimes"),
  ("src/rules/no_unused_vars.rs", "Collector", "visit_jsx_object", "sometimes"),
  ("src/rules/no_unused_vars.rs", "Collector", "visit_simple_assign_target", "sometimes"),
  ("src/rules/no_unused_vars.rs", "Collector", "visit_assign_expr", "sometimes"),
  ("src/rules/no_unused_vars.rs", "Collector", "visit_pat", "sometimes"),
  ("src/rules/no_unused_vars.rs", "Collector", "visit_member_expr", "sometimes"),
  ("src/rules/no_unused_vars.rs", "Collector", "visit_export_named_specifier", "never"),
  ("src/rules/no_unused_vars.rs", "Collector", "visit_fn_decl", "sometimes"),
  ("src/rules/no_unused_vars.rs", "Collector", "visit_fn_expr", "sometimes"),
  ("src/rules/no_unused_vars.rs", "Collector", "visit_class_decl", "sometimes"),
  ("src/rules/no_unused_vars.rs", "Collector", "visit_ts_interface_decl", "sometimes"),
  ("src/rules/no_unused_vars.rs", "Collector", "visit_ts_type_alias_decl", "sometimes"),
  ("src/rules/no_unused_vars.rs", "Collector", "visit_ts_enum_decl", "sometimes"),
  ("src/rules/no_unused_vars.rs", "Collector", "visit_var_declarator", "sometimes"),
  ("src/rules/no_unused_vars.rs", "Collector", "visit_ts_import_equals_decl", "never"),
  ("src/rules/no_unused_vars.rs", "NoUnusedVarVisitor", "visit_arrow_expr", "sometimes"),
  ("src/rules/no_unused_vars.rs", "NoUnusedVarVisitor", "visit_fn_decl", "sometimes"),
  ("src/rules/no_unused_vars.rs", "NoUnusedVarVisitor", "visit_var_decl", "sometimes"),
  ("src/rules/no_unused_vars.rs", "NoUnusedVarVisitor", "visit_var_declarator", "sometimes"),
  ("src/rules/no_unused_vars.rs", "NoUnusedVarVisitor", "visit_class_decl", "sometimes"),
  ("src/rules/no_unused_vars.rs", "NoUnusedVarVisitor", "visit_catch_clause", "sometimes"),
  ("src/rules/no_unused_vars.rs", "NoUnusedVarVisitor", "visit_setter_prop", "sometimes"),
  ("src/rules/no_unused_vars.rs", "NoUnusedVarVisitor", "visit_constructor", "sometimes"),
  ("src/rules/no_unused_vars.rs", "NoUnusedVarVisitor", "visit_class_method", "sometimes"),
  ("src/rules/no_unused_vars.rs", "NoUnusedVarVisitor", "visit_private_method", "sometimes"),
  ("src/rules/no_unused_vars.rs", "NoUnusedVarVisitor", "visit_import_named_specifier", "never"),
  ("src/rules/no_unused_vars.rs", "NoUnusedVarVisitor", "visit_import_default_specifier", "never"),
  ("src/rules/no_unused_vars.rs", "NoUnusedVarVisitor", "visit_import_star_as_specifier", "never"),
  ("src/rules/no_unused_vars.rs", "NoUnusedVarVisitor", "visit_ts_import_equals_decl", "never"),
  ("src/rules/no_unused_vars.rs", "NoUnusedVarVisitor", "visit_export_decl", "sometimes"),
  ("src/rules/no_unused_vars.rs", "NoUnusedVarVisitor", "visit_export_default_decl", "sometimes"),
  ("src/rules/no_unused_vars.rs", "NoUnusedVarVisitor", "visit_params", "sometimes"),
  ("src/rules/no_unused_vars.rs", "NoUnusedVarVisitor", "visit_ts_enum_decl", "never"),
  ("src/rules/no_unused_vars.rs", "NoUnusedVarVisitor", "visit_ts_module_decl", "sometimes"),
  ("src/rules/no_unused_vars.rs", "NoUnusedVarVisitor", "visit_ts_namespace_decl", "sometimes"),
  ("src/rules/no_unused_vars.rs", "NoUnusedVarVisitor", "visit_named_export", "never"),
  ("src/rules/prefer_const.rs", "VariableCollector", "visit_function", "sometimes"),
  ("src/rules/prefer_const.rs", "VariableCollector", "visit_arrow_expr", "sometimes"),
  ("src/rules/prefer_const.rs", "VariableCollector", "visit_for_stmt", "sometimes"),
  ("src/rules/prefer_const.rs", "VariableCollector", "visit_class", "sometimes"),
  ("src/rules/prefer_const.rs", "VariableCollector", "visit_constructor", "sometimes"),
  ("src/rules/prefer_const.rs", "PreferConstVisitor", "visit_expr_stmt", "sometimes"),
  ("src/rules/prefer_const.rs", "PreferConstVisitor", "visit_update_expr", "sometimes"),
  ("src/rules/prefer_const.rs", "PreferConstVisitor", "visit_function", "sometimes"),
  ("src/rules/prefer_const.rs", "PreferConstVisitor", "visit_arrow_expr", "sometimes"),
  ("src/rules/prefer_const.rs", "PreferConstVisitor", "visit_class", "sometimes"),
  ("src/rules/prefer_const.rs", "PreferConstVisitor", "visit_constructor", "sometimes"),
  ("src/rules/verbatim_module_syntax.rs", "IdCollector", "visit_ident", "never"),
  ("src/rules/verbatim_module_syntax.rs", "IdCollector", "visit_binding_ident", "never"),
  ("src/rules/verbatim_module_syntax.rs", "IdCollector", "visit_import_decl", "sometimes"),
  ("src/rules/verbatim_module_syntax.rs", "IdCollector", "visit_import_specifier", "never"),
  ("src/rules/verbatim_module_syntax.rs", "IdCollector", "visit_ts_import_equals_decl", "sometimes"),
  ("src/rules/verbatim_module_syntax.rs", "IdCollector", "visit_export_named_specifier", "never"),
  ("src/rules/verbatim_module_syntax.rs", "IdCollector", "visit_named_export", "sometimes"),
  ("src/rules/verbatim_module_syntax.rs", "IdCollector", "visit_jsx_element_name", "sometimes")
]

theorem visit_overrides_as_reviewed : visitNotAlways = reviewedNotAlways := by decide +kernel

end DL.Props.C08
