import DL.Lemmas.RxBScanG
import DL.Props.C12Spec
import DL.Props.C12Fuel

/-!
# C12 (continued): the validator without the `u` flag is sound w.r.t. ES2022 + Annex B.1.2

`DL/Model/RegexSpecB.lean` is the pattern grammar for `[~UnicodeMode]` with the replacements of Annex B.1.2, over the
UTF-16 code units of the pattern, with the parameter `[NamedCaptureGroups]` (`nf`) and *ParsePattern*'s two passes.
B.1.2 makes the grammar ambiguous and resolves it by ordered choice ("each alternative is considered only if previous
production alternatives do not match"); the grammar carries the corresponding side conditions (marked
"ordered choice" there; regression of that correction: `C12SpecBGap`).

**Proved**: if `validate_pattern(source, u_flag = false)` returns `Ok`, the pattern is valid according to that grammar
(`ValidPatternWith qokModel`: the `[~N]` parse exists, and the `[+N]` parse too if the pattern has a named group),
with `{lo,hi}` compared after saturation at `i64::MAX` as in Unicode mode.
The converse (completeness without the `u` flag) is `C12CompleteB`.
-/
namespace DL.Props.C12
open DL.Rx DL.RxSpec

theorem DerivesB.mono {nf : Bool} {q q' : Nat → Nat → Prop} (hq : ∀ lo hi, q lo hi → q' lo hi) {N : Nat}
    {sym : RxSpecB.Sym} {i r : Str} {a : Attr} (h : RxSpecB.Derives nf q N sym i r a) : RxSpecB.Derives nf q' N sym i r a := by
  induction h with
  | disjOne i r a _ ih => exact .disjOne i r a ih
  | disjMore i m r a₁ a₂ _ _ ih1 ih2 => exact .disjMore i m r a₁ a₂ ih1 ih2
  | altEmpty r => exact .altEmpty r
  | altSnoc i m r a₁ a₂ _ _ ih1 ih2 => exact .altSnoc i m r a₁ a₂ ih1 ih2
  | termQAssertionQuantified i m r a _ hqq ih => exact .termQAssertionQuantified i m r a ih (Quantifier.mono hq hqq)
  | termAssertion i r a _ ih => exact .termAssertion i r a ih
  | termAtomQuantified i m r a _ hqq hw ih => exact .termAtomQuantified i m r a ih (Quantifier.mono hq hqq) hw
  | termAtom i r a _ hw ih => exact .termAtom i r a ih hw
  | caret r => exact .caret r
  | dollar r => exact .dollar r
  | wordBoundary r => exact .wordBoundary r
  | notWordBoundary r => exact .notWordBoundary r
  | quantifiable i r a _ ih => exact .quantifiable i r a ih
  | lookbehind i m r a hl _ ih => exact .lookbehind i m r a hl ih
  | negativeLookbehind i m r a hl _ ih => exact .negativeLookbehind i m r a hl ih
  | lookahead i m r a hl _ ih => exact .lookahead i m r a hl ih
  | negativeLookahead i m r a hl _ ih => exact .negativeLookahead i m r a hl ih
  | dot r => exact .dot r
  | atomEscape m r a h => exact .atomEscape m r a h
  | backslashC r h => exact .backslashC r h
  | characterClass i r h => exact .characterClass i r h
  | group m₁ m₂ r name a hg _ ih => exact .group m₁ m₂ r name a hg ih
  | nonCapturing i m r a hl _ ih => exact .nonCapturing i m r a hl ih
  | extendedPatternCharacter x r hx hno => exact .extendedPatternCharacter x r hx hno

theorem parsesWith_of_scan {nf : Bool} {txt : List Nat} {a : Attr}
    (hd : RxSpecB.Derives nf qokSat (scan txt false false 0) .Disjunction txt [] a)
    (hnd : (groupNames a.groups).Nodup) (hrefs : ∀ x ∈ a.refs, x ∈ groupNames a.groups) :
    RxSpecB.ParsesWith nf qokModel txt a := by
  have hcount := derives_scanB hd 0
  rw [Nat.zero_add] at hcount
  have hN : scan txt false false 0 = a.groups.length := hcount
  rw [hN] at hd
  exact ⟨DerivesB.mono (fun lo hi h => (qokSat_iff lo hi).mp h) hd, hnd, hrefs⟩

/-- **soundness of the validator without the `u` flag** -/
theorem validatePattern_sound_nonU (fuel : Nat) (source : List Nat) (st s' : St)
    (hsrc : ∀ x ∈ source, x < 0x110000) (hlen : source.length < 2 ^ 61)
    (h : validatePattern fuel source false st = .ok () s') : RxSpecB.ValidPatternWith qokModel source := by
  have hunits : ∀ u ∈ encodeUtf16 source, u ≤ 0xFFFF := fun u hu => by
    have := encodeUtf16_units source hsrc u hu; omega
  have hl : (encodeUtf16 source).length < 2 ^ 62 := by
    have := encodeUtf16_length_le source; omega
  obtain ⟨a₀, hd0, hnd0, hrefs0, hN⟩ := validatePattern_soundB_scan fuel source st s' hunits hl h
  refine ⟨a₀, parsesWith_of_scan hd0 hnd0 hrefs0, fun hne => ?_⟩
  obtain ⟨a₁, hd1, hnd1, hrefs1⟩ := hN hne
  exact ⟨a₁, parsesWith_of_scan hd1 hnd1 hrefs1⟩

/-- the rule: a regular expression literal without the `u` flag that is NOT reported has a valid pattern -/
theorem checkRegex_nonU_sound (fuel : Nat) (pattern flags : List Nat) (st s' : St)
    (hu : flags.contains (ch 'u') = false) (hsrc : ∀ x ∈ pattern, x < 0x110000) (hlen : pattern.length < 2 ^ 61)
    (h : checkRegex fuel pattern flags st = .ok false s') : RxSpecB.ValidPatternWith qokModel pattern := by
  have key : checkRegex fuel pattern flags st =
      (if checkForInvalidFlags flags = true then (pure true : M Bool) else
        checkForInvalidPattern fuel pattern (flags.contains (ch 'u'))) st := rfl
  rw [key] at h
  by_cases hf : checkForInvalidFlags flags = true
  · rw [if_pos hf] at h; cases h
  · rw [if_neg hf, hu] at h
    unfold checkForInvalidPattern at h
    cases hv : validatePattern fuel pattern false st with
    | ok u s1 =>
      cases u
      exact validatePattern_sound_nonU fuel pattern st s1 hsrc hlen hv
    | err _ _ => rw [hv] at h; cases h
    | panic _ _ => rw [hv] at h; cases h
    | outOfFuel _ => rw [hv] at h; cases h

#print axioms validatePattern_sound_nonU
#print axioms checkRegex_nonU_sound

/-! ### cross-checks of the Annex B grammar against the model (verdict `true` = reported), no flags -/
-- DecimalEscape only if ≤ NcapturingParens, otherwise a legacy octal / identity escape
example : verdict (chars! "\\1") [] = some false := by decide +kernel
example : verdict (chars! "\\8") [] = some false := by decide +kernel
example : verdict (chars! "\\2(a)") [] = some false := by decide +kernel
example : verdict (chars! "\\00") [] = some false := by decide +kernel
example : verdict (chars! "\\08") [] = some false := by decide +kernel
example : verdict (chars! "\\377") [] = some false := by decide +kernel
example : verdict (chars! "\\400") [] = some false := by decide +kernel
-- `\c` without a control letter, `\x`, `\u` without digits: the backslash or the letter stands for itself
example : verdict (chars! "\\c") [] = some false := by decide +kernel
example : verdict (chars! "\\x4") [] = some false := by decide +kernel
example : verdict (chars! "\\u{41}") [] = some false := by decide +kernel
example : verdict (chars! "\\p{L}") [] = some false := by decide +kernel
-- `\k`: an identity escape under `[~N]`, a named reference under `[+N]` (= the pattern has a named group)
example : verdict (chars! "\\k") [] = some false := by decide +kernel
example : verdict (chars! "\\k<a>") [] = some false := by decide +kernel
example : verdict (chars! "\\k(?<a>x)") [] = some true := by decide +kernel
example : verdict (chars! "(?<a>x)\\k<a>") [] = some false := by decide +kernel
example : verdict (chars! "(?<a>x)\\k<b>") [] = some true := by decide +kernel
example : verdict (chars! "(?<a>x)[\\k]") [] = some true := by decide +kernel
example : verdict (chars! "[\\k]") [] = some false := by decide +kernel
-- braces and brackets as ordinary characters; `InvalidBracedQuantifier`
example : verdict (chars! "a{1") [] = some false := by decide +kernel
example : verdict (chars! "a{") [] = some false := by decide +kernel
example : verdict (chars! "{") [] = some false := by decide +kernel
example : verdict (chars! "}") [] = some false := by decide +kernel
example : verdict (chars! "]") [] = some false := by decide +kernel
example : verdict (chars! "{1}") [] = some true := by decide +kernel
example : verdict (chars! "x{1}{2}") [] = some true := by decide +kernel
example : verdict (chars! "a{2,1}") [] = some true := by decide +kernel
-- quantifiable assertions
example : verdict (chars! "(?=a)*") [] = some false := by decide +kernel
example : verdict (chars! "(?=a){2}") [] = some false := by decide +kernel
example : verdict (chars! "(?<=a)*") [] = some true := by decide +kernel
example : verdict (chars! "^*") [] = some true := by decide +kernel
example : verdict (chars! "a**") [] = some true := by decide +kernel
-- classes: a class escape may be an end of a range; `\c` + digit / `_`; `\` before `c`
example : verdict (chars! "[\\d-x]") [] = some false := by decide +kernel
example : verdict (chars! "[z-a]") [] = some true := by decide +kernel
example : verdict (chars! "[\\c1]") [] = some false := by decide +kernel
example : verdict (chars! "[\\c]") [] = some false := by decide +kernel
example : verdict (chars! "[\\b-\\n]") [] = some false := by decide +kernel
example : verdict (chars! "[\\]") [] = some true := by decide +kernel
-- a group name may contain an astral character (a surrogate pair of code units) also without `u`
example : verdict (chars! "(?<𝒜>x)") [] = some false := by decide +kernel
-- unbalanced
example : verdict (chars! "[a") [] = some true := by decide +kernel
example : verdict (chars! "a)") [] = some true := by decide +kernel
example : verdict (chars! "\\") [] = some true := by decide +kernel

end DL.Props.C12
