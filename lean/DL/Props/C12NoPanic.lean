import DL.Lemmas.RxPattern

/-!
# C12 (panic-freedom) — the regular-expression validator never panics

For EVERY initial validator state (the rule reuses one validator for all regexes of a file, also after an `Err`),
every source (any list of `Nat`s — not even restricted to Unicode scalar values), both modes, every fuel, both
overflow profiles: `validate_pattern` does not reach any of the panic sites of the model

* `reader.rs:128/131` `src.chars().nth(i).unwrap()` / `src.encode_utf16().nth(i).unwrap()`
  — reader invariant `end ≤ #units`, established by `reset`, `DL.Rx.readerAt_ok`;
* `unicode.rs:595/596` `ranges[2*i]`, `ranges[2*i+1]` — `l ≤ i < r ≤ len/2`, `DL.Rx.isInRangeLoop_tests` (any table);
* `validator.rs:1557, 1532, 1480, 1455, 1300, 1293` `to_digit(r).unwrap()` — guarded by `is_ascii_hexdigit` /
  `is_digit(8)` / `is_ascii_digit`;
* `validator.rs:1453` `code_point_with_offset(0).unwrap()` — same state as the `while let Some(..)`;
* `validator.rs:1556` `16 * last_int_value + d` — at most 4 digits from 0, `DL.Rx.eatFixedHexDigitsLoop_safe`;
* `validator.rs:1292-1293` `10 * last_int_value + d` — right after `last_int_value = 0`;
* `validator.rs:1373, 1392` `to_char().unwrap()` — ASCII letters, digits, `_`;
* `validator.rs:964-965, 970` `char::from_u32(last_int_value as u32).unwrap()` — `is_regexp_identifier_start/part`
  accepted the value, and every range of the ID_Start / ID_Continue tables lies inside the scalar values
  (`DL.Rx.largeIdStart_chars`, `DL.Rx.largeIdContinue_chars`, kernel evaluation of the tables).

No hypothesis is needed.
-/
namespace DL.Props.C12
open DL.Rx

theorem not_panic_of_safe {α : Type} {m : M α} {Q : α → St → Prop} (h : Safe (fun _ => True) m Q) (st : St) :
    ∀ why s', m st ≠ .panic why s' := by
  intro why s' he
  have := h st trivial
  rw [he] at this
  exact this

/-- **the validator never panics** -/
theorem validatePattern_never_panics (fuel : Nat) (source : List Nat) (uFlag : Bool) (st : St) :
    ∀ why s', validatePattern fuel source uFlag st ≠ .panic why s' :=
  not_panic_of_safe (validatePattern_safe fuel source uFlag) st

/-- and it leaves the reader invariant behind whenever it returns `Ok` -/
theorem validatePattern_ok_inv (fuel : Nat) (source : List Nat) (uFlag : Bool) (st : St) (s' : St)
    (h : validatePattern fuel source uFlag st = .ok () s') : Inv s' := by
  have := validatePattern_safe fuel source uFlag st trivial
  rw [h] at this
  exact this

theorem checkForInvalidPattern_never_panics (fuel : Nat) (source : List Nat) (uFlag : Bool) (st : St) :
    ∀ why s', checkForInvalidPattern fuel source uFlag st ≠ .panic why s' := by
  intro why s'
  unfold checkForInvalidPattern
  have h := validatePattern_never_panics fuel source uFlag st
  cases hv : validatePattern fuel source uFlag st with
  | ok _ _ => intro he; cases he
  | err _ _ => intro he; cases he
  | panic m s'' => exact absurd hv (h m s'')
  | outOfFuel _ => intro he; cases he

/-- the outcomes of `check_regex`: a verdict, or the model's fuel ran out — never a panic, never an escaped `Err` -/
theorem checkRegex_outcome (fuel : Nat) (pattern flags : List Nat) (st : St) :
    (∃ b s', checkRegex fuel pattern flags st = .ok b s') ∨ (∃ s', checkRegex fuel pattern flags st = .outOfFuel s') := by
  show (∃ b s', M.bind (pure (checkForInvalidFlags flags)) (fun x => if x = true then pure true else
      checkForInvalidPattern fuel pattern (flags.contains (ch 'u'))) st = .ok b s') ∨
    (∃ s', M.bind (pure (checkForInvalidFlags flags)) (fun x => if x = true then pure true else
      checkForInvalidPattern fuel pattern (flags.contains (ch 'u'))) st = .outOfFuel s')
  show (∃ b s', (if checkForInvalidFlags flags = true then pure true else
      checkForInvalidPattern fuel pattern (flags.contains (ch 'u'))) st = .ok b s') ∨
    (∃ s', (if checkForInvalidFlags flags = true then (pure true : M Bool) else
      checkForInvalidPattern fuel pattern (flags.contains (ch 'u'))) st = .outOfFuel s')
  by_cases hf : checkForInvalidFlags flags = true
  · rw [if_pos hf]; exact .inl ⟨true, st, rfl⟩
  · rw [if_neg hf]
    unfold checkForInvalidPattern
    have h := validatePattern_never_panics fuel pattern (flags.contains (ch 'u')) st
    cases hv : validatePattern fuel pattern (flags.contains (ch 'u')) st with
    | ok _ s' => exact .inl ⟨false, s', rfl⟩
    | err _ s' => exact .inl ⟨true, s', rfl⟩
    | panic m s'' => exact absurd hv (h m s'')
    | outOfFuel s' => exact .inr ⟨s', rfl⟩

theorem checkRegex_never_panics (fuel : Nat) (pattern flags : List Nat) (st : St) :
    ∀ why s', checkRegex fuel pattern flags st ≠ .panic why s' := by
  intro why s' he
  rcases checkRegex_outcome fuel pattern flags st with ⟨b, s'', h⟩ | ⟨s'', h⟩ <;> rw [h] at he <;> cases he

/-- a whole file (all its regexes in source order, one validator): `lint_file` does not unwind -/
theorem runSeqAux_no_panic : ∀ (seq : List (List Nat × List Nat)) (st : St), (runSeqAux seq st).panic = false
  | [], _ => rfl
  | (p, f) :: rest, st => by
    unfold runSeqAux
    rcases checkRegex_outcome (defaultFuel p) p f st with ⟨b, s', h⟩ | ⟨s', h⟩
    · rw [h]; exact runSeqAux_no_panic rest s'
    · rw [h]

theorem runSeq_no_panic (seq : List (List Nat × List Nat)) (st : St) : (runSeq seq st).panic = false := by
  unfold runSeq
  have h := runSeqAux_no_panic seq st
  by_cases hc : ((runSeqAux seq st).panic || (runSeqAux seq st).fuel) = true
  · rw [if_pos hc]; exact h
  · rw [if_neg hc]; exact h

/-! ### the panic sites of the model are live: the reader invariant is what excludes them

A `Reader` whose `end` exceeds its unit list does panic in `at` (so `Res.panic` is not vacuous in the model), and
`validate_pattern` started in that very state does not, because `reset` re-establishes the invariant. -/
def badState : St := { reader := { end_ := 2, cps := [97] } }

example : ¬ Inv badState := by decide
example : ∃ why s', advance badState = .panic why s' := ⟨_, _, rfl⟩
example : ∃ why s', rewind 0 badState = .panic why s' := ⟨_, _, rfl⟩
example : ∀ why s', validatePattern 100 [97] false badState ≠ .panic why s' :=
  validatePattern_never_panics 100 [97] false badState

end DL.Props.C12

