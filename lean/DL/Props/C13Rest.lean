import DL.Model.FixRest
/-!
# C13 for the text-replacing quick fixes (M-FIX rest)

For `no-window`, `no-window-prefix`, no-node-globals' `global` → `globalThis`, `jsx-boolean-value` and the child fix of
`jsx-curly-braces`, on the models of `Model/FixRest.lean`, for **every** abstract file / attribute list / child list
and every reported diagnostic `i`:

* `*_fix_strictly_fewer` — the rule reports strictly fewer diagnostics after the fix of `i`;
* `*_fixed_gone` — `i` is not reported any more;
* `*_repair_terminates` — applying the fix of the first report as many times as there are reports leaves none;

and `*_fix_exact` / `child_fix_sublist`: which reports remain.  For the child fix also the lexical side
(`childFixText_lexes`, `childFixText_none_iff`) and the two things the flat model does *not* promise
(`other_ml_change_brings_report`, `unskipped_fix_can_add_report`).
-/
namespace DL.Props.C13Rest
open DL.FixRest

/-! ### generic: reports by position, fixes that rewrite selected positions into unreported entries -/

theorem idxWhere_ge {α : Type} (p : α → Bool) (l : List α) (k : Nat) : ∀ n ∈ idxWhere p l k, k ≤ n := by
  induction l generalizing k with
  | nil => intro n hn; simp [idxWhere] at hn
  | cons a r ih =>
    intro n hn
    simp only [idxWhere] at hn
    split at hn
    · simp only [List.mem_cons] at hn
      rcases hn with h | h
      · omega
      · have := ih (k + 1) n h; omega
    · have := ih (k + 1) n hn; omega

/-- after the fix exactly the reports at unselected positions remain -/
theorem idxWhere_mapAt {α : Type} (p : α → Bool) (g : α → α) (s : Nat → Bool) (hg : ∀ a, p (g a) = false)
    (l : List α) (k : Nat) : idxWhere p (mapAt g s l k) k = (idxWhere p l k).filter (fun n => !s n) := by
  induction l generalizing k with
  | nil => rfl
  | cons a r ih =>
    simp only [mapAt, idxWhere]
    cases hs : s k with
    | true =>
      simp only [if_true, hg]
      cases hp : p a with
      | true => simp [hs, ih]
      | false => simp [ih]
    | false =>
      cases hp : p a with
      | true => simp [hs, ih, hp]
      | false => simp [ih, hp]

theorem length_filter_lt {l : List Nat} {q : Nat → Bool} {i : Nat} (hi : i ∈ l) (hq : q i = false) :
    (l.filter q).length < l.length := by
  induction l with
  | nil => simp at hi
  | cons a r ih =>
    simp only [List.mem_cons] at hi
    simp only [List.filter_cons]
    rcases hi with h | h
    · subst h
      simp only [hq]
      have := List.length_filter_le q r
      simp only [List.length_cons]
      have : (if false = true then i :: List.filter q r else List.filter q r) = List.filter q r := by simp
      rw [this]; omega
    · have := ih h
      split
      · simp only [List.length_cons]; omega
      · simp only [List.length_cons]; omega

theorem mapAt_fix_strictly_fewer {α : Type} (p : α → Bool) (g : α → α) (s : Nat → Bool) (hg : ∀ a, p (g a) = false)
    (l : List α) (i : Nat) (hs : s i = true) (hi : i ∈ idxWhere p l 0) :
    (idxWhere p (mapAt g s l 0) 0).length < (idxWhere p l 0).length := by
  rw [idxWhere_mapAt p g s hg]
  exact length_filter_lt hi (by simp [hs])

theorem mapAt_fixed_gone {α : Type} (p : α → Bool) (g : α → α) (s : Nat → Bool) (hg : ∀ a, p (g a) = false)
    (l : List α) (i : Nat) (hs : s i = true) : i ∉ idxWhere p (mapAt g s l 0) 0 := by
  rw [idxWhere_mapAt p g s hg]
  intro h
  simp [List.mem_filter, hs] at h

theorem repair_of_le {σ : Type} (rep : σ → List Nat) (fix : σ → Nat → σ)
    (h : ∀ s i, i ∈ rep s → (rep (fix s i)).length < (rep s).length)
    (fuel : Nat) (s : σ) (hle : (rep s).length ≤ fuel) : rep (repair rep fix fuel s) = [] := by
  induction fuel generalizing s with
  | zero => simpa [repair] using hle
  | succ n ih =>
    unfold repair
    split
    · assumption
    · rename_i i rest heq
      apply ih
      have := h s i (by rw [heq]; simp)
      omega

/-- a fix that always leaves strictly fewer reports: as many rounds of "fix the first report" as there are reports
leave none -/
theorem repair_terminates_of {σ : Type} (rep : σ → List Nat) (fix : σ → Nat → σ)
    (h : ∀ s i, i ∈ rep s → (rep (fix s i)).length < (rep s).length) (s : σ) :
    rep (repair rep fix (rep s).length s) = [] :=
  repair_of_le rep fix h _ s (Nat.le_refl _)

/-! ### no-window -/

theorem win_rename_unreported (o : Occ) : winReportedOcc o.rename = false := by
  have : (nGlobalThis == nWindow) = false := by decide
  simp [winReportedOcc, Occ.rename, this]

/-- the reports after the fix of `i` are the earlier reports without `i` -/
theorem win_fix_exact (f : List Occ) (i : Nat) : winReported (winFix f i) = (winReported f).filter (fun n => !(n == i)) :=
  idxWhere_mapAt _ _ _ win_rename_unreported f 0

theorem win_fix_strictly_fewer (f : List Occ) (i : Nat) (h : i ∈ winReported f) :
    (winReported (winFix f i)).length < (winReported f).length :=
  mapAt_fix_strictly_fewer _ _ _ win_rename_unreported f i (by simp) h

theorem win_fixed_gone (f : List Occ) (i : Nat) : i ∉ winReported (winFix f i) :=
  mapAt_fixed_gone _ _ _ win_rename_unreported f i (by simp)

theorem win_repair_terminates (f : List Occ) : winReported (repair winReported winFix (winReported f).length f) = [] :=
  repair_terminates_of winReported winFix win_fix_strictly_fewer f

-- `window.x; window; f(window); self.x; { let window; window.x }`
example : winReported [⟨nWindow, true, .memberObj false (some ['x'])⟩, ⟨nWindow, true, .exprStmt⟩, ⟨nWindow, true, .other⟩,
    ⟨['s', 'e', 'l', 'f'], true, .memberObj false (some ['x'])⟩, ⟨nWindow, false, .memberObj false (some ['x'])⟩] = [0, 1] := by decide
example : winReported (winFix [⟨nWindow, true, .memberObj false (some ['x'])⟩, ⟨nWindow, true, .exprStmt⟩] 0) = [1] := by decide
example : 1 ∈ winReported [⟨nWindow, true, .memberObj false (some ['x'])⟩, ⟨nWindow, true, .exprStmt⟩] := by decide
example : repair winReported winFix 2 [⟨nWindow, true, .memberObj false none⟩, ⟨nWindow, true, .exprStmt⟩]
    = [⟨nGlobalThis, true, .memberObj false none⟩, ⟨nGlobalThis, true, .exprStmt⟩] := by decide

/-! ### no-window-prefix -/

theorem prefix_rename_unreported (o : Occ) : prefixReportedOcc o.rename = false := by
  have : (nGlobalThis == nWindow) = false := by decide
  simp [prefixReportedOcc, Occ.rename, this]

theorem prefix_fix_exact (f : List Occ) (i : Nat) :
    prefixReported (prefixFix f i) = (prefixReported f).filter (fun n => !(n == i)) :=
  idxWhere_mapAt _ _ _ prefix_rename_unreported f 0

theorem prefix_fix_strictly_fewer (f : List Occ) (i : Nat) (h : i ∈ prefixReported f) :
    (prefixReported (prefixFix f i)).length < (prefixReported f).length :=
  mapAt_fix_strictly_fewer _ _ _ prefix_rename_unreported f i (by simp) h

theorem prefix_fixed_gone (f : List Occ) (i : Nat) : i ∉ prefixReported (prefixFix f i) :=
  mapAt_fixed_gone _ _ _ prefix_rename_unreported f i (by simp)

theorem prefix_repair_terminates (f : List Occ) :
    prefixReported (repair prefixReported prefixFix (prefixReported f).length f) = [] :=
  repair_terminates_of prefixReported prefixFix prefix_fix_strictly_fewer f

/-- whatever no-window-prefix reports, no-window reports as well (the converse fails: `window.foo`, `window;`) -/
theorem prefix_reported_sub_win (o : Occ) (h : prefixReportedOcc o = true) : winReportedOcc o = true := by
  unfold prefixReportedOcc at h
  unfold winReportedOcc
  cases hp : o.pos with
  | memberObj c p => simp [hp, Pos.isMemberObj] at h ⊢; exact ⟨h.1.1, h.1.2⟩
  | exprStmt => simp [hp] at h
  | other => simp [hp] at h

def blobOcc : Occ := ⟨nWindow, true, .memberObj false (some ['B', 'l', 'o', 'b'])⟩
-- `window.Blob; window.Blob.x; window.foo; window[k]; window.Blob`  (the second is chained, the fourth has no static name)
example : prefixReported [blobOcc, ⟨nWindow, true, .memberObj true (some ['B', 'l', 'o', 'b'])⟩,
    ⟨nWindow, true, .memberObj false (some ['f', 'o', 'o'])⟩, ⟨nWindow, true, .memberObj false none⟩, blobOcc] = [0, 4] := by decide
example : prefixReported (prefixFix [blobOcc, blobOcc] 0) = [1] := by decide
example : 1 ∈ prefixReported [blobOcc, blobOcc] := by decide

/-! ### no-node-globals: `global` → `globalThis` -/

theorem glob_rename_unreported (o : GOcc) : globReportedOcc o.rename = false := by
  have : ¬ nGlobalThis ∈ nodeGlobals := by decide
  simp [globReportedOcc, GOcc.rename, this]

theorem globSel_self (f : List GOcc) (i : Nat) : globSel f i i = true := by simp [globSel]

/-- the reports after the fix of `i` are the earlier reports without `i` and without its partner tag -/
theorem glob_fix_exact (f : List GOcc) (i : Nat) :
    globReported (globFix f i) = (globReported f).filter (fun n => !globSel f i n) :=
  idxWhere_mapAt _ _ _ glob_rename_unreported f 0

theorem glob_fix_strictly_fewer (f : List GOcc) (i : Nat) (h : i ∈ globReported f) :
    (globReported (globFix f i)).length < (globReported f).length :=
  mapAt_fix_strictly_fewer _ _ _ glob_rename_unreported f i (globSel_self f i) h

theorem glob_fixed_gone (f : List GOcc) (i : Nat) : i ∉ globReported (globFix f i) :=
  mapAt_fixed_gone _ _ _ glob_rename_unreported f i (globSel_self f i)

/-- the partner tag is renamed by the same fix: it is gone as well -/
theorem glob_partner_gone (f : List GOcc) (i p : Nat) (o : GOcc) (ho : f[i]? = some o) (hp : o.partner = some p) :
    p ∉ globReported (globFix f i) :=
  mapAt_fixed_gone _ _ _ glob_rename_unreported f p (by simp [globSel, ho, hp])

/-- the reports that offer the `Replace` fix are reports -/
theorem globRepl_sub (f : List GOcc) (k : Nat) : ∀ n ∈ idxWhere (fun o => globReportedOcc o && o.name == nGlobal) f k,
    n ∈ idxWhere globReportedOcc f k := by
  induction f generalizing k with
  | nil => intro n hn; simp [idxWhere] at hn
  | cons a r ih =>
    intro n hn
    simp only [idxWhere] at hn ⊢
    cases hp : globReportedOcc a with
    | true =>
      simp only [hp, Bool.true_and, if_true] at hn ⊢
      split at hn
      · simp only [List.mem_cons] at hn ⊢
        rcases hn with h | h
        · exact Or.inl h
        · exact Or.inr (ih (k + 1) n h)
      · exact List.mem_cons_of_mem _ (ih (k + 1) n hn)
    | false =>
      simp only [hp, Bool.false_and] at hn ⊢
      exact ih (k + 1) n hn

/-- the statement for the diagnostics that offer this fix -/
theorem globRepl_fix_strictly_fewer (f : List GOcc) (i : Nat) (h : i ∈ globReplReported f) :
    (globReported (globFix f i)).length < (globReported f).length :=
  glob_fix_strictly_fewer f i (globRepl_sub f 0 i h)

/-- the fix removes no report that does not offer it … -/
theorem globRepl_fix_exact (f : List GOcc) (i : Nat) :
    globReplReported (globFix f i) = (globReplReported f).filter (fun n => !globSel f i n) :=
  idxWhere_mapAt _ _ _ (by intro a; simp [glob_rename_unreported]) f 0

/-- … so repairing along the `Replace` fixes terminates with none of the fixable diagnostics left -/
theorem glob_repair_terminates (f : List GOcc) :
    globReplReported (repair globReplReported globFix (globReplReported f).length f) = [] :=
  repair_terminates_of globReplReported globFix (by
    intro s i hi
    rw [globRepl_fix_exact]
    exact length_filter_lt hi (by simp [globSel_self])) f

-- `<global.Foo>{global}{Buffer}</global.Foo>; { let global; global }`
def jsxPair : List GOcc := [⟨nGlobal, true, some 3, some 3⟩, ⟨nGlobal, true, none, none⟩, ⟨nBuffer, true, none, none⟩,
  ⟨nGlobal, true, some 0, some 0⟩, ⟨nGlobal, false, none, none⟩]
example : globReported jsxPair = [0, 1, 2, 3] := by decide
example : globReplReported jsxPair = [0, 1, 3] := by decide
example : globReported (globFix jsxPair 3) = [1, 2] := by decide
example : globReported (globFix jsxPair 1) = [0, 2, 3] := by decide
example : 3 ∈ globReplReported jsxPair := by decide
example : globReported (repair globReplReported globFix 3 jsxPair) = [2] := by decide

/-! #### the two tags of an element keep the same name — when the rule pairs what the parser pairs -/

theorem mapAt_getElem? {α : Type} (g : α → α) (s : Nat → Bool) (l : List α) (k n : Nat) :
    (mapAt g s l k)[n]? = (l[n]?).map (fun a => if s (k + n) then g a else a) := by
  induction l generalizing k n with
  | nil => simp [mapAt]
  | cons a r ih =>
    cases n with
    | zero => simp [mapAt]
    | succ n =>
      simp only [mapAt, List.getElem?_cons_succ]
      rw [ih (k + 1) n]
      have : k + 1 + n = k + (n + 1) := by omega
      rw [this]

theorem tagsMatchFrom_iff (f r : List GOcc) :
    tagsMatchFrom f r = true ↔ ∀ o ∈ r, ∀ j, o.mate = some j → ∃ o', f[j]? = some o' ∧ o'.name = o.name := by
  induction r with
  | nil => simp [tagsMatchFrom]
  | cons a r ih =>
    simp only [tagsMatchFrom, Bool.and_eq_true, ih, List.mem_cons, forall_eq_or_imp]
    constructor
    · intro ⟨h1, h2⟩
      refine ⟨?_, h2⟩
      intro j hj
      rw [hj] at h1
      simp only at h1
      split at h1
      · rename_i o' ho'
        exact ⟨o', ho', by simpa using h1⟩
      · simp at h1
    · intro ⟨h1, h2⟩
      refine ⟨?_, h2⟩
      cases hm : a.mate with
      | none => rfl
      | some j =>
        obtain ⟨o', ho', hn⟩ := h1 j hm
        simp [ho', hn]

theorem tagsMatch_iff (f : List GOcc) :
    tagsMatch f = true ↔ ∀ (k : Nat) (o : GOcc), f[k]? = some o → ∀ j, o.mate = some j → ∃ o', f[j]? = some o' ∧ o'.name = o.name := by
  rw [tagsMatch, tagsMatchFrom_iff]
  constructor
  · intro h k o hk
    exact h o (List.mem_of_getElem? hk)
  · intro h o ho
    obtain ⟨k, hk⟩ := List.getElem?_of_mem ho
    exact h k o hk

/-- `other_tag_range` finds the other tag of every element that has two -/
def PairsMates (f : List GOcc) : Prop := ∀ (i : Nat) (o : GOcc), f[i]? = some o → o.partner = o.mate
/-- being the other tag is mutual -/
def MatesSym (f : List GOcc) : Prop :=
  ∀ (i j : Nat) (o : GOcc), f[i]? = some o → o.mate = some j → ∃ o' : GOcc, f[j]? = some o' ∧ o'.mate = some i

/-- if the rule's pairing is the parser's, a fix renames both tags or neither: the names of the two tags of every
element still agree afterwards -/
theorem glob_fix_keeps_tags (f : List GOcc) (i : Nat) (hp : PairsMates f) (hs : MatesSym f) (ht : tagsMatch f = true) :
    tagsMatch (globFix f i) = true := by
  rw [tagsMatch_iff] at ht ⊢
  intro k o hk j hj
  simp only [globFix, mapAt_getElem?, Nat.zero_add] at hk ⊢
  cases hfk : f[k]? with
  | none => simp [hfk] at hk
  | some o0 =>
    simp only [hfk, Option.map_some, Option.some.injEq] at hk
    have hmate : o0.mate = some j := by
      rw [← hk] at hj
      split at hj
      · simpa [GOcc.rename] using hj
      · exact hj
    obtain ⟨o0', hfj, hname⟩ := ht k o0 hfk j hmate
    obtain ⟨o0'', hfj', hback⟩ := hs k j o0 hfk hmate
    have e : o0'' = o0' := by rw [hfj] at hfj'; exact (Option.some.inj hfj').symm
    subst e
    -- `k` is rewritten iff `j` is
    have hsel : globSel f i k = globSel f i j := by
      cases hfi : f[i]? with
      | none =>
        have hik : (k == i) = false := by
          cases h : k == i with
          | false => rfl
          | true => have : k = i := by simpa using h
                    subst this; simp [hfi] at hfk
        have hij : (j == i) = false := by
          cases h : j == i with
          | false => rfl
          | true => have : j = i := by simpa using h
                    subst this; simp [hfi] at hfj
        simp [globSel, hfi, hik, hij]
      | some oi =>
        have hpi : oi.partner = oi.mate := hp i oi hfi
        simp only [globSel, hfi, hpi]
        by_cases hki : k = i
        · subst hki
          have : oi = o0 := by rw [hfk] at hfi; exact (Option.some.inj hfi).symm
          subst this
          simp [hmate]
        · by_cases hji : j = i
          · subst hji
            have : oi = o0'' := by rw [hfj] at hfi; exact (Option.some.inj hfi).symm
            subst this
            simp [hback]
          · have h1 : (k == i) = false := by simpa using hki
            have h2 : (j == i) = false := by simpa using hji
            simp only [h1, h2, Bool.false_or]
            cases hm : oi.mate with
            | none => simp
            | some m =>
              -- the mate of `i` is neither `k` nor `j`: their mates are `j` and `k`, not `i`
              obtain ⟨om, hfm, hmb⟩ := hs i m oi hfi hm
              have hmk : ¬ m = k := by
                intro e; subst e
                rw [hfk] at hfm; have := Option.some.inj hfm; subst this
                rw [hmate] at hmb; exact hji (Option.some.inj hmb)
              have hmj : ¬ m = j := by
                intro e; subst e
                rw [hfj] at hfm; have := Option.some.inj hfm; subst this
                rw [hback] at hmb; exact hki (Option.some.inj hmb)
              have e1 : (m == k) = false := by simpa using hmk
              have e2 : (m == j) = false := by simpa using hmj
              simp [e1, e2]
    refine ⟨if globSel f i j then o0''.rename else o0'', by simp [hfj], ?_⟩
    rw [← hk, hsel]
    split
    · simp [GOcc.rename]
    · exact hname

example : tagsMatch jsxPair = true ∧ tagsMatch (globFix jsxPair 0) = true := by decide

/-- **A defect of the real rule, visible in the model.**  `other_tag_range` pairs the tags of `<global.Foo>…</global.Foo>`
only: for a plain identifier tag `<global>…</global>` (`jsx_name_root` returns `None`) both tags are reported, each with
a fix that renames one of them — `<globalThis>…</global>` does not parse.  (`PairsMates` fails: `partner = none`,
`mate = some _`.) -/
def plainPair : List GOcc := [⟨nGlobal, true, none, some 1⟩, ⟨nGlobal, true, none, some 0⟩]
theorem plain_tag_fix_breaks_tags :
    tagsMatch plainPair = true ∧ 0 ∈ globReplReported plainPair ∧ tagsMatch (globFix plainPair 0) = false := by decide

/-! ### jsx-boolean-value -/

theorem bool_none_unreported (a : AttrVal) : boolReportedAttr ((fun _ => AttrVal.none) a) = false := by
  simp [boolReportedAttr]

theorem bool_fix_exact (f : List AttrVal) (i : Nat) : boolReported (boolFix f i) = (boolReported f).filter (fun n => !(n == i)) :=
  idxWhere_mapAt _ _ _ bool_none_unreported f 0

theorem bool_fix_strictly_fewer (f : List AttrVal) (i : Nat) (h : i ∈ boolReported f) :
    (boolReported (boolFix f i)).length < (boolReported f).length :=
  mapAt_fix_strictly_fewer _ _ _ bool_none_unreported f i (by simp) h

theorem bool_fixed_gone (f : List AttrVal) (i : Nat) : i ∉ boolReported (boolFix f i) :=
  mapAt_fixed_gone _ _ _ bool_none_unreported f i (by simp)

theorem bool_repair_terminates (f : List AttrVal) : boolReported (repair boolReported boolFix (boolReported f).length f) = [] :=
  repair_terminates_of boolReported boolFix bool_fix_strictly_fewer f

-- `<Foo a={true} b={false} c="x" d e={true /* c */} f={true} />`
example : boolReported [.trueBare, .false_, .str, .none, .trueCommented, .trueBare] = [0, 5] := by decide
example : boolReported (boolFix [.trueBare, .false_, .str, .none, .trueCommented, .trueBare] 0) = [5] := by decide
example : 5 ∈ boolReported [.trueBare, .false_, .str, .none, .trueCommented, .trueBare] := by decide
example : repair boolReported boolFix 2 [.trueBare, .str, .trueBare] = [.none, .str, .none] := by decide

/-! ### jsx-curly-braces: the fix for a string literal child -/

theorem scan_skip (c : Child) (r : List Child) (k : Nat) : scan true (c :: r) k = scan false r (k + 1) := by simp [scan]
theorem scan_text (m : Bool) (r : List Child) (k : Nat) : scan false (.text m :: r) k = scan false r (k + 1) := by simp [scan]
theorem scan_other (m : Bool) (r : List Child) (k : Nat) : scan false (.other m :: r) k = scan false r (k + 1) := by simp [scan]
theorem scan_lit_special {v : List Char} {ml : Bool} {r : List Child} {k : Nat} (h : special v = true) :
    scan false (.lit v ml :: r) k = scan false r (k + 1) := by simp [scan, h]
theorem scan_lit_withheld {v : List Char} {ml : Bool} {r : List Child} {k : Nat} (h : special v = false)
    (h2 : nextMl r = some true) : scan false (.lit v ml :: r) k = scan true r (k + 1) := by simp [scan, h, h2]
theorem scan_lit_reported {v : List Char} {ml : Bool} {r : List Child} {k : Nat} (h : special v = false)
    (h2 : ¬ nextMl r = some true) : scan false (.lit v ml :: r) k = k :: scan false r (k + 1) := by simp [scan, h, h2]

/-- one step of the loop: the rest is scanned, skipping or not, and the head is reported or not -/
theorem scan_cons_cases (s : Bool) (c : Child) (r : List Child) (k : Nat) :
    scan s (c :: r) k = scan false r (k + 1) ∨ scan s (c :: r) k = scan true r (k + 1) ∨
      scan s (c :: r) k = k :: scan false r (k + 1) := by
  cases s with
  | true => exact Or.inl (scan_skip c r k)
  | false =>
    cases c with
    | text m => exact Or.inl (scan_text m r k)
    | other m => exact Or.inl (scan_other m r k)
    | lit v ml =>
      cases hs : special v with
      | true => exact Or.inl (scan_lit_special hs)
      | false =>
        by_cases h2 : nextMl r = some true
        · exact Or.inr (Or.inl (scan_lit_withheld hs h2))
        · exact Or.inr (Or.inr (scan_lit_reported hs h2))

theorem scan_ge (s : Bool) (cs : List Child) (k : Nat) : ∀ n ∈ scan s cs k, k ≤ n := by
  induction cs generalizing s k with
  | nil => intro n hn; simp [scan] at hn
  | cons c r ih =>
    intro n hn
    rcases scan_cons_cases s c r k with e | e | e <;> rw [e] at hn
    · have := ih false (k + 1) n hn; omega
    · have := ih true (k + 1) n hn; omega
    · simp only [List.mem_cons] at hn
      rcases hn with h | h
      · omega
      · have := ih false (k + 1) n h; omega

/-- only string literal containers without a special character are ever reported -/
theorem scan_mem_lit (cs : List Child) (s : Bool) (k j : Nat) (h : k + j ∈ scan s cs k) :
    ∃ v ml, cs[j]? = some (.lit v ml) ∧ special v = false := by
  induction cs generalizing s k j with
  | nil => simp [scan] at h
  | cons c r ih =>
    cases j with
    | zero =>
      simp only [Nat.add_zero] at h
      cases s with
      | true => rw [scan_skip] at h; have := scan_ge _ _ _ _ h; omega
      | false =>
        cases c with
        | text m => rw [scan_text] at h; have := scan_ge _ _ _ _ h; omega
        | other m => rw [scan_other] at h; have := scan_ge _ _ _ _ h; omega
        | lit v ml =>
          cases hs : special v with
          | true => rw [scan_lit_special hs] at h; have := scan_ge _ _ _ _ h; omega
          | false => exact ⟨v, ml, by simp, hs⟩
    | succ j =>
      have e : k + (j + 1) = (k + 1) + j := by omega
      rw [e] at h
      simp only [List.getElem?_cons_succ]
      rcases scan_cons_cases s c r k with e' | e' | e' <;> rw [e'] at h
      · exact ih false (k + 1) j h
      · exact ih true (k + 1) j h
      · simp only [List.mem_cons] at h
        rcases h with h | h
        · omega
        · exact ih false (k + 1) j h

/-- turning a container behind a run of text into text can only lengthen the run -/
theorem textRunMl_set_mono (cs : List Child) (j : Nat) (b : Bool) (v : List Char) (ml : Bool)
    (hj : cs[j]? = some (.lit v ml)) (h : textRunMl cs = true) : textRunMl (cs.set j (.text b)) = true := by
  induction cs generalizing j with
  | nil => simp [textRunMl] at h
  | cons c r ih =>
    cases c with
    | lit _ _ => simp [textRunMl] at h
    | other _ => simp [textRunMl] at h
    | text m =>
      cases j with
      | zero => simp at hj
      | succ j =>
        simp only [List.getElem?_cons_succ] at hj
        simp only [List.set_cons_succ, textRunMl] at h ⊢
        cases m with
        | true => simp
        | false =>
          simp only [Bool.false_or] at h ⊢
          exact ih j hj h

/-- a child that was withheld stays withheld when a *reported* container behind it becomes text -/
theorem nextMl_set_true (r : List Child) (j : Nat) (b : Bool) (k : Nat) (h : k + j ∈ scan true r k)
    (h1 : nextMl r = some true) : nextMl (r.set j (.text b)) = some true := by
  cases r with
  | nil => simp [nextMl] at h1
  | cons c r' =>
    cases j with
    | zero => rw [scan_skip] at h; have := scan_ge _ _ _ _ h; omega
    | succ j =>
      obtain ⟨v, ml, hv, _⟩ := scan_mem_lit _ _ _ _ h
      simp only [List.getElem?_cons_succ] at hv
      cases c with
      | lit _ _ => simpa [nextMl] using h1
      | other _ => simpa [nextMl] using h1
      | text m =>
        simp only [List.set_cons_succ, nextMl, Option.some.injEq] at h1 ⊢
        cases m with
        | true => simp
        | false =>
          simp only [Bool.false_or] at h1 ⊢
          exact textRunMl_set_mono r' j b v ml hv h1

/-- the look-ahead can only change to "spans a line break" when the list now starts with text -/
theorem set_head_text (r : List Child) (j : Nat) (b : Bool) (h1 : ¬ nextMl r = some true)
    (h2 : nextMl (r.set j (.text b)) = some true) : ∃ m r', r.set j (.text b) = .text m :: r' := by
  cases r with
  | nil => simp [nextMl] at h2
  | cons c r' =>
    cases j with
    | zero => exact ⟨b, r', rfl⟩
    | succ j =>
      cases c with
      | text m => exact ⟨m, _, rfl⟩
      | lit _ _ => simp [nextMl] at h1 h2; simp [h2] at h1
      | other _ => simp [nextMl] at h1 h2; simp [h2] at h1

/-- **the key lemma**: replacing a *reported* container by a piece of text adds no report and removes that one — for
every state of the loop, every child list and every line-break flag of the new text -/
theorem scan_fix_sublist (cs : List Child) (s : Bool) (k j : Nat) (b : Bool) (h : k + j ∈ scan s cs k) :
    (scan s (cs.set j (.text b)) k).Sublist ((scan s cs k).erase (k + j)) := by
  induction cs generalizing s k j with
  | nil => simp [scan] at h
  | cons c r ih =>
    cases j with
    | zero =>
      simp only [List.set_cons_zero, Nat.add_zero] at h ⊢
      cases s with
      | true => rw [scan_skip] at h; have := scan_ge _ _ _ _ h; omega
      | false =>
        cases c with
        | text m => rw [scan_text] at h; have := scan_ge _ _ _ _ h; omega
        | other m => rw [scan_other] at h; have := scan_ge _ _ _ _ h; omega
        | lit v ml =>
          cases hs : special v with
          | true => rw [scan_lit_special hs] at h; have := scan_ge _ _ _ _ h; omega
          | false =>
            by_cases h2 : nextMl r = some true
            · rw [scan_lit_withheld hs h2] at h; have := scan_ge _ _ _ _ h; omega
            · rw [scan_lit_reported hs h2, scan_text]; simp
    | succ j =>
      have e : k + (j + 1) = (k + 1) + j := by omega
      simp only [List.set_cons_succ]
      rw [e] at h ⊢
      cases s with
      | true =>
        rw [scan_skip] at h ⊢
        rw [scan_skip]
        exact ih false (k + 1) j h
      | false =>
        cases c with
        | text m =>
          rw [scan_text] at h ⊢
          rw [scan_text]
          exact ih false (k + 1) j h
        | other m =>
          rw [scan_other] at h ⊢
          rw [scan_other]
          exact ih false (k + 1) j h
        | lit v ml =>
          cases hs : special v with
          | true =>
            rw [scan_lit_special hs] at h ⊢
            rw [scan_lit_special hs]
            exact ih false (k + 1) j h
          | false =>
            by_cases h1 : nextMl r = some true
            · rw [scan_lit_withheld hs h1] at h ⊢
              rw [scan_lit_withheld hs (nextMl_set_true r j b (k + 1) h h1)]
              exact ih true (k + 1) j h
            · rw [scan_lit_reported hs h1] at h ⊢
              have hm : (k + 1) + j ∈ scan false r (k + 1) := by
                simp only [List.mem_cons] at h
                rcases h with h | h
                · omega
                · exact h
              have hne : (k == k + 1 + j) = false := by
                simp only [beq_eq_false_iff_ne, ne_eq]; omega
              rw [List.erase_cons, hne]
              simp only [Bool.false_eq_true, if_false]
              by_cases h2 : nextMl (r.set j (.text b)) = some true
              · rw [scan_lit_withheld hs h2]
                obtain ⟨m, r', hr'⟩ := set_head_text r j b h1 h2
                have : scan true (r.set j (.text b)) (k + 1) = scan false (r.set j (.text b)) (k + 1) := by
                  rw [hr', scan_skip, scan_text]
                rw [this]
                exact List.Sublist.cons k (ih false (k + 1) j hm)
              · rw [scan_lit_reported hs h2]
                exact List.Sublist.cons_cons k (ih false (k + 1) j hm)

theorem childFix_lit (cs : List Child) (i : Nat) (v : List Char) (ml : Bool) (h : cs[i]? = some (.lit v ml)) :
    childFix cs i = cs.set i (.text (hasLF v)) := by simp [childFix, h]

/-- a reported child is a string literal container, and the rule builds a fix text for its value -/
theorem child_reported_has_text (cs : List Child) (i : Nat) (h : i ∈ childReported cs) :
    ∃ v ml, cs[i]? = some (.lit v ml) ∧ childFixText v = some v := by
  obtain ⟨v, ml, hv, hs⟩ := scan_mem_lit cs false 0 i (by simpa [childReported] using h)
  exact ⟨v, ml, hv, by simp [childFixText, hs]⟩

/-- after the fix of `i` the rule reports a sublist of the earlier reports without `i`: nothing new is reported, in
particular no child that had been withheld or skipped -/
theorem child_fix_sublist (cs : List Child) (i : Nat) (h : i ∈ childReported cs) :
    (childReported (childFix cs i)).Sublist ((childReported cs).erase i) := by
  have h' : 0 + i ∈ scan false cs 0 := by simpa [childReported] using h
  obtain ⟨v, ml, hv, _⟩ := scan_mem_lit cs false 0 i h'
  rw [childFix_lit cs i v ml hv]
  have := scan_fix_sublist cs false 0 i (hasLF v) h'
  simpa [childReported] using this

/-- **C13 for jsx-curly-braces' child fix** (one child list): strictly fewer reports after the fix -/
theorem child_fix_strictly_fewer (cs : List Child) (i : Nat) (h : i ∈ childReported cs) :
    (childReported (childFix cs i)).length < (childReported cs).length := by
  have h1 := (child_fix_sublist cs i h).length_le
  have h2 := List.length_erase_of_mem h
  have h3 : 0 < (childReported cs).length := List.length_pos_of_mem h
  omega

/-- the fixed child is not reported again -/
theorem child_fixed_gone (cs : List Child) (i : Nat) (h : i ∈ childReported cs) : i ∉ childReported (childFix cs i) := by
  obtain ⟨v, ml, hv, _⟩ := scan_mem_lit cs false 0 i (by simpa [childReported] using h)
  rw [childFix_lit cs i v ml hv]
  intro hi
  obtain ⟨v', ml', hv', _⟩ := scan_mem_lit _ false 0 i (by simpa [childReported] using hi)
  have hlt : i < cs.length := by
    rcases Nat.lt_or_ge i cs.length with hl | hl
    · exact hl
    · simp [List.getElem?_eq_none hl] at hv
  simp [hlt] at hv'

theorem child_repair_terminates (cs : List Child) :
    childReported (repair childReported childFix (childReported cs).length cs) = [] :=
  repair_terminates_of childReported childFix child_fix_strictly_fewer cs

theorem litCount_set (cs : List Child) (i : Nat) (v : List Char) (ml b : Bool) (h : cs[i]? = some (.lit v ml)) :
    litCount (cs.set i (.text b)) + 1 = litCount cs := by
  induction cs generalizing i with
  | nil => simp at h
  | cons c r ih =>
    cases i with
    | zero =>
      simp only [List.getElem?_cons_zero, Option.some.injEq] at h
      subst h
      simp [litCount]
    | succ i =>
      simp only [List.getElem?_cons_succ] at h
      have := ih i h
      cases c <;> simp only [List.set_cons_succ, litCount] <;> omega

/-- every fix leaves one string literal container less — a measure that does not depend on line breaks, so that it
also bounds repeated fixing across nested elements, where the number of *reports* need not fall
(`other_ml_change_brings_report`) -/
theorem child_fix_one_container_less (cs : List Child) (i : Nat) (h : i ∈ childReported cs) :
    litCount (childFix cs i) + 1 = litCount cs := by
  obtain ⟨v, ml, hv, _⟩ := scan_mem_lit cs false 0 i (by simpa [childReported] using h)
  rw [childFix_lit cs i v ml hv]
  exact litCount_set cs i v ml _ hv

/-- on a parsed child list (no two adjacent pieces of text) the model's look-ahead is the rule's: the line-break flag
of the next child -/
theorem nextMl_canon (r : List Child) (h : Canon r) : nextMl r = r.head?.map Child.ml := by
  cases r with
  | nil => rfl
  | cons c r' =>
    cases c with
    | lit _ _ => rfl
    | other _ => rfl
    | text m =>
      cases r' with
      | nil => simp [nextMl, textRunMl, Child.ml]
      | cons d r'' =>
        cases d with
        | text m' => simp [Canon, Child.isText] at h
        | lit _ _ => simp [nextMl, textRunMl, Child.ml]
        | other _ => simp [nextMl, textRunMl, Child.ml]

/-- **lexical side**: when the rule offers the fix, the replacement is the value itself and contains none of the
characters that end or restructure JSX text — it lexes as JSX text up to the next `{` or `<` of the surroundings -/
theorem childFixText_lexes (v t : List Char) (h : childFixText v = some t) :
    t = v ∧ ∀ c ∈ t, c ≠ '{' ∧ c ≠ '}' ∧ c ≠ '<' ∧ c ≠ '>' := by
  unfold childFixText at h
  split at h
  · simp at h
  · rename_i hs
    simp only [Option.some.injEq] at h
    subst h
    refine ⟨rfl, ?_⟩
    intro c hc
    have : isSpecialChar c = false := by
      cases hcs : isSpecialChar c with
      | false => rfl
      | true => exact absurd (List.any_eq_true.mpr ⟨c, hc, hcs⟩) hs
    simp only [isSpecialChar, Bool.or_eq_false_iff, beq_eq_false_iff_ne] at this
    exact ⟨this.1.1.1, this.1.1.2, this.1.2, this.2⟩

/-- withheld iff one of the four characters occurs in the value -/
theorem childFixText_none_iff (v : List Char) :
    childFixText v = none ↔ ∃ c ∈ v, c = '{' ∨ c = '}' ∨ c = '<' ∨ c = '>' := by
  unfold childFixText
  constructor
  · intro h
    split at h
    · rename_i hs
      obtain ⟨c, hc, hcs⟩ := List.any_eq_true.mp hs
      refine ⟨c, hc, ?_⟩
      simp only [isSpecialChar, Bool.or_eq_true, beq_iff_eq] at hcs
      rcases hcs with ((h1 | h1) | h1) | h1
      · exact Or.inl h1
      · exact Or.inr (Or.inl h1)
      · exact Or.inr (Or.inr (Or.inl h1))
      · exact Or.inr (Or.inr (Or.inr h1))
    · simp at h
  · intro ⟨c, hc, hcs⟩
    have : special v = true := by
      apply List.any_eq_true.mpr
      refine ⟨c, hc, ?_⟩
      simp only [isSpecialChar, Bool.or_eq_true, beq_iff_eq]
      rcases hcs with h1 | h1 | h1 | h1
      · exact Or.inl (Or.inl (Or.inl h1))
      · exact Or.inl (Or.inl (Or.inr h1))
      · exact Or.inl (Or.inr h1)
      · exact Or.inr h1
    simp [this]

-- `<div>{"a"}{"b"}t{"c<"}{"d"}⏎  {"e"}</div>`: `{"c<"}` needs its braces, `{"d"}` stands at the end of its line
def sampleChildren : List Child := [.lit ['a'] false, .lit ['b'] false, .text false, .lit ['c', '<'] false, .lit ['d'] false, .text true, .lit ['e'] false]
example : childReported sampleChildren = [0, 1, 6] := by decide
example : childReported (childFix sampleChildren 1) = [0, 6] := by decide
example : 1 ∈ childReported sampleChildren := by decide
example : childReported (repair childReported childFix 3 sampleChildren) = [] := by decide
-- a value with an (escaped) line feed: the text that replaces it ends on a later line, so `{"a"}` is now withheld
example : childReported [.lit ['a'] false, .lit ['x', '\n', 'y'] false] = [0, 1] ∧
    childReported (childFix [.lit ['a'] false, .lit ['x', '\n', 'y'] false] 1) = [] := by decide
example : childFixText ['a', ' ', '&', ' ', 'b'] = some ['a', ' ', '&', ' ', 'b'] := by decide
example : childFixText ['a', '>', 'b'] = none := by decide
example : Canon sampleChildren := by simp [sampleChildren, Canon, Child.isText]

/-- **Not covered, and false for the real rule.**  The flag of an `other` child is fixed in this model, but for a child
*element* it depends on that element's own children: the fix of a literal in `<span>{⏎"x"}</span>` makes the element
single-line, which for the enclosing list `{"a"}<span>…</span>` is a change from `other true` to `other false` — and
brings the withheld report on `{"a"}` back: one report before, one (another) after. -/
theorem other_ml_change_brings_report :
    childReported [.lit ['a'] false, .other true] = [] ∧ childReported [.lit ['a'] false, .other false] = [0] := by decide

/-- the hypothesis `i ∈ childReported cs` cannot be dropped: turning a *skipped* container into text (a fix the rule
does not offer) brings a report -/
theorem unskipped_fix_can_add_report :
    childReported [.lit ['a'] false, .lit ['b'] true] = [] ∧
      childReported (childFix [.lit ['a'] false, .lit ['b'] true] 1) = [0] := by decide

end DL.Props.C13Rest
