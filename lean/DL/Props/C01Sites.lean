import DL.Gen.PanicSites

/-!
# C01 — the inventory of explicit panic sites, re-decided on every run

`Gen/PanicSites.lean` (syn translator) lists every `.unwrap()` / `.expect(..)` call, every panicking macro and every index
expression `a[i]` of `src/` outside test modules, aggregated by (file, enclosing function, kind): 106 sites in 73 rows today.
The theorem below says that this inventory is exactly the reviewed one.  What the review rests on:

* `src/js_regex/{validator,reader}.rs`: **proved** unreachable — the model transcribes every `unwrap`, index and
  arithmetic-overflow site of these two files as an explicit `panic` outcome and `validatePattern_never_panics`
  (`Props/C12NoPanic.lean`) shows that none is reached, for every pattern, mode and validator state; `unicode.rs`: the binary
  search (its bounds are part of that proof) and the table decoder, which runs once on a literal.
* `src/ignore_directives.rs`: `strip_prefix(..).unwrap()` **proved** unreachable (`directive_parser_never_panics`), the two
  `Regex::new(<literal>).unwrap()` run once per process on constants (every run of every check evaluates them).
* `Regex::new(<literal>).unwrap()` / `Lazy` initialisers in rule files: likewise evaluated on a constant.
* everything else (rule bodies, `control_flow`, `context`): **not proved**; these are the sites the C01 search aims at —
  every generated program of every driver is linted with all rules under `catch_unwind`, a panic is attributed to its rule.

A new `unwrap`, `expect`, index expression or panicking macro anywhere in `src/` — or one that moved to another function —
makes `panic_sites_as_reviewed` false: the change has to be looked at (and this list regenerated) before C01's claim
"no explicit panic site is reachable as far as proved / searched" extends to it.  This is a tripwire, not a proof of
unreachability.
-/
namespace DL.Props.C01Sites

def reviewedPanicSites : List (String × String × String × Nat) := [
  ("src/context.rs", "assert_init", "assert!", 1),
  ("src/control_flow/analyze_test.rs", "", "unwrap (in macro_rules!)", 1),
  ("src/control_flow/mod.rs", "visit_do_while_stmt", "unwrap", 1),
  ("src/control_flow/mod.rs", "visit_if_stmt", "unwrap", 1),
  ("src/control_flow/mod.rs", "visit_try_stmt", "unwrap", 1),
  ("src/control_flow/mod.rs", "visit_while_stmt", "unwrap", 1),
  ("src/ignore_directives.rs", "parse_ignore_comment", "unwrap", 3),
  ("src/js_regex/reader.rs", "at", "index", 1),
  ("src/js_regex/reader.rs", "eat", "unwrap", 1),
  ("src/js_regex/reader.rs", "eat2", "unwrap", 2),
  ("src/js_regex/reader.rs", "eat3", "unwrap", 3),
  ("src/js_regex/unicode.rs", "is_in_range", "index", 2),
  ("src/js_regex/unicode.rs", "restore_ranges", "unwrap", 1),
  ("src/js_regex/validator.rs", "eat_decimal_digits", "unwrap", 1),
  ("src/js_regex/validator.rs", "eat_decimal_escape", "unwrap", 2),
  ("src/js_regex/validator.rs", "eat_fixed_hex_digits", "unwrap", 3),
  ("src/js_regex/validator.rs", "eat_hex_digits", "unwrap", 1),
  ("src/js_regex/validator.rs", "eat_octal_digit", "unwrap", 1),
  ("src/js_regex/validator.rs", "eat_regexp_identifier_name", "unwrap", 2),
  ("src/js_regex/validator.rs", "eat_regexp_identifier_start", "unwrap", 2),
  ("src/js_regex/validator.rs", "eat_unicode_property_name", "unwrap", 1),
  ("src/js_regex/validator.rs", "eat_unicode_property_value", "unwrap", 1),
  ("src/rules/ban_ts_comment.rs", "check_comment", "unwrap", 3),
  ("src/rules/ban_untagged_todo.rs", "check_comment", "unwrap", 1),
  ("src/rules/camelcase.rs", "to_camelcase", "unwrap", 1),
  ("src/rules/camelcase.rs", "to_hint", "index", 1),
  ("src/rules/camelcase.rs", "to_hint", "unwrap", 1),
  ("src/rules/constructor_super.rs", "check_constructor", "index", 1),
  ("src/rules/for_direction.rs", "for_stmt", "unwrap", 1),
  ("src/rules/getter_return.rs", "check_call_expr", "index", 1),
  ("src/rules/getter_return.rs", "check_getter", "unwrap", 1),
  ("src/rules/getter_return.rs", "report_always_expected", "expect", 1),
  ("src/rules/getter_return.rs", "report_expected", "expect", 1),
  ("src/rules/guard_for_in.rs", "for_in_stmt", "index", 1),
  ("src/rules/jsx_boolean_value.rs", "jsx_attr", "index", 1),
  ("src/rules/jsx_curly_braces.rs", "", "unwrap", 1),
  ("src/rules/no_constant_condition.rs", "is_constant", "index", 1),
  ("src/rules/no_deprecated_deno_api.rs", "extract_symbol", "index", 1),
  ("src/rules/no_deprecated_deno_api.rs", "ts_qualified_name", "unwrap (in if_chain!)", 1),
  ("src/rules/no_empty_character_class.rs", "regex", "unwrap", 1),
  ("src/rules/no_invalid_regexp.rs", "handle_call_or_new_expr", "index", 2),
  ("src/rules/no_invalid_regexp.rs", "visit_new_expr", "unwrap", 1),
  ("src/rules/no_invalid_triple_slash_reference.rs", "", "unwrap", 5),
  ("src/rules/no_irregular_whitespace.rs", "", "unwrap", 2),
  ("src/rules/no_misused_new.rs", "class_decl", "unwrap", 1),
  ("src/rules/no_misused_new.rs", "ts_interface_decl", "unwrap", 1),
  ("src/rules/no_node_globals.rs", "ends_line", "index", 1),
  ("src/rules/no_node_globals.rs", "has_semicolon", "index", 1),
  ("src/rules/no_node_globals.rs", "ident", "index", 1),
  ("src/rules/no_octal.rs", "number", "unwrap", 1),
  ("src/rules/no_process_global.rs", "ends_line", "index", 1),
  ("src/rules/no_process_global.rs", "has_semicolon", "index", 1),
  ("src/rules/no_regex_spaces.rs", "check_regex", "unwrap", 3),
  ("src/rules/no_self_assign.rs", "check_pat_and_expr", "index", 4),
  ("src/rules/no_self_assign.rs", "check_pat_and_expr", "unwrap", 2),
  ("src/rules/no_self_assign.rs", "check_same_member", "expect", 1),
  ("src/rules/no_sync_fn_in_async_fn.rs", "extract_symbol", "index", 1),
  ("src/rules/no_this_before_super.rs", "inside_function", "unwrap", 1),
  ("src/rules/no_this_before_super.rs", "leave_class", "assert!", 1),
  ("src/rules/no_unused_vars.rs", "with_cur_defining", "assert_eq!", 1),
  ("src/rules/no_var.rs", "var_decl", "unwrap", 1),
  ("src/rules/no_window_prefix.rs", "extract_symbol", "index", 1),
  ("src/rules/prefer_const.rs", "insert_var", "unwrap", 1),
  ("src/rules/prefer_const.rs", "proceed_status", "unwrap", 2),
  ("src/rules/prefer_namespace_keyword.rs", "ts_module_decl", "unwrap", 2),
  ("src/rules/react_no_danger_with_children.rs", "", "unwrap", 1),
  ("src/rules/react_rules_of_hooks.rs", "", "unwrap", 1),
  ("src/rules/require_await.rs", "find_async_token_range", "expect", 1),
  ("src/rules/require_await.rs", "process_function", "unwrap", 1),
  ("src/rules/require_yield.rs", "exit_function", "unwrap", 1),
  ("src/rules/triple_slash_reference.rs", "check_comment", "unwrap", 1),
  ("src/rules/verbatim_module_syntax.rs", "analyze_export", "index", 3),
  ("src/rules/verbatim_module_syntax.rs", "analyze_import", "index", 5)
]

theorem panic_sites_as_reviewed : DL.Gen.panicSites = reviewedPanicSites := by decide

/-- the sites inside the regular-expression validator and reader are the ones `validatePattern_never_panics` speaks about -/
theorem regex_sites_count :
    ((DL.Gen.panicSites.filter (fun r => r.1 == "src/js_regex/validator.rs" || r.1 == "src/js_regex/reader.rs")).map (·.2.2.2)).sum = 21 := by
  decide

end DL.Props.C01Sites
