import DL.Model.Regex

/-!
# C12 — no-invalid-regexp agrees with the ECMAScript regular-expression grammar

Model: `DL.Rx` (`Model/Regex.lean`), a function-by-function transcription of `js_regex/{reader,validator}.rs` and of
the rule's `check_regex`, tied to the code by exact verdict correspondence on generated pattern sequences (incl. panics),
and to ECMAScript by 39k verdicts recorded once from V8 11.3 (`corpus/regex_v8.jsonl`).

-- FULL: ∀ pattern flags, checkRegex … = true ↔ ¬ Derives (Pattern flags) pattern   (ES2022 + Annex B grammar)
Proved here (PARTIAL): the flag grammar exactly; the mode decision; UTF-16 unit bookkeeping; and kernel-evaluated
regression theorems for the eight defects repaired in /repo.  The pattern grammar itself is not yet related to an
inductive derivation relation; agreement with the engine is by the recorded-verdict oracle.
-/
namespace DL.Props.C12
open DL.Rx

set_option maxRecDepth 100000

def allowedFlags : List Nat := [ch 'g', ch 'i', ch 'm', ch 'u', ch 'y', ch 's', ch 'd', ch 'v']

theorem flagsLoop_ok (flags existing : List Nat) :
    validateFlagsLoop flags existing = .ok () ↔
      (∀ f ∈ flags, f ∈ allowedFlags) ∧ flags.Nodup ∧ (∀ f ∈ flags, f ∉ existing) := by
  induction flags generalizing existing with
  | nil => simp [validateFlagsLoop]
  | cons f r ih =>
    simp only [validateFlagsLoop]
    by_cases hdup : existing.contains f = true
    · simp only [hdup, if_true]
      constructor
      · intro h; cases h
      · rintro ⟨_, _, h3⟩
        exact absurd (List.contains_iff_mem.mp hdup) (h3 f List.mem_cons_self)
    · simp only [hdup, Bool.false_eq_true, if_false]
      have hne : f ∉ existing := fun h => hdup (List.contains_iff_mem.mpr h)
      by_cases hal : f ∈ allowedFlags
      · have hcond : (f == ch 'g' || f == ch 'i' || f == ch 'm' || (f == ch 'u' && true) || (f == ch 'y' && true) ||
            (f == ch 's' && true) || (f == ch 'd' && true) || (f == ch 'v' && true)) = true := by
          simp only [allowedFlags, List.mem_cons, List.not_mem_nil, or_false] at hal
          rcases hal with h | h | h | h | h | h | h | h <;> subst h <;> decide
        rw [if_pos hcond, ih]
        constructor
        · rintro ⟨h1, h2, h3⟩
          refine ⟨?_, ?_, ?_⟩
          · intro x hx; rcases List.mem_cons.mp hx with rfl | hx
            · exact hal
            · exact h1 x hx
          · exact List.nodup_cons.mpr ⟨fun hf => h3 f hf List.mem_cons_self, h2⟩
          · intro x hx; rcases List.mem_cons.mp hx with rfl | hx
            · exact hne
            · exact fun he => h3 x hx (List.mem_cons_of_mem _ he)
        · rintro ⟨h1, h2, h3⟩
          have h2' := List.nodup_cons.mp h2
          refine ⟨fun x hx => h1 x (List.mem_cons_of_mem _ hx), h2'.2, ?_⟩
          intro x hx he
          rcases List.mem_cons.mp he with rfl | he
          · exact h2'.1 hx
          · exact h3 x (List.mem_cons_of_mem _ hx) he
      · have hcond : (f == ch 'g' || f == ch 'i' || f == ch 'm' || (f == ch 'u' && true) || (f == ch 'y' && true) ||
            (f == ch 's' && true) || (f == ch 'd' && true) || (f == ch 'v' && true)) = false := by
          simp only [allowedFlags, List.mem_cons, List.not_mem_nil, or_false, not_or] at hal
          simp [hal.1, hal.2.1, hal.2.2.1, hal.2.2.2.1, hal.2.2.2.2.1, hal.2.2.2.2.2.1, hal.2.2.2.2.2.2.1, hal.2.2.2.2.2.2.2]
        rw [hcond]
        simp only [Bool.false_eq_true, if_false]
        constructor
        · intro h; cases h
        · rintro ⟨h1, _, _⟩; exact absurd (h1 f List.mem_cons_self) hal

/-- **flags**: accepted iff every flag is one of `dgimsuyv` and no flag is repeated -/
theorem flags_exact (flags : List Nat) :
    validateFlags flags = .ok () ↔ (∀ f ∈ flags, f ∈ allowedFlags) ∧ flags.Nodup := by
  unfold validateFlags
  rw [flagsLoop_ok]
  constructor
  · rintro ⟨h1, h2, _⟩; exact ⟨h1, h2⟩
  · rintro ⟨h1, h2⟩; exact ⟨h1, h2, fun _ _ h => by cases h⟩

/-- the flag check does not depend on the validator's state at all (it is a function of the flag string) -/
theorem flags_history_independent (flags : List Nat) : checkForInvalidFlags flags = true ↔ ¬ ((∀ f ∈ flags, f ∈ allowedFlags) ∧ flags.Nodup) := by
  unfold checkForInvalidFlags
  rw [← flags_exact]
  cases h : validateFlags flags with
  | ok u => simp
  | error e => simp

/-! ## UTF-16 bookkeeping of the reader -/
/-- number of UTF-16 code units of a scalar value -/
def units (c : Nat) : Nat := if c < 0x10000 then 1 else 2

theorem encodeUtf16_length (s : List Nat) : (encodeUtf16 s).length = (s.map units).sum := by
  induction s with
  | nil => rfl
  | cons c r ih =>
    simp only [encodeUtf16, List.map_cons, List.sum_cons, units]
    split <;> simp [ih] <;> omega

/-- without astral characters both measures coincide (why the defect F14 needed an astral character to show) -/
theorem encodeUtf16_bmp (s : List Nat) (h : ∀ c ∈ s, c < 0x10000) : encodeUtf16 s = s := by
  induction s with
  | nil => rfl
  | cons c r ih =>
    have hc := h c List.mem_cons_self
    simp only [encodeUtf16, hc, if_true]
    rw [ih (fun x hx => h x (List.mem_cons_of_mem _ hx))]

/-- every emitted unit is a 16-bit value; astral characters become a lead/trail surrogate pair -/
theorem encodeUtf16_units (s : List Nat) (h : ∀ c ∈ s, c < 0x110000) : ∀ u ∈ encodeUtf16 s, u < 0x10000 := by
  induction s with
  | nil => intro u hu; cases hu
  | cons c r ih =>
    have hc := h c List.mem_cons_self
    have ihr := ih (fun x hx => h x (List.mem_cons_of_mem _ hx))
    intro u hu
    simp only [encodeUtf16] at hu
    split at hu
    · rcases List.mem_cons.mp hu with rfl | hu
      · assumption
      · exact ihr u hu
    · have hq : (c - 65536) / 1024 < 1024 := Nat.div_lt_of_lt_mul (by omega)
      have hr : (c - 65536) % 1024 < 1024 := Nat.mod_lt _ (by decide)
      rcases List.mem_cons.mp hu with h1 | hu
      · rw [h1]
        generalize (c - 65536) / 1024 = q at hq; omega
      · rcases List.mem_cons.mp hu with h2 | hu
        · rw [h2]
          generalize (c - 65536) % 1024 = q at hr; omega
        · exact ihr u hu

/-! ## regression theorems: the defects repaired in /repo, evaluated on the model by the kernel -/
def verdict (pattern flags : List Char) : Option Bool :=
  match checkRegex 300 (strOf pattern) (strOf flags) St.new with
  | .ok b _ => some b
  | _ => none          -- panic / out of fuel

-- F1: `/(?<a/` used to panic (`cp.unwrap()` on `None`); now it is simply reported
example : verdict (chars! "(?<a") [] = some true := by decide +kernel
-- overflow: a huge quantifier is valid, no panic
example : verdict (chars! "a{99999999999999999999}") [] = some false := by decide +kernel
-- F14: astral character without the u flag
example : verdict (chars! "[😀]") (chars! "g") = some false := by decide +kernel
example : verdict (chars! "😀(") [] = some true := by decide +kernel
-- negated class starting with `^-`
example : verdict (chars! "[^-9]") (chars! "u") = some false := by decide +kernel
-- F15: `\00` with the u flag
example : verdict (chars! "\\00") (chars! "u") = some true := by decide +kernel
-- F13: no flags means non-unicode mode
example : verdict (chars! "\\u{61}+") [] = some true := by decide +kernel
example : verdict (chars! "\\u{61}+") (chars! "u") = some false := by decide +kernel
-- flags
example : verdict (chars! "a") (chars! "gg") = some true := by decide +kernel
example : verdict (chars! "a") (chars! "dgimsuy") = some false := by decide +kernel

end DL.Props.C12
