import DL.Model.Sched
import DL.Gen.DlintShape

/-!
# C19 — dlint's report and exit status do not depend on scheduling

For **every** set of per-file results with distinct paths and **every** schedule (permutation of the workers' critical
sections): the final map, the count, the report and the exit status are the same.
What the model cannot exhibit: rayon itself, the OS, and output written *inside* the workers (see DESIGN §5 C19: the
recoverable parse diagnostics used to be printed there — repaired in /repo so that they are collected with the file's
result and printed in path order).
-/
namespace DL.Props.C19
open DL.Sched

def Sorted (m : List (String × FileResult)) : Prop := m.Pairwise (fun a b => a.1 < b.1)

theorem mem_mapInsert (k : String) (v : FileResult) : ∀ (m : List (String × FileResult)) (x : String × FileResult),
    x ∈ mapInsert k v m → x = (k, v) ∨ x ∈ m
  | [], x, h => by simp only [mapInsert, List.mem_singleton] at h; exact Or.inl h
  | (k', v') :: r, x, h => by
    simp only [mapInsert] at h
    split at h
    · rcases List.mem_cons.mp h with h | h
      · exact Or.inl h
      · exact Or.inr h
    · split at h
      · rcases List.mem_cons.mp h with h | h
        · exact Or.inl h
        · exact Or.inr (List.mem_cons_of_mem _ h)
      · rcases List.mem_cons.mp h with h | h
        · exact Or.inr (by rw [h]; exact List.mem_cons_self)
        · rcases mem_mapInsert k v r x h with h | h
          · exact Or.inl h
          · exact Or.inr (List.mem_cons_of_mem _ h)

theorem mapInsert_sorted (k : String) (v : FileResult) :
    ∀ (m : List (String × FileResult)), Sorted m → Sorted (mapInsert k v m)
  | [], _ => by simp only [mapInsert]; exact List.pairwise_singleton _ _
  | (k', v') :: r, h => by
    have h' := List.pairwise_cons.mp h
    simp only [mapInsert]
    split
    · rename_i hlt
      refine List.pairwise_cons.mpr ⟨?_, h⟩
      intro x hx
      rcases List.mem_cons.mp hx with rfl | hx
      · exact hlt
      · exact String.lt_trans hlt (h'.1 x hx)
    · split
      · rename_i _ heq
        subst heq
        exact List.pairwise_cons.mpr ⟨h'.1, h'.2⟩
      · rename_i hnlt hne
        have hgt : k' < k := by
          rcases String.le_total k k' with h1 | h1
          · exact absurd (String.le_antisymm h1 (String.not_lt.mp hnlt)) hne
          · exact String.not_le.mp (fun h2 => hne (String.le_antisymm h2 h1))
        refine List.pairwise_cons.mpr ⟨?_, mapInsert_sorted k v r h'.2⟩
        intro x hx
        rcases mem_mapInsert k v r x hx with rfl | hx
        · exact hgt
        · exact h'.1 x hx

/-- inserting a fresh key adds exactly that entry -/
theorem mapInsert_perm (k : String) (v : FileResult) :
    ∀ (m : List (String × FileResult)), (∀ x ∈ m, x.1 ≠ k) → (mapInsert k v m).Perm ((k, v) :: m)
  | [], _ => by simp only [mapInsert]; exact List.Perm.refl _
  | (k', v') :: r, h => by
    simp only [mapInsert]
    split
    · exact List.Perm.refl _
    · split
      · rename_i _ heq; exact absurd heq.symm (h (k', v') List.mem_cons_self)
      · exact ((mapInsert_perm k v r (fun x hx => h x (List.mem_cons_of_mem _ hx))).cons _).trans (List.Perm.swap _ _ _)

theorem run_facts : ∀ (sched : List FileResult) (s : St), Sorted s.map →
    (∀ f ∈ sched, ∀ x ∈ s.map, x.1 ≠ f.path) → (sched.map (·.path)).Nodup →
    Sorted (sched.foldl step s).map ∧
    (sched.foldl step s).map.Perm ((sched.map fun f => (f.path, f)) ++ s.map) ∧
    (sched.foldl step s).count = s.count + (sched.map fun f => f.lint.length + f.parse.length).sum
  | [], s, hs, _, _ => ⟨hs, by simp, by simp⟩
  | f :: r, s, hs, hfresh, hnd => by
    simp only [List.map_cons, List.nodup_cons, List.mem_map, not_exists, not_and] at hnd
    have hp := mapInsert_perm f.path f s.map (fun x hx => hfresh f List.mem_cons_self x hx)
    have ih := run_facts r (step s f) (mapInsert_sorted _ _ _ hs)
      (by
        intro g hg x hx
        rcases mem_mapInsert _ _ _ _ hx with rfl | hx
        · intro e; exact hnd.1 g hg e.symm
        · exact hfresh g (List.mem_cons_of_mem _ hg) x hx)
      hnd.2
    refine ⟨ih.1, ?_, ?_⟩
    · simp only [List.foldl_cons, List.map_cons, List.cons_append]
      refine ih.2.1.trans ?_
      exact ((List.Perm.append_left _ hp).trans List.perm_middle)
    · simp only [List.foldl_cons, List.map_cons, List.sum_cons]
      rw [ih.2.2]; simp only [step]; omega

theorem perm_sum {l1 l2 : List Nat} (h : l1.Perm l2) : l1.sum = l2.sum := by
  induction h with
  | nil => rfl
  | cons x _ ih => simp [ih]
  | swap x y l => simp only [List.sum_cons]; omega
  | trans _ _ ih1 ih2 => exact ih1.trans ih2

/-- **the final state does not depend on the schedule** -/
theorem final_state_schedule_independent (s1 s2 : List FileResult) (hp : s1.Perm s2)
    (hnd : (s1.map (·.path)).Nodup) :
    (run s1).map = (run s2).map ∧ (run s1).count = (run s2).count := by
  have hnd2 : (s2.map (·.path)).Nodup := (hp.map _).nodup_iff.mp hnd
  have h1 := run_facts s1 { map := [], count := 0 } List.Pairwise.nil (fun _ _ _ h => by cases h) hnd
  have h2 := run_facts s2 { map := [], count := 0 } List.Pairwise.nil (fun _ _ _ h => by cases h) hnd2
  refine ⟨?_, ?_⟩
  · have hperm : (run s1).map.Perm (run s2).map := by
      refine h1.2.1.trans (List.Perm.trans ?_ h2.2.1.symm)
      simp only [List.append_nil]
      exact hp.map _
    have hs1 : (run s1).map.Pairwise (fun a b => a.1 < b.1) := h1.1
    have hs2 : (run s2).map.Pairwise (fun a b => a.1 < b.1) := h2.1
    refine List.Perm.eq_of_pairwise (le := fun a b => a.1 < b.1) ?_ hs1 hs2 hperm
    intro a b _ _ hab hba
    exact absurd hba (String.lt_asymm hab)
  · unfold run
    rw [h1.2.2, h2.2.2]
    congr 1
    exact perm_sum (hp.map _)

/-- hence the report (order of files by path, problem count) and the exit status do not depend on it either -/
theorem report_schedule_independent (s1 s2 : List FileResult) (hp : s1.Perm s2) (hnd : (s1.map (·.path)).Nodup) :
    report (run s1) = report (run s2) ∧ exitStatus (run s1) = exitStatus (run s2) := by
  obtain ⟨hm, hc⟩ := final_state_schedule_independent s1 s2 hp hnd
  unfold report exitStatus
  rw [hm, hc]; exact ⟨rfl, rfl⟩

/-- the count is the number of lint diagnostics plus recoverable parse diagnostics, and the status is 1 exactly when it
is non-zero -/
theorem count_exact (s : List FileResult) (hnd : (s.map (·.path)).Nodup) :
    (run s).count = (s.map fun f => f.lint.length + f.parse.length).sum ∧
    (exitStatus (run s) = 1 ↔ (run s).count ≠ 0) := by
  have h := run_facts s { map := [], count := 0 } List.Pairwise.nil (fun _ _ _ h => by cases h) hnd
  refine ⟨by simpa [run] using h.2.2, ?_⟩
  unfold exitStatus
  split <;> omega

/-- files are reported in path order -/
theorem report_order_by_path (s : List FileResult) (hnd : (s.map (·.path)).Nodup) : Sorted (run s).map :=
  (run_facts s { map := [], count := 0 } List.Pairwise.nil (fun _ _ _ h => by cases h) hnd).1

/-! non-vacuity -/
example : (run [⟨"b", ["x"], []⟩, ⟨"a", [], ["p"]⟩]).map.map (·.1) = ["a", "b"] ∧
    (run [⟨"b", ["x"], []⟩, ⟨"a", [], ["p"]⟩]).count = 2 := by decide

/-! ## the shape of `run_linter`, read off the source on every run

`Gen/DlintShape.lean` (syn translator): the calls of `run_linter` (examples/dlint/main.rs) that make up its collection and
reporting logic, in source order.  It is the shape M-SCHED models: one parallel `for_each` over `par_iter`; per file
`read_to_string`, `lint_file`, one `fetch_add` on the counter and one `insert` into the map of results under its lock, or one
`insert` into the map of failures; afterwards `pop_first` on the failures, then the results' `values` in key order, the
counter's `load`, `exit`.  A `store` for the `fetch_add`, a batch loop, a `dedup` or `canonicalize` of the paths, an early
`try_for_each`, printing from inside the workers (`eprintln!` before the parallel phase ends) — each changes this list. -/
theorem dlint_shape_as_modelled :
    DL.Gen.dlintCalls =
      ["vec!", "vec!", "bail!", "debug!", "for_each", "par_iter", "read_to_string", "lint_file", "panic!", "fetch_add", "lock",
       "insert", "insert", "lock", "pop_first", "lock", "values", "lock", "eprintln!", "display_diagnostics", "load",
       "eprintln!", "exit"] := by
  decide

end DL.Props.C19
