import DL.Model.Fix
import DL.Model.FixBuild

/-!
# C13 — applying a quick fix (text algebra part)

For every text and every list of changes that is sorted, non-overlapping and in bounds: the spliced result is the
same whether the changes are applied in one left-to-right pass or one at a time from the last to the first (so the
offsets of earlier changes are never disturbed); the untouched prefix and suffix survive; lengths add up.
"Still parses" and "strictly fewer diagnostics" need swc and the rule bodies: they are checked by the search step
only (every offered fix is applied, re-parsed and re-linted).
-/
namespace DL.Props.C13
open DL.Fix

variable {α : Type}

/-- one pass = one at a time, last change first -/
theorem applyFrom_foldr (text : List α) : ∀ (cursor : Nat) (cs : List (Change α)), WF text.length cursor cs →
    text.take cursor ++ applyFrom text cursor cs = cs.foldr applyOne text
  | cursor, [], _ => by simp [applyFrom]
  | cursor, c :: r, h => by
    obtain ⟨h1, h2, h3, h4⟩ := h
    have ih := applyFrom_foldr text c.stop r h4
    simp only [applyFrom, List.foldr_cons, applyOne]
    rw [← ih]
    have hlen : (text.take c.stop).length = c.stop := by simp; omega
    have e1 : (text.take c.stop ++ applyFrom text c.stop r).take c.start = text.take c.start := by
      rw [List.take_append_of_le_length (by omega), List.take_take]; congr 1; omega
    have e2 : (text.take c.stop ++ applyFrom text c.stop r).drop c.stop = applyFrom text c.stop r := by
      rw [List.drop_append_of_le_length (by omega)]
      have : (text.take c.stop).drop c.stop = [] := by
        apply List.drop_eq_nil_of_le; omega
      rw [this, List.nil_append]
    rw [e1, e2]
    have e3 : text.take cursor ++ (text.drop cursor).take (c.start - cursor) = text.take c.start := by
      have : c.start = cursor + (c.start - cursor) := by omega
      rw [this, List.take_add]; simp
    rw [← List.append_assoc, ← List.append_assoc, e3]

theorem applyFix_foldr (text : List α) (cs : List (Change α)) (h : WF text.length 0 cs) :
    applyFix text cs = cs.foldr applyOne text := by
  have := applyFrom_foldr text 0 cs h
  simpa [applyFix] using this

/-- the text before the first change is untouched -/
theorem prefix_preserved (text : List α) (c : Change α) (r : List (Change α)) (h : WF text.length 0 (c :: r)) :
    (applyFix text (c :: r)).take c.start = text.take c.start := by
  obtain ⟨_, h2, h3, _⟩ := h
  simp only [applyFix, applyFrom, Nat.sub_zero, List.drop_zero]
  rw [List.append_assoc, List.take_append_of_le_length (by simp; omega)]
  rw [List.take_take]; congr 1; omega

/-- no change, no difference -/
theorem applyFix_nil (text : List α) : applyFix text [] = text := by simp [applyFix, applyFrom]

/-- a single change is `prefix ++ new ++ suffix` -/
theorem applyFix_single (text : List α) (c : Change α) :
    applyFix text [c] = text.take c.start ++ c.newText ++ text.drop c.stop := by
  simp [applyFix, applyFrom]

/-- the length bookkeeping -/
theorem applyFrom_length (text : List α) : ∀ (cursor : Nat) (cs : List (Change α)), WF text.length cursor cs →
    (applyFrom text cursor cs).length + cursor + (cs.map (fun c => c.stop - c.start)).sum =
      text.length + (cs.map (fun c => c.newText.length)).sum
  | cursor, [], h => by simp [applyFrom, WF] at *; omega
  | cursor, c :: r, h => by
    obtain ⟨h1, h2, h3, h4⟩ := h
    have ih := applyFrom_length text c.stop r h4
    simp only [applyFrom, List.length_append, List.length_take, List.length_drop, List.map_cons, List.sum_cons]
    omega

/-! non-vacuity -/
example : applyFix [1, 2, 3, 4, 5, 6] [⟨1, 2, [9, 9]⟩, ⟨4, 6, []⟩] = [1, 9, 9, 3, 4] := by decide
example : WF (α := Nat) 6 0 [⟨1, 2, [9, 9]⟩, ⟨4, 6, []⟩] := by simp [WF]

/-! ## builders: the text of `jsx-curly-braces`' attribute fix is one JSX string token denoting the value -/
open DL.FixBuild in
theorem untilQuote_append (q : Char) (v rest : List Char) (hv : q ∉ v) :
    untilQuote q (v ++ q :: rest) = some (v, rest) := by
  induction v with
  | nil => simp [untilQuote]
  | cons c t ih =>
    have hc : c ≠ q := fun h => hv (by simp [h])
    have ht : q ∉ t := fun h => hv (List.mem_cons_of_mem _ h)
    simp [untilQuote, hc, ih ht]

open DL.FixBuild in
/-- for every attribute value: if a fix is offered, then whatever follows it in the file, the replacement lexes as
exactly one JSX attribute string whose content is the value (the defect repaired in 27a9c7f: `"a"b"`) -/
theorem jsxAttrQuote_lexes (v t rest : List Char) (h : jsxAttrQuote v = some t) :
    lexJsxAttrString (t ++ rest) = some (v, rest) := by
  unfold jsxAttrQuote at h
  by_cases h1 : (!v.contains '"') = true
  · rw [if_pos h1] at h
    injection h with h; subst h
    have : '"' ∉ v := by simpa using h1
    simp only [List.cons_append, List.append_assoc, lexJsxAttrString, true_or, if_true]
    exact untilQuote_append '"' v rest this
  · rw [if_neg h1] at h
    by_cases h2 : (!v.contains '\'') = true
    · rw [if_pos h2] at h
      injection h with h; subst h
      have : '\'' ∉ v := by simpa using h2
      simp only [List.cons_append, List.append_assoc, lexJsxAttrString, or_true, if_true]
      exact untilQuote_append '\'' v rest this
    · rw [if_neg h2] at h; cases h

open DL.FixBuild in
/-- a fix is withheld only when the value contains both kinds of quote (then no delimiter works) -/
theorem jsxAttrQuote_none_iff (v : List Char) : jsxAttrQuote v = none ↔ ('"' ∈ v ∧ '\'' ∈ v) := by
  unfold jsxAttrQuote
  by_cases h1 : '"' ∈ v <;> by_cases h2 : '\'' ∈ v <;> simp [h1, h2]

open DL.FixBuild in
example : jsxAttrQuote ['a', '"', 'b'] = some ['\'', 'a', '"', 'b', '\''] ∧
    lexJsxAttrString (['\'', 'a', '"', 'b', '\''] ++ [' ', '/', '>']) = some (['a', '"', 'b'], [' ', '/', '>']) := by decide

end DL.Props.C13
