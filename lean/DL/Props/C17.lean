import DL.Props.C05
import DL.Gen.LinterCtx

/-!
# C17 — custom directive names are honoured independently of each other

* a model of the word selection of `LinterContext::new`, and its independence properties;
* the translator table `Gen/LinterCtx` (regenerated from `src/linter.rs` by syn on every run) decides that the real
  initialisers are the model's: each word field reads *its own* option with its own default, and each directive
  parser receives its own field;
* the directive parser theorems (C05–C07) are parametric in the word, so "all guarantees of C05-C07" carry over.
-/
namespace DL.Props.C17

structure Options where
  customFile : Option String
  customLine : Option String

def fileWord (o : Options) : String := o.customFile.getD "deno-lint-ignore-file"
def lineWord (o : Options) : String := o.customLine.getD "deno-lint-ignore"

/-- overriding one kind leaves the other kind's word unchanged -/
theorem file_override_leaves_line (o : Options) (w : Option String) :
    lineWord { o with customFile := w } = lineWord o := rfl
theorem line_override_leaves_file (o : Options) (w : Option String) :
    fileWord { o with customLine := w } = fileWord o := rfl

/-- exactly the configured word acts -/
theorem custom_file_word (o : Options) (w : String) (h : o.customFile = some w) : fileWord o = w := by simp [fileWord, h]
theorem custom_line_word (o : Options) (w : String) (h : o.customLine = some w) : lineWord o = w := by simp [lineWord, h]
theorem default_words : fileWord ⟨none, none⟩ = "deno-lint-ignore-file" ∧ lineWord ⟨none, none⟩ = "deno-lint-ignore" := ⟨rfl, rfl⟩

open DL.Dir in
/-- a comment is recognised as a directive only if its first word *is* the configured word: the default word of an
overridden kind stops being recognised, and no other word is -/
theorem only_configured_word_acts (word : List Char) (text : List Char) (codes : List (List Char))
    (h : parseIgnore word .line text = some codes) : firstWord (trim text) = some word := by
  unfold parseIgnore at h
  simp only [bne_self_eq_false, Bool.false_eq_true, if_false] at h
  split at h
  · cases h
  · rename_i p hp
    split at h
    · rename_i heq; rw [hp, heq]
    · cases h

/-! ## the real code computes the words as the model does (re-decided on every run from /repo) -/
open DL.Gen

theorem table_word_fields :
    linterCtxWordFields =
      [("ignore_file_directive", "custom_ignore_file_directive", "deno-lint-ignore-file"),
       ("ignore_diagnostic_directive", "custom_ignore_diagnostic_directive", "deno-lint-ignore")] := by decide

theorem table_parser_calls :
    directiveParserCalls =
      [("parse_file_ignore_directives", "ignore_file_directive"),
       ("parse_line_ignore_directives", "ignore_diagnostic_directive")] := by decide

/-- no other field of `LinterContext` depends on the two custom-word options -/
theorem table_other_fields_do_not_read_words :
    ∀ f ∈ linterCtxOtherFields, f.2 ∈ ["check_unknown_rules", "rules", "options . all_rule_codes"] := by decide

/-! non-vacuity -/
example : fileWord ⟨some "x-file", none⟩ = "x-file" ∧ lineWord ⟨some "x-file", none⟩ = "deno-lint-ignore" := ⟨rfl, rfl⟩
example : DL.Dir.parseIgnore (chars! "my-ignore") .line (chars! " deno-lint-ignore no-var") = none := by decide
example : DL.Dir.parseIgnore (chars! "my-ignore") .line (chars! " my-ignore no-var") = some [chars! "no-var"] := by decide

end DL.Props.C17
