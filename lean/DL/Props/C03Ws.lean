import DL.Gen.RuleStructs
import DL.Model.Ws
namespace DL.Props.C03Ws
open DL.Txt (utf8Len bytes) 
open DL.Ws

theorem utf8Len_pos (c : Char) : 0 < utf8Len c := by unfold utf8Len; split <;> (try split) <;> (try split) <;> omega

theorem bytes_cons (c : Char) (t : List Char) : bytes (c :: t) = utf8Len c + bytes t := by simp [bytes]
theorem bytes_append (a b : List Char) : bytes (a ++ b) = bytes a + bytes b := by simp [bytes, List.map_append, List.sum_append]

def curOk (cur : Option Nat) (i : Nat) : Prop := ∀ s, cur = some s → s < i

/-- every run is a non-empty range inside the text (or starting at the run in progress) -/
theorem runs_bounds : ∀ (t : List Char) (cur : Option Nat) (i : Nat), curOk cur i →
    ∀ r ∈ runs cur i t, r.start < r.stop ∧ (cur.getD i) ≤ r.start ∧ r.stop ≤ i + bytes t := by
  intro t
  induction t with
  | nil =>
    intro cur i hc r hr
    cases cur with
    | none => simp [runs] at hr
    | some s =>
      simp [runs] at hr; subst hr
      have := hc s rfl
      simp [bytes]; omega
  | cons c t ih =>
    intro cur i hc r hr
    have hp := utf8Len_pos c
    simp only [runs] at hr
    split at hr
    · have := ih (some (cur.getD i)) (i + utf8Len c) (by
        intro s hs; cases cur with
        | none => simp at hs; omega
        | some s' => simp at hs; have := hc s' rfl; omega) r hr
      simp only [Option.getD_some] at this
      rw [bytes_cons]; omega
    · rw [List.mem_append] at hr
      rcases hr with hr | hr
      · cases cur with
        | none => simp at hr
        | some s =>
          simp at hr; subst hr
          have := hc s rfl
          simp [bytes_cons]; omega
      · have := ih none (i + utf8Len c) (by intro s hs; simp at hs) r hr
        simp only [Option.getD_none] at this
        rw [bytes_cons]
        cases cur with
        | none => simp; omega
        | some s => have := hc s rfl; simp; omega

theorem lineTerms_bounds : ∀ (t : List Char) (i : Nat), ∀ r ∈ lineTerms i t, r.start < r.stop ∧ i ≤ r.start ∧ r.stop ≤ i + bytes t := by
  intro t
  induction t with
  | nil => intro i r hr; simp [lineTerms] at hr
  | cons c t ih =>
    intro i r hr
    have hp := utf8Len_pos c
    simp only [lineTerms, List.mem_append] at hr
    rcases hr with hr | hr
    · split at hr
      · simp at hr; subst hr; simp [bytes_cons]; omega
      · simp at hr
    · have := ih (i + utf8Len c) r hr
      rw [bytes_cons]; omega

/-- **C03 for no-irregular-whitespace**: every reported range is non-empty and lies inside the file -/
theorem scan_bounds : ∀ (segs : List (Bool × List Char)) (i : Nat), ∀ r ∈ scan i segs,
    r.start < r.stop ∧ i ≤ r.start ∧ r.stop ≤ i + bytes (segs.flatMap (·.2)) := by
  intro segs
  induction segs with
  | nil => intro i r hr; simp [scan] at hr
  | cons sg rest ih =>
    intro i r hr
    obtain ⟨b, t⟩ := sg
    simp only [List.flatMap_cons, bytes_append]
    cases b with
    | true =>
      simp only [scan, List.mem_append, gap] at hr
      rcases hr with (hr | hr) | hr
      · have := runs_bounds t none i (by intro s hs; simp at hs) r hr
        simp only [Option.getD_none] at this; omega
      · have := lineTerms_bounds t i r hr; omega
      · have := ih (i + bytes t) r hr; omega
    | false =>
      simp only [scan] at hr
      have := ih (i + bytes t) r hr; omega

def shift (k : Nat) (r : Rng) : Rng := ⟨r.start + k, r.stop + k⟩

theorem runs_shift : ∀ (t : List Char) (cur : Option Nat) (i k : Nat),
    runs (cur.map (· + k)) (i + k) t = (runs cur i t).map (shift k) := by
  intro t
  induction t with
  | nil => intro cur i k; cases cur <;> simp [runs, shift]
  | cons c t ih =>
    intro cur i k
    simp only [runs]
    split
    · have := ih (some (cur.getD i)) (i + utf8Len c) k
      have e : i + k + utf8Len c = i + utf8Len c + k := by omega
      rw [e]
      cases cur with
      | none => simpa using this
      | some s => simpa using this
    · have := ih none (i + utf8Len c) k
      have e : i + k + utf8Len c = i + utf8Len c + k := by omega
      rw [e, List.map_append]
      cases cur with
      | none => simpa using this
      | some s => simp [shift]; simpa using this

theorem lineTerms_shift : ∀ (t : List Char) (i k : Nat), lineTerms (i + k) t = (lineTerms i t).map (shift k) := by
  intro t
  induction t with
  | nil => intro i k; simp [lineTerms]
  | cons c t ih =>
    intro i k
    have e : i + k + utf8Len c = i + utf8Len c + k := by omega
    simp only [lineTerms, List.map_append, e, ih]
    split <;> simp [shift] <;> omega

/-- **C09 for no-irregular-whitespace**: moving the file by `k` bytes moves every range by `k` -/
theorem scan_shift : ∀ (segs : List (Bool × List Char)) (i k : Nat), scan (i + k) segs = (scan i segs).map (shift k) := by
  intro segs
  induction segs with
  | nil => intro i k; simp [scan]
  | cons sg rest ih =>
    intro i k
    obtain ⟨b, t⟩ := sg
    have e : i + k + bytes t = i + bytes t + k := by omega
    cases b with
    | true =>
      simp only [scan, gap, List.map_append, e, ih]
      have := runs_shift t none i k
      simp only [Option.map_none] at this
      rw [this, lineTerms_shift]
    | false => simp only [scan, e, ih]

/-- a prefix without irregular characters contributes nothing of its own … -/
theorem runs_clean_prefix : ∀ (p g : List Char) (i : Nat), (∀ c ∈ p, isIrregular c = false) →
    runs none i (p ++ g) = runs none (i + bytes p) g := by
  intro p
  induction p with
  | nil => intro g i _; simp [bytes]
  | cons c p ih =>
    intro g i h
    have hc : isIrregular c = false := h c (by simp)
    simp only [List.cons_append, runs, hc, Bool.false_eq_true, if_false, List.nil_append]
    rw [ih g (i + utf8Len c) (fun d hd => h d (by simp [hd])), bytes_cons]
    congr 1; omega

theorem lineTerms_clean_prefix : ∀ (p g : List Char) (i : Nat), (∀ c ∈ p, isLineTerm c = false) →
    lineTerms i (p ++ g) = lineTerms (i + bytes p) g := by
  intro p
  induction p with
  | nil => intro g i _; simp [bytes]
  | cons c p ih =>
    intro g i h
    have hc : isLineTerm c = false := h c (by simp)
    simp only [List.cons_append, lineTerms, hc, Bool.false_eq_true, if_false, List.nil_append]
    rw [ih g (i + utf8Len c) (fun d hd => h d (by simp [hd])), bytes_cons]
    congr 1; omega

/-- … so text without irregular characters put in front of the first gap (blank lines, spaces, ordinary comments) only
moves the findings of the file -/
theorem clean_prefix_only_shifts (p g : List Char) (rest : List (Bool × List Char))
    (h1 : ∀ c ∈ p, isIrregular c = false) (h2 : ∀ c ∈ p, isLineTerm c = false) :
    noIrregularWhitespace ((true, p ++ g) :: rest) = (noIrregularWhitespace ((true, g) :: rest)).map (shift (bytes p)) := by
  simp only [noIrregularWhitespace, scan, gap, List.map_append]
  rw [runs_clean_prefix p g 0 h1, lineTerms_clean_prefix p g 0 h2, bytes_append]
  have r1 := runs_shift g none 0 (bytes p)
  have r2 := lineTerms_shift g 0 (bytes p)
  have r3 := scan_shift rest (0 + bytes g) (bytes p)
  simp only [Option.map_none, Nat.zero_add] at r1 r2 r3 ⊢
  rw [r1, r2, ← r3]
  congr 2; omega

-- `a  b ` as one gap: one run of two no-break spaces, one line separator
example : noIrregularWhitespace [(true, ['a', ' ', ' ', 'b', ' '])] = [⟨1, 5⟩, ⟨6, 9⟩] := by decide
-- inside a token nothing is reported
example : noIrregularWhitespace [(true, [' ']), (false, ['"', ' ', '"']), (true, ['　'])] = [⟨5, 8⟩] := by decide

/-! ## the two regular expressions of no-irregular-whitespace, read off the source on every run

M-WS re-implements `IRREGULAR_WHITESPACE` (maximal runs of 22 characters) and `IRREGULAR_LINE_TERMINATORS` by hand.  The
literals of the source (`Gen/RuleStructs.lean`, every `Regex::new(<literal>)`) are the ones modelled. -/
theorem ws_regexes_as_modelled :
    DL.Gen.regexLiterals.filter (fun r => r.1 == "src/rules/no_irregular_whitespace.rs") =
      [("src/rules/no_irregular_whitespace.rs", "IRREGULAR_WHITESPACE",
         "[\\f\\v\\u0085\\ufeff\\u00a0\\u1680\\u180e\\u2000\\u2001\\u2002\\u2003\\u2004\\u2005\\u2006\\u2007\\u2008\\u2009\\u200a\\u200b\\u202f\\u205f\\u3000]+"),
       ("src/rules/no_irregular_whitespace.rs", "IRREGULAR_LINE_TERMINATORS", "[\\u2028\\u2029]")] := by
  decide +kernel

end DL.Props.C03Ws
