import DL.Props.C12CompleteB
import DL.Props.C12

/-!
# C12: regression of the ordered-choice correction of `RegexSpecB`

Annex B.1.2 says that its grammar is ambiguous and that "each alternative is considered only if previous production
alternatives do not match" (ordered choice).  The first version of `DL/Model/RegexSpecB.lean` did not encode that
ordering: e.g. its `IdentityEscape[~U]` applied to every character other than `c` (`k`), also where `0`, a hex /
unicode / legacy octal escape or a `ControlEscape` matches.  The reading matters for one early error, the order of
the ends of a class range, and for `\b` / `\B` followed by a quantifier.

`[\1-\0]`: the validator (like an engine) reads `\1` as the legacy octal escape U+0001 and `\0` as U+0000 and reports
"Range out of order".  In the unordered grammar the same text also had the derivation `\1` = U+0001, `\0` = the
identity escape of `0` = U+0030, which has no early error (that derivation was formalised here as `gap_derivable`).
With the side conditions marked "ordered choice" in `RegexSpecB` this and the other witnesses are **not** derivable
any more — proved below from `checkRegex_nonU_iff` (the validator decides the corrected grammar) and the verdicts.
-/
namespace DL.Props.C12
open DL.Rx DL.RxSpec

/-- the validator reports it … -/
theorem gap_verdict : verdict (chars! "[\\1-\\0]") [] = some true := by decide +kernel

/-- a pattern (short enough for the fuel of `verdict`) that the validator reports without flags is not derivable -/
theorem not_valid_of_verdict (p : List Char) (hv : verdict p [] = some true)
    (hsrc : ∀ x ∈ strOf p, x < 0x110000) (hlen : fuelBound (strOf p).length ≤ 300) :
    ¬RxSpecB.ValidPatternWith qokModel (strOf p) := by
  intro h
  have hl : (strOf p).length < 2 ^ 61 := by
    unfold fuelBound at hlen; omega
  obtain ⟨b, s', he, hiff⟩ := checkRegex_nonU_iff 300 (strOf p) (strOf []) St.new (by decide) (by decide) hsrc hl hlen
  have hb := hiff.mpr h
  subst hb
  unfold verdict at hv
  rw [he] at hv
  cases hv

/-- … and the corrected grammar does not derive it (the unordered one did) -/
theorem gap_not_derivable : ¬RxSpecB.ValidPatternWith qokModel (strOf (chars! "[\\1-\\0]")) :=
  not_valid_of_verdict _ gap_verdict (by decide) (by decide)

/-- in particular the step of the old derivation is gone: `0` after `\` is no identity escape, because the earlier
alternatives `\0` / `LegacyOctalEscapeSequence` start there (the new side condition of `CharacterEscape.identity`) -/
theorem identity_zero_gone (r : List Nat) : ¬RxSpecB.EarlierEscapeFree (c '0') r :=
  fun h => h.2.1 (show c '0' ≤ c '0' ∧ c '0' ≤ c '7' by decide)

/-- the other witnesses of the gap: each is reported, so none is derivable any more -/
theorem gap_control_escape : ¬RxSpecB.ValidPatternWith qokModel (strOf (chars! "[\\n-\\t]")) :=
  not_valid_of_verdict _ (by decide +kernel) (by decide) (by decide)   -- identity `n`,`t` vs ControlEscape
theorem gap_hex : ¬RxSpecB.ValidPatternWith qokModel (strOf (chars! "[a-\\x41]")) :=
  not_valid_of_verdict _ (by decide +kernel) (by decide) (by decide)   -- identity `x` vs HexEscapeSequence
theorem gap_unicode : ¬RxSpecB.ValidPatternWith qokModel (strOf (chars! "[a-\\u0041]")) :=
  not_valid_of_verdict _ (by decide +kernel) (by decide) (by decide)   -- identity `u` vs `A`
theorem gap_control_letter : ¬RxSpecB.ValidPatternWith qokModel (strOf (chars! "[A-\\cA]")) :=
  not_valid_of_verdict _ (by decide +kernel) (by decide) (by decide)   -- `\` [lookahead = c] vs `c ControlLetter`
theorem gap_class_control_letter : ¬RxSpecB.ValidPatternWith qokModel (strOf (chars! "[A-\\c1]")) :=
  not_valid_of_verdict _ (by decide +kernel) (by decide) (by decide)   -- `\` [lookahead = c] vs `c ClassControlLetter`
theorem gap_word_boundary : ¬RxSpecB.ValidPatternWith qokModel (strOf (chars! "\\b*")) :=
  not_valid_of_verdict _ (by decide +kernel) (by decide) (by decide)   -- the assertion `\b` vs the identity escape of `b`

#print axioms gap_not_derivable

end DL.Props.C12
