import DL.Props.C06

/-!
# C04 — only enabled rules report; rules do not influence one another (pipeline part)

`codes_enabled`: for every raw list whose codes are enabled-or-external, every directive state and configuration,
each code of the result is the code of a raw diagnostic, or an accounting rule's code *and that rule is enabled*.
The per-rule independence (append-only contract of `Context`) is `DL.Props.C04Run`.
-/
namespace DL.Props.C04
open DL.Pipe DL.Props.C06

theorem codes_enabled (cfg : Cfg) (extCodes : List String) (st : St) (raw : List Diag) (d : Diag)
    (h : d ∈ collect cfg extCodes st raw) :
    d ∈ raw ∨ (d.code = cUnknown ∧ cUnknown ∈ cfg.configured) ∨
      (d.code = cUnused ∧ (cUnused ∈ cfg.configured ∨ cUnused ∈ extCodes)) := by
  rw [collect_eq, List.mem_mergeSort, List.mem_append] at h
  rcases h with h | h
  · exact Or.inl (List.mem_filter.mp h).1
  · unfold accounting at h
    rcases List.mem_append.mp h with h | h
    · obtain ⟨h1, h2, _⟩ := banUnknown_code h
      refine Or.inr (Or.inl ⟨h1, ?_⟩)
      simpa [Cfg.checkUnknown] using h2
    · split at h
      · rename_i hc
        refine Or.inr (Or.inr ⟨(banUnused_code h).1, ?_⟩)
        have := List.contains_iff_mem.mp hc
        rcases List.mem_append.mp this with h' | h'
        · exact Or.inr h'
        · exact Or.inl h'
      · cases h

/-- in terms of `lint_inner`: every reported code was reported by a configured rule / the external linter, or is an
enabled accounting rule's -/
theorem lintInner_codes_enabled (cfg : Cfg) (st : St) (ruleDiags : List Diag) (ext : Option (List Diag × List String))
    (d : Diag) (h : d ∈ lintInner cfg st ruleDiags ext) :
    d ∈ ruleDiags ∨ (∃ e, ext = some e ∧ d ∈ e.1) ∨ (d.code = cUnknown ∧ cUnknown ∈ cfg.configured) ∨
      (d.code = cUnused ∧ (cUnused ∈ cfg.configured ∨ ∃ e, ext = some e ∧ cUnused ∈ e.2)) := by
  unfold lintInner at h
  split at h
  · cases h
  · cases ext with
    | none =>
      rcases codes_enabled _ _ _ _ _ h with h | h | ⟨h1, h2⟩
      · exact Or.inl h
      · exact Or.inr (Or.inr (Or.inl h))
      · rcases h2 with h2 | h2
        · exact Or.inr (Or.inr (Or.inr ⟨h1, Or.inl h2⟩))
        · cases h2
    | some e =>
      obtain ⟨ed, ec⟩ := e
      rcases codes_enabled _ _ _ _ _ h with h | h | ⟨h1, h2⟩
      · rcases List.mem_append.mp h with h | h
        · exact Or.inl h
        · exact Or.inr (Or.inl ⟨_, rfl, h⟩)
      · exact Or.inr (Or.inr (Or.inl h))
      · rcases h2 with h2 | h2
        · exact Or.inr (Or.inr (Or.inr ⟨h1, Or.inl h2⟩))
        · exact Or.inr (Or.inr (Or.inr ⟨h1, Or.inr ⟨_, rfl, h2⟩⟩))

end DL.Props.C04
