import DL.Props.C06
import DL.Gen.CtxAccess

/-!
# C04 — only enabled rules report; rules do not influence one another (pipeline part)

`codes_enabled`: for every raw list whose codes are enabled-or-external, every directive state and configuration,
each code of the result is the code of a raw diagnostic, or an accounting rule's code *and that rule is enabled*.
The per-rule independence (append-only contract of `Context`) is `DL.Props.C04Run`.
-/
namespace DL.Props.C04
open DL.Pipe DL.Props.C06

theorem codes_enabled (cfg : Cfg) (extCodes : List String) (st : St) (raw : List Diag) (d : Diag)
    (h : d ∈ collect cfg extCodes st raw) :
    d ∈ raw ∨ (d.code = cUnknown ∧ cUnknown ∈ cfg.configured) ∨
      (d.code = cUnused ∧ (cUnused ∈ cfg.configured ∨ cUnused ∈ extCodes)) := by
  rw [collect_eq, List.mem_mergeSort, List.mem_append] at h
  rcases h with h | h
  · exact Or.inl (List.mem_filter.mp h).1
  · unfold accounting at h
    rcases List.mem_append.mp h with h | h
    · obtain ⟨h1, h2, _⟩ := banUnknown_code h
      refine Or.inr (Or.inl ⟨h1, ?_⟩)
      simpa [Cfg.checkUnknown] using h2
    · split at h
      · rename_i hc
        refine Or.inr (Or.inr ⟨(banUnused_code h).1, ?_⟩)
        have := List.contains_iff_mem.mp hc
        rcases List.mem_append.mp this with h' | h'
        · exact Or.inr h'
        · exact Or.inl h'
      · cases h

/-- in terms of `lint_inner`: every reported code was reported by a configured rule / the external linter, or is an
enabled accounting rule's -/
theorem lintInner_codes_enabled (cfg : Cfg) (st : St) (ruleDiags : List Diag) (ext : Option (List Diag × List String))
    (d : Diag) (h : d ∈ lintInner cfg st ruleDiags ext) :
    d ∈ ruleDiags ∨ (∃ e, ext = some e ∧ d ∈ e.1) ∨ (d.code = cUnknown ∧ cUnknown ∈ cfg.configured) ∨
      (d.code = cUnused ∧ (cUnused ∈ cfg.configured ∨ ∃ e, ext = some e ∧ cUnused ∈ e.2)) := by
  unfold lintInner at h
  split at h
  · cases h
  · cases ext with
    | none =>
      rcases codes_enabled _ _ _ _ _ h with h | h | ⟨h1, h2⟩
      · exact Or.inl h
      · exact Or.inr (Or.inr (Or.inl h))
      · rcases h2 with h2 | h2
        · exact Or.inr (Or.inr (Or.inr ⟨h1, Or.inl h2⟩))
        · cases h2
    | some e =>
      obtain ⟨ed, ec⟩ := e
      rcases codes_enabled _ _ _ _ _ h with h | h | ⟨h1, h2⟩
      · rcases List.mem_append.mp h with h | h
        · exact Or.inl h
        · exact Or.inr (Or.inl ⟨_, rfl, h⟩)
      · exact Or.inr (Or.inr (Or.inl h))
      · rcases h2 with h2 | h2
        · exact Or.inr (Or.inr (Or.inr ⟨h1, Or.inl h2⟩))
        · exact Or.inr (Or.inr (Or.inr ⟨h1, Or.inr ⟨_, rfl, h2⟩⟩))

/-! ## rules do not influence one another: the append-only contract of `Context` -/

/-- an ordinary rule: reads immutable facts about the file, appends diagnostics tagged with its own code -/
structure ARule (F : Type) where
  code : String
  report : F → List Diag
  own : ∀ f, ∀ d ∈ report f, d.code = code

/-- `for rule in rules { rule.lint_program_with_ast_view(&mut context, pg) }` for append-only rules -/
def runRules {F : Type} (rules : List (ARule F)) (f : F) : List Diag := rules.flatMap fun r => r.report f

/-- the diagnostics a rule contributes are the same whether it runs alone or together with any other rules, in any
position of the rule list -/
theorem project_run {F : Type} (rules : List (ARule F)) (hn : (rules.map (·.code)).Nodup) (r : ARule F) (hr : r ∈ rules)
    (f : F) : (runRules rules f).filter (fun d => d.code == r.code) = r.report f := by
  unfold runRules
  induction rules with
  | nil => cases hr
  | cons x rest ih =>
    simp only [List.map_cons, List.nodup_cons, List.mem_map, not_exists, not_and] at hn
    simp only [List.flatMap_cons, List.filter_append]
    rcases List.mem_cons.mp hr with rfl | hr'
    · have h1 : (r.report f).filter (fun d => d.code == r.code) = r.report f := by
        apply List.filter_eq_self.mpr; intro d hd; simp [r.own f d hd]
      have h2 : (rest.flatMap fun y => y.report f).filter (fun d => d.code == r.code) = [] := by
        apply List.filter_eq_nil_iff.mpr
        intro d hd
        obtain ⟨y, hy, hdy⟩ := List.mem_flatMap.mp hd
        have := y.own f d hdy
        simp only [beq_iff_eq]
        intro e; exact hn.1 y hy (by rw [← this, e])
      rw [h1, h2, List.append_nil]
    · have h1 : (x.report f).filter (fun d => d.code == r.code) = [] := by
        apply List.filter_eq_nil_iff.mpr
        intro d hd
        have := x.own f d hd
        simp only [beq_iff_eq]
        intro e; exact hn.1 r hr' (by rw [← e, this])
      rw [h1, List.nil_append]; exact ih hn.2 hr'

/-- the order in which the rules were supplied does not matter for any single rule's contribution -/
theorem project_run_perm {F : Type} (rules rules' : List (ARule F)) (hp : rules.Perm rules')
    (hn : (rules.map (·.code)).Nodup) (r : ARule F) (hr : r ∈ rules) (f : F) :
    (runRules rules f).filter (fun d => d.code == r.code) = (runRules rules' f).filter (fun d => d.code == r.code) := by
  rw [project_run rules hn r hr f, project_run rules' ((hp.map _).nodup_iff.mp hn) r (hp.mem_iff.mp hr) f]

/-! the contract is read off the source on every run: no rule reads the diagnostics collected so far -/
open DL.Gen in
theorem no_rule_reads_collected_diagnostics : ∀ row ∈ ctxMethodCalls, row.2.contains "diagnostics" = false := by
  decide +kernel

/-- what a rule may ask of the `Context`: per-file data that is fixed before the first rule runs (program, text, comments,
scope and control-flow analyses, media type, specifier, the parsed directives — whose `used` marks are written only by
`check_ignore_directive_usage`, after the last rule — the JSX factories, the unresolved syntax context), the three
append-only `add_diagnostic*` methods, and `stop_traverse` (a one-shot flag the traversal engine clears: C08
`rules_sequence_ok`) -/
def reviewedContextApi : List String :=
  ["add_diagnostic", "add_diagnostic_with_fixes", "add_diagnostic_with_hint", "all_comments", "control_flow",
   "file_ignore_directive", "jsx_factory", "jsx_fragment_factory", "leading_comments_at", "line_ignore_directives",
   "media_type", "program", "scope", "specifier", "stop_traverse", "text_info", "trailing_comments_at", "unresolved_ctxt"]

/-- re-decided on every run: no rule file calls a `Context` method outside the reviewed set — in particular none that
writes anything a later rule could read (the append-only contract of `project_run`) -/
theorem rules_use_only_reviewed_context_api :
    DL.Gen.ctxMethodCalls.all (fun row => row.2.all (fun m => reviewedContextApi.contains m)) = true := by
  decide +kernel

end DL.Props.C04
