import DL.Lemmas.RxCompTop
import DL.Props.C12Spec
import DL.Props.C12Fuel
import DL.Props.C12NoPanic

/-!
# C12 (continued): completeness of the regular-expression validator w.r.t. the ECMAScript grammar (Unicode mode)

`DL/Model/RegexSpec.lean` is the pattern grammar of ES2022 §22.2.1 for the `u` flag with its early errors.
`C12Spec` proves **soundness**: what the validator accepts is derivable.  This file proves the converse:
every pattern that the grammar derives (early errors respected) is accepted, given enough fuel.

The only difference from the standard is the one documented in `C12Spec`: the bounds of `{lo,hi}` are compared
after saturation at `i64::MAX` (`qokModel`); for bounds below `2^63 - 1` this is the standard's `lo ≤ hi`.

The proof follows a derivation (`DL/Lemmas/RxComp*.lean`):
* every lexical production is unambiguous as a prefix (maximal digit / name-character runs, the `\u` surrogate
  pair rule), so the scanner takes the derivation's path;
* the binary search over the `ID_Start` / `ID_Continue` tables finds every member (the tables are sorted — checked);
* for the recursive productions, *follow sets* show that the validator's greedy choices are the derivation's:
  a term is never followed by a quantifier character, an alternative only by `|`, `)` or the end;
* the bookkeeping of group names (no duplicates) and `\k` references is tracked exactly (`TrackC`);
* `count_capturing_parens` counts the groups of the derivation (`derives_scan`).
Termination (`C12Fuel`) and panic freedom (`C12NoPanic`) turn "no `Err`" into "`Ok`".
-/
namespace DL.Props.C12
open DL.Rx DL.RxSpec

/-- **completeness of the validator in Unicode mode**: a valid pattern is accepted -/
theorem validatePattern_complete (src : List Nat) (h : ValidPatternWith qokModel src) (fuel : Nat)
    (hfuel : fuelBound src.length ≤ fuel) (st : St) : ∃ s', validatePattern fuel src true st = .ok () s' := by
  obtain ⟨_, a, hd, hnd, hrefs⟩ := h
  have hd' := Derives.mono (fun lo hi h => (qokSat_iff lo hi).mpr h) hd
  have hwc := validatePattern_wc (src := src) a hd' hnd hrefs fuel st
  cases hv : validatePattern fuel src true st with
  | ok u s' => cases u; exact ⟨s', rfl⟩
  | err msg s' => rw [hv] at hwc; exact hwc.elim
  | panic why s' => exact absurd hv (validatePattern_never_panics fuel src true st why s')
  | outOfFuel s' => exact absurd hv (validatePattern_terminates fuel src true st hfuel s')

/-- the standard's own early error (`lo ≤ hi`) implies the implemented one -/
theorem validPattern_model {src : List Nat} (h : ValidPattern src) : ValidPatternWith qokModel src := by
  obtain ⟨hs, a, hd, hnd, hrefs⟩ := h
  exact ⟨hs, a, Derives.mono (fun lo hi h => .inl h) hd, hnd, hrefs⟩

/-- every pattern that is valid according to ES2022 (with the `u` flag) is accepted -/
theorem validatePattern_complete_standard (src : List Nat) (h : ValidPattern src) (fuel : Nat)
    (hfuel : fuelBound src.length ≤ fuel) (st : St) : ∃ s', validatePattern fuel src true st = .ok () s' :=
  validatePattern_complete src (validPattern_model h) fuel hfuel st

/-- **the validator decides the grammar** (Unicode mode): acceptance = derivability -/
theorem validatePattern_iff (src : List Nat) (hsrc : ∀ x ∈ src, x ≤ 0x10FFFF) (hlen : src.length < 2 ^ 62)
    (fuel : Nat) (hfuel : fuelBound src.length ≤ fuel) (st : St) :
    (∃ s', validatePattern fuel src true st = .ok () s') ↔ ValidPatternWith qokModel src :=
  ⟨fun ⟨s', h⟩ => validatePattern_sound fuel src st s' hsrc hlen h,
   fun h => validatePattern_complete src h fuel hfuel st⟩

/-- the rule: a regular expression literal with valid flags including `u` is reported iff its pattern is not valid -/
theorem checkRegex_u_iff (fuel : Nat) (pattern flags : List Nat) (st : St)
    (hflags : checkForInvalidFlags flags = false) (hu : flags.contains (ch 'u') = true)
    (hsrc : ∀ x ∈ pattern, x ≤ 0x10FFFF) (hlen : pattern.length < 2 ^ 62)
    (hfuel : fuelBound pattern.length ≤ fuel) :
    ∃ b s', checkRegex fuel pattern flags st = .ok b s' ∧ (b = false ↔ ValidPatternWith qokModel pattern) := by
  have key : checkRegex fuel pattern flags st =
      (if checkForInvalidFlags flags = true then (pure true : M Bool) else
        checkForInvalidPattern fuel pattern (flags.contains (ch 'u'))) st := rfl
  rw [key, hflags, if_neg (by decide), hu]
  unfold checkForInvalidPattern
  cases hv : validatePattern fuel pattern true st with
  | ok u s1 =>
    cases u
    exact ⟨false, s1, rfl, ⟨fun _ => validatePattern_sound fuel pattern st s1 hsrc hlen hv, fun _ => rfl⟩⟩
  | err msg s1 =>
    refine ⟨true, s1, rfl, ⟨fun h => (by cases h), fun h => ?_⟩⟩
    obtain ⟨s', hok⟩ := validatePattern_complete pattern h fuel hfuel st
    rw [hv] at hok; cases hok
  | panic why s1 => exact absurd hv (validatePattern_never_panics fuel pattern true st why s1)
  | outOfFuel s1 => exact absurd hv (validatePattern_terminates fuel pattern true st hfuel s1)

#print axioms validatePattern_complete
#print axioms validatePattern_iff
#print axioms checkRegex_u_iff

end DL.Props.C12
