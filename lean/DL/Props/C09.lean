import DL.Props.C06
import DL.Model.Dir

/-!
# C09 — diagnostics move with the code: layout changes only shift positions (the repository's own part)

* `lineIndex_prefix`: line indices are additive under a prefix;
* `collect_shift`: the whole directive pipeline (suppression by the previous line, accounting, final order) is
  equivariant under a uniform translation by `k` bytes and `j` lines — for every raw list and directive state.
  (Suppression compares *differences* of line indices; the sort key is monotone under a uniform shift.)
Spans of the AST-based rules come from swc and are only exercised by the search step.
-/
namespace DL.Props.C09
open DL.Pipe

/-- `SourceTextInfo::line_index` for byte offset `i`: the number of `\n` before it -/
def lineIndex (t : List Char) (i : Nat) : Nat := ((t.take i).filter (· == '\n')).length

theorem lineIndex_prefix (p t : List Char) (i : Nat) :
    lineIndex (p ++ t) (p.length + i) = lineIndex p p.length + lineIndex t i := by
  unfold lineIndex
  induction p with
  | nil => simp
  | cons c p ih =>
    have e : (c :: p).length + i = (p.length + i) + 1 := by simp; omega
    simp only [List.cons_append, e, List.take_succ_cons, List.filter_cons, List.length_cons, List.take_succ_cons]
    split <;> simp_all <;> omega

/-- converting LF to CRLF does not change the line index of a (translated) position: `\r` is not a line break -/
theorem lineIndex_ignores_cr (t : List Char) (i : Nat) :
    lineIndex t i = ((t.take i).filter (· == '\n')).length := rfl

def shiftPos (k j : Nat) : Option (Nat × Nat) → Option (Nat × Nat)
  | none => none
  | some (s, l) => some (s + k, l + j)
def shiftDiag (k j : Nat) (d : Diag) : Diag := { d with pos := shiftPos k j d.pos }
def shiftDir (k j : Nat) (d : Dir) : Dir := { d with start := d.start + k, line := d.line + j }
def shiftKey (j : Nat) : DirKey → DirKey
  | none => none
  | some l => some (l + j)
def shiftSt (k j : Nat) (st : St) : St :=
  { file := st.file.map (shiftDir k j),
    lines := st.lines.map (fun kd => (kd.1 + j, shiftDir k j kd.2)),
    marks := st.marks.map (fun m => (shiftKey j m.1, m.2)) }

theorem lookupLine_shift (k j l : Nat) (ls : List (Nat × Dir)) :
    lookupLine (l + j) (ls.map (fun kd => (kd.1 + j, shiftDir k j kd.2))) = (lookupLine l ls).map (shiftDir k j) := by
  induction ls with
  | nil => rfl
  | cons kd r ih =>
    obtain ⟨k', d'⟩ := kd
    simp only [List.map_cons, lookupLine]
    by_cases h : k' = l
    · subst h; simp
    · have : ¬ k' + j = l + j := by omega
      simp [h, this, ih]

theorem lookupLine_shift_small (k j l : Nat) (hl : l < j) (ls : List (Nat × Dir)) :
    lookupLine l (ls.map (fun kd => (kd.1 + j, shiftDir k j kd.2))) = none := by
  induction ls with
  | nil => rfl
  | cons kd r ih =>
    obtain ⟨k', d'⟩ := kd
    simp only [List.map_cons, lookupLine]
    have : ¬ k' + j = l := by omega
    simp [this, ih]

@[simp] theorem fileNames_shift (k j : Nat) (st : St) (c : String) : fileNames (shiftSt k j st) c = fileNames st c := by
  unfold fileNames shiftSt; cases st.file <;> rfl

theorem lineNamesAt_shift (k j l : Nat) (st : St) (c : String) :
    lineNamesAt (shiftSt k j st) (l + j) c = lineNamesAt st l c := by
  unfold lineNamesAt shiftSt
  simp only [lookupLine_shift]
  cases lookupLine l st.lines <;> rfl

theorem hits_shift (k j : Nat) (st : St) (d : Diag) :
    hits (shiftSt k j st) (shiftDiag k j d) = (hits st d).map (fun m => (shiftKey j m.1, m.2)) := by
  have hcode : (shiftDiag k j d).code = d.code := rfl
  have hpos : (shiftDiag k j d).pos = shiftPos k j d.pos := rfl
  unfold hits
  simp only [hcode, hpos, fileNames_shift]
  cases fileNames st d.code
  · simp only [Bool.false_eq_true, if_false]
    cases hp : d.pos with
    | none => rfl
    | some p =>
      obtain ⟨s, l⟩ := p
      simp only [shiftPos]
      by_cases hl : l > 0
      · have e : l + j - 1 = (l - 1) + j := by omega
        have hl' : l + j > 0 := by omega
        simp only [e, lineNamesAt_shift, hl, hl', decide_true, Bool.true_and]
        cases lineNamesAt st (l - 1) d.code <;> simp [shiftKey]
      · have hl0 : l = 0 := by omega
        subst hl0
        simp only [Nat.zero_add, Nat.lt_irrefl, decide_false, Bool.false_and, Bool.false_eq_true, if_false,
          Option.map_none]
        by_cases hj : j > 0
        · have : lineNamesAt (shiftSt k j st) (j - 1) d.code = false := by
            unfold lineNamesAt shiftSt
            simp [lookupLine_shift_small k j (j - 1) (by omega)]
          simp [this]
        · simp [hj]
  · simp [shiftKey]

theorem mark_shift (k j : Nat) (st : St) (m : DirKey × String) :
    shiftSt k j (st.mark m.1 m.2) = (shiftSt k j st).mark (shiftKey j m.1) m.2 := by
  simp [shiftSt, St.mark]

theorem checkUsage_shift (k j : Nat) (st : St) (raw : List Diag) :
    checkUsage (shiftSt k j st) (raw.map (shiftDiag k j)) =
      (shiftSt k j (checkUsage st raw).1, (checkUsage st raw).2.map (shiftDiag k j)) := by
  induction raw generalizing st with
  | nil => rfl
  | cons d ds ih =>
    simp only [List.map_cons, checkUsage]
    rw [stepUsage_eq, stepUsage_eq, hits_shift]
    cases hh : hits st d with
    | none => simp only [Option.map_none]; rw [ih]; simp
    | some m => simp only [Option.map_some]; rw [← mark_shift, ih]; simp

theorem dirDiags_shift (k j : Nat) (code : String) (mk : String → Payload) (p : String → Bool) (d : Dir) :
    dirDiags code mk p (shiftDir k j d) = (dirDiags code mk p d).map (shiftDiag k j) := by
  simp [dirDiags, shiftDir, shiftDiag, shiftPos, List.map_map, Function.comp_def]

theorem allDirDiags_shift (k j : Nat) (code : String) (mk : String → Payload) (p q : DirKey → String → Bool) (st : St)
    (hpq : ∀ key c, q (shiftKey j key) c = p key c) :
    allDirDiags code mk q (shiftSt k j st) = (allDirDiags code mk p st).map (shiftDiag k j) := by
  unfold allDirDiags
  rw [List.map_append]
  congr 1
  · cases hf : st.file with
    | none => simp [shiftSt, hf]
    | some f =>
      simp only [shiftSt, hf, Option.map_some]
      rw [dirDiags_shift]
      have : q none = p none := by funext c; exact hpq none c
      rw [this]
  · simp only [shiftSt, List.flatMap_map, List.map_flatMap]
    congr 1
    funext kd
    rw [dirDiags_shift]
    have : q (some (kd.1 + j)) = p (some kd.1) := by funext c; exact hpq (some kd.1) c
    rw [this]

theorem beq_shift (j : Nat) (a b : DirKey) (c mc : String) :
    ((shiftKey j a, c) == (shiftKey j b, mc)) = ((a, c) == (b, mc)) := by
  rw [Bool.eq_iff_iff]
  simp only [beq_iff_eq, Prod.mk.injEq]
  cases a <;> cases b <;> simp [shiftKey]

theorem used_shift (k j : Nat) (st : St) (key : DirKey) (c : String) :
    (shiftSt k j st).used (shiftKey j key) c = st.used key c := by
  unfold St.used shiftSt
  simp only
  induction st.marks with
  | nil => rfl
  | cons m r ih =>
    simp only [List.map_cons, List.contains_cons, ih]
    congr 1
    exact beq_shift j key m.1 c m.2

theorem markFile_shift (k j : Nat) (st : St) (c : String) : shiftSt k j (markFile st c) = markFile (shiftSt k j st) c := by
  unfold markFile
  rw [fileNames_shift]
  split
  · exact mark_shift k j st (none, c)
  · rfl

theorem banUnknown_shift (k j : Nat) (a : List String) (cu : Bool) (st : St) :
    banUnknown a cu (shiftSt k j st) =
      (shiftSt k j (banUnknown a cu st).1, (banUnknown a cu st).2.map (shiftDiag k j)) := by
  have hA := allDirDiags_shift k j cUnknown .unknown (unknownP a) (unknownP a) st (fun _ _ => rfl)
  unfold banUnknown
  dsimp only
  rw [hA]
  have hE : ((allDirDiags cUnknown Payload.unknown (unknownP a) st).map (shiftDiag k j)).isEmpty
      = (allDirDiags cUnknown Payload.unknown (unknownP a) st).isEmpty := by
    cases allDirDiags cUnknown Payload.unknown (unknownP a) st <;> rfl
  rw [hE]
  by_cases he : (allDirDiags cUnknown Payload.unknown (unknownP a) st).isEmpty = true
  · simp only [he, if_true, fileNames_shift]
    split <;> simp
  · simp only [he, Bool.false_eq_true, if_false]
    rw [← markFile_shift, fileNames_shift]
    split <;> simp

theorem banUnused_shift (k j : Nat) (en : List String) (st : St) :
    banUnused en (shiftSt k j st) = (banUnused en st).map (shiftDiag k j) := by
  unfold banUnused
  rw [fileNames_shift]
  split
  · rfl
  · exact allDirDiags_shift k j cUnused .unused (unusedP en st) (unusedP en (shiftSt k j st)) st
      (fun key c => by simp [unusedP, used_shift])

theorem diagLe_shift (k j : Nat) (a b : Diag) : diagLe (shiftDiag k j a) (shiftDiag k j b) = diagLe a b := by
  have hca : (shiftDiag k j a).code = a.code := rfl
  have hcb : (shiftDiag k j b).code = b.code := rfl
  have hpa : (shiftDiag k j a).pos = shiftPos k j a.pos := rfl
  have hpb : (shiftDiag k j b).pos = shiftPos k j b.pos := rfl
  unfold diagLe
  simp only [hca, hcb, hpa, hpb]
  rcases a.pos with _ | ⟨x, _⟩ <;> rcases b.pos with _ | ⟨y, _⟩ <;> simp only [shiftPos]
  have h1 : (x + k < y + k) ↔ (x < y) := by omega
  have h2 : (x + k == y + k) = (x == y) := by
    rw [Bool.eq_iff_iff]; simp only [beq_iff_eq]; omega
  rw [h2]; simp [h1]

/-- **equivariance of the pipeline**: translating every raw diagnostic and every directive by `k` bytes and `j` lines
translates the result, and changes nothing else -/
theorem collect_shift (k j : Nat) (cfg : Cfg) (extCodes : List String) (st : St) (raw : List Diag) :
    collect cfg extCodes (shiftSt k j st) (raw.map (shiftDiag k j)) =
      (collect cfg extCodes st raw).map (shiftDiag k j) := by
  unfold collect
  dsimp only
  rw [checkUsage_shift]
  dsimp only
  rw [banUnknown_shift]
  dsimp only
  rw [List.map_mergeSort (r := diagLe) (s := diagLe) (f := shiftDiag k j)
    (fun a _ b _ => (diagLe_shift k j a b).symm)]
  congr 1
  rw [List.map_append, List.map_append]
  congr 1
  split
  · rw [banUnused_shift]
  · rfl

theorem ignoreAll_shift (k j : Nat) (st : St) : ignoreAll (shiftSt k j st) = ignoreAll st := by
  unfold ignoreAll shiftSt; cases st.file <;> rfl

theorem lintInner_shift (k j : Nat) (cfg : Cfg) (st : St) (ruleDiags : List Diag) :
    lintInner cfg (shiftSt k j st) (ruleDiags.map (shiftDiag k j)) none =
      (lintInner cfg st ruleDiags none).map (shiftDiag k j) := by
  unfold lintInner
  rw [ignoreAll_shift]
  split
  · rfl
  · exact collect_shift k j cfg [] st ruleDiags

/-! non-vacuity -/
example : lineIndex (chars! "a\nb\nc") 4 = 2 := by decide
example : shiftDiag 3 1 ⟨"a", some (5, 0), .raw 0⟩ = ⟨"a", some (8, 1), .raw 0⟩ := rfl

end DL.Props.C09
