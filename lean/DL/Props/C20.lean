import DL.Lemmas.Scope

/-!
# C20 — diagnostics do not depend on how local bindings are spelled

Model: `DL.Scope`.  `Program.ren t x y` renames the binding (`x`, declared by scope `t`) to `y` in place: its
declarations / parameter and exactly the references that resolve to it (not those shadowed by an inner declaration of
`x`, not property keys).  A binding-tracking rule is a function of the resolver's output `Program.res` (occurrences with
the binding they denote = swc `Id`).

-- FULL (as stated): for all rules of deno_lint, all parseable programs, all eligible bindings and fresh names.
Proved here: (1) the resolver's output is invariant under the renaming except for the spelling of the occurrences of
that one binding (`resolution_invariant`) — so every rule that is a function of (kind, binding) per occurrence is
spelling-independent; (2) instantiated for the model of no-unused-vars keyed on the binding (`unused_invariant`);
(3) the name-keyed mutant is *not* invariant (`unusedByName_not_invariant`) — the shape of the defect repaired in
prefer-const and of the seeded change.  That the ~100 real rules are such functions is established by the C20 driver
(every rule, corpus + generated programs, every eligible binding class), not by proof.
-/
namespace DL.Props.C20
open DL.Scope

/-- **C20 (model), resolution**: if `y` is fresh, resolving the renamed program gives the resolved original with the
occurrences of the renamed binding — and only those — spelled `y`; bindings (scope ids) are untouched. -/
theorem resolution_invariant (t x y : Nat) (p : Items) (hy : y ∉ p.names) :
    Program.res (Program.ren t x y p) = (Program.res p).map (swE t x y) := by
  have hyl : y ∉ p.lets := fun hh => hy (lets_sub_names p y hh)
  have h0 : Rel t x y false [] [] := by simp [Rel, lookup]
  have hs := h0.step 0 p.lets hyl
  unfold Program.res Program.ren
  have ha : act' t x false 0 p.lets = (0 == t && decide (x ∈ p.lets)) := by simp [act']
  rw [ha] at hs
  rw [lets_ren]
  exact Items.res_ren t x y p _ _ _ hs hy

/-- kinds and bindings are not changed at all -/
theorem swE_kind (t x y : Nat) (e : Entry) : (swE t x y e).kind = e.kind := by unfold swE; split <;> rfl
theorem swE_bind (t x y : Nat) (e : Entry) : (swE t x y e).bind = e.bind := by unfold swE; split <;> rfl

/-- for entries not spelled `y`, "same binding" (same spelling and same scope) is preserved and reflected -/
theorem swE_same (t x y : Nat) (e f : Entry) (he : e.name ≠ y) (hf : f.name ≠ y) :
    ((swE t x y f).name = (swE t x y e).name ∧ (swE t x y f).bind = (swE t x y e).bind) ↔
      (f.name = e.name ∧ f.bind = e.bind) := by
  rw [swE_bind, swE_bind]
  unfold swE
  by_cases h1 : f.name = x ∧ f.bind = some t <;> by_cases h2 : e.name = x ∧ e.bind = some t
  · rw [if_pos h1, if_pos h2]
    exact ⟨fun ⟨_, hb⟩ => ⟨h1.1.trans h2.1.symm, hb⟩, fun ⟨_, hb⟩ => ⟨rfl, hb⟩⟩
  · rw [if_pos h1, if_neg h2]
    constructor
    · rintro ⟨hn, _⟩; exact absurd hn.symm he
    · rintro ⟨hn, hb⟩; exact absurd ⟨hn.symm.trans h1.1, hb.symm.trans h1.2⟩ h2
  · rw [if_neg h1, if_pos h2]
    constructor
    · rintro ⟨hn, _⟩; exact absurd hn hf
    · rintro ⟨hn, hb⟩; exact absurd ⟨hn.trans h2.1, hb.trans h2.2⟩ h1
  · rw [if_neg h1, if_neg h2]

theorem any_swE (t x y : Nat) (all : List Entry) (e : Entry) (he : e.name ≠ y) (hall : ∀ f ∈ all, f.name ≠ y) :
    ((all.map (swE t x y)).any fun f => f.kind == .ref && f.name == (swE t x y e).name && f.bind == (swE t x y e).bind) =
      all.any fun f => f.kind == .ref && f.name == e.name && f.bind == e.bind := by
  induction all with
  | nil => rfl
  | cons f r ih =>
    have ihr := ih (fun g hg => hall g (List.mem_cons_of_mem _ hg))
    have hs := swE_same t x y e f he (hall f List.mem_cons_self)
    simp only [List.map_cons, List.any_cons, ihr, swE_kind]
    congr 1
    by_cases hk : f.kind = .ref
    · simp only [hk, BEq.rfl, Bool.true_and]
      by_cases hb : f.name = e.name ∧ f.bind = e.bind
      · have := hs.mpr hb; simp [this.1, this.2, hb.1, hb.2]
      · have hb' := fun hh => hb (hs.mp hh)
        rw [Bool.eq_iff_iff]
        simp only [Bool.and_eq_true, beq_iff_eq]
        exact ⟨fun hh => absurd hh hb', fun hh => absurd hh hb⟩
    · have : (f.kind == Occ.ref) = false := by simpa using hk
      simp [this]

theorem unusedIdx_swE (t x y : Nat) (all : List Entry) (hall : ∀ f ∈ all, f.name ≠ y) (k : Nat) (l : List Entry)
    (hl : ∀ f ∈ l, f.name ≠ y) :
    unusedIdx (all.map (swE t x y)) k (l.map (swE t x y)) = unusedIdx all k l := by
  induction l generalizing k with
  | nil => rfl
  | cons e r ih =>
    have he := hl e List.mem_cons_self
    have ihr := ih (k + 1) (fun f hf => hl f (List.mem_cons_of_mem _ hf))
    simp only [List.map_cons, unusedIdx, swE_kind, any_swE t x y all e he hall, ihr]

/-- **C20 (model), a binding-keyed rule**: the positions reported by the no-unused-vars model are the same for the
renamed program -/
theorem unused_invariant (t x y : Nat) (p : Items) (hy : y ∉ p.names) :
    unused (Program.res (Program.ren t x y p)) = unused (Program.res p) := by
  rw [resolution_invariant t x y p hy]
  have hn : ∀ f ∈ Program.res p, f.name ≠ y := by
    intro f hf hh
    exact hy (hh ▸ Items.res_names p _ f hf)
  exact unusedIdx_swE t x y _ hn 0 _ hn

/-- the global-name rule of C14 is spelling-independent as well (for `g` different from both spellings) -/
theorem globalReports_invariant (g t x y : Nat) (p : Items) (hy : y ∉ p.names) (hgx : g ≠ x) (hgy : g ≠ y) :
    globalReports g (Program.ren t x y p) = globalReports g p := by
  unfold globalReports
  rw [resolution_invariant t x y p hy]
  have hn : ∀ f ∈ Program.res p, f.name ≠ y := fun f hf hh => hy (hh ▸ Items.res_names p _ f hf)
  generalize Program.res p = l at hn
  generalize 0 = k
  induction l generalizing k with
  | nil => rfl
  | cons e r ih =>
    have ihr := ih (fun f hf => hn f (List.mem_cons_of_mem _ hf))
    have : isGlobalRef g (swE t x y e) = isGlobalRef g e := by
      unfold isGlobalRef
      rw [swE_kind, swE_bind]
      unfold swE
      by_cases h1 : e.name = x ∧ e.bind = some t
      · simp only [h1, and_self, if_true]
        have : (y == g) = false := by simpa using fun hh => hgy hh.symm
        have h2 : (x == g) = false := by simpa using fun hh => hgx hh.symm
        simp [this, h2]
      · simp only [h1, if_false]
    simp only [List.map_cons, reportIdx, this, ihr]

/-! ### the mutant: a rule keyed on the spelling is **not** invariant
`let a; { let a; a; }` — keyed by name the outer `a` counts as used; after renaming the inner binding (scope 1) to `b`
it is reported.  (5 is fresh.) -/
def shadow : Items := .cons (.decl 1) (.cons (.block 1 (.cons (.decl 1) (.cons (.ref 1) .nil))) .nil)
theorem unusedByName_not_invariant :
    unusedByName (Program.res (Program.ren 1 1 5 shadow)) ≠ unusedByName (Program.res shadow) := by decide
/-- …while the binding-keyed rule reports the outer declaration in both (non-vacuity of `unused_invariant`) -/
example : unused (Program.res shadow) = [0] ∧ unused (Program.res (Program.ren 1 1 5 shadow)) = [0] ∧
    5 ∉ shadow.names ∧ Program.res (Program.ren 1 1 5 shadow) ≠ Program.res shadow := by decide

end DL.Props.C20
