import DL.Lemmas.Scope2Ren

/-!
# C20 (richer model) — diagnostics do not depend on how local bindings are spelled, with hoisting

Model: `DL.Scope2`.  `Program.ren t x y` renames the binding (`x`, declared by scope `t`) to `y` in place: all its
declarations (a `var` may be declared several times, in different blocks of one function), its parameter / function
name / catch parameter / loop head occurrence, and exactly the references that resolve to it (not those shadowed by an
inner declaration of `x`, not property keys).  A binding-tracking rule is a function of the resolver's output
`Program.res`.

Proved for well-formed programs (`WF`: no early errors): (1) the resolver's output is invariant under the renaming
except for the spelling of the occurrences of that one binding (`resolution_invariant`); (2) hence the binding-keyed
model of no-unused-vars (`unused_invariant`) and the global-name rule of C14 (`globalReports_invariant`) are
spelling-independent; (3) the name-keyed mutant is not (`unusedByName_not_invariant`); (4) `WF` cannot be dropped
(`wf_needed`): in `function f() { x; { let x; var x; } }` — an early error — the `var` does not belong to the binding it
contributes to.
-/
namespace DL.Props.C20b
open DL.Scope2

/-- **C20 (model with hoisting), resolution**: if the program is well-formed and `y` is fresh, resolving the renamed
program gives the resolved original with the occurrences of the renamed binding — and only those — spelled `y`;
bindings (scope ids) are untouched. -/
theorem resolution_invariant (t : Sid) (x y : Nat) (p : Items) (hwf : WF p) (hy : y ∉ p.names) :
    Program.res (Program.ren t x y p) = (Program.res p).map (swE t x y) := by
  have hwf' : p.wf = true := by
    have : Program.wf p = true := hwf
    simp only [Program.wf, Bool.and_eq_true] at this
    exact this.2
  have hyf : y ∉ funcFrame [] p := funcFrame_fresh (by simp) hy
  have h0 : Rel t x y false [] [] := by simp [Rel, lookup]
  have hs := h0.step (.scope 0) (funcFrame [] p) hyf
  unfold Program.res Program.ren
  have hfr := funcFrame_ren t x y (act' t x false (.scope 0) (funcFrame [] p)) [] p hwf'
  rw [renL_nil] at hfr
  rw [hfr]
  exact Items.res_ren t x y p _ _ _ hs hwf' hy

/-- kinds and bindings are not changed at all -/
theorem swE_kind (t : Sid) (x y : Nat) (e : Entry) : (swE t x y e).kind = e.kind := by unfold swE; split <;> rfl
theorem swE_bind (t : Sid) (x y : Nat) (e : Entry) : (swE t x y e).bind = e.bind := by unfold swE; split <;> rfl

/-- for entries not spelled `y`, "same binding" (same spelling and same scope) is preserved and reflected -/
theorem swE_same (t : Sid) (x y : Nat) (e f : Entry) (he : e.name ≠ y) (hf : f.name ≠ y) :
    ((swE t x y f).name = (swE t x y e).name ∧ (swE t x y f).bind = (swE t x y e).bind) ↔
      (f.name = e.name ∧ f.bind = e.bind) := by
  rw [swE_bind, swE_bind]
  unfold swE
  by_cases h1 : f.name = x ∧ f.bind = some t <;> by_cases h2 : e.name = x ∧ e.bind = some t
  · rw [if_pos h1, if_pos h2]
    exact ⟨fun ⟨_, hb⟩ => ⟨h1.1.trans h2.1.symm, hb⟩, fun ⟨_, hb⟩ => ⟨rfl, hb⟩⟩
  · rw [if_pos h1, if_neg h2]
    constructor
    · rintro ⟨hn, _⟩; exact absurd hn.symm he
    · rintro ⟨hn, hb⟩; exact absurd ⟨hn.symm.trans h1.1, hb.symm.trans h1.2⟩ h2
  · rw [if_neg h1, if_pos h2]
    constructor
    · rintro ⟨hn, _⟩; exact absurd hn hf
    · rintro ⟨hn, hb⟩; exact absurd ⟨hn.trans h2.1, hb.trans h2.2⟩ h1
  · rw [if_neg h1, if_neg h2]

theorem any_swE (t : Sid) (x y : Nat) (all : List Entry) (e : Entry) (he : e.name ≠ y) (hall : ∀ f ∈ all, f.name ≠ y) :
    ((all.map (swE t x y)).any fun f => f.kind == .ref && f.name == (swE t x y e).name && f.bind == (swE t x y e).bind) =
      all.any fun f => f.kind == .ref && f.name == e.name && f.bind == e.bind := by
  induction all with
  | nil => rfl
  | cons f r ih =>
    have ihr := ih (fun g hg => hall g (List.mem_cons_of_mem _ hg))
    have hs := swE_same t x y e f he (hall f List.mem_cons_self)
    simp only [List.map_cons, List.any_cons, ihr, swE_kind]
    congr 1
    by_cases hk : f.kind = .ref
    · simp only [hk, BEq.rfl, Bool.true_and]
      by_cases hb : f.name = e.name ∧ f.bind = e.bind
      · have := hs.mpr hb; simp [this.1, this.2, hb.1, hb.2]
      · have hb' := fun hh => hb (hs.mp hh)
        rw [Bool.eq_iff_iff]
        simp only [Bool.and_eq_true, beq_iff_eq]
        exact ⟨fun hh => absurd hh hb', fun hh => absurd hh hb⟩
    · have : (f.kind == Occ.ref) = false := by simpa using hk
      simp [this]

theorem unusedIdx_swE (t : Sid) (x y : Nat) (all : List Entry) (hall : ∀ f ∈ all, f.name ≠ y) (k : Nat)
    (l : List Entry) (hl : ∀ f ∈ l, f.name ≠ y) :
    unusedIdx (all.map (swE t x y)) k (l.map (swE t x y)) = unusedIdx all k l := by
  induction l generalizing k with
  | nil => rfl
  | cons e r ih =>
    have he := hl e List.mem_cons_self
    have ihr := ih (k + 1) (fun f hf => hl f (List.mem_cons_of_mem _ hf))
    simp only [List.map_cons, unusedIdx, swE_kind, any_swE t x y all e he hall, ihr]

/-- **C20 (model with hoisting), a binding-keyed rule**: the positions reported by the no-unused-vars model are the same
for the renamed program -/
theorem unused_invariant (t : Sid) (x y : Nat) (p : Items) (hwf : WF p) (hy : y ∉ p.names) :
    unused (Program.res (Program.ren t x y p)) = unused (Program.res p) := by
  rw [resolution_invariant t x y p hwf hy]
  have hn : ∀ f ∈ Program.res p, f.name ≠ y := by
    intro f hf hh
    exact hy (hh ▸ Items.res_names p _ f hf)
  exact unusedIdx_swE t x y _ hn 0 _ hn

/-- the global-name rule of C14 is spelling-independent as well (for `g` different from both spellings) -/
theorem globalReports_invariant (g : Nat) (t : Sid) (x y : Nat) (p : Items) (hwf : WF p) (hy : y ∉ p.names)
    (hgx : g ≠ x) (hgy : g ≠ y) : globalReports g (Program.ren t x y p) = globalReports g p := by
  unfold globalReports
  rw [resolution_invariant t x y p hwf hy]
  have hn : ∀ f ∈ Program.res p, f.name ≠ y := fun f hf hh => hy (hh ▸ Items.res_names p _ f hf)
  generalize Program.res p = l at hn
  generalize 0 = k
  induction l generalizing k with
  | nil => rfl
  | cons e r ih =>
    have ihr := ih (fun f hf => hn f (List.mem_cons_of_mem _ hf))
    have : isGlobalRef g (swE t x y e) = isGlobalRef g e := by
      unfold isGlobalRef
      rw [swE_kind, swE_bind]
      unfold swE
      by_cases h1 : e.name = x ∧ e.bind = some t
      · simp only [h1, and_self, if_true]
        have : (y == g) = false := by simpa using fun hh => hgy hh.symm
        have h2 : (x == g) = false := by simpa using fun hh => hgx hh.symm
        simp [this, h2]
      · simp only [h1, if_false]
    simp only [List.map_cons, reportIdx, this, ihr]

/-! ### non-vacuity (5 and 6 are fresh; `l` builds statement lists) -/
def l : List Item → Items := fun xs => xs.foldr Items.cons .nil

/-- `function f() { { var a; }  { var a; a; }  a; { let a; a; } }` — one binding `a` of `f` declared in two blocks; the
inner `let a` is another one.  Renaming (`a`, scope 1) renames both `var`s and the two references outside the last block. -/
def twoVars : Items :=
  l [.letDecl 9, .func 1 none [] (l [.block 2 (l [.varDecl 1]), .block 3 (l [.varDecl 1, .ref 1]), .ref 1,
    .block 4 (l [.letDecl 1, .ref 1])])]
example : Program.ren (.scope 1) 1 5 twoVars =
    l [.letDecl 9, .func 1 none [] (l [.block 2 (l [.varDecl 5]), .block 3 (l [.varDecl 5, .ref 5]), .ref 5,
      .block 4 (l [.letDecl 1, .ref 1])])] := by decide
example : WF twoVars ∧ 5 ∉ twoVars.names ∧
    (Program.res twoVars).map (fun e => (e.name, e.bind)) =
      [(9, some (.scope 0)), (1, some (.scope 1)), (1, some (.scope 1)), (1, some (.scope 1)), (1, some (.scope 1)),
       (1, some (.scope 4)), (1, some (.scope 4))] ∧
    (Program.res (Program.ren (.scope 1) 1 5 twoVars)).map (fun e => (e.name, e.bind)) =
      [(9, some (.scope 0)), (5, some (.scope 1)), (5, some (.scope 1)), (5, some (.scope 1)), (5, some (.scope 1)),
       (1, some (.scope 4)), (1, some (.scope 4))] := by decide
/-- renaming the inner `let` binding instead leaves the `var`s alone -/
example : Program.ren (.scope 4) 1 5 twoVars =
    l [.letDecl 9, .func 1 none [] (l [.block 2 (l [.varDecl 1]), .block 3 (l [.varDecl 1, .ref 1]), .ref 1,
      .block 4 (l [.letDecl 5, .ref 5])])] := by decide

/-- `(function a(a) { a; });  try {} catch (a) { a; }  for (const a of …) { a; }` — four bindings spelled `a`;
renaming the function's *name* (scope `head 1`) touches only the name (the parameter shadows it) -/
def heads : Items :=
  l [.func 1 (some 1) [1] (l [.ref 1]), .catchC 2 (some 1) (l [.ref 1]), .forLet 3 1 (l [.ref 1]),
    .func 4 (some 1) [] (l [.ref 1])]
example : WF heads ∧
    Program.ren (.head 1) 1 5 heads =
      l [.func 1 (some 5) [1] (l [.ref 1]), .catchC 2 (some 1) (l [.ref 1]), .forLet 3 1 (l [.ref 1]),
        .func 4 (some 1) [] (l [.ref 1])] ∧
    Program.ren (.scope 2) 1 5 heads =
      l [.func 1 (some 1) [1] (l [.ref 1]), .catchC 2 (some 5) (l [.ref 5]), .forLet 3 1 (l [.ref 1]),
        .func 4 (some 1) [] (l [.ref 1])] ∧
    Program.ren (.head 3) 1 5 heads =
      l [.func 1 (some 1) [1] (l [.ref 1]), .catchC 2 (some 1) (l [.ref 1]), .forLet 3 5 (l [.ref 5]),
        .func 4 (some 1) [] (l [.ref 1])] ∧
    Program.ren (.head 4) 1 5 heads =
      l [.func 1 (some 1) [1] (l [.ref 1]), .catchC 2 (some 1) (l [.ref 1]), .forLet 3 1 (l [.ref 1]),
        .func 4 (some 5) [] (l [.ref 5])] := by decide

/-! ### the mutant: a rule keyed on the spelling is **not** invariant
`var a; function f() { { var a; } a; }` — keyed by name the outer `a` counts as used; after renaming the binding of `f`
(scope 1) to `b` it is reported. -/
def shadow : Items := l [.varDecl 1, .letDecl 9, .ref 9, .func 1 none [] (l [.block 2 (l [.varDecl 1]), .ref 1])]
theorem unusedByName_not_invariant :
    unusedByName (Program.res (Program.ren (.scope 1) 1 5 shadow)) ≠ unusedByName (Program.res shadow) := by decide
/-- …while the binding-keyed rule reports the outer declaration in both (non-vacuity of `unused_invariant`) -/
example : WF shadow ∧ unused (Program.res shadow) = [0] ∧
    unused (Program.res (Program.ren (.scope 1) 1 5 shadow)) = [0] ∧
    5 ∉ shadow.names ∧ Program.res (Program.ren (.scope 1) 1 5 shadow) ≠ Program.res shadow := by decide

/-! ### `WF` is needed
`function f() { x; { let x; var x; } }` (an early error in JavaScript).  In the model the `var x` contributes `x` to the
frame of `f` but itself resolves to the block; renaming (`x`, `f`) renames the reference and leaves the `var` alone, so
the frame of `f` keeps the old spelling and the renamed reference falls out of it. -/
def illFormed : Items := l [.func 1 none [] (l [.ref 1, .block 2 (l [.letDecl 1, .varDecl 1])])]
theorem wf_needed : ¬ WF illFormed ∧ 5 ∉ illFormed.names ∧
    Program.res (Program.ren (.scope 1) 1 5 illFormed) ≠ (Program.res illFormed).map (swE (.scope 1) 1 5) := by decide

end DL.Props.C20b
