import DL.Lemmas.Imp
import DL.Lemmas.ImpWheres
/-!
# C13 for the import fixes of `no-node-globals` / `no-process-global`

The property theorems of the model `DL/Model/ImportFix.lean` (helper lemmas: `DL/Lemmas/Imp.lean`,
`DL/Lemmas/ImpWheres.lean`; the predicate `Safe` is defined in `DL/Lemmas/Imp.lean`, with a `Decidable` instance in
`DL/Lemmas/ImpWheres.lean` so that `decide` evaluates it on concrete files).

All statements are proved exactly as given in the brief: none needed an extra hypothesis.  That the hypothesis `Safe`
of theorems 1, 5 and 6 cannot be dropped is shown by `separating_placement_brings_report_back` below.

Every theorem is followed by a kernel-checked (`decide`) non-vacuity example on the concrete files `fA` / `fU`.
-/
namespace DL.Imp

/-! ## concrete files for the examples -/

/-- line 0: a directive naming the rule; line 1 (the first token, `first = 1`): a reference to 1, covered by the
directive; line 2: an import that ends its line; line 3: a reference to 2; line 4: an import followed on its line by
references to 3 and to 2 -/
def fA : File :=
  [⟨true, true, []⟩, ⟨false, false, [.ref 1]⟩, ⟨false, false, [.imp true]⟩, ⟨false, false, [.ref 2]⟩,
   ⟨false, false, [.imp false, .ref 3, .ref 2]⟩]

/-- line 0: a shebang (`first = 1`); line 1: a reference to 7 -/
def fB : File := [⟨false, false, []⟩, ⟨false, false, [.ref 7]⟩]

/-- line 0: a directive naming the rule; line 1: a reference to 1 (covered); line 2: a reference to 2 (reported) -/
def fU : File := [⟨true, true, []⟩, ⟨false, false, [.ref 1]⟩, ⟨false, false, [.ref 2]⟩]

/-! ## 1. after a safe fix: exactly the earlier reports about other names, moved with their lines -/

theorem kept_applyFix (f : File) (g : Name) (w : Where) (h : Safe f w) :
    kept (applyFix f g w) = ((kept f).filter (fun d => d.2 != g)).map (shiftBy w) := by
  cases w with
  | sameLine =>
    show kept (dropName f g) = _
    rw [kept_dropName]
    have : shiftBy Where.sameLine = id := by funext d; rfl
    rw [this, List.map_id]
  | newLineAt k =>
    show kept (insertLine (dropName f g) k) = _
    rw [kept_insertLine _ k (Safe_dropName g h), kept_dropName]

example : Safe fA (.newLineAt 3) ∧ kept fA = [(3, 2), (4, 3), (4, 2)] ∧
    kept (applyFix fA 2 (.newLineAt 3)) = [(5, 3)] := by decide

/-! ## 2. one position per raw diagnostic -/

theorem wheres_length (f : File) (first : Nat) : (wheres f first).length = (raw f).length :=
  wheresFrom_length f first 0 none f

example : (wheres fA 1).length = 4 ∧ (raw fA).length = 4 := by decide

/-! ## 3. the position the rules compute is safe on a real file -/

theorem wheres_safe (f : File) (first : Nat) (hwf : WF f first) : ∀ w ∈ wheres f first, Safe f w := by
  apply wheresFrom_safe hwf 0 none f
  · intro j l hj
    rw [Nat.zero_add]; exact hj
  · exact GoodR_none f

/-- a concrete well-formed file -/
theorem fA_wf : WF fA 1 := WF_of_wfB (by decide)

theorem fB_wf : WF fB 1 := WF_of_wfB (by decide)

example : wheres fA 1 ≠ [] ∧ ∀ w ∈ wheres fA 1, Safe fA w := ⟨by decide, wheres_safe fA 1 fA_wf⟩

example : wheres fA 1 ≠ [] ∧ wfB fA 1 = true ∧ ∀ w ∈ wheres fA 1, Safe fA w := by decide

/-! ## 4. the fixed name is not reported any more (no `Safe` needed) -/

theorem fixed_gone (f : File) (g : Name) (w : Where) : ∀ d ∈ kept (applyFix f g w), d.2 ≠ g := by
  intro d hd
  cases w with
  | sameLine =>
    have hd : d ∈ kept (dropName f g) := hd
    unfold kept at hd
    exact ne_of_mem_raw_dropName (List.mem_filter.mp hd).1
  | newLineAt k =>
    have hd : d ∈ kept (insertLine (dropName f g) k) := hd
    unfold kept at hd
    obtain ⟨d', hd', he⟩ := snd_mem_rawFrom_insertLine (List.mem_filter.mp hd).1
    rw [← he]
    exact ne_of_mem_raw_dropName hd'

example : kept (applyFix fA 2 (.newLineAt 3)) = [(5, 3)] ∧ kept (applyFix fU 2 (.newLineAt 1)) = [(2, 1)] ∧
    kept (applyFix fA 3 (.newLineAt 9)) = [(3, 2), (4, 2)] := by decide

/-! ## 5. fixing a reported name leaves strictly fewer reports -/

theorem fix_strictly_fewer (f : File) (g : Name) (w : Where) (h : Safe f w) (l : Nat) (hd : (l, g) ∈ kept f) :
    (kept (applyFix f g w)).length < (kept f).length := by
  rw [kept_applyFix f g w h, List.length_map, List.length_filter_lt_length_iff_exists]
  exact ⟨(l, g), hd, by simp⟩

example : (3, 2) ∈ kept fA ∧ Safe fA (.newLineAt 3) ∧
    (kept (applyFix fA 2 (.newLineAt 3))).length = 1 ∧ (kept fA).length = 3 := by decide

/-! ## 6. the reports about other names all stay -/

theorem others_stay (f : File) (g : Name) (w : Where) (h : Safe f w) (n : Name) (hn : n ≠ g) :
    ((kept (applyFix f g w)).filter (fun d => d.2 == n)).length = ((kept f).filter (fun d => d.2 == n)).length := by
  rw [kept_applyFix f g w h, List.filter_map, List.length_map, List.filter_filter]
  congr 1
  apply List.filter_congr
  intro d _
  have hs : (shiftBy w d).2 = d.2 := by
    cases w <;> rfl
  simp only [Function.comp, hs]
  by_cases hdn : d.2 = n
  · have : d.2 ≠ g := fun h => hn (hdn ▸ h)
    simp [hdn, hn]
  · simp [hdn]

example : Safe fA (.newLineAt 3) ∧ (3 : Name) ≠ 2 ∧
    ((kept (applyFix fA 2 (.newLineAt 3))).filter (fun d => d.2 == 3)).length = 1 ∧
    ((kept fA).filter (fun d => d.2 == 3)).length = 1 := by decide

/-! ## 7. (C13) the fix the rule really offers for a reported diagnostic leaves strictly fewer reports -/

theorem real_fix_strictly_fewer (f : File) (first : Nat) (hwf : WF f first) (i : Nat) (hi : i < (raw f).length)
    (hk : (raw f)[i] ∈ kept f) :
    (kept (applyFix f ((raw f)[i]).2 ((wheres f first)[i]'(by rw [wheres_length]; exact hi)))).length
      < (kept f).length :=
  fix_strictly_fewer f ((raw f)[i]).2 _ (wheres_safe f first hwf _ (List.getElem_mem _)) ((raw f)[i]).1 hk

/-- on `fA` (well-formed: `fA_wf`), for the reported diagnostic number 1 of `raw`: the offered position is a new line
3 (after the import that ends line 2), and 1 report is left of 3 -/
example : (1 : Nat) < (raw fA).length ∧ (raw fA)[1]? = some (3, 2) ∧ (3, 2) ∈ kept fA ∧
    (wheres fA 1)[1]? = some (.newLineAt 3) ∧
    (kept (applyFix fA 2 (.newLineAt 3))).length = 1 ∧ (kept fA).length = 3 := by decide

example : (kept (applyFix fA ((raw fA)[1]'(by decide)).2 ((wheres fA 1)[1]'(by decide)))).length < (kept fA).length :=
  real_fix_strictly_fewer fA 1 fA_wf 1 (by decide) (by decide)

/-! ## 8. repairing terminates -/

/-- one repair round: fix the first report at some safe placement chosen by `pick` -/
def repairStep (pick : File → Where) (f : File) : File :=
  match kept f with
  | [] => f
  | d :: _ => applyFix f d.2 (pick f)

def repairN (pick : File → Where) : Nat → File → File
  | 0, f => f
  | n + 1, f => repairN pick n (repairStep pick f)

theorem repair_terminates (pick : File → Where) (hp : ∀ f, Safe f (pick f)) (f : File) :
    kept (repairN pick (kept f).length f) = [] := by
  have key : ∀ (n : Nat) (f : File), (kept f).length ≤ n → kept (repairN pick n f) = [] := by
    intro n
    induction n with
    | zero =>
      intro f hf
      exact List.eq_nil_of_length_eq_zero (Nat.le_zero.mp hf)
    | succ n ih =>
      intro f hf
      show kept (repairN pick n (repairStep pick f)) = []
      apply ih
      unfold repairStep
      cases hkf : kept f with
      | nil => simp [hkf]
      | cons d ds =>
        have hmem : (d.1, d.2) ∈ kept f := by rw [hkf]; exact List.mem_cons_self
        have := fix_strictly_fewer f d.2 (pick f) (hp f) d.1 hmem
        simp only
        omega
  exact key _ f (Nat.le_refl _)

example : (kept fA).length = 3 ∧ kept (repairN (fun _ => .sameLine) (kept fA).length fA) = [] ∧
    kept (repairN (fun _ => .sameLine) 1 fA) ≠ [] ∧
    kept (repairN (fun _ => .newLineAt 0) (kept fA).length fA) = [] := by decide

/-! ## 9. regressions -/

/-- A separating `newLineAt k` between a directive and the references it covers makes a suppressed report come back:
on `fU` the only report is `(2, 2)`; the fix for name 2 placed on a new line 1 (between the directive on line 0 and the
reference to 1 it covers) removes that report but brings back the report about name 1 — `kept` is not shorter, and the
equation of `kept_applyFix` fails.  (So `Safe` cannot be dropped from theorems 1 and 5.) -/
theorem separating_placement_brings_report_back :
    ¬ Safe fU (.newLineAt 1) ∧
    kept fU = [(2, 2)] ∧
    kept (applyFix fU 2 (.newLineAt 1)) = [(2, 1)] ∧
    ¬ (kept (applyFix fU 2 (.newLineAt 1))).length < (kept fU).length ∧
    kept (applyFix fU 2 (.newLineAt 1)) ≠ ((kept fU).filter (fun d => d.2 != 2)).map (shiftBy (.newLineAt 1)) := by
  decide

/-- the same file, the positions the rule offers (`first = 0`): a new line 0, above the directive — safe, and the fix
works -/
example : wheres fU 0 = [.newLineAt 0, .newLineAt 0] ∧ Safe fU (.newLineAt 0) ∧
    kept (applyFix fU 2 (.newLineAt 0)) = [] := by decide

/-- `wheres` on `fA` (`first = 1`, a line directive directly above the first token line): the reference before any
import goes to `codeStart = first - 1 = 0`; the reference after the import that ends line 2 to a new line 3; the
references after the import in the middle of line 4 onto that line -/
theorem wheres_fA : wheres fA 1 = [.newLineAt 0, .newLineAt 3, .sameLine, .sameLine] ∧ codeStart fA 1 = 0 := by
  decide

/-- `wheres` on `fB` (no directive above the first token): a reference before any import goes to a new line `first` -/
theorem wheres_fB : wheres fB 1 = [.newLineAt 1] ∧ codeStart fB 1 = 1 ∧ kept (applyFix fB 7 (.newLineAt 1)) = [] := by
  decide

end DL.Imp
