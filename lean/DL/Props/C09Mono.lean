import DL.Props.C09

/-!
# C09 (generalised) — the directive pipeline commutes with every strictly monotone re-positioning

`DL.Props.C09` proves that the pipeline (`collect`, `lintInner`) commutes with a *uniform* translation of byte positions
by `k` and of lines by `j`.  Here the byte translation `· + k` is replaced by an arbitrary strictly monotone map
`φ : Nat → Nat` (lines are still translated by `j`).  The only place where the shape of `φ` matters is the comparator of
the final stable sort: `φ a < φ b ↔ a < b` and `φ a = φ b ↔ a = b`.

* `collect_remap`, `lintInner_remap`, `lintInner_remap_ext`: the generalised equivariance;
* `remapDiag_add` / `remapSt_add` / `strictMonoN_add`: the uniform shift is an instance;
* `crlfMap`, `crlfMap_strictMono`, `lintInner_crlf`: the LF→CRLF re-positioning.
-/
namespace DL.Props.C09Mono
open DL.Pipe DL.Props.C09

def StrictMonoN (φ : Nat → Nat) : Prop := ∀ a b, a < b → φ a < φ b

theorem StrictMonoN.lt_iff {φ : Nat → Nat} (hφ : StrictMonoN φ) (a b : Nat) : φ a < φ b ↔ a < b := by
  constructor
  · intro h
    rcases Nat.lt_trichotomy a b with hlt | heq | hgt
    · exact hlt
    · subst heq; exact absurd h (Nat.lt_irrefl _)
    · exact absurd (Nat.lt_trans h (hφ b a hgt)) (Nat.lt_irrefl _)
  · exact hφ a b

theorem StrictMonoN.eq_iff {φ : Nat → Nat} (hφ : StrictMonoN φ) (a b : Nat) : φ a = φ b ↔ a = b := by
  constructor
  · intro h
    rcases Nat.lt_trichotomy a b with hlt | heq | hgt
    · exact absurd h (Nat.ne_of_lt (hφ a b hlt))
    · exact heq
    · exact absurd h.symm (Nat.ne_of_lt (hφ b a hgt))
  · intro h; rw [h]

def remapPos (φ : Nat → Nat) (j : Nat) : Option (Nat × Nat) → Option (Nat × Nat)
  | none => none
  | some (s, l) => some (φ s, l + j)
def remapDiag (φ : Nat → Nat) (j : Nat) (d : Diag) : Diag := { d with pos := remapPos φ j d.pos }
def remapDir (φ : Nat → Nat) (j : Nat) (d : Dir) : Dir := { d with start := φ d.start, line := d.line + j }
def remapSt (φ : Nat → Nat) (j : Nat) (st : St) : St :=
  { file := st.file.map (remapDir φ j),
    lines := st.lines.map (fun kd => (kd.1 + j, remapDir φ j kd.2)),
    marks := st.marks.map (fun m => (shiftKey j m.1, m.2)) }

theorem lookupLine_remap (φ : Nat → Nat) (j l : Nat) (ls : List (Nat × Dir)) :
    lookupLine (l + j) (ls.map (fun kd => (kd.1 + j, remapDir φ j kd.2))) = (lookupLine l ls).map (remapDir φ j) := by
  induction ls with
  | nil => rfl
  | cons kd r ih =>
    obtain ⟨k', d'⟩ := kd
    simp only [List.map_cons, lookupLine]
    by_cases h : k' = l
    · subst h; simp
    · have : ¬ k' + j = l + j := by omega
      simp [h, ih]

theorem lookupLine_remap_small (φ : Nat → Nat) (j l : Nat) (hl : l < j) (ls : List (Nat × Dir)) :
    lookupLine l (ls.map (fun kd => (kd.1 + j, remapDir φ j kd.2))) = none := by
  induction ls with
  | nil => rfl
  | cons kd r ih =>
    obtain ⟨k', d'⟩ := kd
    simp only [List.map_cons, lookupLine]
    have : ¬ k' + j = l := by omega
    simp [this, ih]

@[simp] theorem fileNames_remap (φ : Nat → Nat) (j : Nat) (st : St) (c : String) : fileNames (remapSt φ j st) c = fileNames st c := by
  unfold fileNames remapSt; cases st.file <;> rfl

theorem lineNamesAt_remap (φ : Nat → Nat) (j l : Nat) (st : St) (c : String) :
    lineNamesAt (remapSt φ j st) (l + j) c = lineNamesAt st l c := by
  unfold lineNamesAt remapSt
  simp only [lookupLine_remap]
  cases lookupLine l st.lines <;> rfl

theorem hits_remap (φ : Nat → Nat) (j : Nat) (st : St) (d : Diag) :
    hits (remapSt φ j st) (remapDiag φ j d) = (hits st d).map (fun m => (shiftKey j m.1, m.2)) := by
  have hcode : (remapDiag φ j d).code = d.code := rfl
  have hpos : (remapDiag φ j d).pos = remapPos φ j d.pos := rfl
  unfold hits
  simp only [hcode, hpos, fileNames_remap]
  cases fileNames st d.code
  · simp only [Bool.false_eq_true, if_false]
    cases hp : d.pos with
    | none => rfl
    | some p =>
      obtain ⟨s, l⟩ := p
      simp only [remapPos]
      by_cases hl : l > 0
      · have e : l + j - 1 = (l - 1) + j := by omega
        have hl' : l + j > 0 := by omega
        simp only [e, lineNamesAt_remap, hl, hl', decide_true, Bool.true_and]
        cases lineNamesAt st (l - 1) d.code <;> simp [shiftKey]
      · have hl0 : l = 0 := by omega
        subst hl0
        simp only [Nat.zero_add, Nat.lt_irrefl, decide_false, Bool.false_and, Bool.false_eq_true, if_false,
          Option.map_none]
        by_cases hj : j > 0
        · have : lineNamesAt (remapSt φ j st) (j - 1) d.code = false := by
            unfold lineNamesAt remapSt
            simp [lookupLine_remap_small φ j (j - 1) (by omega)]
          simp [this]
        · simp [hj]
  · simp [shiftKey]

theorem mark_remap (φ : Nat → Nat) (j : Nat) (st : St) (m : DirKey × String) :
    remapSt φ j (st.mark m.1 m.2) = (remapSt φ j st).mark (shiftKey j m.1) m.2 := by
  simp [remapSt, St.mark]

theorem checkUsage_remap (φ : Nat → Nat) (j : Nat) (st : St) (raw : List Diag) :
    checkUsage (remapSt φ j st) (raw.map (remapDiag φ j)) =
      (remapSt φ j (checkUsage st raw).1, (checkUsage st raw).2.map (remapDiag φ j)) := by
  induction raw generalizing st with
  | nil => rfl
  | cons d ds ih =>
    simp only [List.map_cons, checkUsage]
    rw [stepUsage_eq, stepUsage_eq, hits_remap]
    cases hh : hits st d with
    | none => simp only [Option.map_none]; rw [ih]; simp
    | some m => simp only [Option.map_some]; rw [← mark_remap, ih]; simp

theorem dirDiags_remap (φ : Nat → Nat) (j : Nat) (code : String) (mk : String → Payload) (p : String → Bool) (d : Dir) :
    dirDiags code mk p (remapDir φ j d) = (dirDiags code mk p d).map (remapDiag φ j) := by
  simp [dirDiags, remapDir, remapDiag, remapPos, List.map_map, Function.comp_def]

theorem allDirDiags_remap (φ : Nat → Nat) (j : Nat) (code : String) (mk : String → Payload) (p q : DirKey → String → Bool) (st : St)
    (hpq : ∀ key c, q (shiftKey j key) c = p key c) :
    allDirDiags code mk q (remapSt φ j st) = (allDirDiags code mk p st).map (remapDiag φ j) := by
  unfold allDirDiags
  rw [List.map_append]
  congr 1
  · cases hf : st.file with
    | none => simp [remapSt, hf]
    | some f =>
      simp only [remapSt, hf, Option.map_some]
      rw [dirDiags_remap]
      have : q none = p none := by funext c; exact hpq none c
      rw [this]
  · simp only [remapSt, List.flatMap_map, List.map_flatMap]
    congr 1
    funext kd
    rw [dirDiags_remap]
    have : q (some (kd.1 + j)) = p (some kd.1) := by funext c; exact hpq (some kd.1) c
    rw [this]

theorem used_remap (φ : Nat → Nat) (j : Nat) (st : St) (key : DirKey) (c : String) :
    (remapSt φ j st).used (shiftKey j key) c = st.used key c := by
  unfold St.used remapSt
  simp only
  induction st.marks with
  | nil => rfl
  | cons m r ih =>
    simp only [List.map_cons, List.contains_cons, ih]
    congr 1
    exact beq_shift j key m.1 c m.2

theorem markFile_remap (φ : Nat → Nat) (j : Nat) (st : St) (c : String) : remapSt φ j (markFile st c) = markFile (remapSt φ j st) c := by
  unfold markFile
  rw [fileNames_remap]
  split
  · exact mark_remap φ j st (none, c)
  · rfl

theorem banUnknown_remap (φ : Nat → Nat) (j : Nat) (a : List String) (cu : Bool) (st : St) :
    banUnknown a cu (remapSt φ j st) =
      (remapSt φ j (banUnknown a cu st).1, (banUnknown a cu st).2.map (remapDiag φ j)) := by
  have hA := allDirDiags_remap φ j cUnknown .unknown (unknownP a) (unknownP a) st (fun _ _ => rfl)
  unfold banUnknown
  dsimp only
  rw [hA]
  have hE : ((allDirDiags cUnknown Payload.unknown (unknownP a) st).map (remapDiag φ j)).isEmpty
      = (allDirDiags cUnknown Payload.unknown (unknownP a) st).isEmpty := by
    cases allDirDiags cUnknown Payload.unknown (unknownP a) st <;> rfl
  rw [hE]
  by_cases he : (allDirDiags cUnknown Payload.unknown (unknownP a) st).isEmpty = true
  · simp only [he, if_true, fileNames_remap]
    split <;> simp
  · simp only [he, Bool.false_eq_true, if_false]
    rw [← markFile_remap, fileNames_remap]
    split <;> simp

theorem banUnused_remap (φ : Nat → Nat) (j : Nat) (en : List String) (st : St) :
    banUnused en (remapSt φ j st) = (banUnused en st).map (remapDiag φ j) := by
  unfold banUnused
  rw [fileNames_remap]
  split
  · rfl
  · exact allDirDiags_remap φ j cUnused .unused (unusedP en st) (unusedP en (remapSt φ j st)) st
      (fun key c => by simp [unusedP, used_remap])

/-- the one place where the shape of `φ` matters: the comparator of the final sort cannot tell a strictly monotone
re-positioning from the identity -/
theorem diagLe_remap (φ : Nat → Nat) (hφ : StrictMonoN φ) (j : Nat) (a b : Diag) :
    diagLe (remapDiag φ j a) (remapDiag φ j b) = diagLe a b := by
  have hca : (remapDiag φ j a).code = a.code := rfl
  have hcb : (remapDiag φ j b).code = b.code := rfl
  have hpa : (remapDiag φ j a).pos = remapPos φ j a.pos := rfl
  have hpb : (remapDiag φ j b).pos = remapPos φ j b.pos := rfl
  unfold diagLe
  simp only [hca, hcb, hpa, hpb]
  rcases a.pos with _ | ⟨x, _⟩ <;> rcases b.pos with _ | ⟨y, _⟩ <;> simp only [remapPos]
  have h1 : (φ x < φ y) ↔ (x < y) := hφ.lt_iff x y
  have h2 : (φ x == φ y) = (x == y) := by
    rw [Bool.eq_iff_iff]; simp only [beq_iff_eq]; exact hφ.eq_iff x y
  rw [h2]; simp [h1]

/-- the final stable sort commutes with a strictly monotone re-positioning -/
theorem mergeSort_remap (φ : Nat → Nat) (hφ : StrictMonoN φ) (j : Nat) (l : List Diag) :
    (l.map (remapDiag φ j)).mergeSort diagLe = (l.mergeSort diagLe).map (remapDiag φ j) :=
  (List.map_mergeSort (r := diagLe) (s := diagLe) (f := remapDiag φ j)
    (fun _ _ _ _ => (diagLe_remap φ hφ j _ _).symm)).symm

/-- **equivariance of the pipeline, generalised**: re-positioning every raw diagnostic and every directive by a strictly
monotone `φ` on bytes and by `+ j` on lines re-positions the result, and changes nothing else -/
theorem collect_remap (φ : Nat → Nat) (hφ : StrictMonoN φ) (j : Nat) (cfg : Cfg) (extCodes : List String) (st : St)
    (raw : List Diag) :
    collect cfg extCodes (remapSt φ j st) (raw.map (remapDiag φ j)) =
      (collect cfg extCodes st raw).map (remapDiag φ j) := by
  unfold collect
  dsimp only
  rw [checkUsage_remap]
  dsimp only
  rw [banUnknown_remap]
  dsimp only
  rw [← mergeSort_remap φ hφ j]
  congr 1
  rw [List.map_append, List.map_append]
  congr 1
  split
  · rw [banUnused_remap]
  · rfl

theorem ignoreAll_remap (φ : Nat → Nat) (j : Nat) (st : St) : ignoreAll (remapSt φ j st) = ignoreAll st := by
  unfold ignoreAll remapSt; cases st.file <;> rfl

theorem lintInner_remap (φ : Nat → Nat) (hφ : StrictMonoN φ) (j : Nat) (cfg : Cfg) (st : St) (ruleDiags : List Diag) :
    lintInner cfg (remapSt φ j st) (ruleDiags.map (remapDiag φ j)) none =
      (lintInner cfg st ruleDiags none).map (remapDiag φ j) := by
  unfold lintInner
  rw [ignoreAll_remap]
  split
  · rfl
  · exact collect_remap φ hφ j cfg [] st ruleDiags

/-- the same with an external linter's result: its diagnostics are re-positioned, its codes are unchanged -/
theorem lintInner_remap_ext (φ : Nat → Nat) (hφ : StrictMonoN φ) (j : Nat) (cfg : Cfg) (st : St)
    (ruleDiags extDiags : List Diag) (extCodes : List String) :
    lintInner cfg (remapSt φ j st) (ruleDiags.map (remapDiag φ j)) (some (extDiags.map (remapDiag φ j), extCodes)) =
      (lintInner cfg st ruleDiags (some (extDiags, extCodes))).map (remapDiag φ j) := by
  unfold lintInner
  rw [ignoreAll_remap]
  split
  · rfl
  · dsimp only
    rw [← List.map_append]
    exact collect_remap φ hφ j cfg extCodes st (ruleDiags ++ extDiags)

/-- both variants at once: `ext` is any external result, re-positioned by `Option.map` -/
theorem lintInner_remap_opt (φ : Nat → Nat) (hφ : StrictMonoN φ) (j : Nat) (cfg : Cfg) (st : St)
    (ruleDiags : List Diag) (ext : Option (List Diag × List String)) :
    lintInner cfg (remapSt φ j st) (ruleDiags.map (remapDiag φ j))
        (ext.map fun e => (e.1.map (remapDiag φ j), e.2)) =
      (lintInner cfg st ruleDiags ext).map (remapDiag φ j) := by
  cases ext with
  | none => exact lintInner_remap φ hφ j cfg st ruleDiags
  | some e => obtain ⟨ed, ec⟩ := e; exact lintInner_remap_ext φ hφ j cfg st ruleDiags ed ec

/-! ### the uniform shift of `DL.Props.C09` is an instance -/

theorem strictMonoN_add (k : Nat) : StrictMonoN (· + k) := fun _ _ h => Nat.add_lt_add_right h k

theorem remapPos_add (k j : Nat) : remapPos (· + k) j = shiftPos k j := by
  funext p; rcases p with _ | ⟨s, l⟩ <;> rfl
theorem remapDiag_add (k j : Nat) : remapDiag (· + k) j = shiftDiag k j := by
  funext d; simp only [remapDiag, shiftDiag, remapPos_add]
theorem remapDir_add (k j : Nat) : remapDir (· + k) j = shiftDir k j := rfl
theorem remapSt_add (k j : Nat) : remapSt (· + k) j = shiftSt k j := rfl

/-- brief's name: the old `shiftDiag` is `remapDiag` at `· + k` -/
theorem shift_is_remap (k j : Nat) : remapDiag (· + k) j = shiftDiag k j := remapDiag_add k j
theorem shift_is_remap_st (k j : Nat) : remapSt (· + k) j = shiftSt k j := remapSt_add k j

/-- `collect_shift` of C09, re-derived as an instance of `collect_remap` -/
theorem collect_shift' (k j : Nat) (cfg : Cfg) (extCodes : List String) (st : St) (raw : List Diag) :
    collect cfg extCodes (shiftSt k j st) (raw.map (shiftDiag k j)) =
      (collect cfg extCodes st raw).map (shiftDiag k j) := by
  rw [← shift_is_remap, ← shift_is_remap_st]
  exact collect_remap (· + k) (strictMonoN_add k) j cfg extCodes st raw

/-- `lintInner_shift` of C09, re-derived as an instance of `lintInner_remap` -/
theorem lintInner_shift' (k j : Nat) (cfg : Cfg) (st : St) (ruleDiags : List Diag) :
    lintInner cfg (shiftSt k j st) (ruleDiags.map (shiftDiag k j)) none =
      (lintInner cfg st ruleDiags none).map (shiftDiag k j) := by
  rw [← shift_is_remap, ← shift_is_remap_st]
  exact lintInner_remap (· + k) (strictMonoN_add k) j cfg st ruleDiags

/-! ### the LF→CRLF map -/

/-- `nls`: the byte offsets of the line feeds of a text.  Converting every `\n` to `\r\n` moves the byte at offset `o`
by the number of line feeds strictly before it. -/
def crlfMap (nls : List Nat) (o : Nat) : Nat := o + (nls.filter (· < o)).length

theorem crlfMap_mono_count (nls : List Nat) (a b : Nat) (h : a ≤ b) :
    (nls.filter (· < a)).length ≤ (nls.filter (· < b)).length := by
  induction nls with
  | nil => exact Nat.le_refl _
  | cons n r ih =>
    simp only [List.filter_cons]
    by_cases ha : n < a
    · have hb : n < b := Nat.lt_of_lt_of_le ha h
      simp only [ha, hb, decide_true, if_true, List.length_cons]
      omega
    · by_cases hb : n < b
      · simp only [ha, hb, decide_true, decide_false, if_true, Bool.false_eq_true, if_false, List.length_cons]
        omega
      · simp only [ha, hb, decide_false, Bool.false_eq_true, if_false]
        exact ih

theorem crlfMap_strictMono (nls : List Nat) : StrictMonoN (crlfMap nls) := by
  intro a b h
  unfold crlfMap
  have := crlfMap_mono_count nls a b (Nat.le_of_lt h)
  omega

/-- **the pipeline commutes with LF→CRLF**: line numbers do not change (`j = 0`), positions move monotonically -/
theorem lintInner_crlf (nls : List Nat) (cfg : Cfg) (st : St) (ruleDiags : List Diag) :
    lintInner cfg (remapSt (crlfMap nls) 0 st) (ruleDiags.map (remapDiag (crlfMap nls) 0)) none =
      (lintInner cfg st ruleDiags none).map (remapDiag (crlfMap nls) 0) :=
  lintInner_remap (crlfMap nls) (crlfMap_strictMono nls) 0 cfg st ruleDiags

theorem collect_crlf (nls : List Nat) (cfg : Cfg) (extCodes : List String) (st : St) (raw : List Diag) :
    collect cfg extCodes (remapSt (crlfMap nls) 0 st) (raw.map (remapDiag (crlfMap nls) 0)) =
      (collect cfg extCodes st raw).map (remapDiag (crlfMap nls) 0) :=
  collect_remap (crlfMap nls) (crlfMap_strictMono nls) 0 cfg extCodes st raw

/-! ### non-vacuity -/

example : crlfMap [3, 10] 3 = 3 ∧ crlfMap [3, 10] 4 = 5 ∧ crlfMap [3, 10] 12 = 14 := by decide

/-- text `abc\n// deno-lint-ignore r1 r9\n…` (line feeds at bytes 3 and 10): one line directive on line 1 (byte 4) naming
`r1` and `r9`; a raw `r1` diagnostic on line 2 (byte 12, suppressed by the previous line), a raw `r3` diagnostic on line 2
(byte 11, kept) and a raw `r2` diagnostic on line 0 (byte 1, kept, sorted to the front); `ban-unused-ignore` reports `r9`
at the directive -/
def exSt : St := { file := none, lines := [(1, ⟨4, 1, ["r1", "r9"]⟩)] }
def exRaw : List Diag := [⟨"r1", some (12, 2), .raw 0⟩, ⟨"r3", some (11, 2), .raw 2⟩, ⟨"r2", some (1, 0), .raw 1⟩]
def exCfg : Cfg :=
  { configured := ["r1", "r2", "r3", "r9", "ban-unused-ignore"], allCodes := ["r1", "r2", "r3", "r9", "ban-unused-ignore"] }

example : remapSt (crlfMap [3, 10]) 0 exSt = { file := none, lines := [(1, ⟨5, 1, ["r1", "r9"]⟩)] } := by decide
example : exRaw.map (remapDiag (crlfMap [3, 10]) 0) =
    [⟨"r1", some (14, 2), .raw 0⟩, ⟨"r3", some (13, 2), .raw 2⟩, ⟨"r2", some (1, 0), .raw 1⟩] := by decide

/-- the expected result: `r2` first (byte 1), then the accounting diagnostic at the moved directive (byte 4 ↦ 5), then `r3`
(byte 11 ↦ 13); the suppressed `r1` is gone -/
def exOut : List Diag :=
  [⟨"r2", some (1, 0), .raw 1⟩, ⟨cUnused, some (5, 1), .unused "r9"⟩, ⟨"r3", some (13, 2), .raw 2⟩]

set_option linter.unusedSimpArgs false in
/-- both sides of `collect_remap` at the concrete data, evaluated independently of the theorem -/
example :
    collect exCfg [] (remapSt (crlfMap [3, 10]) 0 exSt) (exRaw.map (remapDiag (crlfMap [3, 10]) 0)) = exOut
    ∧ (collect exCfg [] exSt exRaw).map (remapDiag (crlfMap [3, 10]) 0) = exOut := by
  constructor <;>
  simp [collect, exCfg, exSt, exRaw, exOut, checkUsage, stepUsage, stepLine, fileNames, lineNamesAt, lookupLine,
    Dir.hasCode, St.mark, banUnknown, banUnused, allDirDiags, dirDiags, unknownP, unusedP, St.used, Cfg.checkUnknown,
    cUnknown, cUnused, markFile, diagLe, remapSt, remapDiag, remapDir, remapPos, crlfMap, shiftKey,
    List.mergeSort, List.MergeSort.Internal.splitInTwo, List.merge]

/-- … and the theorem's instance at the same data -/
example :
    collect exCfg [] (remapSt (crlfMap [3, 10]) 0 exSt) (exRaw.map (remapDiag (crlfMap [3, 10]) 0)) =
      (collect exCfg [] exSt exRaw).map (remapDiag (crlfMap [3, 10]) 0) :=
  collect_remap _ (crlfMap_strictMono [3, 10]) 0 exCfg [] exSt exRaw

/-- strict monotonicity is needed: a non-monotone `φ` (swap bytes 1 and 11) changes the comparator's verdict -/
example : diagLe (remapDiag (fun o => if o = 1 then 11 else if o = 11 then 1 else o) 0 ⟨"r2", some (1, 0), .raw 1⟩)
      (remapDiag (fun o => if o = 1 then 11 else if o = 11 then 1 else o) 0 ⟨"r3", some (11, 2), .raw 2⟩) = false
    ∧ diagLe ⟨"r2", some (1, 0), .raw 1⟩ ⟨"r3", some (11, 2), .raw 2⟩ = true := by
  constructor <;> simp [diagLe, remapDiag, remapPos]

end DL.Props.C09Mono
