import DL.Lemmas.Dir
import DL.Lemmas.Pipe

/-!
# C01 — linting is total: no panic, no hang (the repository's own kernels)

The places where the repository's *own* framework code can abort or loop, and what is proved about each:

* directive parsing: `strip_prefix(..).unwrap()` is guarded (`parseIgnore_never_panics`); the parser is a total
  structural recursion;
* the diagnostic pipeline: `diagnostic_line - 1` is guarded by `diagnostic_line > 0`; every pass is a structural
  recursion over finite lists (totality is by construction of the Lean definitions: Lean accepts no partial function);
  `pipeline_output_bounded` bounds the size of the result;
* traversal stop flag and the regex validator: see `DL.Props.C01Trav`, `DL.Props.C12`.
The swc parser and the ~120 rule bodies are *not* modelled: for them only the search step (fuzzing over generated and
corpus programs under `catch_unwind`, every media type) speaks.
-/
namespace DL.Props.C01
open DL.Pipe

/-- no directive comment can make `parse_ignore_comment` panic -/
theorem directive_parser_never_panics (word : List Char) (kind : DL.Dir.Kind) (text : List Char) :
    DL.Dir.parseIgnorePanics word kind text = false := DL.Dir.parseIgnore_never_panics word kind text

/-- the subtraction in `get_mut(&(diagnostic_line - 1))` happens only for `diagnostic_line > 0`: a hit on a line
directive always comes from a positive line, so `usize` underflow is impossible -/
theorem line_lookup_never_underflows (st : St) (d : Diag) (k : Nat) (c : String)
    (h : hits st d = some (some k, c)) : ∃ s line, d.pos = some (s, line) ∧ line > 0 ∧ k = line - 1 := by
  unfold hits at h
  split at h
  · cases h
  · cases hp : d.pos with
    | none => simp [hp] at h
    | some p =>
      obtain ⟨s, line⟩ := p
      simp only [hp] at h
      split at h
      · rename_i hc
        simp only [Bool.and_eq_true, decide_eq_true_eq] at hc
        injection h with h; injection h with h1 h2; injection h1 with h1
        exact ⟨s, line, rfl, hc.1, h1.symm⟩
      · cases h

/-- the result is never longer than the input diagnostics plus one accounting diagnostic per (directive, code) and
accounting rule: no pass can blow up -/
theorem pipeline_output_bounded (cfg : Cfg) (extCodes : List String) (st : St) (raw : List Diag) :
    (collect cfg extCodes st raw).length ≤
      raw.length + 2 * ((match st.file with | some f => f.codes.length | none => 0) +
        (st.lines.map (fun kd => kd.2.codes.length)).sum) := by
  have hdir : ∀ code mk p (d : Dir), (dirDiags code mk p d).length ≤ d.codes.length := by
    intro code mk p d; simp only [dirDiags, List.length_map, List.length_mergeSort]; exact List.length_filter_le _ _
  have hall : ∀ code mk p (s : St), s.file = st.file → s.lines = st.lines → (allDirDiags code mk p s).length ≤
      (match st.file with | some f => f.codes.length | none => 0) + (st.lines.map (fun kd => kd.2.codes.length)).sum := by
    intro code mk p s hf hl
    unfold allDirDiags
    rw [hf, hl, List.length_append]
    apply Nat.add_le_add
    · cases st.file with
      | none => simp
      | some f => exact hdir _ _ _ f
    · induction st.lines with
      | nil => simp
      | cons kd r ih =>
        simp only [List.flatMap_cons, List.length_append, List.map_cons, List.sum_cons]
        exact Nat.add_le_add (hdir _ _ _ kd.2) ih
  unfold collect
  simp only [List.length_mergeSort, List.length_append, checkUsage_kept]
  have h1 := List.length_filter_le (fun d => !suppressed st d) raw
  generalize hB : (match st.file with | some f => f.codes.length | none => 0) +
      (st.lines.map (fun kd => kd.2.codes.length)).sum = B at hall ⊢
  have h2 : (banUnknown (cfg.allCodes ++ extCodes) cfg.checkUnknown (checkUsage st raw).1).2.length ≤ B := by
    rw [banUnknown_snd]
    split
    · exact hall _ _ _ _ (checkUsage_file st raw) (checkUsage_lines st raw)
    · exact Nat.zero_le _
  have h3 : (if (extCodes ++ cfg.configured).contains cUnused = true then
      banUnused (extCodes ++ cfg.configured) (banUnknown (cfg.allCodes ++ extCodes) cfg.checkUnknown (checkUsage st raw).1).1
      else []).length ≤ B := by
    split
    · unfold banUnused
      split
      · exact Nat.zero_le _
      · exact hall _ _ _ _ (by simp) (by simp)
    · exact Nat.zero_le _
  omega

/-! non-vacuity -/
example : DL.Dir.parseIgnore (chars! "w") .line (chars! "  w a,b") = some [chars! "a", chars! "b"] := by decide

end DL.Props.C01
