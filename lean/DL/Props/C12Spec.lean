import DL.Lemmas.RxSpecScanG
import DL.Props.C12

/-!
# C12 (grammar) — in Unicode mode the validator accepts only patterns of the ECMAScript grammar

Specification: `DL/Model/RegexSpec.lean` (ES2022 §22.2.1 with `[+UnicodeMode, +NamedCaptureGroups]`, early errors of
§22.2.1.1 included).  Proved here: **soundness** of `validate_pattern` with the `u` flag — whatever it accepts is
derivable from `Pattern` and free of early errors — for every initial validator state and every fuel, with one
documented deviation: the early error of `{lo,hi}` is checked on `i64`-saturated values, so it is
`lo ≤ hi ∨ 2^63 - 1 ≤ hi` instead of `lo ≤ hi` (see `quantifier_saturation` below for the concrete pattern).

Hypotheses: the pattern consists of code points (`≤ 0x10FFFF`) and is shorter than `2^62`.
Not proved: completeness (every valid pattern is accepted), and the non-`u` (Annex B) mode.
-/
namespace DL.Props.C12
open DL.Rx DL.RxSpec

/-- the early error of `{lo,hi}` as implemented: the comparison is made after saturating both numbers to `i64` -/
def qokModel (lo hi : Nat) : Prop := lo ≤ hi ∨ 2 ^ 63 - 1 ≤ hi

theorem qokSat_iff (lo hi : Nat) : qokSat lo hi ↔ qokModel lo hi := by
  unfold qokSat qokModel satI i64Max
  constructor
  · intro h
    split at h <;> split at h <;> omega
  · intro h
    split <;> split <;> omega

theorem QuantifierPrefix.mono {q q' : Nat → Nat → Prop} (hq : ∀ lo hi, q lo hi → q' lo hi) {i r : Str}
    (h : QuantifierPrefix q i r) : QuantifierPrefix q' i r := by
  cases h with
  | star r => exact .star r
  | plus r => exact .plus r
  | opt r => exact .opt r
  | exact m r ds h => exact .exact m r ds h
  | atLeast m r ds h => exact .atLeast m r ds h
  | range m₁ m₂ r ds₁ ds₂ h1 h2 h3 => exact .range m₁ m₂ r ds₁ ds₂ h1 h2 (hq _ _ h3)

theorem Quantifier.mono {q q' : Nat → Nat → Prop} (hq : ∀ lo hi, q lo hi → q' lo hi) {i r : Str}
    (h : Quantifier q i r) : Quantifier q' i r := by
  cases h with
  | greedy h => exact .greedy _ _ (QuantifierPrefix.mono hq h)
  | lazy h => exact .lazy _ _ (QuantifierPrefix.mono hq h)

theorem Derives.mono {q q' : Nat → Nat → Prop} (hq : ∀ lo hi, q lo hi → q' lo hi) {N : Nat} {sym : Sym} {i r : Str}
    {a : Attr} (h : Derives q N sym i r a) : Derives q' N sym i r a := by
  induction h with
  | disjOne i r a _ ih => exact .disjOne i r a ih
  | disjMore i m r a₁ a₂ _ _ ih1 ih2 => exact .disjMore i m r a₁ a₂ ih1 ih2
  | altEmpty r => exact .altEmpty r
  | altSnoc i m r a₁ a₂ _ _ ih1 ih2 => exact .altSnoc i m r a₁ a₂ ih1 ih2
  | termAssertion i r a _ ih => exact .termAssertion i r a ih
  | termAtom i r a _ ih => exact .termAtom i r a ih
  | termQuantified i m r a _ hqq ih => exact .termQuantified i m r a ih (Quantifier.mono hq hqq)
  | caret r => exact .caret r
  | dollar r => exact .dollar r
  | wordBoundary r => exact .wordBoundary r
  | notWordBoundary r => exact .notWordBoundary r
  | lookahead i m r a hl _ ih => exact .lookahead i m r a hl ih
  | negativeLookahead i m r a hl _ ih => exact .negativeLookahead i m r a hl ih
  | lookbehind i m r a hl _ ih => exact .lookbehind i m r a hl ih
  | negativeLookbehind i m r a hl _ ih => exact .negativeLookbehind i m r a hl ih
  | patternCharacter x r hx => exact .patternCharacter x r hx
  | dot r => exact .dot r
  | atomEscape m r a h => exact .atomEscape m r a h
  | characterClass i r h => exact .characterClass i r h
  | group m₁ m₂ r name a hg _ ih => exact .group m₁ m₂ r name a hg ih
  | nonCapturing i m r a hl _ ih => exact .nonCapturing i m r a hl ih

/-- **soundness of the validator in Unicode mode** -/
theorem validatePattern_sound (fuel : Nat) (src : List Nat) (st s' : St) (hsrc : ∀ x ∈ src, x ≤ 0x10FFFF)
    (hlen : src.length < 2 ^ 62) (h : validatePattern fuel src true st = .ok () s') :
    ValidPatternWith qokModel src := by
  obtain ⟨a, hd, hnd, hrefs⟩ := validatePattern_sound_scan fuel src st s' hsrc hlen h
  have hcount := derives_scan hd 0
  rw [Nat.zero_add] at hcount
  have hN : scan src false false 0 = a.groups.length := hcount
  rw [hN] at hd
  exact ⟨hsrc, a, Derives.mono (fun lo hi h => (qokSat_iff lo hi).mp h) hd, hnd, hrefs⟩

/-- for quantifier bounds below `2^63 - 1` the implemented early error is the standard's -/
theorem qokModel_small {lo hi : Nat} (h : hi < 2 ^ 63 - 1) : qokModel lo hi ↔ lo ≤ hi := by
  unfold qokModel; omega

/-- the rule: a regular expression literal with the `u` flag that is NOT reported has a valid pattern -/
theorem checkRegex_u_sound (fuel : Nat) (pattern flags : List Nat) (st s' : St)
    (hu : flags.contains (ch 'u') = true) (hsrc : ∀ x ∈ pattern, x ≤ 0x10FFFF) (hlen : pattern.length < 2 ^ 62)
    (h : checkRegex fuel pattern flags st = .ok false s') : ValidPatternWith qokModel pattern := by
  have key : checkRegex fuel pattern flags st =
      (if checkForInvalidFlags flags = true then (pure true : M Bool) else
        checkForInvalidPattern fuel pattern (flags.contains (ch 'u'))) st := rfl
  rw [key] at h
  by_cases hf : checkForInvalidFlags flags = true
  · rw [if_pos hf] at h; cases h
  · rw [if_neg hf, hu] at h
    unfold checkForInvalidPattern at h
    cases hv : validatePattern fuel pattern true st with
    | ok u s1 =>
      cases u
      exact validatePattern_sound fuel pattern st s1 hsrc hlen hv
    | err _ _ => rw [hv] at h; cases h
    | panic _ _ => rw [hv] at h; cases h
    | outOfFuel _ => rw [hv] at h; cases h

/-! ### the documented deviation: `{lo,hi}` with numbers beyond `i64`

The standard: "It is a Syntax Error if the MV of the first DecimalDigits is strictly greater than the MV of the
second DecimalDigits."  The validator saturates both at `i64::MAX` before comparing, so this out-of-order quantifier
is accepted (V8 clamps at `kMaxInt` in the same way; engines accept it too). -/
theorem quantifier_saturation :
    verdict (chars! "a{99999999999999999999,99999999999999999998}") (chars! "u") = some false := by decide +kernel

/-! ### cross-checks of details of the specification against the model (verdict `true` = reported) -/
-- `\0` [lookahead ∉ DecimalDigit]; no legacy octal with `u`
example : verdict (chars! "\\0") (chars! "u") = some false := by decide +kernel
example : verdict (chars! "\\00") (chars! "u") = some true := by decide +kernel
-- DecimalEscape > NcapturingParens (the groups may come later)
example : verdict (chars! "\\1(a)") (chars! "u") = some false := by decide +kernel
example : verdict (chars! "\\2(a)") (chars! "u") = some true := by decide +kernel
-- named groups: dangling reference, duplicate names, escapes in names
example : verdict (chars! "\\k<a>(?<a>x)") (chars! "u") = some false := by decide +kernel
example : verdict (chars! "\\k<b>(?<a>x)") (chars! "u") = some true := by decide +kernel
example : verdict (chars! "(?<a>x)(?<a>y)") (chars! "u") = some true := by decide +kernel
example : verdict (chars! "(?<a\\u0062>x)\\k<ab>") (chars! "u") = some false := by decide +kernel
-- class ranges: out of order, class escape as an end, surrogate pairs are one code point
example : verdict (chars! "[z-a]") (chars! "u") = some true := by decide +kernel
example : verdict (chars! "[\\d-x]") (chars! "u") = some true := by decide +kernel
example : verdict (chars! "[a-]") (chars! "u") = some false := by decide +kernel
example : verdict (chars! "[\\uD83D\\uDE00-\\uD83D\\uDE01]") (chars! "u") = some false := by decide +kernel
example : verdict (chars! "[\\uD83D\\uDE01-\\uD83D\\uDE00]") (chars! "u") = some true := by decide +kernel
-- ClassEscape `-` only inside a class; IdentityEscape[+U] is SyntaxCharacter or `/`
example : verdict (chars! "[\\-]") (chars! "u") = some false := by decide +kernel
example : verdict (chars! "\\-") (chars! "u") = some true := by decide +kernel
example : verdict (chars! "\\/") (chars! "u") = some false := by decide +kernel
example : verdict (chars! "\\a") (chars! "u") = some true := by decide +kernel
-- `\u{…}` ≤ 0x10FFFF, property escapes
example : verdict (chars! "\\u{10FFFF}") (chars! "u") = some false := by decide +kernel
example : verdict (chars! "\\u{110000}") (chars! "u") = some true := by decide +kernel
example : verdict (chars! "\\p{Lu}\\p{Script=Greek}") (chars! "u") = some false := by decide +kernel
example : verdict (chars! "\\p{Foo}") (chars! "u") = some true := by decide +kernel
-- quantifiers: `{m,n}` order, nothing to repeat, assertions are not quantifiable with `u`
example : verdict (chars! "a{2,1}") (chars! "u") = some true := by decide +kernel
example : verdict (chars! "a{1,2}?") (chars! "u") = some false := by decide +kernel
example : verdict (chars! "a**") (chars! "u") = some true := by decide +kernel
example : verdict (chars! "(?=a)*") (chars! "u") = some true := by decide +kernel
example : verdict (chars! "(?<=a)b") (chars! "u") = some false := by decide +kernel
-- SyntaxCharacters are not PatternCharacters
example : verdict (chars! "a]") (chars! "u") = some true := by decide +kernel
example : verdict (chars! "a}") (chars! "u") = some true := by decide +kernel
example : verdict (chars! "a{") (chars! "u") = some true := by decide +kernel

end DL.Props.C12

#print axioms DL.Props.C12.validatePattern_sound
#print axioms DL.Props.C12.checkRegex_u_sound
