import DL.Model.Vms
import DL.Lemmas.Vms1
import DL.Lemmas.Vms2
import DL.Lemmas.Vms3
import DL.Lemmas.Vms4
/-!
# C13 for `verbatim-module-syntax` (model M-VMS)

Property C13: *applying any one fix of a diagnostic yields a file in which the rule reports strictly fewer diagnostics
than before, the fixed one being gone; repeatedly applying the first available fix therefore terminates with none left.*

Stated here for every abstract module (`DL.Vms.Module`): any value-usage set, any number of import / export
declarations with any specifiers (also ill-formed ones: the same local imported twice, exports of names that are not
imported, inline `type` on default specifiers, …).

The proof (in `DL/Lemmas/Vms1.lean` … `Vms4.lean`): the number of diagnostics is a sum of per-item counts
(`itemsDiags_length`); the count of an item depends on the module only through `hasImportIdent` / `hasExportIdent` at the
names of its own value specifiers (`itemCnt_congr`); a fix removes from `importValue` / `exportValue` only names that
were "only used in types" (`importValue_fix_lost`, `exportValue_fix_lost`), hence the two predicates are unchanged where
they matter (`idents_stable`) and all other items keep their counts; the fixed item loses one (`fix_local_lt`).
-/
namespace DL.Props.C13Vms
open DL.Vms

/-- **C13, strictly fewer**: the fix of any reported diagnostic leaves strictly fewer diagnostics -/
theorem fix_strictly_fewer (m : Module) (d : Diag) (h : d ∈ diags m) :
    (diags (applyFix m d)).length < (diags m).length :=
  length_diags_applyFix_lt m d h

/-- **C13, the fixed one is gone**: the diagnostic whose fix was applied is not reported for the fixed module.
(For the fix that moves a default / namespace binding to an `import type` declaration of its own the item indices after
it shift by one; position `d.item` is then the new type-only declaration, which reports nothing.) -/
theorem fixed_diag_gone (m : Module) (d : Diag) (h : d ∈ diags m) : d ∉ diags (applyFix m d) :=
  not_mem_diags_applyFix m d h

/-- what is left after a fix was reported before, up to the shift of item indices: there are no more diagnostics than
before minus one -/
theorem fix_at_most_pred (m : Module) (d : Diag) (h : d ∈ diags m) :
    (diags (applyFix m d)).length ≤ (diags m).length - 1 := by
  have := fix_strictly_fewer m d h; omega

/-- repeatedly apply the fix of the first diagnostic, at most `fuel` times -/
def repair : Nat → Module → Module
  | 0, m => m
  | fuel + 1, m =>
    match diags m with
    | [] => m
    | d :: _ => repair fuel (applyFix m d)

/-- enough fuel removes every diagnostic -/
theorem repair_of_le (fuel : Nat) (m : Module) (h : (diags m).length ≤ fuel) : diags (repair fuel m) = [] := by
  induction fuel generalizing m with
  | zero =>
    simp only [repair]
    exact List.eq_nil_of_length_eq_zero (by omega)
  | succ fuel ih =>
    simp only [repair]
    split
    · assumption
    · rename_i d r hd
      apply ih
      have := fix_strictly_fewer m d (by rw [hd]; exact List.mem_cons_self)
      omega

/-- **C13, termination**: as many rounds as there are diagnostics suffice to remove them all -/
theorem repair_terminates (m : Module) : diags (repair (diags m).length m) = [] :=
  repair_of_le _ m (Nat.le_refl _)

/-- `repair` never touches the value-usage set -/
theorem repair_used (fuel : Nat) (m : Module) : (repair fuel m).used = m.used := by
  induction fuel generalizing m with
  | zero => rfl
  | succ fuel ih =>
    simp only [repair]
    split
    · rfl
    · rw [ih]; rfl

/-! ## the hypotheses are satisfiable: concrete modules

names: `A = 0`, `b = 1`, `C = 2`, `d = 3`.

```ts
import A, { b, type C } from "x";   // A is only used in types
export { b, d };                     // d is a type declared in the file
let v: A = b;
```
-/

def ex1 : Module :=
  { used := [1]
    items :=
      [ .imp ⟨false, [⟨.dflt, 0, false⟩, ⟨.named, 1, false⟩, ⟨.named, 2, true⟩]⟩,
        .exp ⟨false, false, [⟨1, false⟩, ⟨3, false⟩]⟩ ] }

example : diags ex1 = [⟨0, .spec 0⟩, ⟨1, .spec 1⟩] := by decide

/-- the default binding moves to `import type A from "x"`; the export declaration is item 2 now -/
example : applyFix ex1 ⟨0, .spec 0⟩ =
    { used := [1]
      items :=
        [ .imp ⟨true, [⟨.dflt, 0, false⟩]⟩,
          .imp ⟨false, [⟨.named, 1, false⟩, ⟨.named, 2, true⟩]⟩,
          .exp ⟨false, false, [⟨1, false⟩, ⟨3, false⟩]⟩ ] } := by decide

example : diags (applyFix ex1 ⟨0, .spec 0⟩) = [⟨2, .spec 1⟩] := by decide
example : diags (applyFix ex1 ⟨1, .spec 1⟩) = [⟨0, .spec 0⟩] := by decide

example : (diags (applyFix ex1 ⟨0, .spec 0⟩)).length < (diags ex1).length :=
  fix_strictly_fewer ex1 _ (by decide)

example : repair 2 ex1 =
    { used := [1]
      items :=
        [ .imp ⟨true, [⟨.dflt, 0, false⟩]⟩,
          .imp ⟨false, [⟨.named, 1, false⟩, ⟨.named, 2, true⟩]⟩,
          .exp ⟨false, false, [⟨1, false⟩, ⟨3, true⟩]⟩ ] } := by decide

example : diags (repair 2 ex1) = [] := repair_terminates ex1

/-! Whole-declaration diagnostics, and the interplay of the two derived sets:

```ts
import { a, type T } from "x";   // a only used in types: `import type { a, T }`
import { c } from "y";           // c is re-exported as a value below: nothing to report
export { c, type a };
export { e, f };                 // both are types: `export type { e, f }`
```
names: `a = 0`, `T = 1`, `c = 2`, `e = 3`, `f = 4`. -/

def ex2 : Module :=
  { used := []
    items :=
      [ .imp ⟨false, [⟨.named, 0, false⟩, ⟨.named, 1, true⟩]⟩,
        .imp ⟨false, [⟨.named, 2, false⟩]⟩,
        .exp ⟨false, false, [⟨2, false⟩, ⟨0, true⟩]⟩,
        .exp ⟨false, false, [⟨3, false⟩, ⟨4, false⟩]⟩ ] }

example : diags ex2 = [⟨0, .all⟩, ⟨3, .all⟩] := by decide
example : diags (applyFix ex2 ⟨0, .all⟩) = [⟨3, .all⟩] := by decide
example : diags (applyFix ex2 ⟨3, .all⟩) = [⟨0, .all⟩] := by decide
example : (applyFix ex2 ⟨0, .all⟩).items[0]? = some (.imp ⟨true, [⟨.named, 0, false⟩, ⟨.named, 1, false⟩]⟩) := by decide
example : diags (repair 2 ex2) = [] := repair_terminates ex2

/-- a fix can make a *different* diagnostic appear at the same specifier index of the shifted declaration: here both the
default binding `A` and the named binding `b` of `import A, { b, c } from "x"` are only used in types; after moving `A`
to a declaration of its own, `b` is specifier 0 of item 1 -/
def ex3 : Module := { used := [], items := [ .imp ⟨false, [⟨.dflt, 0, false⟩, ⟨.named, 1, false⟩, ⟨.named, 2, false⟩]⟩,
                                            .exp ⟨false, false, [⟨2, false⟩]⟩ ] }

example : diags ex3 = [⟨0, .spec 0⟩, ⟨0, .spec 1⟩] := by decide
example : diags (applyFix ex3 ⟨0, .spec 0⟩) = [⟨1, .spec 0⟩] := by decide

end DL.Props.C13Vms
