import DL.Model.Txt

/-!
# C03 / C09 — the character-level rule `prefer-ascii` (M-TXT)

For every text: each reported range is exactly the byte span of one non-ASCII character, it starts and ends on
character boundaries inside the text, ranges are strictly increasing (no overlap), and scanning commutes with
prepending text (C09: "text before a construct, including multi-byte characters, never changes whether or where inside
the construct it is reported").  The last character of a file is never reported (kept quirk).
-/
namespace DL.Props.C03Txt
open DL.Txt

theorem utf8Len_pos (c : Char) : 0 < utf8Len c := by unfold utf8Len; split <;> (try split) <;> (try split) <;> omega
theorem utf8Len_le (c : Char) : utf8Len c ≤ 4 := by unfold utf8Len; split <;> (try split) <;> (try split) <;> omega

/-- a finding is the byte span of one multi-byte (= non-ASCII) character -/
theorem scan_span : ∀ (i : Nat) (t : List Char), ∀ h ∈ scan i t, h.stop = h.start + utf8Len h.c ∧ 1 < utf8Len h.c
  | _, [], h, hh => by simp [scan] at hh
  | _, [_], h, hh => by simp [scan] at hh
  | i, c :: d :: r, h, hh => by
    simp only [scan, List.mem_append] at hh
    rcases hh with hh | hh
    · by_cases hc : utf8Len c > 1
      · simp only [hc, if_true, List.mem_singleton] at hh; subst hh; exact ⟨rfl, hc⟩
      · simp [hc] at hh
    · exact scan_span _ _ h hh

theorem mem_boundaries_self (i : Nat) (t : List Char) : i ∈ boundaries i t := by
  cases t <;> simp [boundaries]

theorem boundaries_mono : ∀ (i : Nat) (t : List Char), ∀ b ∈ boundaries i t, i ≤ b ∧ b ≤ i + bytes t
  | i, [], b, hb => by simp [boundaries] at hb; subst hb; simp [bytes]
  | i, c :: r, b, hb => by
    simp only [boundaries, List.mem_cons] at hb
    rcases hb with rfl | hb
    · simp [bytes]
    · have := boundaries_mono _ r b hb
      simp only [bytes, List.map_cons, List.sum_cons] at this ⊢
      omega

/-- **character boundaries, inside the text**: both ends of every finding are character boundaries of the text -/
theorem scan_on_boundaries : ∀ (i : Nat) (t : List Char), ∀ h ∈ scan i t,
    h.start ∈ boundaries i t ∧ h.stop ∈ boundaries i t
  | _, [], h, hh => by simp [scan] at hh
  | _, [_], h, hh => by simp [scan] at hh
  | i, c :: d :: r, h, hh => by
    simp only [scan, List.mem_append] at hh
    rcases hh with hh | hh
    · by_cases hc : utf8Len c > 1
      · simp only [hc, if_true, List.mem_singleton] at hh; subst hh
        refine ⟨by simp [boundaries], ?_⟩
        simp only [boundaries, List.mem_cons]
        right; left; trivial
      · simp [hc] at hh
    · have := scan_on_boundaries _ (d :: r) h hh
      exact ⟨by simp only [boundaries, List.mem_cons] at this ⊢; exact Or.inr this.1,
             by simp only [boundaries, List.mem_cons] at this ⊢; exact Or.inr this.2⟩

theorem preferAscii_in_bounds (t : List Char) : ∀ h ∈ preferAscii t, h.start < h.stop ∧ h.stop ≤ bytes t := by
  intro h hh
  have hs := scan_span 0 t h hh
  have hb := boundaries_mono 0 t h.stop (scan_on_boundaries 0 t h hh).2
  omega

/-- findings start at or after the offset the scan starts from -/
theorem scan_start_ge : ∀ (i : Nat) (t : List Char), ∀ h ∈ scan i t, i ≤ h.start
  | _, [], h, hh => by simp [scan] at hh
  | _, [_], h, hh => by simp [scan] at hh
  | i, c :: d :: r, h, hh => by
    simp only [scan, List.mem_append] at hh
    rcases hh with hh | hh
    · by_cases hc : utf8Len c > 1
      · simp only [hc, if_true, List.mem_singleton] at hh; subst hh; exact Nat.le_refl _
      · simp [hc] at hh
    · have := scan_start_ge _ _ h hh; omega

/-- **no overlap, in order**: every finding ends where or before the next one starts -/
theorem scan_sorted : ∀ (i : Nat) (t : List Char), (scan i t).Pairwise (fun a b => a.stop ≤ b.start)
  | _, [] => by simp [scan]
  | _, [_] => by simp [scan]
  | i, c :: d :: r => by
    simp only [scan]
    rw [List.pairwise_append]
    refine ⟨?_, scan_sorted _ _, ?_⟩
    · by_cases hc : utf8Len c > 1 <;> simp [hc]
    · intro a ha b hb
      by_cases hc : utf8Len c > 1
      · simp only [hc, if_true, List.mem_singleton] at ha; subst ha
        exact scan_start_ge _ _ b hb
      · simp [hc] at ha

/-- **prefix equivariance (C09)**: scanning `p ++ t` with `t` non-empty = every non-ASCII character of `p` (none of
them is the last character of the file any more) followed by the findings of `t`, translated by the bytes of `p` -/
theorem scan_append : ∀ (i : Nat) (p t : List Char), t ≠ [] → scan i (p ++ t) = scanAll i p ++ scan (i + bytes p) t
  | i, [], t, _ => by simp [scanAll, bytes]
  | i, [c], t, ht => by
    cases t with
    | nil => exact absurd rfl ht
    | cons d r => simp [scan, scanAll, bytes]
  | i, c :: c2 :: p, t, ht => by
    have ih := scan_append (i + utf8Len c) (c2 :: p) t ht
    simp only [List.cons_append] at ih ⊢
    simp only [scan, scanAll, ih, bytes, List.map_cons, List.sum_cons, List.append_assoc]
    congr 2
    simp only [scanAll, bytes, List.map_cons, List.sum_cons, Nat.add_assoc]

/-- scanning from offset `i` is scanning from 0, translated -/
theorem scan_shift : ∀ (i : Nat) (t : List Char),
    scan i t = (scan 0 t).map (fun h => ⟨h.c, h.start + i, h.stop + i⟩)
  | _, [] => by simp [scan]
  | _, [_] => by simp [scan]
  | i, c :: d :: r => by
    have e1 := scan_shift (i + utf8Len c) (d :: r)
    have e2 := scan_shift (0 + utf8Len c) (d :: r)
    simp only [scan, List.map_append, e1]
    rw [e2]
    simp only [List.map_map]
    congr 1
    · by_cases hc : utf8Len c > 1 <;> simp [hc, Nat.add_comm]
    · apply List.map_congr_left; intro h _; simp only [Function.comp]; congr 1 <;> omega

/-- an all-ASCII prefix (blank lines, spaces, ASCII comments) only translates the findings -/
theorem ascii_prefix_only_shifts (p t : List Char) (hp : ∀ c ∈ p, utf8Len c = 1) (ht : t ≠ []) :
    preferAscii (p ++ t) = (preferAscii t).map (fun h => ⟨h.c, h.start + p.length, h.stop + p.length⟩) := by
  unfold preferAscii
  rw [scan_append 0 p t ht]
  have h1 : ∀ (i : Nat) (q : List Char), (∀ c ∈ q, utf8Len c = 1) → scanAll i q = [] := by
    intro i q; induction q generalizing i with
    | nil => intro _; rfl
    | cons c r ih => intro h; simp [scanAll, h c List.mem_cons_self, ih _ (fun d hd => h d (List.mem_cons_of_mem _ hd))]
  have h2 : bytes p = p.length := by
    induction p with
    | nil => rfl
    | cons c r ih => simp only [bytes, List.map_cons, List.sum_cons, List.length_cons] at ih ⊢
                     rw [hp c List.mem_cons_self, ih (fun d hd => hp d (List.mem_cons_of_mem _ hd))]; omega
  rw [h1 0 p hp, List.nil_append, Nat.zero_add, h2, scan_shift]

/-! non-vacuity and the quirk: `aπb😀` reports π (bytes 1..3) but not the final 😀 -/
example : preferAscii ['a', 'π', 'b', '😀'] = [⟨'π', 1, 3⟩] := by decide
example : preferAscii ['a', 'π', 'b', '😀', '\n'] = [⟨'π', 1, 3⟩, ⟨'😀', 4, 8⟩] := by decide

end DL.Props.C03Txt
